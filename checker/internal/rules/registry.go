// Package rules holds one file per property. Every rule inspects the loaded
// source of the repository and files obligations with the report.
package rules

import (
	"go/ast"
	"go/constant"
	"go/token"
	"go/types"

	"gengoverif/checker/internal/cfgx"
	"gengoverif/checker/internal/core"
	"golang.org/x/tools/go/cfg"
)

type Property struct {
	ID          string
	Explanation string
	Assumptions []string
	Run         func(p *core.Program, r *core.Report)
}

var Registry = map[string]Property{}

func register(p Property) { Registry[p.ID] = p }

var commonAssumptions = []string{
	"go/types and go/cfg model the semantics of the analysed Go code correctly",
	"third-party and standard-library callees behave as documented (go/format, go/parser, mvdan.cc/gofumpt, go/packages, dirhash, regexp, x/text/cases, octohelm/x)",
	"no reflection, unsafe or linkname based access to the analysed state exists outside the analysed packages",
}

// graphs caches one CFG per function body.
var graphs = map[*ast.BlockStmt]*cfgx.G{}

func graph(f *core.Func) *cfgx.G {
	if g, ok := graphs[f.Body]; ok {
		return g
	}
	g := cfgx.New(f.Body, f.Info())
	graphs[f.Body] = g
	return g
}

// constIs reports whether e is a constant equal to the given rune/int value.
func constIs(info *types.Info, e ast.Expr, v int64) bool {
	tv, ok := info.Types[e]
	if !ok || tv.Value == nil || tv.Value.Kind() != constant.Int {
		return false
	}
	x, exact := constant.Int64Val(tv.Value)
	return exact && x == v
}

func constStrIs(info *types.Info, e ast.Expr, s string) bool {
	v, ok := core.ConstString(info, e)
	return ok && v == s
}

// switchOnConsts finds the switch statements in body having a case for each of
// the given constant values; it returns the clause per value.
func switchOnConsts(info *types.Info, body ast.Node, vals ...int64) (*ast.SwitchStmt, map[int64]*ast.CaseClause) {
	var found *ast.SwitchStmt
	var clauses map[int64]*ast.CaseClause
	ast.Inspect(body, func(n ast.Node) bool {
		sw, ok := n.(*ast.SwitchStmt)
		if !ok || found != nil {
			return found == nil
		}
		m := map[int64]*ast.CaseClause{}
		for _, c := range sw.Body.List {
			cc := c.(*ast.CaseClause)
			for _, e := range cc.List {
				for _, v := range vals {
					if constIs(info, e, v) {
						m[v] = cc
					}
				}
			}
		}
		if len(m) == len(vals) {
			found, clauses = sw, m
			return false
		}
		return true
	})
	if found != nil {
		return found, clauses
	}
	// the same dispatch spelled as an if / else-if chain over one variable
	inElse := map[*ast.IfStmt]bool{}
	ast.Inspect(body, func(n ast.Node) bool {
		ifs, ok := n.(*ast.IfStmt)
		if !ok || found != nil {
			return found == nil
		}
		if next, isIf := ifs.Else.(*ast.IfStmt); isIf {
			inElse[next] = true
		}
		if inElse[ifs] {
			return true
		}
		sw, isChain := ifChainAsSwitch(info, ifs)
		if !isChain {
			return true
		}
		m := map[int64]*ast.CaseClause{}
		for _, c := range sw.Body.List {
			cc := c.(*ast.CaseClause)
			for _, e := range cc.List {
				for _, v := range vals {
					if constIs(info, e, v) {
						m[v] = cc
					}
				}
			}
		}
		if len(m) == len(vals) {
			found, clauses = sw, m
			return false
		}
		return true
	})
	return found, clauses
}

// ifChainAsSwitch shows `if v == A { … } else if v == B || v == C { … } else { … }` (one plain variable, constants, no
// init statements) as the switch over v it is. The clause bodies are the original statement lists; the synthetic nodes
// are registered with core.SynthOf so that paths and positions resolve to the chain.
func ifChainAsSwitch(info *types.Info, head *ast.IfStmt) (*ast.SwitchStmt, bool) {
	var tag ast.Expr
	var tagVar *types.Var
	var list []ast.Stmt
	arms := 0
	for cur := head; cur != nil; {
		if cur.Init != nil {
			return nil, false
		}
		var ks []ast.Expr
		var split func(e ast.Expr) bool
		split = func(e ast.Expr) bool {
			e = ast.Unparen(e)
			if b, isBin := e.(*ast.BinaryExpr); isBin && b.Op == token.LOR {
				return split(b.X) && split(b.Y)
			}
			b, isBin := e.(*ast.BinaryExpr)
			if !isBin || b.Op != token.EQL {
				return false
			}
			x, k := b.X, b.Y
			if _, isC := core.ConstInt(info, k); !isC {
				x, k = k, x
			}
			if _, isC := core.ConstInt(info, k); !isC {
				return false
			}
			v := core.VarOf(info, x)
			if v == nil || v.IsField() || (tagVar != nil && v != tagVar) {
				return false
			}
			if tagVar == nil {
				tagVar, tag = v, x
			}
			ks = append(ks, k)
			return true
		}
		if !split(cur.Cond) {
			return nil, false
		}
		arms += len(ks)
		cc := &ast.CaseClause{Case: cur.If, List: ks, Colon: cur.Body.Lbrace, Body: cur.Body.List}
		core.SynthOf[cc] = cur
		list = append(list, cc)
		switch e := cur.Else.(type) {
		case *ast.IfStmt:
			cur = e
			continue
		case *ast.BlockStmt:
			dc := &ast.CaseClause{Case: e.Lbrace, Colon: e.Lbrace, Body: e.List}
			core.SynthOf[dc] = e
			list = append(list, dc)
		}
		cur = nil
	}
	if arms < 2 && len(list) < 2 {
		return nil, false
	}
	// a bare `break` in a branch leaves an enclosing loop; inside a switch it would leave the switch
	bare := false
	var scan func(n ast.Node)
	scan = func(n ast.Node) {
		ast.Inspect(n, func(m ast.Node) bool {
			switch x := m.(type) {
			case *ast.FuncLit, *ast.ForStmt, *ast.RangeStmt, *ast.SwitchStmt, *ast.TypeSwitchStmt, *ast.SelectStmt:
				return m == n
			case *ast.BranchStmt:
				if x.Tok == token.BREAK && x.Label == nil {
					bare = true
				}
			}
			return true
		})
	}
	for _, c := range list {
		for _, st := range c.(*ast.CaseClause).Body {
			scan(st)
		}
	}
	if bare {
		return nil, false
	}
	sw := &ast.SwitchStmt{Switch: head.If, Tag: tag, Body: &ast.BlockStmt{Lbrace: head.Body.Lbrace, List: list, Rbrace: head.End() - 1}}
	core.SynthOf[sw] = head
	return sw, true
}

// cmpConst matches "v OP const" or "const OP v" and normalises to v OP const.
func cmpConst(info *types.Info, e ast.Expr) (x ast.Expr, op token.Token, c int64, ok bool) {
	b, isBin := ast.Unparen(e).(*ast.BinaryExpr)
	if !isBin {
		return nil, 0, 0, false
	}
	if v, isC := core.ConstInt(info, b.Y); isC {
		return b.X, b.Op, v, true
	}
	if v, isC := core.ConstInt(info, b.X); isC {
		flip := map[token.Token]token.Token{token.LSS: token.GTR, token.GTR: token.LSS, token.LEQ: token.GEQ, token.GEQ: token.LEQ, token.EQL: token.EQL, token.NEQ: token.NEQ}
		if f, ok := flip[b.Op]; ok {
			return b.Y, f, v, true
		}
	}
	return nil, 0, 0, false
}

// negate returns the operator of the negated comparison.
func negate(op token.Token) token.Token {
	switch op {
	case token.LSS:
		return token.GEQ
	case token.GEQ:
		return token.LSS
	case token.GTR:
		return token.LEQ
	case token.LEQ:
		return token.GTR
	case token.EQL:
		return token.NEQ
	case token.NEQ:
		return token.EQL
	}
	return token.ILLEGAL
}

// stmtsOf returns the statements of a clause or block.
func lastStmt(list []ast.Stmt) ast.Stmt {
	if len(list) == 0 {
		return nil
	}
	return list[len(list)-1]
}

// endsInPanic reports whether the statement list always ends in a call to the
// builtin panic (last statement).
func endsInPanic(info *types.Info, list []ast.Stmt) bool {
	es, ok := lastStmt(list).(*ast.ExprStmt)
	if !ok {
		return false
	}
	call, ok := es.X.(*ast.CallExpr)
	if !ok {
		return false
	}
	return core.CalleeName(info, call) == "builtin.panic"
}

// factHolds searches the facts for an atomic condition matched by pred with
// the given value.
func factHolds(facts []cfgx.Fact, val bool, pred func(f cfgx.Fact) bool) bool {
	for _, f := range facts {
		if f.Val == val && pred(f) {
			return true
		}
	}
	return false
}

// pointOfNode is a convenience wrapper.
func pointOf(g *cfgx.G, n ast.Node) cfgx.Point { return g.PointOf(n) }

// enclosingFuncLitOrDecl is provided by core.Program.EnclosingFunc.

// isMethodCallOn matches a call x.M(...) where M's resolved full name is name.
func recvOf(call *ast.CallExpr) ast.Expr {
	if sel, ok := ast.Unparen(call.Fun).(*ast.SelectorExpr); ok {
		return sel.X
	}
	return nil
}

type (
	cfgxFact  = cfgx.Fact
	cfgxPoint = cfgx.Point
	cfgxQuery = cfgx.Query
	cfgBlock  = cfg.Block
)

var cfgxAtoms = cfgx.Atoms

const (
	kindRangeLoop = cfg.KindRangeLoop
	kindRangeDone = cfg.KindRangeDone
	kindRangeBody = cfg.KindRangeBody
	kindForLoop   = cfg.KindForLoop
	kindForBody   = cfg.KindForBody
	kindForDone   = cfg.KindForDone
	kindForPost   = cfg.KindForPost
)

// varEqConst interprets a fact as a statement about `v == c`: it returns the
// truth value the fact implies for that equality (handles ==, != and switch
// case facts).
func varEqConst(info *types.Info, f cfgx.Fact, v *types.Var, c int64) (val bool, ok bool) {
	if v == nil {
		return false, false
	}
	if f.Tag != nil {
		if core.VarOf(info, f.Tag) == v && constIs(info, f.Cond, c) {
			return f.Val, true
		}
		return false, false
	}
	b, isBin := ast.Unparen(f.Cond).(*ast.BinaryExpr)
	if !isBin || (b.Op != token.EQL && b.Op != token.NEQ) {
		return false, false
	}
	if !((core.VarOf(info, b.X) == v && constIs(info, b.Y, c)) || (core.VarOf(info, b.Y) == v && constIs(info, b.X, c))) {
		return false, false
	}
	if b.Op == token.EQL {
		return f.Val, true
	}
	return !f.Val, true
}

// eqFact interprets a fact as a statement about `A == B` for expressions
// matched by ma and mb (in either order): handles ==, != and switch-case
// facts (tag vs case expression). It returns the implied truth value.
func eqFact(f cfgx.Fact, ma, mb func(ast.Expr) bool) (val bool, ok bool) {
	if f.Tag != nil {
		if (ma(f.Tag) && mb(f.Cond)) || (mb(f.Tag) && ma(f.Cond)) {
			return f.Val, true
		}
		return false, false
	}
	b, isBin := ast.Unparen(f.Cond).(*ast.BinaryExpr)
	if !isBin || (b.Op != token.EQL && b.Op != token.NEQ) {
		return false, false
	}
	if !((ma(b.X) && mb(b.Y)) || (mb(b.X) && ma(b.Y))) {
		return false, false
	}
	if b.Op == token.EQL {
		return f.Val, true
	}
	return !f.Val, true
}

// positiveFact: the facts imply v > 0 for the integer variable v.
func positiveFact(info *types.Info, facts []cfgx.Fact, v *types.Var) bool {
	for _, f := range facts {
		if f.Tag != nil {
			continue
		}
		x, op, c, ok := cmpConst(info, f.Cond)
		if !ok || core.VarOf(info, x) != v || v == nil {
			continue
		}
		if !f.Val {
			op = negate(op)
		}
		if (op == token.GTR && c >= 0) || (op == token.GEQ && c >= 1) {
			return true
		}
	}
	return false
}

// chainRules makes rules that belong to another property's check part of this one: the behaviour this property
// states depends on them (a generated file that keeps an old tail does not compile, whatever the generator rendered).
// A violated or undecided obligation of one of the named rules is a violation here; otherwise one summary
// obligation records how many were discharged. The other property's check is run once per program and reused.
var subReports = map[*core.Program]map[string]*core.Report{}

func subReportOf(p *core.Program, other string) *core.Report {
	if subReports[p] == nil {
		subReports[p] = map[string]*core.Report{}
	}
	if sub, ok := subReports[p][other]; ok {
		return sub
	}
	sub := core.NewReport(p, other)
	subReports[p][other] = sub // set first: a chain back into the running property sees what is filed so far
	Registry[other].Run(p, sub)
	return sub
}

func chainRules(p *core.Program, r *core.Report, rule, other string, only []string, what string) {
	r.Floor(rule, 1)
	sub := subReportOf(p, other)
	n, nbad := 0, 0
	for _, o := range sub.Obls {
		match := false
		for _, w := range only {
			if o.Rule == w {
				match = true
			}
		}
		if !match {
			continue
		}
		n++
		if o.Status == core.Violated || o.Status == core.Undecided {
			nbad++
			r.Bad(rule, nil, what+" ("+o.Rule+") "+o.Func+": "+o.Construct, token.NoPos, o.How)
		}
	}
	if n == 0 {
		r.Unknown(rule, nil, what, token.NoPos, "none of the rules "+joinStrings(only, ", ")+" filed an obligation: their constructs are no longer seen")
		return
	}
	if nbad == 0 {
		r.OK(rule, nil, what, token.NoPos, itoa(int64(n))+" obligations of "+joinStrings(only, ", ")+" discharged")
	}
}

func joinStrings(xs []string, sep string) string {
	out := ""
	for i, x := range xs {
		if i > 0 {
			out += sep
		}
		out += x
	}
	return out
}

// callInView: the call expression of a view that stands for a call of the source: the node itself when the view kept it,
// else the call that closes at the same parenthesis (views re-create the statements they show in another spelling).
func callInView(f *core.Func, call *ast.CallExpr) *ast.CallExpr {
	if f == nil || f.Body == nil || call == nil {
		return call
	}
	var same, byPos *ast.CallExpr
	ast.Inspect(f.Body, func(n ast.Node) bool {
		c, ok := n.(*ast.CallExpr)
		if !ok {
			return true
		}
		if c == call {
			same = c
		}
		if c.Rparen == call.Rparen && c.Rparen.IsValid() && byPos == nil {
			byPos = c
		}
		return same == nil
	})
	if same != nil {
		return same
	}
	if byPos != nil {
		return byPos
	}
	return call
}

// sameFunc: two handles of one function body: identical, or a view and what it was made from.
func sameFunc(a, b *core.Func) bool {
	if a == nil || b == nil {
		return a == b
	}
	oa, ob := a, b
	if a.Origin != nil {
		oa = a.Origin
	}
	if b.Origin != nil {
		ob = b.Origin
	}
	return oa == ob
}
