package rules

import (
	"go/ast"
	"go/constant"
	"go/token"
	"go/types"
	"sort"
	"strings"

	"gengoverif/checker/internal/core"
)

func init() {
	register(Property{
		ID:          "C15",
		Explanation: "Decided statically (structural necessary conditions of the round trip): R1 the argument splitter of ParseTypeRef tracks bracket nesting with an integer depth that is incremented on '[' , decremented on ']' and compared with 0 before a ',' splits (a boolean cannot represent depth >= 2 of the recursive grammar); R2 the delimiter bytes written by TypeRef.String are exactly the ones ParseTypeRef reads and neither side trims; R3 ParseRef, ParseTypeRef and PkgImportPathAndExpose bound the search by strings.Index(s, \"[\") > 0 and split at strings.LastIndex(base, \".\") > 0; R4 Walk recurses unconditionally over every element of TypeList and the namer's rewrite loop handles each node with a non-empty path by exactly one of {blank own package, AddType + LocalNameOf}. R4 also: the visited node is written only by the two path rewrites; R5 what a helper searches for inside the path half of PkgImportPathAndExpose is a constant delimited by '/' on both sides; R6 every name the namer hands out went through the rewriter (C11.R6). R7 a binding of the import tracker is made once and never changed (C03.R4); R8 text reaches the naming system whenever it parses as a reference (C03.R16). R1 also: the scan ranges over the string it cuts (byte offsets). NOT decided: parse(s).String() == s as an equation over all strings (value level). Round 8: R9 = C03.R17 (Ref(path, name) answers exactly that path and name).",
		Assumptions: commonAssumptions,
		Run:         runC15,
	})
}

func runC15(p *core.Program, r *core.Report) {
	c15R1(p, r)
	c15R2(p, r)
	c15R3(p, r)
	c15R4(p, r)
	// R6: the rewriting of nested paths happens for every name the namer hands out (shared with C11.R6 / C03.R9)
	namerRewriteRule(p, r, "R6")
	c15R5(p, r)
	// R7: "registers exactly those packages" under names that stay what was rendered: a binding of the tracker is made
	// once, only when both the path and the name are free, and never removed or changed afterwards (C03.R4)
	chainRules(p, r, "R7", "C03", []string{"C03.R4"}, "an import binding is made once and never changed")
	// R8: a reference given as text reaches the naming system whenever it parses as one (C03.R16)
	chainRules(p, r, "R8", "C03", []string{"C03.R16"}, "text is written as it is only when it does not parse as a reference")
	// round 8: the reference a path and a name are wrapped in answers exactly that path
	chainRules(p, r, "R9", "C03", []string{"C03.R17"}, "Ref(path, name) stands for exactly that path and name")
}

// depthCounterRule checks the bracket splitter found in fn.
func c15R1(p *core.Program, r *core.Report) {
	const rule = "R1"
	r.Floor(rule, 4)
	fn := p.FuncByName("pkg/types", "ParseTypeRef")
	if fn == nil {
		r.Anchor(rule, "pkg/types.ParseTypeRef")
		return
	}
	fn = flatten(p, fn) // the scan may sit in an unexported helper
	info := fn.Info()
	sw, clauses := switchOnConsts(info, fn.Body, '[', ']', ',')
	if sw == nil {
		// the scan as a pass of its own: an unexported function of the package that ParseTypeRef calls
		for _, c := range core.Calls(fn.Body, true) {
			h := p.FuncOfObj(core.CalleeFunc(info, c))
			if h == nil || h.Pkg != fn.Pkg || h.Decl == nil || h.Decl.Name.IsExported() || h.Body == nil {
				continue
			}
			if s2, c2 := switchOnConsts(h.Info(), h.Body, '[', ']', ','); s2 != nil {
				fn, info, sw, clauses = h, h.Info(), s2, c2
				break
			}
		}
	}
	if sw == nil {
		r.Anchor(rule, "switch over a rune with cases '[', ']' and ',' in ParseTypeRef")
		return
	}
	// the counter: integer variable changed in the '[' arm
	step := func(cc *ast.CaseClause) (v *types.Var, delta int, other string) {
		for _, s := range cc.Body {
			switch x := s.(type) {
			case *ast.IncDecStmt:
				if vv := core.VarOf(info, x.X); vv != nil {
					if x.Tok == token.INC {
						return vv, +1, ""
					}
					return vv, -1, ""
				}
			case *ast.AssignStmt:
				if len(x.Lhs) == 1 && len(x.Rhs) == 1 {
					vv := core.VarOf(info, x.Lhs[0])
					if vv == nil {
						continue
					}
					if c, ok := core.ConstInt(info, x.Rhs[0]); ok && c == 1 {
						if x.Tok == token.ADD_ASSIGN {
							return vv, +1, ""
						}
						if x.Tok == token.SUB_ASSIGN {
							return vv, -1, ""
						}
					}
					return vv, 0, core.ExprStr(x)
				}
			}
		}
		return nil, 0, ""
	}
	open, dOpen, oOpen := step(clauses['['])
	cls, dClose, oClose := step(clauses[']'])
	isInt := func(v *types.Var) bool {
		if v == nil {
			return false
		}
		b, ok := v.Type().Underlying().(*types.Basic)
		return ok && b.Info()&types.IsInteger != 0
	}
	r.Check(isInt(open) && dOpen == +1, rule, fn, "case '[': nesting counter incremented", clauses['['].Pos(),
		"integer depth variable is incremented by one",
		"the '[' arm does not increment an integer nesting depth ("+oOpen+"): a set/reset flag cannot represent nesting depth >= 2, so `M[L[P[a,b],c]]` is split inside the inner brackets")
	r.Check(isInt(cls) && dClose == -1 && cls == open, rule, fn, "case ']': nesting counter decremented", clauses[']'].Pos(),
		"the same depth variable is decremented by one",
		"the ']' arm does not decrement the depth variable incremented by '[' ("+oClose+")")
	// the split in the ',' arm must be guarded by depth == 0
	comma := clauses[',']
	g := graph(fn)
	splitCalls := 0
	// the split step: a call of the local closure that cuts an argument off, or of an unexported function / method
	// of the package that does (it parses the piece: it reaches ParseTypeRef again)
	isSplit := func(call *ast.CallExpr) bool {
		if isLocalClosureCall(info, call) {
			return true
		}
		callee := p.FuncOfObj(core.CalleeFunc(info, call))
		if callee == nil || callee.Pkg != fn.Pkg || callee.Decl == nil || callee.Decl.Name.IsExported() {
			return false
		}
		return reachableFrom(p, callee)[fn]
	}
	for _, call := range core.Calls(comma, true) {
		if !isSplit(call) {
			continue
		}
		splitCalls++
		facts := g.FactsAt(g.PointOf(call))
		ok := factHolds(facts, true, func(f cfgxFact) bool { return isZeroTest(info, f.Cond, open, true) }) ||
			factHolds(facts, false, func(f cfgxFact) bool { return isZeroTest(info, f.Cond, open, false) })
		r.Check(ok && open != nil, rule, fn, "case ',': split guarded by depth == 0", call.Pos(),
			"the split executes only when the depth counter equals 0",
			"the split of an argument at ',' is not guarded by `depth == 0` on the counter maintained by the '[' / ']' arms")
	}
	// ... or, when scanning is a pass of its own, the cut itself: a piece `s[started:i]` appended to the list of pieces
	ast.Inspect(comma, func(n ast.Node) bool {
		as, isAs := n.(*ast.AssignStmt)
		if !isAs || len(as.Rhs) != 1 {
			return true
		}
		ac, isCall := ast.Unparen(as.Rhs[0]).(*ast.CallExpr)
		if !isCall || core.CalleeName(info, ac) != "builtin.append" || len(ac.Args) != 2 {
			return true
		}
		if _, isSlice := ast.Unparen(ac.Args[1]).(*ast.SliceExpr); !isSlice {
			return true
		}
		splitCalls++
		facts := g.FactsAt(g.PointOf(as))
		ok := factHolds(facts, true, func(f cfgxFact) bool { return isZeroTest(info, f.Cond, open, true) }) ||
			factHolds(facts, false, func(f cfgxFact) bool { return isZeroTest(info, f.Cond, open, false) })
		r.Check(ok && open != nil, rule, fn, "case ',': split guarded by depth == 0", as.Pos(),
			"the cut executes only when the depth counter equals 0",
			"the cut of an argument at ',' is not guarded by `depth == 0` on the counter maintained by the '[' / ']' arms")
		return true
	})
	if splitCalls == 0 {
		r.Unknown(rule, fn, "case ',': split call", comma.Pos(), "no call of the local split closure found in the ',' arm")
	}
	// the offsets handed to the cut are byte offsets of the string that is cut: the scan ranges over the string itself
	// (the key of a range over a string is a byte offset; over a []rune copy it is a rune count, which is a different
	// number as soon as a multi-byte character precedes the comma)
	for _, anc := range core.PathTo(fn.Body, sw) {
		rs, isRange := anc.(*ast.RangeStmt)
		if !isRange || rs.Key == nil || core.VarOf(info, rs.Value) == nil || core.VarOf(info, rs.Value) != core.VarOf(info, sw.Tag) {
			continue
		}
		b, isBasic := info.TypeOf(rs.X).Underlying().(*types.Basic)
		r.Check(isBasic && b.Info()&types.IsString != 0, rule, fn, "the scan's offsets are byte offsets of the scanned string", rs.Pos(), "range over the string itself",
			"the scan ranges over `"+core.ExprStr(rs.X)+"`, whose index is not a byte offset, while the pieces are cut out of the string by byte offset: with a multi-byte character before a top-level comma the cut lands inside a character or in the wrong place (`a.Pair[b.Gr\u00f6\u00dfe,b.Item]`)")
	}
	// nothing else writes the counter inside the loop
	if open != nil {
		n := 0
		for _, d := range core.DefsOf(info, fn.Body, open) {
			if d.Kind == "assign" {
				n++
			}
		}
		r.Check(n == 0, rule, fn, "depth counter has no other assignment", sw.Pos(), "only ++/-- and the initialisation write the counter", "the depth counter is re-assigned elsewhere")
	}
}

// isLocalClosureCall: the callee is a local variable of function type.
func isLocalClosureCall(info *types.Info, call *ast.CallExpr) bool {
	id, ok := ast.Unparen(call.Fun).(*ast.Ident)
	if !ok {
		return false
	}
	v, ok := info.ObjectOf(id).(*types.Var)
	if !ok {
		return false
	}
	_, isSig := v.Type().Underlying().(*types.Signature)
	return isSig
}

// isZeroTest: with want=true, cond is equivalent to v == 0 for v >= 0
// (v == 0, v <= 0, v < 1); with want=false, cond is the negation (v != 0,
// v > 0, v >= 1).
func isZeroTest(info *types.Info, cond ast.Expr, v *types.Var, want bool) bool {
	if v == nil {
		return false
	}
	x, op, c, ok := cmpConst(info, cond)
	if !ok || core.VarOf(info, x) != v {
		return false
	}
	if !want {
		op = negate(op)
	}
	switch {
	case op == token.EQL && c == 0, op == token.LEQ && c == 0, op == token.LSS && c == 1:
		return true
	}
	return false
}

// constArgsOf collects the constant byte/rune/string arguments of the named
// callees inside n.
func constArgsOf(info *types.Info, n ast.Node, callees ...string) []string {
	set := map[string]bool{}
	for _, call := range core.CallsTo(info, n, false, callees...) {
		for _, a := range call.Args {
			if s, ok := core.ConstString(info, a); ok {
				set[s] = true
			} else if v, ok := core.ConstInt(info, a); ok {
				set[string(rune(v))] = true
			}
		}
	}
	var out []string
	for s := range set {
		out = append(out, s)
	}
	sort.Strings(out)
	return out
}

func c15R2(p *core.Program, r *core.Report) {
	const rule = "R2"
	r.Floor(rule, 3)
	w := p.FuncByName("pkg/types", "(*TypeRef).String")
	rd := p.FuncByName("pkg/types", "ParseTypeRef")
	if w == nil || rd == nil {
		r.Anchor(rule, "pkg/types.(*TypeRef).String / ParseTypeRef")
		return
	}
	rd = flatten(p, rd)
	// every constant piece of text the printer can emit, however it is put together (builder writes,
	// concatenation, strings.Join separator): the set of its bytes is the printer's delimiter set
	written := printerDelimiters(w)
	want := []string{",", ".", "[", "]"}
	r.Check(strings.Join(written, "") == strings.Join(want, ""), rule, w, "delimiters written by the printer", w.Node().Pos(),
		"constant delimiters written are exactly . [ , ]",
		"the printer writes delimiters {"+strings.Join(written, " ")+"}, the grammar and the parser use {. [ , ]}")
	// reader side: Index "[", LastIndex "]", LastIndex ".", switch cases
	info := rd.Info()
	_, clauses := switchOnConsts(info, rd.Body, '[', ']', ',')
	if clauses == nil {
		// the scan as a pass of its own (see R1)
		for _, c := range core.Calls(rd.Body, true) {
			h := p.FuncOfObj(core.CalleeFunc(info, c))
			if h == nil || h.Pkg != rd.Pkg || h.Decl == nil || h.Decl.Name.IsExported() || h.Body == nil {
				continue
			}
			if _, c2 := switchOnConsts(h.Info(), h.Body, '[', ']', ','); c2 != nil {
				clauses = c2
				break
			}
		}
	}
	idx := constArgsOf(info, rd.Body, "strings.Index", "strings.IndexByte", "strings.IndexRune", "strings.Cut")
	last := constArgsOf(info, rd.Body, "strings.LastIndex", "strings.LastIndexByte")
	okReader := clauses != nil && strings.Join(idx, "") == "[" && strings.Join(last, "") == ".]"
	r.Check(okReader, rule, rd, "delimiters read by the parser", rd.Node().Pos(),
		"parser searches '[' (first), ']' (last), '.' (last) and switches on '[' ']' ','",
		"the parser's delimiter set differs from the printer's: Index{"+strings.Join(idx, " ")+"} LastIndex{"+strings.Join(last, " ")+"}")
	// no trimming / case mapping on either side
	bad := ""
	for _, f := range []*core.Func{w, rd} {
		for _, call := range core.Calls(f.Body, false) {
			cn := core.CalleeName(f.Info(), call)
			if strings.HasPrefix(cn, "strings.Trim") || strings.HasPrefix(cn, "strings.To") || strings.HasPrefix(cn, "strings.Replace") || cn == "strings.Fields" {
				bad = cn + " in " + f.Name
			}
		}
	}
	r.Check(bad == "", rule, rd, "no trimming or rewriting of reference text", rd.Node().Pos(), "neither side normalises the text", "text is altered by "+bad+", so printing does not give back the parsed string")
}

func c15R3(p *core.Program, r *core.Report) {
	const rule = "R3"
	r.Floor(rule, 6)
	sibs := []*core.Func{
		p.FuncByName("pkg/types", "ParseRef"),
		p.FuncByName("pkg/types", "ParseTypeRef"),
		p.FuncByName("pkg/gengo", "PkgImportPathAndExpose"),
	}
	names := []string{"pkg/types.ParseRef", "pkg/types.ParseTypeRef", "pkg/gengo.PkgImportPathAndExpose"}
	for i, f := range sibs {
		if f == nil {
			r.Anchor(rule, names[i])
			continue
		}
		info := f.Info()
		check := func(callee, delim, what string) {
			found, guarded := false, false
			var pos token.Pos = f.Node().Pos()
			g := graph(f)
			// index forms: Index / IndexByte (first), LastIndex / LastIndexByte (last), result used only where > 0
			callees := []string{callee}
			if callee == "strings.Index" {
				callees = append(callees, "strings.IndexByte", "strings.IndexRune")
			} else {
				callees = append(callees, "strings.LastIndexByte")
			}
			isDelim := func(e ast.Expr) bool {
				return constStrIs(info, e, delim) || (len(delim) == 1 && constIs(info, e, int64(delim[0])))
			}
			for _, call := range core.CallsTo(info, f.Body, false, callees...) {
				if len(call.Args) != 2 || !isDelim(call.Args[1]) {
					continue
				}
				found = true
				pos = call.Pos()
				// the variable receiving the index
				var v *types.Var
				if as, ok := g.PointOf(call).Node().(*ast.AssignStmt); ok && len(as.Lhs) == 1 && len(as.Rhs) == 1 && as.Rhs[0] == ast.Expr(call) {
					v = core.VarOf(info, as.Lhs[0])
				}
				if v == nil {
					continue
				}
				// every use of the index as a slice bound happens where it is known to be > 0
				uses, okUses := 0, true
				ast.Inspect(f.Body, func(n ast.Node) bool {
					se, isSlice := n.(*ast.SliceExpr)
					if !isSlice {
						return true
					}
					for _, bnd := range []ast.Expr{se.Low, se.High} {
						if bnd != nil && core.Mentions(info, bnd, v) {
							uses++
							if !positiveFact(info, g.FactsAt(g.PointOf(se)), v) {
								okUses = false
							}
						}
					}
					return true
				})
				if uses > 0 && okUses {
					guarded = true
				}
			}
			// the Cut form (first occurrence only): head, tail, found := strings.Cut(s, delim); the parts are used
			// only where `found` holds and the head is non-empty (= index > 0)
			if callee == "strings.Index" {
				for _, call := range core.CallsTo(info, f.Body, false, "strings.Cut") {
					if len(call.Args) != 2 || !isDelim(call.Args[1]) {
						continue
					}
					as, ok := g.PointOf(call).Node().(*ast.AssignStmt)
					if !ok || len(as.Lhs) != 3 || len(as.Rhs) != 1 {
						continue
					}
					found = true
					pos = call.Pos()
					head, tail, fv := core.VarOf(info, as.Lhs[0]), core.VarOf(info, as.Lhs[1]), core.VarOf(info, as.Lhs[2])
					uses, okUses := 0, true
					ast.Inspect(f.Body, func(n ast.Node) bool {
						id, isID := n.(*ast.Ident)
						if !isID || info.Uses[id] == nil {
							return true
						}
						o := info.Uses[id]
						if (head == nil || o != types.Object(head)) && (tail == nil || o != types.Object(tail)) {
							return true
						}
						// uses inside the guarding condition itself do not count
						facts := g.FactsAt(g.PointOf(id))
						inCond := false
						for _, br := range g.Branches() {
							if br.Cond.Pos() <= id.Pos() && id.End() <= br.Cond.End() {
								inCond = true
							}
						}
						if inCond {
							return true
						}
						uses++
						okFound, okHead := false, false
						for _, fct := range facts {
							if fv != nil && core.VarOf(info, fct.Cond) == fv && fct.Val {
								okFound = true
							}
							if b, isBin := ast.Unparen(fct.Cond).(*ast.BinaryExpr); isBin && head != nil {
								if core.VarOf(info, b.X) == head && constStrIs(info, b.Y, "") && (b.Op == token.NEQ) == fct.Val && (b.Op == token.NEQ || b.Op == token.EQL) {
									okHead = true
								}
							}
							if x, op, c, ok := cmpConst(info, fct.Cond); ok && head != nil {
								if lc, isCall := ast.Unparen(x).(*ast.CallExpr); isCall && core.CalleeName(info, lc) == "builtin.len" && len(lc.Args) == 1 && core.VarOf(info, lc.Args[0]) == head {
									if !fct.Val {
										op = negate(op)
									}
									if (op == token.GTR && c == 0) || (op == token.NEQ && c == 0) || (op == token.GEQ && c == 1) {
										okHead = true
									}
								}
							}
						}
						if !okFound || !okHead {
							okUses = false
						}
						return true
					})
					if uses > 0 && okUses {
						guarded = true
					}
				}
			}
			r.Check(found && guarded, rule, f, what, pos,
				callee+"(_, \""+delim+"\") with every slice at the result guarded by result > 0 (or strings.Cut with `found && head != \"\"`)",
				"sibling does not locate the boundary with "+callee+"(_, \""+delim+"\") > 0 like the other reference parsers; they would disagree on where the package path ends")
		}
		check("strings.Index", "[", "search bounded by the first '['")
		check("strings.LastIndex", ".", "path/name split at the last '.'")
	}
}

func c15R4(p *core.Program, r *core.Report) {
	const rule = "R4"
	r.Floor(rule, 5)
	w := p.FuncByName("pkg/types", "(*TypeRef).Walk")
	if w == nil {
		r.Anchor(rule, "pkg/types.(*TypeRef).Walk")
	} else {
		info := w.Info()
		recv := w.Decl.Recv.List[0].Names
		var recvVar *types.Var
		if len(recv) > 0 {
			recvVar, _ = info.ObjectOf(recv[0]).(*types.Var)
		}
		ok := false
		var pos token.Pos = w.Node().Pos()
		for _, s := range w.Body.List {
			rs, isRange := s.(*ast.RangeStmt)
			if !isRange {
				continue
			}
			sel, isSel := ast.Unparen(rs.X).(*ast.SelectorExpr)
			if !isSel || sel.Sel.Name != "TypeList" || core.VarOf(info, sel.X) != recvVar {
				continue
			}
			pos = rs.Pos()
			val := core.VarOf(info, rs.Value)
			for _, bs := range rs.Body.List {
				es, isExpr := bs.(*ast.ExprStmt)
				if !isExpr {
					continue
				}
				call, isCall := es.X.(*ast.CallExpr)
				if !isCall || core.CalleeFunc(info, call) != w.Obj() {
					continue
				}
				if val != nil && core.VarOf(info, recvOf(call)) == val {
					ok = true
				}
			}
		}
		r.Check(ok, rule, w, "Walk recurses over every element of TypeList", pos,
			"`for _, t := range r.TypeList { t.Walk(walk) }` unconditionally, over the whole list",
			"Walk does not unconditionally recurse into every element of r.TypeList: nested package paths would not be rewritten/registered")
	}

	pn := namerRewriter(p) // by role: the function of pkg/namer that parses the name with ParseTypeRef
	if pn == nil {
		r.Anchor(rule, "pkg/namer.(*rawNamer).processName")
		return
	}
	// the visit of every node: `for x := range t.Walk { body }` or `t.Walk(func(x *TypeRef) bool { body })`
	var body *ast.BlockStmt
	var in *core.Func
	var x *types.Var
	var loop *ast.RangeStmt
	{
		info := pn.Info()
		ast.Inspect(pn.Body, func(n ast.Node) bool {
			switch y := n.(type) {
			case *ast.RangeStmt:
				if sel, ok := ast.Unparen(y.X).(*ast.SelectorExpr); ok && sel.Sel.Name == "Walk" {
					loop, body, in, x = y, y.Body, pn, core.VarOf(info, y.Key)
				}
				// the nodes collected first, in Walk's order, then visited: `refs := slices.Collect(t.Walk); for _, x := range refs`
				if seq, _ := core.Resolve(info, pn.Body, y.X); seq != nil && y.Value != nil {
					if c := core.AsCall(info, seq, "slices.Collect"); c != nil && len(c.Args) == 1 {
						if sel, ok := ast.Unparen(c.Args[0]).(*ast.SelectorExpr); ok && sel.Sel.Name == "Walk" {
							loop, body, in, x = y, y.Body, pn, core.VarOf(info, y.Value)
						}
					}
				}
			case *ast.CallExpr:
				if core.CalleeName(info, y) == core.GM("pkg/types", "*TypeRef", "Walk") && len(y.Args) == 1 {
					if lit, ok := ast.Unparen(y.Args[0]).(*ast.FuncLit); ok {
						if lf := p.FuncOfLit(lit); lf != nil && len(lit.Type.Params.List) == 1 && len(lit.Type.Params.List[0].Names) == 1 {
							body, in = lit.Body, lf
							x, _ = info.ObjectOf(lit.Type.Params.List[0].Names[0]).(*types.Var)
						}
					}
				}
			}
			return true
		})
	}
	if body == nil || x == nil {
		r.Anchor(rule, "visit of every reference node (range over / callback of (*TypeRef).Walk) in processName")
		return
	}
	info := in.Info()
	g := graph(in)
	isPkgPathFieldOfX := func(e ast.Expr) bool {
		sel, ok := ast.Unparen(e).(*ast.SelectorExpr)
		return ok && sel.Sel.Name == "PkgPath" && core.VarOf(info, sel.X) == x
	}
	// the node's path as a value: x.PkgPath, or a local read from it once (the snapshot is taken before the
	// node is rewritten, which is the last thing a visit does)
	isPkgPathOfX := func(e ast.Expr) bool {
		if isPkgPathFieldOfX(e) {
			return true
		}
		if v := core.VarOf(info, e); v != nil && !v.IsField() {
			if d, ok := core.SingleDef(info, in.Root().Body, v); ok && d.Index < 0 {
				return isPkgPathFieldOfX(d.Rhs)
			}
		}
		return false
	}
	isOwnPkg := func(e ast.Expr) bool { return ownPathOperand(p, in, e) }
	pairs := registerAndNameHelpers(p)
	// the path whose import name is asked for: the argument of LocalNameOf, or of a register-and-name helper
	askedPath := func(e ast.Expr) (ast.Expr, bool) {
		c, ok := ast.Unparen(e).(*ast.CallExpr)
		if !ok {
			return nil, false
		}
		if trackerCall(p, info, c) == "LocalNameOf" && len(c.Args) == 1 {
			return c.Args[0], true
		}
		if ph, isPair := pairs[core.CalleeFunc(info, c)]; isPair && len(c.Args) > ph.Pa {
			return c.Args[ph.Pa], true
		}
		return nil, false
	}
	isEmpty := func(e ast.Expr) bool { return constStrIs(info, e, "") }
	var blank, rewrite *ast.AssignStmt
	var others []*ast.AssignStmt
	ast.Inspect(body, func(n ast.Node) bool {
		as, ok := n.(*ast.AssignStmt)
		if !ok {
			return true
		}
		if len(as.Lhs) != 1 || len(as.Rhs) != 1 || !isPkgPathFieldOfX(as.Lhs[0]) {
			// any other store into the visited node (another field, a tuple assignment)
			for _, l := range as.Lhs {
				if sel, isSel := ast.Unparen(l).(*ast.SelectorExpr); isSel && core.VarOf(info, sel.X) == x {
					others = append(others, as)
				}
			}
			return true
		}
		if constStrIs(info, as.Rhs[0], "") {
			blank = as
		} else if _, ok := askedPath(as.Rhs[0]); ok {
			rewrite = as
		} else {
			others = append(others, as)
		}
		return true
	})
	// "and changes nothing else": the visited node is written by these two stores only
	for _, as := range others {
		r.Bad(rule, pn, "the rewrite loop writes a node otherwise than by the two path rewrites: "+core.ExprStr(as), as.Pos(),
			"a nested reference is changed by something else than blanking the own package or substituting the tracker's name: the printed reference (or the path that is registered and compared) is no longer the one that was parsed")
	}
	if len(others) == 0 {
		r.OK(rule, pn, "the visited node is written only by the two path rewrites", body.Pos(), "no other store into the node")
	}
	says := func(facts []cfgxFact, other func(ast.Expr) bool, want bool) bool {
		for _, f := range facts {
			if v, ok := eqFact(f, isPkgPathOfX, other); ok && v == want {
				return true
			}
		}
		return false
	}
	if blank == nil {
		r.Bad(rule, pn, "own-package argument is blanked", body.Pos(), "no `x.PkgPath = \"\"` for arguments of the file's own package: they would be printed qualified")
	} else {
		r.Check(says(g.FactsAt(g.PointOf(blank)), isOwnPkg, true), rule, pn, "own-package argument is blanked", blank.Pos(),
			"`x.PkgPath = \"\"` only under x.PkgPath == n.pkgPath", "the path is blanked without testing that it is the namer's own package")
	}
	if rewrite == nil {
		r.Bad(rule, pn, "foreign argument is rewritten to its import name", body.Pos(), "no `x.PkgPath = tracker.LocalNameOf(x.PkgPath)` in the rewrite loop")
	} else {
		r.Check(says(g.FactsAt(g.PointOf(rewrite)), isOwnPkg, false), rule, pn, "foreign argument is rewritten to its import name", rewrite.Pos(),
			"rewrite executes only when the path differs from the own package", "own-package arguments can reach the import rewrite")
		asked, _ := askedPath(rewrite.Rhs[0])
		r.Check(asked != nil && isPkgPathOfX(asked), rule, pn, "LocalNameOf is asked for the node's own path", rewrite.Pos(),
			"argument is x.PkgPath", "LocalNameOf is called with something else than the visited node's path")
	}
	// every visit with a non-empty path reaches blank or rewrite
	if blank != nil && rewrite != nil {
		var start cfgxPoint
		if loop != nil {
			start = cfgxPoint{B: g.BlockOf(kindRangeBody, loop), I: 0}
		} else {
			start = g.Entry()
		}
		bp, rp := g.PointOf(blank), g.PointOf(rewrite)
		_, escapes := g.Reach(start, true, cfgxQuery{
			Target: func(q cfgxPoint) bool {
				if loop != nil {
					return q.B.Stmt == ast.Stmt(loop) && (q.B.Kind == kindRangeLoop || q.B.Kind == kindRangeDone)
				}
				return g.IsExit(q)
			},
			Cut: func(q cfgxPoint) bool { return q == bp || q == rp },
			CutEdge: func(b *cfgBlock, k int) bool {
				// the `x.PkgPath == ""` edge is the legitimate skip
				if len(b.Nodes) == 0 || len(b.Succs) != 2 {
					return false
				}
				e, ok := b.Nodes[len(b.Nodes)-1].(ast.Expr)
				if !ok {
					return false
				}
				for _, br := range g.Branches() {
					if br.B != b {
						continue
					}
					if br.Tag != nil {
						if v, ok := eqFact(cfgxFact{Cond: br.Cond, Tag: br.Tag, Val: k == 0}, isPkgPathOfX, isEmpty); ok && v {
							return true
						}
						return false
					}
				}
				for _, a := range cfgxAtoms(e, k == 0) {
					if v, ok := eqFact(a, isPkgPathOfX, isEmpty); ok && v {
						return true
					}
				}
				return false
			},
		})
		r.Check(!escapes, rule, pn, "every visited node with a non-empty path is handled exactly once", body.Pos(),
			"each visit either skips an empty path, blanks the own package or registers+rewrites", "a visit can finish without blanking or rewriting a non-empty package path")
		// the callback form must keep descending
		if loop == nil {
			okRet := true
			ast.Inspect(body, func(n ast.Node) bool {
				if _, isLit := n.(*ast.FuncLit); isLit {
					return false
				}
				if ret, ok := n.(*ast.ReturnStmt); ok && len(ret.Results) == 1 {
					if tv := info.Types[ret.Results[0]]; tv.Value == nil || tv.Value.String() != "true" {
						okRet = false
					}
				}
				return true
			})
			r.Check(okRet, rule, pn, "the walk callback keeps descending (returns true)", body.Pos(), "all returns are `return true`", "the Walk callback can return false: nested type arguments below that node are not rewritten")
		}
	}
}

// printerDelimiters: the distinct bytes of every constant string / rune / byte the function can emit
// (literal operands of writes, of concatenations and of strings.Join), sorted.
func printerDelimiters(f *core.Func) []string {
	info := f.Info()
	set := map[string]bool{}
	ast.Inspect(f.Body, func(n ast.Node) bool {
		lit, ok := n.(*ast.BasicLit)
		if !ok || (lit.Kind != token.STRING && lit.Kind != token.CHAR) {
			return true
		}
		tv := info.Types[lit]
		if tv.Value == nil {
			return true
		}
		switch tv.Value.Kind() {
		case constant.String:
			for _, ch := range constant.StringVal(tv.Value) {
				set[string(ch)] = true
			}
		case constant.Int:
			if v, ok := constant.Int64Val(tv.Value); ok {
				set[string(rune(v))] = true
			}
		}
		return true
	})
	var out []string
	for k := range set {
		out = append(out, k)
	}
	sort.Strings(out)
	return out
}

// c15R5: PkgImportPathAndExpose hands the path half through helper functions (the vendor-prefix strip). Whatever such a
// helper searches for inside a path must be a whole run of path segments - a constant that starts and ends with "/" -
// otherwise a segment that merely contains the text (".../govendor/x") is cut in the middle and the two parsers no
// longer agree on the path.
func c15R5(p *core.Program, r *core.Report) {
	const rule = "R5"
	r.Floor(rule, 1)
	f := p.FuncByName("pkg/gengo", "PkgImportPathAndExpose")
	if f == nil {
		r.Anchor(rule, "pkg/gengo.PkgImportPathAndExpose")
		return
	}
	info := f.Info()
	helpers := map[*core.Func]bool{}
	ast.Inspect(f.Body, func(n ast.Node) bool {
		ret, ok := n.(*ast.ReturnStmt)
		if !ok || len(ret.Results) != 2 {
			return true
		}
		e, _ := core.Resolve(info, f.Body, ret.Results[0])
		for _, c := range core.Calls(e, true) {
			if h := p.FuncOfObj(core.CalleeFunc(info, c)); h != nil {
				for fn := range reachableFrom(p, h) {
					helpers[fn] = true
				}
			}
		}
		return true
	})
	helpers[f] = true
	n := 0
	for h := range helpers {
		if h.Body == nil {
			continue
		}
		hinfo := h.Info()
		for _, c := range core.Calls(h.Body, true) {
			name := core.CalleeName(hinfo, c)
			if !strings.HasPrefix(name, "strings.") || len(c.Args) < 2 {
				continue
			}
			needle, isC := core.ConstString(hinfo, c.Args[1])
			if !isC || !strings.ContainsAny(needle, "abcdefghijklmnopqrstuvwxyzABCDEFGHIJKLMNOPQRSTUVWXYZ") {
				continue // single delimiters ('.', '[') are R3's business
			}
			n++
			r.Check(strings.HasPrefix(needle, "/") && strings.HasSuffix(needle, "/"), rule, h, "text searched inside an import path is a whole segment run: "+name+"(_, "+strconvQuote(needle)+")", c.Pos(),
				"the constant starts and ends with '/'", "the constant "+strconvQuote(needle)+" is not delimited by '/' on both sides: it also matches inside a longer path segment (\"github.com/kardianos/govendor/context\"), the path is cut in the middle of a segment and PkgImportPathAndExpose disagrees with ParseRef about the package")
		}
	}
	if n == 0 {
		r.OK(rule, f, "no segment search on the path half", f.Node().Pos(), "the path half is returned as sliced")
	}
}

func strconvQuote(s string) string { return "\"" + s + "\"" }
