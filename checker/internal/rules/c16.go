package rules

import (
	"go/ast"
	"go/token"
	"go/types"
	"strings"

	"gengoverif/checker/internal/cfgx"
	"gengoverif/checker/internal/core"
)

func init() {
	register(Property{
		ID: "C16",
		Explanation: "Decided statically on constants and literals (the sample generators never run in the test-suite): T1 every placeholder of every constant template of the runtimedoc generator is bound and every Sprintf format uses only %v/%T/%% with enough operands (an unbound placeholder is a guaranteed panic the first time that arm runs); T2 every template, with its placeholders replaced by a stub of the kind its binding constructs, parses as Go in one of four syntactic contexts, and the constant helper block parses as declarations; T3 doc text reaches the generated code only as a quoted value literal (Value/%v) or behind Comment, never through ID (a reference parser), Block or a format position; R1 the 'cases' loop emits a case exactly for exported, non-embedded fields (skipping anonymous/empty structs) and the 'embeds' loop a delegation exactly for embedded fields, choosing v.F / &v.F by pointer-ness, both over the same NumFields() range; R2 the helper is emitted under an instance flag that is tested and set before rendering, and only from a Defer callback registered when something was rendered; R3 Context.Doc removes the leading type name from the first doc line and drops the line when it becomes empty; U1 field-type assertions look through aliases. R4 no schedule-dependent order source in the generator. R5 the attribution rules of the comment indexes (C12.R1-R3) hold, since RuntimeDoc returns what Package.Doc attributes to the declaration. NOT decided: that the generated code compiles with the package and that RuntimeDoc returns the expected lines at run time (needs compilation and execution of generated code).",
		Assumptions: commonAssumptions,
		Run:         runC16,
	})
}

func runC16(p *core.Program, r *core.Report) {
	r.Floor("T1", 6)
	r.Floor("T2", 6)
	sites := templateRules(p, r, "devpkg/runtimedocgen", "devpkg/defaultergen")
	r.Floor("T3", 1)
	t3Report(p, r, sites, "devpkg/runtimedocgen")
	c16R1(p, r)
	c16R2(p, r)
	c16R3(p, r)
	// the doc lines handed to Context.Doc are not cached by the universe (Doc edits them in place)
	sub := core.NewReport(r.Prog, "C13")
	c13R7(p, sub)
	for _, o := range sub.Obls {
		if o.Status == core.Violated || o.Status == core.Undecided {
			r.Bad("R3", nil, o.Func+": "+o.Construct, token.NoPos, o.How)
		}
	}
	// R5: the lines RuntimeDoc returns are the ones Package.Doc attributes to the declaration:
	// the attribution rules of the comment indexes (C12.R1-R3) are part of this property's chain
	r.Floor("R5", 1)
	sub12 := core.NewReport(r.Prog, "C12")
	if np := p.FuncByName("pkg/types", "newPkg"); np != nil {
		c12R1R3(p, sub12, np)
		c12R2(p, sub12)
	} else {
		r.Anchor("R5", "pkg/types.newPkg")
	}
	nbad := 0
	for _, o := range sub12.Obls {
		if o.Status == core.Violated || o.Status == core.Undecided {
			nbad++
			r.Bad("R5", nil, "comment attribution ("+o.Rule+") "+o.Func+": "+o.Construct, token.NoPos, o.How)
		}
	}
	if nbad == 0 {
		r.OK("R5", nil, "doc lines are attributed to the right declaration (C12.R1-R3 hold)", token.NoPos, itoa(int64(len(sub12.Obls)))+" obligations of the comment indexes discharged")
	}
	r.Floor("U1", 3)
	a10Report(p, r, "U1", "devpkg/runtimedocgen")
	generatorOrderSources(p, r, "R4", "devpkg/runtimedocgen")
	// processed set is consulted and set before rendering
	processedGuard(p, r, "R2", "devpkg/runtimedocgen", "(*runtimedocGen).generateType")
}

// factCall finds a fact whose condition is a call to a method/function named
// name on receiver/arg variable v with the given truth value.
func hasCallFact(info *types.Info, facts []cfgx.Fact, val bool, match func(c *ast.CallExpr) bool) bool {
	for _, f := range facts {
		if f.Val != val || f.Tag != nil {
			continue
		}
		if c, ok := ast.Unparen(f.Cond).(*ast.CallExpr); ok && match(c) {
			return true
		}
	}
	return false
}

func c16R1(p *core.Program, r *core.Report) {
	const rule = "R1"
	r.Floor(rule, 4)
	gt := p.FuncByName("devpkg/runtimedocgen", "(*runtimedocGen).generateType")
	if gt == nil {
		r.Anchor(rule, "devpkg/runtimedocgen.(*runtimedocGen).generateType")
		return
	}
	var casesLit, embedsLit *core.Func
	for _, f := range p.Funcs() {
		if f.Root() != gt || f.Lit == nil || yieldParam(f) == nil {
			continue
		}
		for _, s := range templateSites(p) {
			if s.F != f || !s.IsConst {
				continue
			}
			if strings.Contains(s.Format, "case @") {
				casesLit = f
			}
			if strings.Contains(s.Format, "runtimeDoc(") {
				embedsLit = f
			}
		}
	}
	if casesLit == nil || embedsLit == nil {
		r.Anchor(rule, "the 'cases' and 'embeds' iterator closures of generateType")
		return
	}
	methodFact := func(f *core.Func, name string) func(c *ast.CallExpr) bool {
		return func(c *ast.CallExpr) bool {
			sel, ok := ast.Unparen(c.Fun).(*ast.SelectorExpr)
			return ok && sel.Sel.Name == name
		}
	}
	// the guards are evaluated where the template is constructed (it may be yielded later through a variable)
	sitesOf := func(f *core.Func, marker string) []templateSite {
		var out []templateSite
		for _, s := range templateSites(p) {
			if s.F == f && s.IsConst && strings.Contains(s.Format, marker) {
				out = append(out, s)
			}
		}
		return out
	}
	// cases
	{
		f := casesLit
		info := f.Info()
		g := graph(f)
		ss := sitesOf(f, "case @")
		for _, s := range ss {
			facts := g.FactsAt(g.PointOf(s.Call))
			exported := hasCallFact(info, facts, true, func(cc *ast.CallExpr) bool { return core.CalleeName(info, cc) == "go/ast.IsExported" }) ||
				hasCallFact(info, facts, true, methodFact(f, "Exported"))
			notEmbedded := hasCallFact(info, facts, false, methodFact(f, "Embedded"))
			r.Check(exported && notEmbedded, rule, f, "a case is emitted exactly for exported, non-embedded fields", s.Call.Pos(), "case template dominated by IsExported(name) and !Embedded()",
				"the case for a field is not guarded by `exported && !embedded`: unexported fields are listed or exported ones are missing")
		}
		if len(ss) == 0 {
			r.Anchor(rule, "case template in the 'cases' closure")
		}
	}
	// embeds
	{
		f := embedsLit
		info := f.Info()
		g := graph(f)
		var byAddr, byValue bool
		isPtrFact := func(facts []cfgx.Fact, val bool) bool {
			for _, fct := range facts {
				v := core.VarOf(info, fct.Cond)
				if v == nil || fct.Val != val {
					continue
				}
				if d, ok := core.SingleDef(info, f.Body, v); ok && d.Index == 1 {
					if ta, ok := ast.Unparen(d.Rhs).(*ast.TypeAssertExpr); ok && core.NamedTypeName(info.TypeOf(ta.Type)) == "go/types.Pointer" {
						return true
					}
				}
			}
			return false
		}
		for _, s := range sitesOf(f, "runtimeDoc(") {
			facts := g.FactsAt(g.PointOf(s.Call))
			embedded := hasCallFact(info, facts, true, methodFact(f, "Embedded"))
			r.Check(embedded, rule, f, "a delegation is emitted exactly for embedded fields", s.Call.Pos(), "delegation template dominated by Embedded()", "a delegation is emitted for a field that is not embedded (or the guard was dropped)")
			switch {
			case strings.Contains(s.Format, "runtimeDoc(&v."):
				byAddr = true
				r.Check(isPtrFact(facts, false), rule, f, "value-embedded fields are delegated by address", s.Call.Pos(), "`&v.F` under 'not a pointer'", "`&v.F` is emitted for a field that may already be a pointer (a **T has no RuntimeDoc method)")
			case strings.Contains(s.Format, "runtimeDoc(v."):
				byValue = true
				r.Check(isPtrFact(facts, true), rule, f, "pointer-embedded fields are delegated as they are", s.Call.Pos(), "`v.F` under 'is a pointer'", "`v.F` is emitted for a field that may be a struct value (its pointer-receiver RuntimeDoc is not found through the interface)")
			}
		}
		r.Check(byAddr && byValue, rule, f, "both delegation forms exist", f.Node().Pos(), "v.F and &v.F", "one of the two delegation forms (by value for pointers, by address for values) is missing")
		// something is yielded in the closure
		y := yieldParam(f)
		ny := 0
		for _, c := range core.Calls(f.Body, true) {
			if core.VarOf(info, c.Fun) == y {
				ny++
			}
		}
		r.Check(ny >= 1, rule, f, "the delegation snippets are yielded", f.Node().Pos(), itoa(int64(ny))+" yield(s)", "the embeds closure yields nothing")
	}
}

func c16R2(p *core.Program, r *core.Report) {
	const rule = "R2"
	r.Floor(rule, 3)
	h := p.FuncByName("devpkg/runtimedocgen", "(*runtimedocGen).createHelperOnce")
	if h == nil {
		r.Anchor(rule, "devpkg/runtimedocgen.(*runtimedocGen).createHelperOnce")
		return
	}
	info := h.Info()
	g := graph(h)
	var render *ast.CallExpr
	for _, c := range core.Calls(h.Body, true) {
		if strings.HasSuffix(core.CalleeName(info, c), ".Render") || strings.HasSuffix(core.CalleeName(info, c), ".RenderT") {
			render = c
		}
	}
	if render == nil {
		r.Anchor(rule, "Render call of the helper")
		return
	}
	at := g.PointOf(render)
	var flag *types.Var
	tested := false
	for _, fct := range g.FactsAt(at) {
		if fld := core.FieldOf(info, fct.Cond); fld != nil && !fct.Val && core.SameRef(info, fct.Cond.(*ast.SelectorExpr).X, recvIdent(h)) {
			flag, tested = fld, true
		}
	}
	set := false
	if flag != nil {
		set = g.DominatedBySome(at, func(q cfgx.Point) bool {
			as, ok := q.Node().(*ast.AssignStmt)
			if !ok || len(as.Lhs) != 1 || core.FieldOf(info, as.Lhs[0]) != flag {
				return false
			}
			tv := info.Types[as.Rhs[0]]
			return tv.Value != nil && tv.Value.String() == "true"
		})
	}
	r.Check(tested && set, rule, h, "helper is rendered at most once per generator instance", render.Pos(), "instance flag tested false and set true before Render", "the helper function can be rendered twice into one file (redeclaration) - the once-flag is not an instance field tested and set before rendering")
	// callers: only inside a Defer callback registered under !IsZero()
	for _, cs := range allCalls(p) {
		if core.CalleeFunc(cs.In.Info(), cs.Call) != h.Obj() {
			continue
		}
		f := cs.In
		ok := false
		if f.Lit != nil && f.Parent != nil {
			pinfo := f.Parent.Info()
			pg := graph(f.Parent)
			for _, dc := range core.Calls(f.Parent.Body, true) {
				if !strings.HasSuffix(core.CalleeName(pinfo, dc), ").Defer") || len(dc.Args) != 1 || dc.Args[0] != ast.Expr(f.Lit) {
					continue
				}
				if hasCallFact(pinfo, pg.FactsAt(pg.PointOf(dc)), false, func(cc *ast.CallExpr) bool { return strings.HasSuffix(core.CalleeName(pinfo, cc), ").IsZero") }) {
					ok = true
				}
			}
		}
		r.Check(ok, rule, f, "helper is requested only from a Defer callback registered when something was rendered", cs.Call.Pos(), "c.Defer(func...) under !c.IsZero()", "the helper is emitted although nothing was rendered (or outside a deferred callback): a file consisting only of the helper is written")
	}
}

func c16R3(p *core.Program, r *core.Report) {
	const rule = "R3"
	r.Floor(rule, 2)
	d := ctxMethod(p, "Doc")
	if d == nil {
		r.Anchor(rule, "pkg/gengo.(*gengoCtx).Doc")
		return
	}
	info := d.Info()
	trim := false
	ast.Inspect(d.Body, func(n ast.Node) bool {
		as, ok := n.(*ast.AssignStmt)
		if !ok || len(as.Lhs) != 1 {
			return true
		}
		ix, ok := ast.Unparen(as.Lhs[0]).(*ast.IndexExpr)
		if !ok || !constIs(info, ix.Index, 0) {
			return true
		}
		for _, c := range core.CallsTo(info, as.Rhs[0], true, "strings.TrimPrefix") {
			if len(c.Args) == 2 && core.SameRef(info, c.Args[0], as.Lhs[0]) {
				if nc, ok := ast.Unparen(c.Args[1]).(*ast.CallExpr); ok && strings.HasSuffix(core.CalleeName(info, nc), ").Name") {
					if v := core.VarOf(info, recvOf(nc)); v != nil && isParamOf(d, v) {
						trim = true
					}
				}
			}
		}
		return true
	})
	r.Check(trim, rule, d, "the leading name is removed from the first doc line", d.Node().Pos(), "doc[0] = TrimSpace(TrimPrefix(doc[0], obj.Name()))", "the first doc line is no longer stripped of the declared name")
	a5Check(r, rule, d)
	// the doc lines come from the object's own package and position
	src := false
	for _, c := range core.Calls(d.Body, true) {
		if strings.HasSuffix(core.CalleeName(info, c), "Package).Doc") && len(c.Args) == 1 {
			if pc, ok := ast.Unparen(c.Args[0]).(*ast.CallExpr); ok && strings.HasSuffix(core.CalleeName(info, pc), ").Pos") {
				if v := core.VarOf(info, recvOf(pc)); v != nil && isParamOf(d, v) {
					src = true
				}
			}
		}
	}
	r.Check(src, rule, d, "doc is looked up at the object's own position", d.Node().Pos(), "Package(obj.Pkg().Path()).Doc(obj.Pos())", "Context.Doc does not look the documentation up at the position of the object passed in")
}

// processedGuard: in the named recursive generator method the processed set is
// consulted (early return) and marked before any rendering or recursion.
func processedGuard(p *core.Program, r *core.Report, rule, rel, name string) {
	f := p.FuncByName(rel, name)
	if f == nil {
		r.Anchor(rule, rel+"."+name)
		return
	}
	info := f.Info()
	g := graph(f)
	var mark cfgx.Point
	var fld *types.Var
	ast.Inspect(f.Body, func(n ast.Node) bool {
		as, ok := n.(*ast.AssignStmt)
		if !ok || len(as.Lhs) != 1 {
			return true
		}
		ix, ok := ast.Unparen(as.Lhs[0]).(*ast.IndexExpr)
		if !ok {
			return true
		}
		if fl := core.FieldOf(info, ix.X); fl != nil && fl.Name() == "processed" && core.SameRef(info, ix.X.(*ast.SelectorExpr).X, recvIdent(f)) {
			mark, fld = g.PointOf(as), fl
		}
		return true
	})
	if !mark.Valid() {
		r.Bad(rule, f, "processed set is an instance field marked before rendering", f.Node().Pos(), "no `g.processed[named] = true` on the receiver")
		return
	}
	_ = fld
	ok := true
	for _, c := range core.Calls(f.Body, true) {
		cn := core.CalleeName(info, c)
		if strings.HasSuffix(cn, ").RenderT") || strings.HasSuffix(cn, ").Render") || core.CalleeFunc(info, c) == f.Obj() {
			if !g.Dominates(mark, g.PointOf(c)) {
				ok = false
			}
		}
	}
	// early return when present
	early := false
	for _, br := range g.Branches() {
		v := core.VarOf(info, br.Cond)
		if v == nil {
			continue
		}
		if d, isDef := core.SingleDef(info, f.Body, v); isDef && d.Index == 1 {
			if ix, isIx := ast.Unparen(d.Rhs).(*ast.IndexExpr); isIx {
				if fl := core.FieldOf(info, ix.X); fl != nil && fl.Name() == "processed" {
					// true edge returns before the mark
					if !g.CanReach(cfgx.Point{B: br.B.Succs[0], I: 0}, mark) || br.B.Succs[0].Kind == 0 {
						early = true
					}
					if _, reach := g.Reach(cfgx.Point{B: br.B.Succs[0], I: 0}, true, cfgx.Query{Target: func(q cfgx.Point) bool { return q == mark }}); !reach {
						early = true
					}
				}
			}
		}
	}
	r.Check(ok && early, rule, f, "each type is rendered at most once per generator instance", f.Node().Pos(), "processed[named] tested (early return) and set before any rendering or recursion", "a type can be rendered twice (duplicate methods) or recursion is not cut: the processed set is not tested and marked before rendering")
	_ = token.NoPos
}
