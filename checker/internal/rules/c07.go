package rules

import (
	"go/ast"
	"go/token"
	"go/types"
	"regexp"
	"strings"

	"gengoverif/checker/internal/cfgx"
	"gengoverif/checker/internal/core"
)

func init() {
	register(Property{
		ID:          "C07",
		Explanation: "Decided statically: A1 the inventory of file-system effects in the library is exactly {open/create + format.Node in the file writer, RemoveAll in the per-package function, open + Write in sumfile.Save}, by role (the role functions are found from the effects themselves; private helpers extracted from them belong to their unit); any other create/write/remove/rename/mkdir/exec site is a violation; R1 the written path is path.Join(<package source dir>, Filename) and Filename is Sprintf(\"%s.%s.go\", OutputFileBaseName, generator name); R2 the only store into the removal set is dominated by strings.HasPrefix(filepath.Base(file), OutputFileBaseName + \".\") and its values are file names of the processed package's own syntax files; RemoveAll's operand comes from that set only; R3 gengo.sum is written at filepath.Join(Dir, \"gengo.sum\") and Save is reachable only when All is set; R4 after every successful write the written file's name (same Filename method) is struck from the removal set before the next iteration, and no path leads from a removal to a write; R5 sibling agreement of the named-type and alias dispatchers: both treat ErrSkip as success, both set the ignore flag on ErrIgnore (read by IsZero so an empty generator keeps its old file), both propagate anything else; R6 a package is executed iff All or directly requested, and 'local' packages are those whose module is a requested package's module. R3 also: every non-nil file returned by sumfile.Load carries the directory it was asked to load from (Execute adopts that Dir for the file it saves). R7 the queue of files the per-package function writes is a variable declared in that function. R9 once the previous outputs are listed, every successful return of the per-package function passes the loop that removes the rest of the list (or the edge on which it is empty). R10 = C13.R6 (files are written into the package's own directory); R11 = C01.R10 (a rendered body is never taken back before the write). NOT decided: byte-identity of every other file (it is the contrapositive of A1's completeness, assuming third-party callees - gofumpt, go/packages, go list - write nothing into the module tree).",
		Assumptions: append([]string{"third-party callees (mvdan.cc/gofumpt, go/packages and the go command it runs, dirhash) do not write into the module tree"}, commonAssumptions...),
		Run:         runC07,
	})
}

// pipeline anchors, resolved by what the code does
type pipeline struct {
	pkgExec  *core.Func // calls os.RemoveAll
	write    *core.Func // opens with O_TRUNC
	execute  *core.Func // calls pkgExec in a loop
	save     *core.Func
	filename *core.Func
	// the functions that invoke Generator.GenerateType / AliasGenerator.GenerateAliasType, and the one that calls them
	dispatchers []*core.Func
	dispatch    *core.Func
}

func findPipeline(p *core.Program, r *core.Report, rule string) *pipeline {
	pl := &pipeline{}
	// roles are found from the effects outward; a helper extracted from a role
	// function is seen through the flattened view of its unit
	for _, cs := range callersOf(p, "os.RemoveAll", "os.Remove") {
		if core.RelPkg(cs.In.Pkg.PkgPath) == "pkg/gengo" && pl.pkgExec == nil {
			pl.pkgExec = unit(p, cs.In)
		}
	}
	for _, cs := range callersOf(p, "os.OpenFile", "os.Create") {
		if core.RelPkg(cs.In.Pkg.PkgPath) == "pkg/gengo" && pl.write == nil {
			pl.write = unit(p, cs.In)
		}
	}
	if pl.pkgExec != nil && pl.pkgExec.Obj() != nil {
		for _, cs := range allCalls(p) {
			if cs.In.Body != nil && core.CalleeFunc(cs.In.Info(), cs.Call) == pl.pkgExec.Obj() && pl.execute == nil {
				pl.execute = unit(p, cs.In)
			}
		}
	}
	if f := p.FuncByName("pkg/sumfile", "(*File).Save"); f != nil {
		pl.save = flatten(p, f)
	}
	pl.filename = fileMethod(p, "Filename")
	if pl.filename == nil {
		// the exported method Filename of the file type, whatever the (unexported) type is called
		for _, f := range p.Funcs() {
			if f.Decl != nil && f.Decl.Recv != nil && f.Decl.Name.Name == "Filename" && core.RelPkg(f.Pkg.PkgPath) == "pkg/gengo" {
				pl.filename = f
			}
		}
	}
	{
		genType := "(" + core.G("pkg/gengo.Generator") + ").GenerateType"
		genAlias := "(" + core.G("pkg/gengo.AliasGenerator") + ").GenerateAliasType"
		isDisp := map[*core.Func]bool{}
		for _, cs := range callersOf(p, genType, genAlias) {
			if core.RelPkg(cs.In.Pkg.PkgPath) == "pkg/gengo" && !isDisp[cs.In.Root()] {
				isDisp[cs.In.Root()] = true
				pl.dispatchers = append(pl.dispatchers, cs.In.Root())
			}
		}
		for _, cs := range allCalls(p) {
			if cs.In.Body == nil {
				continue
			}
			if callee := p.FuncOfObj(core.CalleeFunc(cs.In.Info(), cs.Call)); callee != nil && isDisp[callee] && !isDisp[cs.In.Root()] {
				pl.dispatch = cs.In.Root()
			}
		}
	}
	for name, f := range map[string]*core.Func{"the per-package function (caller of os.RemoveAll in pkg/gengo)": pl.pkgExec, "the file writer (caller of os.OpenFile in pkg/gengo)": pl.write, "Execute (caller of the per-package function)": pl.execute, "pkg/sumfile.(*File).Save": pl.save, "pkg/gengo.(*genfile).Filename": pl.filename} {
		if f == nil {
			r.Anchor(rule, name)
			return nil
		}
	}
	return pl
}

func runC07(p *core.Program, r *core.Report) {
	r.Floor("A1", 6)
	pl := findPipeline(p, r, "R1")
	if pl == nil {
		return
	}
	a1Report(p, r, "A1", pl)
	c07R1(p, r, pl)
	c07R2(p, r, pl)
	c07R3(p, r, pl)
	c07R4(p, r, pl)
	c07R5(p, r)
	c07R6(p, r, pl)
	c07R7(p, r, pl)
	// R8: "each generator that rendered something has its file": what was rendered - also by deferred callbacks - is
	// handed to the writer (C01.R5: hand-over on every path, emptiness tested after the last rendering of the iteration)
	chainRules(p, r, "R8", "C01", []string{"C01.R5"}, "a non-empty file is always handed to the writer, emptiness is tested after the last rendering")
	c07R9(p, r, pl)
	// R10: "only files inside the packages it processes": the directory the writer joins the file name onto is the
	// package's own, derived from the module's Dir and the package path (C13.R6)
	chainRules(p, r, "R10", "C13", []string{"C13.R6"}, "the directory a file is written to is the processed package's own")
	// R11: "a generator's file exists iff that generator rendered something": what was rendered is never taken back
	// out of the body before the write (C01.R10)
	chainRules(p, r, "R11", "C01", []string{"C01.R10"}, "the body of a file only grows until it is written")
}

var filenameFormat = regexp.MustCompile(`^%s\.%s\.go$`)

func c07R1(p *core.Program, r *core.Report, pl *pipeline) {
	const rule = "R1"
	r.Floor(rule, 3)
	w := pl.write
	info := w.Info()
	for _, c := range core.CallsTo(info, w.Body, true, "os.OpenFile", "os.Create") {
		e, _ := core.Resolve(info, w.Body, c.Args[0])
		jc := core.AsCall(info, e, "path.Join", "path/filepath.Join")
		ok := jc != nil && len(jc.Args) == 2
		if ok {
			d := canonBase(p, w, jc.Args[0], 0)
			ok = strings.HasSuffix(d, `.Package("").SourceDir()`)
			fc, isCall := ast.Unparen(jc.Args[1]).(*ast.CallExpr)
			ok = ok && isCall && core.CalleeFunc(info, fc) == pl.filename.Obj() && core.SameRef(info, recvOf(fc), recvIdent(w))
		}
		r.Check(ok, rule, w, "output path of "+core.CalleeName(info, c)+" is <package source dir>/<Filename>", c.Pos(), "path.Join(c.Package(\"\").SourceDir(), ff.Filename(args))",
			"the file is opened at another path than Join(<source dir of the processed package>, ff.Filename(args)): gengo can write outside its own output files")
	}
	fi := pl.filename.Info()
	okName := false
	if ret := singleReturn(pl.filename); ret != nil {
		// the text built is <op0> "." <op1> ".go" however it is spelled (Sprintf, concatenation)
		if t, ok := exprTemplate(fi, ret); ok && t.Text == "\x00.\x00.go" && len(t.Ops) == 2 {
			f1, f2 := core.FieldOf(fi, t.Ops[0]), core.FieldOf(fi, t.Ops[1])
			okName = f1 != nil && f1.Name() == "OutputFileBaseName" && isRole(p, f2, "file.name")
		}
	}
	r.Check(okName, rule, pl.filename, "file name is <OutputFileBaseName>.<generator>.go", pl.filename.Node().Pos(), "Sprintf(\"%s.%s.go\", args.OutputFileBaseName, ff.name)", "the output file name is not `<base>.<generator>.go`")
}

func c07R2(p *core.Program, r *core.Report, pl *pipeline) {
	const rule = "R2"
	r.Floor(rule, 3)
	f := pl.pkgExec
	info := f.Info()
	g := graph(f)
	// the removal set: the map ranged by the loop containing RemoveAll
	var set *types.Var
	for _, rm := range core.CallsTo(info, f.Body, true, "os.RemoveAll", "os.Remove") {
		path := core.PathTo(f.Body, rm)
		found := false
		for k := len(path) - 1; k >= 0; k-- {
			if rs, ok := path[k].(*ast.RangeStmt); ok {
				found = true
				s := core.CanonVarOf(info, f.Body, rs.X)
				if set == nil {
					set = s
				}
				// operand is the range value
				r.Check(s != nil && s == set && isMapType(s.Type()) && core.VarOf(info, rm.Args[0]) == core.VarOf(info, rs.Value) && rs.Value != nil, rule, f, "RemoveAll removes only values of the removal set", rm.Pos(),
					"operand is the range value over the removal map", "os.RemoveAll is applied to something else than a value ranged from the removal set")
				break
			}
		}
		if !found {
			r.Bad(rule, f, "RemoveAll removes only values of the removal set", rm.Pos(), "a removal outside the loop over the removal set")
		}
	}
	if set == nil {
		r.Anchor(rule, "range over the removal set around os.RemoveAll")
		return
	}
	stores := 0
	ast.Inspect(f.Body, func(n ast.Node) bool {
		as, ok := n.(*ast.AssignStmt)
		if !ok {
			return true
		}
		for i, l := range as.Lhs {
			if lv := core.VarOf(info, l); lv != nil && lv == set && as.Tok != token.DEFINE {
				r.Bad(rule, f, "removal set is re-assigned", as.Pos(), "the candidate set is replaced by something unchecked")
			}
			ix, ok := ast.Unparen(l).(*ast.IndexExpr)
			if !ok || core.CanonVarOf(info, f.Body, ix.X) != set {
				continue
			}
			stores++
			val := as.Rhs[i]
			at := g.PointOf(as)
			// guard
			guard := false
			for _, fct := range g.FactsAt(at) {
				hc := core.AsCall(info, fct.Cond, "strings.HasPrefix")
				if hc == nil || !fct.Val {
					continue
				}
				// prefix = OutputFileBaseName + "."...
				pe, _ := core.Resolve(info, f.Body, hc.Args[1])
				b, ok := ast.Unparen(pe).(*ast.BinaryExpr)
				if !ok || b.Op != token.ADD {
					continue
				}
				fld := core.FieldOf(info, b.X)
				s, isC := core.ConstString(info, b.Y)
				if fld == nil || fld.Name() != "OutputFileBaseName" || !isC || !strings.HasPrefix(s, ".") {
					continue
				}
				// subject = filepath.Base(<stored full name>)
				se, _ := core.Resolve(info, f.Body, hc.Args[0])
				bc := core.AsCall(info, se, "path/filepath.Base", "path.Base")
				if bc != nil && core.SameRef(info, bc.Args[0], val) {
					guard = true
				}
			}
			r.Check(guard, rule, f, "a file is a removal candidate only if its base name starts with <base> + \".\"", as.Pos(),
				"dominated by strings.HasPrefix(filepath.Base(file), OutputFileBaseName + \".\")",
				"files enter the removal set without the `<OutputFileBaseName>.` prefix test on their base name: user files whose name merely starts with the base name (or any file) are deleted")
			// provenance of the stored file name
			ve, _ := core.Resolve(info, f.Body, val)
			s := canonBase(p, f, ve, 0)
			prov := strings.Contains(s, ".FileSet().File(") && strings.HasSuffix(s, ".Name()")
			fromFiles := false
			pth := core.PathTo(f.Body, as)
			for k := len(pth) - 1; k >= 0; k-- {
				if rs, ok := pth[k].(*ast.RangeStmt); ok {
					cx := canonBase(p, f, rs.X, 0)
					if i := strings.Index(cx, ".universe.Package("); i >= 0 && strings.HasSuffix(cx, ").Files()") && rs.Value != nil && strings.Contains(s, core.VarOf(info, rs.Value).Name()+"#") {
						// the package is the one named by the function's parameter
						arg := cx[i+len(".universe.Package(") : len(cx)-len(").Files()")]
						for _, fld := range f.Type.Params.List {
							for _, nm := range fld.Names {
								if o := info.ObjectOf(nm); o != nil && strings.HasPrefix(arg, nm.Name+"#") {
									fromFiles = true
								}
							}
						}
					}
				}
			}
			r.Check(prov && fromFiles, rule, f, "removal candidates are files of the processed package", as.Pos(), "value is FileSet().File(f.FileStart).Name() for f in p.Files()",
				"the removal set receives paths that are not the names of the processed package's own source files")
		}
		return true
	})
	if stores == 0 {
		r.Anchor(rule, "store into the removal set")
	}
	// the package whose files are listed is the one being processed (parameter)
	pv := ""
	for _, c := range core.CallsTo(info, f.Body, true, core.GM("pkg/types", "*Universe", "Package")) {
		if v := core.VarOf(info, c.Args[0]); v != nil && isParamOf(f, v) {
			pv = v.Name()
		}
	}
	r.Check(pv != "", rule, f, "the processed package is looked up by the function's own package argument", f.Node().Pos(), "universe.Package(<parameter>)", "the package whose files are cleaned is not the one passed in")
}

func c07R3(p *core.Program, r *core.Report, pl *pipeline) {
	const rule = "R3"
	r.Floor(rule, 3)
	s := pl.save
	info := s.Info()
	ok := false
	for _, c := range core.CallsTo(info, s.Body, true, "os.OpenFile", "os.Create", "os.WriteFile") {
		if ops := joinOperands(p, s, c.Args[0]); len(ops) == 2 {
			fld := core.FieldOf(ops[0].F.Info(), ops[0].E)
			name, isC := core.ConstString(ops[1].F.Info(), ops[1].E)
			ok = fld != nil && fld.Name() == "Dir" && ops[0].F == s && isC && name == "gengo.sum"
		}
	}
	r.Check(ok, rule, s, "the sum file is written at <Dir>/gengo.sum", s.Node().Pos(), "filepath.Join(f.Dir, \"gengo.sum\")", "Save writes to another path than Join(Dir, \"gengo.sum\")")
	// the loaded file carries the directory it was loaded from: Execute adopts the loaded
	// file's Dir for the file it saves, so every non-nil *File that Load returns must have
	// Dir == Load's own directory parameter (a zero File would move gengo.sum to the working directory)
	if ld := p.FuncByName("pkg/sumfile", "Load"); ld == nil {
		r.Anchor(rule, "pkg/sumfile.Load")
	} else {
		lf := flatten(p, ld)
		linfo := lf.Info()
		var dirParam *types.Var
		if ps := ld.Decl.Type.Params.List; len(ps) == 1 && len(ps[0].Names) == 1 {
			dirParam, _ = linfo.ObjectOf(ps[0].Names[0]).(*types.Var)
		}
		n := 0
		ast.Inspect(lf.Body, func(node ast.Node) bool {
			if _, isLit := node.(*ast.FuncLit); isLit {
				return false
			}
			ret, isRet := node.(*ast.ReturnStmt)
			if !isRet || len(ret.Results) != 2 {
				return true
			}
			if id, isID := ast.Unparen(ret.Results[0]).(*ast.Ident); isID && id.Name == "nil" {
				return true
			}
			n++
			e, _ := core.Resolve(linfo, lf.Body, ret.Results[0])
			if u, isU := ast.Unparen(e).(*ast.UnaryExpr); isU && u.Op == token.AND {
				e = u.X
			}
			good := false
			if cl, isCL := ast.Unparen(e).(*ast.CompositeLit); isCL {
				for _, el := range cl.Elts {
					if kv, isKV := el.(*ast.KeyValueExpr); isKV {
						if id, isID := kv.Key.(*ast.Ident); isID && id.Name == "Dir" && dirParam != nil && core.CanonVarOf(linfo, lf.Body, kv.Value) == dirParam {
							good = true
						}
					}
				}
			}
			r.Check(good, rule, ld, "a loaded sum file records the directory it was loaded from", ret.Pos(), "returns &File{Dir: <directory parameter>, ...}",
				"Load can return a file whose Dir is not the directory it was asked to load from: Execute adopts that Dir for the file it saves, so gengo.sum is written somewhere else (an empty Dir means the process working directory)")
			return true
		})
		if n == 0 {
			r.Anchor(rule, "a return of a loaded file in pkg/sumfile.Load")
		}
	}
	// Save is reached only under All
	e := pl.execute
	einfo := e.Info()
	g := graph(e)
	calls := core.CallsTo(einfo, e.Body, true, core.GM("pkg/sumfile", "*File", "Save"))
	for _, c := range calls {
		under := false
		for _, fct := range g.FactsAt(g.PointOf(c)) {
			if fld := core.FieldOf(einfo, fct.Cond); fld != nil && fld.Name() == "All" && fct.Val {
				under = true
			}
		}
		r.Check(under, rule, e, "gengo.sum is written only when All is set", c.Pos(), "Save dominated by args.All == true", "gengo.sum is (re)written also when All is not set")
	}
	// who may call Save
	for _, cs := range callersOf(p, core.GM("pkg/sumfile", "*File", "Save")) {
		r.Check(e.Has(cs.In), rule, cs.In, "Save is called only from Execute", cs.Call.Pos(), "single caller", "gengo.sum is written from another place than Execute")
	}
}

func c07R4(p *core.Program, r *core.Report, pl *pipeline) {
	const rule = "R4"
	r.Floor(rule, 2)
	f := pl.pkgExec
	info := f.Info()
	g := graph(f)
	var rmSet *types.Var
	rms := core.CallsTo(info, f.Body, true, "os.RemoveAll", "os.Remove")
	for _, rm := range rms {
		pth := core.PathTo(f.Body, rm)
		for k := len(pth) - 1; k >= 0; k-- {
			if rs, ok := pth[k].(*ast.RangeStmt); ok {
				if v := core.CanonVarOf(info, f.Body, rs.X); v != nil && isMapType(v.Type()) && rmSet == nil {
					rmSet = v
				}
				break
			}
		}
	}
	writes := []*ast.CallExpr{}
	for _, c := range core.Calls(f.Body, true) {
		if core.CalleeFunc(info, c) == pl.write.Obj() {
			writes = append(writes, c)
		}
	}
	if len(writes) == 0 || rmSet == nil {
		r.Anchor(rule, "WriteToFile call and removal set in the per-package function")
		return
	}
	isStrike := func(n ast.Node, w *ast.CallExpr) bool {
		for _, c := range core.Calls(n, true) {
			if core.CalleeName(info, c) != "builtin.delete" || len(c.Args) != 2 || core.CanonVarOf(info, f.Body, c.Args[0]) != rmSet {
				continue
			}
			kc, ok := ast.Unparen(c.Args[1]).(*ast.CallExpr)
			if ok && core.CalleeFunc(info, kc) == pl.filename.Obj() && core.SameRef(info, recvOf(kc), recvOf(w)) {
				return true
			}
		}
		return false
	}
	for _, w := range writes {
		wp := g.PointOf(w)
		// the enclosing loop
		var loop ast.Stmt
		wpath := core.PathTo(f.Body, w)
		for k := len(wpath) - 1; k >= 0; k-- {
			if rs, ok := wpath[k].(*ast.RangeStmt); ok {
				loop = rs
				break
			}
		}
		// error variable of the call: paths on which err != nil leave the function
		var werr *types.Var
		switch st := wp.Node().(type) {
		case *ast.AssignStmt:
			if len(st.Rhs) == 1 && len(st.Lhs) >= 1 {
				werr = core.VarOf(info, st.Lhs[len(st.Lhs)-1])
			}
		}
		failEdge := func(b *cfgBlock, k int) bool {
			if werr == nil || len(b.Succs) != 2 || len(b.Nodes) == 0 {
				return false
			}
			e, ok := b.Nodes[len(b.Nodes)-1].(ast.Expr)
			if !ok {
				return false
			}
			for _, a := range cfgx.Atoms(e, k == 0) {
				bb, isBin := ast.Unparen(a.Cond).(*ast.BinaryExpr)
				if !isBin || (bb.Op != token.EQL && bb.Op != token.NEQ) || core.VarOf(info, bb.X) != werr {
					continue
				}
				if id, isID := ast.Unparen(bb.Y).(*ast.Ident); isID && id.Name == "nil" && (bb.Op == token.NEQ) == a.Val {
					// the write failed on this edge: nothing was written, nothing to strike
					if db, _ := reachingDefs(g, werr, cfgx.Point{B: b, I: len(b.Nodes) - 1}); len(db) == 1 && db[0] == wp {
						return true
					}
				}
			}
			return false
		}
		// struck beforehand, in the same iteration: a `delete` for this very file that every path to the write passes
		// (the receiver is the loop's own element, so a strike inside the loop body belongs to this iteration; if the
		// write then fails, the function returns its error and the removal loop is never reached)
		struckBefore := loop != nil && g.DominatedBySome(wp, func(q cfgx.Point) bool {
			n := q.Node()
			if n == nil || n.Pos() < loop.Pos() || n.End() > loop.End() || !isStrike(n, w) {
				return false
			}
			return true
		})
		if struckBefore {
			// only the failing write may come between: every path from the write back to the loop head or out of the
			// function on the success edge is fine by construction; a failed write must leave through an error return
			okFail := true
			if werr == nil {
				okFail = false
			}
			if okFail {
				r.Check(true, rule, f, "a written file is struck from the removal set", w.Pos(), "delete(removalSet, gfile.Filename(args)) dominates the write in the same iteration; a failing write returns its error", "")
				for _, rm := range rms {
					r.Check(!g.CanReach(g.PointOf(rm), wp), rule, f, "removal happens after all writes", rm.Pos(), "no path from RemoveAll to WriteToFile", "a stale-file removal can be followed by a write: a failing write would leave the package without its previous output")
				}
				continue
			}
		}
		_, missed := g.Reach(wp, false, cfgx.Query{
			CutEdge: failEdge,
			Target: func(q cfgx.Point) bool {
				if loop != nil && q.B.Stmt == loop && (q.B.Kind == kindRangeLoop || q.B.Kind == kindRangeDone) {
					return true
				}
				if loop == nil && g.IsExit(q) {
					// a normal exit returning nil
					return true
				}
				return false
			},
			Cut: func(q cfgx.Point) bool {
				if q.Node() != nil && isStrike(q.Node(), w) {
					return true
				}
				// error returns end the obligation
				if ret, ok := q.Node().(*ast.ReturnStmt); ok && len(ret.Results) == 1 {
					if id, ok := ast.Unparen(ret.Results[0]).(*ast.Ident); !ok || id.Name != "nil" {
						return true
					}
				}
				return false
			},
		})
		r.Check(!missed, rule, f, "a written file is struck from the removal set", w.Pos(), "delete(removalSet, gfile.Filename(args)) before the next iteration on the success path",
			"after a successful write the file's name is not removed from the removal set on every path: the file that was just written is deleted as stale")
		for _, rm := range rms {
			r.Check(!g.CanReach(g.PointOf(rm), wp), rule, f, "removal happens after all writes", rm.Pos(), "no path from RemoveAll to WriteToFile", "a stale-file removal can be followed by a write: a failing write would leave the package without its previous output")
		}
	}
}

func c07R5(p *core.Program, r *core.Report) {
	const rule = "R5"
	r.Floor(rule, 7)
	genType := "(" + core.G("pkg/gengo.Generator") + ").GenerateType"
	genAlias := "(" + core.G("pkg/gengo.AliasGenerator") + ").GenerateAliasType"
	var sibs []*core.Func
	for _, cs := range callersOf(p, genType, genAlias) {
		if core.RelPkg(cs.In.Pkg.PkgPath) == "pkg/gengo" {
			sibs = append(sibs, flatten(p, cs.In.Root())) // a shared error-handling tail is seen in place
		}
	}
	if len(sibs) != 2 {
		r.Anchor(rule, "the two dispatch functions invoking Generator.GenerateType / AliasGenerator.GenerateAliasType (found "+itoa(int64(len(sibs)))+")")
		return
	}
	for _, f := range sibs {
		info := f.Info()
		g := graph(f)
		sentinel := func(fct cfgx.Fact) string {
			c := core.AsCall(info, fct.Cond, "errors.Is")
			if c == nil || len(c.Args) != 2 {
				return ""
			}
			if id, ok := ast.Unparen(c.Args[1]).(*ast.Ident); ok {
				if v, ok := info.ObjectOf(id).(*types.Var); ok && v.Pkg() != nil && v.Parent() == v.Pkg().Scope() {
					return v.Name()
				}
			}
			return ""
		}
		// ignore flag set under ErrIgnore
		setIgnore := false
		ast.Inspect(f.Body, func(n ast.Node) bool {
			as, ok := n.(*ast.AssignStmt)
			if !ok || len(as.Lhs) != 1 {
				return true
			}
			fld := core.FieldOf(info, as.Lhs[0])
			if !isRole(p, fld, "ctx.ignore") {
				return true
			}
			tv := info.Types[as.Rhs[0]]
			if tv.Value == nil || tv.Value.String() != "true" {
				return true
			}
			if !sameAlias(f, as.Lhs[0].(*ast.SelectorExpr).X, recvVar(f)) {
				return true
			}
			for _, fct := range g.FactsAt(g.PointOf(as)) {
				if fct.Val && sentinel(fct) == "ErrIgnore" {
					setIgnore = true
				}
			}
			return true
		})
		r.Check(setIgnore, rule, f, "ErrIgnore marks the context as 'ignore' (keeps the previous file of an empty generator)", f.Node().Pos(), "c.ignore = true under errors.Is(err, ErrIgnore)",
			"this dispatcher swallows ErrIgnore without setting the ignore flag that its sibling sets: a generator that signalled ErrIgnore and rendered nothing gets its previous file deleted as stale")
		// returns: nil under ErrSkip / ErrIgnore, err otherwise
		var skipNil, ignoreNil, propagate bool
		for _, rp := range g.Points(func(n ast.Node) bool { _, ok := n.(*ast.ReturnStmt); return ok }) {
			ret := rp.Node().(*ast.ReturnStmt)
			if len(ret.Results) != 1 {
				continue
			}
			isNil := false
			if id, ok := ast.Unparen(ret.Results[0]).(*ast.Ident); ok && id.Name == "nil" {
				isNil = true
			}
			facts := g.FactsAt(rp)
			for _, fct := range facts {
				switch s := sentinel(fct); {
				case s == "ErrSkip" && fct.Val && isNil:
					skipNil = true
				case s == "ErrIgnore" && fct.Val && isNil:
					ignoreNil = true
				}
			}
			if !isNil {
				notSkip, notIgnore := false, false
				for _, fct := range facts {
					if s := sentinel(fct); s == "ErrSkip" && !fct.Val {
						notSkip = true
					} else if s == "ErrIgnore" && !fct.Val {
						notIgnore = true
					}
				}
				if notSkip && notIgnore {
					propagate = true
				}
			}
		}
		r.Check(skipNil && ignoreNil, rule, f, "ErrSkip and ErrIgnore are treated as success", f.Node().Pos(), "return nil under errors.Is(err, ErrSkip) / errors.Is(err, ErrIgnore)", "the dispatcher does not return nil for both sentinels like its sibling")
		r.Check(propagate, rule, f, "every other generator error is propagated", f.Node().Pos(), "return err when neither sentinel matches", "a non-sentinel generator error is not returned")
	}
	// IsZero reads the flag
	iz := ctxMethod(p, "IsZero")
	okIZ := false
	if iz != nil && len(iz.Body.List) == 1 {
		if ret, ok := iz.Body.List[0].(*ast.ReturnStmt); ok && len(ret.Results) == 1 {
			atoms := cfgx.Atoms(ret.Results[0], true)
			a, b := false, false
			for _, at := range atoms {
				if fld := core.FieldOf(iz.Info(), at.Cond); isRole(p, fld, "ctx.ignore") && !at.Val {
					a = true
				}
				if c, ok := ast.Unparen(at.Cond).(*ast.CallExpr); ok && strings.HasSuffix(core.CalleeName(iz.Info(), c), "genfile).IsZero") && at.Val {
					b = true
				}
			}
			okIZ = a && b && len(atoms) == 2
		}
	}
	r.Check(okIZ, rule, iz, "the context is 'zero' iff nothing was rendered and ignore is not set", token.NoPos, "return genfile.IsZero() && !ignore", "IsZero is not `genfile.IsZero() && !ignore`: an ignoring generator's previous file is not protected (or empty files are written)")
}

// boolAtoms evaluates a condition over named boolean atoms.
func evalBool(e ast.Expr, atom func(ast.Expr) (string, bool), env map[string]bool) (val bool, ok bool) {
	e = ast.Unparen(e)
	if name, isAtom := atom(e); isAtom {
		return env[name], true
	}
	switch x := e.(type) {
	case *ast.UnaryExpr:
		if x.Op == token.NOT {
			v, ok := evalBool(x.X, atom, env)
			return !v, ok
		}
	case *ast.BinaryExpr:
		if x.Op == token.LAND || x.Op == token.LOR {
			l, lok := evalBool(x.X, atom, env)
			rr, rok := evalBool(x.Y, atom, env)
			if !lok || !rok {
				return false, false
			}
			if x.Op == token.LAND {
				return l && rr, true
			}
			return l || rr, true
		}
	}
	return false, false
}

func c07R6(p *core.Program, r *core.Report, pl *pipeline) {
	const rule = "R6"
	r.Floor(rule, 3)
	e := pl.execute
	info := e.Info()
	g := graph(e)
	var call *ast.CallExpr
	for _, c := range core.Calls(e.Body, true) {
		if core.CalleeFunc(info, c) == pl.pkgExec.Obj() {
			call = c
		}
	}
	if call == nil {
		r.Anchor(rule, "call of the per-package function in Execute")
		return
	}
	// enclosing loop over LocalPkgPaths, second value = direct
	var direct *types.Var
	var loop *ast.RangeStmt
	pth := core.PathTo(e.Body, call)
	for k := len(pth) - 1; k >= 0; k-- {
		if rs, ok := pth[k].(*ast.RangeStmt); ok {
			seqX, _ := core.Resolve(info, e.Body, rs.X)
			isLocalPkgs := false
			if sc, isCall := ast.Unparen(seqX).(*ast.CallExpr); isCall && strings.HasSuffix(core.CalleeName(info, sc), core.G("pkg/types.Universe")+").LocalPkgPaths") {
				isLocalPkgs = true // by callee: whatever the iterator's body is made of
			}
			if isLocalPkgs || strings.HasSuffix(canonBase(p, e, rs.X, 0), ".LocalPkgPaths()") {
				loop = rs
				direct = core.VarOf(info, rs.Value)
			}
			break
		}
	}
	if loop == nil || direct == nil {
		r.Bad(rule, e, "packages are executed from the universe's local package list", call.Pos(), "the per-package call is not inside `for pkgPath, direct := range universe.LocalPkgPaths()`")
		return
	}
	r.Check(core.VarOf(info, call.Args[1]) == core.VarOf(info, loop.Key) && loop.Key != nil, rule, e, "the executed package is the iterated one", call.Pos(), "argument is the range key", "the per-package function is called with another package than the iterated one")
	atom := func(x ast.Expr) (string, bool) {
		if fld := core.FieldOf(info, x); fld != nil && fld.Name() == "All" {
			return "All", true
		}
		if core.VarOf(info, x) == direct {
			return "direct", true
		}
		return "", false
	}
	// branches inside the loop that dominate the call
	at := g.PointOf(call)
	type cond struct {
		e   ast.Expr
		val bool
	}
	var conds []cond
	undecided := false
	for _, br := range g.Branches() {
		if !(loop.Body.Pos() <= br.Cond.Pos() && br.Cond.End() <= loop.Body.End()) {
			continue
		}
		for k := 0; k < 2; k++ {
			if g.EdgeDominates(br.B, k, at) {
				if _, ok := evalBool(br.Cond, atom, map[string]bool{}); !ok {
					undecided = true
				}
				conds = append(conds, cond{br.Cond, k == 0})
			}
		}
	}
	good := !undecided
	for _, all := range []bool{false, true} {
		for _, dir := range []bool{false, true} {
			env := map[string]bool{"All": all, "direct": dir}
			reach := true
			for _, c := range conds {
				v, _ := evalBool(c.e, atom, env)
				if v != c.val {
					reach = false
				}
			}
			if reach != (all || dir) {
				good = false
			}
		}
	}
	r.Check(good, rule, e, "a package is executed iff All is set or it was requested directly", call.Pos(), "truth table of the dominating conditions over (All, direct) equals All || direct",
		"the conditions guarding the per-package call are not equivalent to `All || direct`: packages that were not selected are processed (their files rewritten/removed) or selected ones are skipped")

	// local packages = packages of the requested packages' modules
	load := p.FuncByName("pkg/types", "Load")
	if load == nil {
		r.Anchor(rule, "pkg/types.Load")
		return
	}
	for _, f := range p.Funcs() {
		if f.Root() != load {
			continue
		}
		finfo := f.Info()
		fg := graph(f)
		ast.Inspect(f.Body, func(n ast.Node) bool {
			if lit, ok := n.(*ast.FuncLit); ok && lit != f.Lit {
				return false
			}
			as, ok := n.(*ast.AssignStmt)
			if !ok || len(as.Lhs) != 1 {
				return true
			}
			ix, ok := ast.Unparen(as.Lhs[0]).(*ast.IndexExpr)
			if !ok {
				return true
			}
			v := core.VarOf(finfo, ix.X)
			if v == nil {
				return true
			}
			switch v.Name() {
			case "localPkgPaths":
				okGuard := false
				for _, fct := range fg.FactsAt(fg.PointOf(as)) {
					// membership form: rootPkgPaths[p.Module.Path] is true
					if ix, isIx := ast.Unparen(fct.Cond).(*ast.IndexExpr); isIx && fct.Val {
						if rv := core.VarOf(finfo, ix.X); rv != nil && rv.Name() == "rootPkgPaths" && strings.HasSuffix(canonBase(p, f, ix.Index, 0), ".Module.Path") {
							okGuard = true
						}
					}
					b, isBin := ast.Unparen(fct.Cond).(*ast.BinaryExpr)
					if isBin && b.Op == token.EQL && fct.Val {
						l, rr := canonBase(p, f, b.X, 0), canonBase(p, f, b.Y, 0)
						if strings.HasSuffix(l, ".Module.Path") || strings.HasSuffix(rr, ".Module.Path") {
							// the other side ranges over rootPkgPaths
							for _, side := range []ast.Expr{b.X, b.Y} {
								if sv := core.VarOf(finfo, side); sv != nil {
									if d, ok := core.SingleDef(finfo, f.Body, sv); ok && d.Kind == "range-key" {
										if rv := core.VarOf(finfo, d.Rhs); rv != nil && rv.Name() == "rootPkgPaths" {
											okGuard = true
										}
									}
								}
							}
						}
					}
				}
				r.Check(okGuard, rule, f, "a package is local only if its module is a requested package's module", as.Pos(), "store dominated by rootPkgPath == p.Module.Path", "packages of other modules (dependencies) can be marked local and would be generated into")
			case "rootPkgPaths":
				s := canonBase(p, f, ix.Index, 0)
				r.Check(strings.HasSuffix(s, ".Module.Path"), rule, f, "root modules are the modules of the requested packages", as.Pos(), "rootPkgPaths[p.Module.Path] = true", "the set of root modules is filled from something else than the requested packages' Module.Path")
			}
			return true
		})
	}
}

// c07R9: "afterwards the directory holds exactly the files of the generators that rendered something": once the previous
// outputs of the package have been listed, every successful way out of the per-package function passes the loop that
// removes what is left of that list (or the edge on which the list is known to be empty). An early success return between
// the listing and the removal - a shortcut for "nothing to do" - leaves stale outputs behind.
func c07R9(p *core.Program, r *core.Report, pl *pipeline) {
	const rule = "R9"
	r.Floor(rule, 1)
	f := pl.pkgExec
	info := f.Info()
	g := graph(f)
	// the removal loop: a range statement whose body removes files
	var loop *ast.RangeStmt
	var stale *types.Var
	ast.Inspect(f.Body, func(n ast.Node) bool {
		rs, ok := n.(*ast.RangeStmt)
		if !ok {
			return true
		}
		for _, c := range core.Calls(rs.Body, true) {
			switch core.CalleeName(info, c) {
			case "os.RemoveAll", "os.Remove":
				if v := core.VarOf(info, rs.X); v != nil && isMapType(v.Type()) {
					loop, stale = rs, v
				}
			}
		}
		return true
	})
	if loop == nil || stale == nil {
		r.Anchor(rule, "the loop of the per-package function that removes the remaining previous outputs")
		return
	}
	// the listing starts where the list is made
	defs := core.DefsOf(info, f.Body, stale)
	if len(defs) != 1 || defs[0].Stmt == nil {
		r.Anchor(rule, "single definition of the list of previous outputs")
		return
	}
	start := g.PointOf(defs[0].Stmt)
	isNilResult := func(ret *ast.ReturnStmt) bool {
		if len(ret.Results) == 0 {
			return true // named result: judged as success unless it was assigned (conservative: success)
		}
		if len(ret.Results) != 1 {
			return false
		}
		return constNil(info, ret.Results[0])
	}
	at, escapes := g.Reach(start, false, cfgxQuery{
		Target: func(q cfgxPoint) bool {
			if ret, ok := q.Node().(*ast.ReturnStmt); ok {
				return isNilResult(ret)
			}
			return false
		},
		Cut: func(q cfgxPoint) bool {
			return q.B.Stmt == ast.Stmt(loop) && (q.B.Kind == kindRangeLoop || q.B.Kind == kindRangeBody)
		},
		CutEdge: func(b *cfgBlock, k int) bool {
			// the edge on which the list is empty: nothing to remove
			if len(b.Succs) != 2 || len(b.Nodes) == 0 {
				return false
			}
			e, ok := b.Nodes[len(b.Nodes)-1].(ast.Expr)
			if !ok {
				return false
			}
			for _, a := range cfgxAtoms(e, k == 0) {
				// len(stale) > 0 false, len(stale) == 0 true, …
				x, op, c, ok := cmpConst(info, a.Cond)
				if !ok || a.Tag != nil {
					continue
				}
				lc, isCall := ast.Unparen(x).(*ast.CallExpr)
				if !isCall || core.CalleeName(info, lc) != "builtin.len" || len(lc.Args) != 1 || core.VarOf(info, lc.Args[0]) != stale {
					continue
				}
				if !a.Val {
					op = negate(op)
				}
				if (op == token.EQL && c == 0) || (op == token.LEQ && c == 0) || (op == token.LSS && c == 1) {
					return true
				}
			}
			return false
		},
	})
	why := ""
	if escapes {
		why = "the per-package function can return successfully at " + p.Pos(at.Node().Pos()) + " after the previous outputs were listed and before the rest of the list is removed: outputs of generators that rendered nothing this time stay in the directory"
	}
	r.Check(!escapes, rule, f, "every successful return passes the removal of the remaining previous outputs", loop.Pos(), "must-pass-through from the listing to every `return nil`", why)
}
