package rules

import (
	"go/ast"
	"go/token"
	"go/types"
	"strings"

	"gengoverif/checker/internal/core"
)

// A2: sources of schedule-dependent order.

type OrderSource struct {
	Kind string // map-range, syncmap-range, reflect-mapkeys, maps-iter, select, go, time, rand
	What string
	Pos  token.Pos
	Node ast.Node
}

func isMapType(t types.Type) bool {
	if t == nil {
		return false
	}
	_, ok := t.Underlying().(*types.Map)
	return ok
}

// orderSources enumerates the order sources in the body of f (nested
// literals excluded: they are functions of their own).
func orderSources(f *core.Func) []OrderSource {
	info := f.Info()
	var out []OrderSource
	if f.Body == nil {
		return nil
	}
	sortedWrapped := map[ast.Node]bool{}
	ast.Inspect(f.Body, func(n ast.Node) bool {
		if lit, ok := n.(*ast.FuncLit); ok && lit != f.Lit {
			return false
		}
		switch x := n.(type) {
		case *ast.RangeStmt:
			t := info.TypeOf(x.X)
			if isMapType(t) {
				out = append(out, OrderSource{"map-range", "range over map " + core.ExprStr(x.X), x.Pos(), x})
			}
			// range over a method value (*sync.Map).Range
			if sel, ok := ast.Unparen(x.X).(*ast.SelectorExpr); ok {
				if fn, ok := info.ObjectOf(sel.Sel).(*types.Func); ok && fn.FullName() == "(*sync.Map).Range" {
					out = append(out, OrderSource{"syncmap-range", "range over sync.Map " + core.ExprStr(sel.X), x.Pos(), x})
				}
			}
		case *ast.CallExpr:
			name := core.CalleeName(info, x)
			switch {
			case name == "slices.Sorted" || name == "slices.SortedFunc" || name == "slices.SortedStableFunc":
				if len(x.Args) >= 1 && naturalSort(info, x) {
					if inner, ok := ast.Unparen(x.Args[0]).(*ast.CallExpr); ok {
						sortedWrapped[inner] = true
					}
				}
			case name == "(*sync.Map).Range":
				out = append(out, OrderSource{"syncmap-range", "sync.Map.Range " + core.ExprStr(recvOf(x)), x.Pos(), x})
			case name == "(reflect.Value).MapKeys" || name == "(reflect.Value).MapRange":
				out = append(out, OrderSource{"reflect-mapkeys", core.ExprStr(x), x.Pos(), x})
			case name == "maps.Keys" || name == "maps.Values" || name == "maps.All":
				if !sortedWrapped[x] {
					out = append(out, OrderSource{"maps-iter", core.ExprStr(x) + " not directly wrapped in slices.Sorted (or sorted with a comparator other than the keys' natural order: ties keep map order, and keys such as token.Pos depend on the parse schedule)", x.Pos(), x})
				} else {
					out = append(out, OrderSource{"maps-sorted", "slices.Sorted(" + core.ExprStr(x) + ")", x.Pos(), x})
				}
			case name == "time.Now" || name == "time.Since":
				out = append(out, OrderSource{"time", core.ExprStr(x), x.Pos(), x})
			case strings.HasPrefix(name, "math/rand.") || strings.HasPrefix(name, "math/rand/v2.") || strings.HasPrefix(name, "crypto/rand."):
				out = append(out, OrderSource{"rand", core.ExprStr(x), x.Pos(), x})
			}
		case *ast.SelectStmt:
			if len(x.Body.List) > 1 {
				out = append(out, OrderSource{"select", "select with several cases", x.Pos(), x})
			}
		case *ast.GoStmt:
			out = append(out, OrderSource{"go", "go " + core.ExprStr(x.Call), x.Pos(), x})
		}
		return true
	})
	return out
}

var sortCallees = map[string]bool{
	"sort.Strings": true, "sort.Ints": true, "sort.Float64s": true, "sort.Slice": true, "sort.SliceStable": true,
	"sort.Sort": true, "sort.Stable": true, "slices.Sort": true, "slices.SortFunc": true, "slices.SortStableFunc": true,
}

// isSortOf: node contains a sorting call whose first operand mentions x and
// whose order is the natural order of the elements (see naturalSort).
func isSortOf(info *types.Info, n ast.Node, x *types.Var) bool {
	for _, c := range core.Calls(n, true) {
		if sortCallees[core.CalleeName(info, c)] && len(c.Args) >= 1 && core.Mentions(info, c.Args[0], x) && naturalSort(info, c) {
			return true
		}
		// sort.StringSlice(x).Sort(): what sort.Strings(x) and sort.Sort(sort.StringSlice(x)) are defined as
		switch core.CalleeName(info, c) {
		case "(sort.StringSlice).Sort", "(sort.IntSlice).Sort", "(sort.Float64Slice).Sort":
			if rc := recvOf(c); rc != nil && core.Mentions(info, rc, x) {
				return true
			}
		}
	}
	return false
}

// naturalSort: the sorting call orders its elements by their own value with a
// total order: sort.Strings/Ints/Float64s, slices.Sort/Sorted, sort.Sort/Stable
// of a sort.StringSlice/IntSlice/Float64Slice, or a comparator that is literally
// the elements' natural comparison (cmp.Compare / strings.Compare / a < b on the
// two elements, either direction). Any other comparator is not accepted as
// establishing a schedule-independent order: elements that compare equal keep
// the order of the (unordered) input, and keys such as token.Pos or pointers
// depend on the schedule themselves.
func naturalSort(info *types.Info, c *ast.CallExpr) bool {
	name := core.CalleeName(info, c)
	switch name {
	case "sort.Strings", "sort.Ints", "sort.Float64s", "slices.Sort", "slices.Sorted":
		return true
	case "sort.Sort", "sort.Stable":
		if len(c.Args) != 1 {
			return false
		}
		a := ast.Unparen(c.Args[0])
		if rc, ok := a.(*ast.CallExpr); ok && core.CalleeName(info, rc) == "sort.Reverse" && len(rc.Args) == 1 {
			a = ast.Unparen(rc.Args[0])
		}
		switch core.NamedTypeName(info.TypeOf(a)) {
		case "sort.StringSlice", "sort.IntSlice", "sort.Float64Slice":
			return true
		}
		return false
	case "sort.Slice", "sort.SliceStable":
		if len(c.Args) != 2 {
			return false
		}
		lit, ok := ast.Unparen(c.Args[1]).(*ast.FuncLit)
		if !ok || len(lit.Body.List) != 1 {
			return false
		}
		ret, ok := lit.Body.List[0].(*ast.ReturnStmt)
		if !ok || len(ret.Results) != 1 {
			return false
		}
		b, ok := ast.Unparen(ret.Results[0]).(*ast.BinaryExpr)
		if !ok || (b.Op != token.LSS && b.Op != token.GTR) {
			return false
		}
		var ps []*types.Var
		for _, fld := range lit.Type.Params.List {
			for _, n := range fld.Names {
				v, _ := info.ObjectOf(n).(*types.Var)
				ps = append(ps, v)
			}
		}
		if len(ps) != 2 {
			return false
		}
		elem := func(e ast.Expr, p *types.Var) bool {
			ix, ok := ast.Unparen(e).(*ast.IndexExpr)
			return ok && core.SameRef(info, ix.X, c.Args[0]) && core.VarOf(info, ix.Index) == p
		}
		return (elem(b.X, ps[0]) && elem(b.Y, ps[1])) || (elem(b.X, ps[1]) && elem(b.Y, ps[0]))
	case "slices.SortFunc", "slices.SortStableFunc", "slices.SortedFunc", "slices.SortedStableFunc":
		if len(c.Args) != 2 {
			return false
		}
		isCmp := func(e ast.Expr) bool {
			e = ast.Unparen(e)
			if ix, ok := e.(*ast.IndexExpr); ok {
				e = ix.X
			}
			var id *ast.Ident
			switch x := e.(type) {
			case *ast.Ident:
				id = x
			case *ast.SelectorExpr:
				id = x.Sel
			}
			if id == nil {
				return false
			}
			fn, ok := info.ObjectOf(id).(*types.Func)
			return ok && (fn.FullName() == "cmp.Compare" || fn.FullName() == "strings.Compare" || fn.FullName() == "bytes.Compare")
		}
		if isCmp(c.Args[1]) {
			return true
		}
		lit, ok := ast.Unparen(c.Args[1]).(*ast.FuncLit)
		if !ok || len(lit.Body.List) != 1 {
			return false
		}
		ret, ok := lit.Body.List[0].(*ast.ReturnStmt)
		if !ok || len(ret.Results) != 1 {
			return false
		}
		cc, ok := ast.Unparen(ret.Results[0]).(*ast.CallExpr)
		if !ok || !isCmp(cc.Fun) || len(cc.Args) != 2 {
			return false
		}
		var ps []*types.Var
		for _, fld := range lit.Type.Params.List {
			for _, n := range fld.Names {
				v, _ := info.ObjectOf(n).(*types.Var)
				ps = append(ps, v)
			}
		}
		if len(ps) != 2 {
			return false
		}
		a0, a1 := core.VarOf(info, cc.Args[0]), core.VarOf(info, cc.Args[1])
		return a0 != nil && a1 != nil && ((a0 == ps[0] && a1 == ps[1]) || (a0 == ps[1] && a1 == ps[0]))
	}
	return false
}

// loopBodyShape classifies the statements of a range body over an unordered
// source: it returns the slices that collect elements (I1) and whether every
// other statement is a keyed store / local definition (I3-compatible).
type bodyShape struct {
	Collected []*types.Var
	KeyedOnly bool            // every effect is `dst[K] = V` / delete / local definition / collect
	Other     []string        // statements outside the accepted shapes
	Calls     []*ast.CallExpr // every call evaluated by the body (right-hand sides, definitions, conditions included)
}

func rangeBodyShape(info *types.Info, rs *ast.RangeStmt) bodyShape {
	sh := bodyShape{KeyedOnly: true}
	var visit func(list []ast.Stmt)
	visit = func(list []ast.Stmt) {
		for _, s := range list {
			switch x := s.(type) {
			case *ast.AssignStmt:
				if x.Tok == token.DEFINE {
					continue
				}
				ok := true
				for i, l := range x.Lhs {
					if id, isID := l.(*ast.Ident); isID && id.Name == "_" {
						continue
					}
					if v := core.VarOf(info, l); v != nil && len(x.Rhs) == len(x.Lhs) {
						if c, isCall := ast.Unparen(x.Rhs[i]).(*ast.CallExpr); isCall && core.CalleeName(info, c) == "builtin.append" && len(c.Args) >= 1 && core.VarOf(info, c.Args[0]) == v {
							sh.Collected = append(sh.Collected, v)
							continue
						}
						ok = false
						continue
					}
					if ix, isIx := ast.Unparen(l).(*ast.IndexExpr); isIx && isMapType(info.TypeOf(ix.X)) {
						// keyed store; append into a keyed slot makes the order observable
						if len(x.Rhs) == len(x.Lhs) {
							if c, isCall := ast.Unparen(x.Rhs[i]).(*ast.CallExpr); isCall && core.CalleeName(info, c) == "builtin.append" {
								ok = false
							}
						}
						continue
					}
					ok = false
				}
				if !ok {
					sh.KeyedOnly = false
					sh.Other = append(sh.Other, core.ExprStr(x))
				}
			case *ast.DeclStmt, *ast.EmptyStmt:
			case *ast.ExprStmt:
				if c, ok := x.X.(*ast.CallExpr); ok && core.CalleeName(info, c) == "builtin.delete" {
					continue
				}
				sh.KeyedOnly = false
				sh.Other = append(sh.Other, core.ExprStr(x))
			case *ast.IfStmt:
				visit(x.Body.List)
				if x.Else != nil {
					if b, ok := x.Else.(*ast.BlockStmt); ok {
						visit(b.List)
					} else {
						visit([]ast.Stmt{x.Else})
					}
				}
			case *ast.BlockStmt:
				visit(x.List)
			case *ast.BranchStmt:
				if x.Tok != token.CONTINUE {
					sh.KeyedOnly = false
					sh.Other = append(sh.Other, x.Tok.String())
				}
			default:
				sh.KeyedOnly = false
				sh.Other = append(sh.Other, core.ExprStr(s))
			}
		}
	}
	visit(rs.Body.List)
	sh.Calls = core.Calls(rs.Body, false)
	return sh
}

// pureLibPrefixes: library callees that neither keep nor change state outside their arguments' own values.
var pureLibPrefixes = []string{
	"strings.", "strconv.", "path.", "path/filepath.", "unicode.", "unicode/utf8.", "slices.", "maps.", "sort.", "math.", "errors.", "bytes.", "cmp.",
	"fmt.Sprint", "fmt.Errorf", "go/token.", "go/ast.", "go/types.", "(go/types.", "(*go/types.", "(go/token.", "(*go/token.", "(*go/ast.", "(go/ast.",
	"reflect.", "(reflect.", "(*reflect.", "regexp.", "(*regexp.Regexp).", "(error).", "(*strings.Builder).", "(*strings.Replacer).", "(time.Duration).", "(go/constant.", "go/constant.",
	"(*golang.org/x/tools/go/packages.", "golang.org/x/mod/",
}

// orderFreeCall: evaluating the call cannot make the order of the surrounding iteration observable - the callee and
// everything it calls (through the bodies in scope) makes no dynamic call, starts nothing concurrent and writes only
// its own locals; callees outside the module are accepted from a list of stateless library packages. The point is
// hidden shared state: rendering a snippet registers imports in the file's tracker in arrival order.
func orderFreeCall(p *core.Program, info *types.Info, c *ast.CallExpr, depth int, seen map[*types.Func]bool) (bool, string) {
	if tv, ok := info.Types[c.Fun]; ok && tv.IsType() {
		return true, ""
	}
	name := core.CalleeName(info, c)
	if strings.HasPrefix(name, "builtin.") {
		return true, ""
	}
	fn := core.CalleeFunc(info, c)
	if fn == nil {
		return false, "`" + core.ExprStr(c) + "` is a call through a function value"
	}
	for _, pre := range pureLibPrefixes {
		if strings.HasPrefix(name, pre) {
			return true, ""
		}
	}
	if sig, ok := fn.Type().(*types.Signature); ok && sig.Recv() != nil {
		if _, isIface := sig.Recv().Type().Underlying().(*types.Interface); isIface {
			return false, "`" + core.ExprStr(c) + "` is a call through the interface method " + name
		}
	}
	f := p.FuncOfObj(fn)
	if f == nil || f.Body == nil {
		return false, "`" + core.ExprStr(c) + "` calls " + name + ", whose effects are not known"
	}
	if seen[fn] {
		return true, ""
	}
	seen[fn] = true
	if depth > 6 {
		return false, "call chain below " + name + " is too deep to follow"
	}
	finfo := f.Info()
	good, why := true, ""
	ast.Inspect(f.Body, func(n ast.Node) bool {
		if !good {
			return false
		}
		rootLocal := func(e ast.Expr) bool {
			for {
				switch x := ast.Unparen(e).(type) {
				case *ast.IndexExpr:
					e = x.X
				case *ast.SelectorExpr:
					e = x.X
				case *ast.StarExpr:
					e = x.X
				case *ast.Ident:
					if x.Name == "_" {
						return true
					}
					v, ok := finfo.ObjectOf(x).(*types.Var)
					return ok && core.DeclaredIn(finfo, f.Body, v) && ast.Unparen(e) == ast.Expr(x)
				default:
					return false
				}
			}
		}
		switch x := n.(type) {
		case *ast.AssignStmt:
			for _, l := range x.Lhs {
				if id, ok := ast.Unparen(l).(*ast.Ident); ok {
					if v, isV := finfo.ObjectOf(id).(*types.Var); id.Name == "_" || (isV && (v.Parent() == nil || v.Pkg() == nil || v.Parent() != v.Pkg().Scope())) {
						continue // a local, a parameter or a result of the callee
					}
				}
				if !rootLocal(l) {
					good, why = false, name+" writes `"+core.ExprStr(l)+"`, state that outlives the call"
				}
			}
		case *ast.IncDecStmt:
			if _, ok := ast.Unparen(x.X).(*ast.Ident); !ok && !rootLocal(x.X) {
				good, why = false, name+" writes `"+core.ExprStr(x.X)+"`, state that outlives the call"
			}
		case *ast.GoStmt, *ast.SelectStmt, *ast.SendStmt:
			good, why = false, name+" communicates or starts a goroutine"
		case *ast.CallExpr:
			if ok, w := orderFreeCall(p, finfo, x, depth+1, seen); !ok {
				good, why = false, w+" (reached from "+name+")"
			}
		}
		return good
	})
	return good, why
}

// sortedBeforeUse: after the loop every path sorts x before any other mention.
func sortedBeforeUse(f *core.Func, rs *ast.RangeStmt, x *types.Var) (bool, string) {
	g := graph(f)
	info := f.Info()
	done := g.BlockOf(kindRangeDone, rs)
	if done == nil {
		return false, "loop exit not found"
	}
	tp, found := g.Reach(cfgxPoint{B: done, I: 0}, true, cfgxQuery{
		Target: func(q cfgxPoint) bool {
			n := q.Node()
			return n != nil && core.Mentions(info, n, x) && !isSortOf(info, n, x)
		},
		Cut: func(q cfgxPoint) bool { return q.Node() != nil && isSortOf(info, q.Node(), x) },
	})
	if found {
		return false, "`" + core.ExprStr(tp.Node()) + "` uses " + x.Name() + " before it is sorted"
	}
	// and it is sorted at all if used
	return true, ""
}

// sortedKeysOperand: e is (a local defined as) slices.Sorted(maps.Keys(M)); returns M.
func sortedKeysOperand(info *types.Info, body ast.Node, e ast.Expr) ast.Expr {
	e, _ = core.Resolve(info, body, e)
	c := core.AsCall(info, e, "slices.Sorted")
	if c == nil || len(c.Args) != 1 {
		return nil
	}
	kc := core.AsCall(info, c.Args[0], "maps.Keys")
	if kc == nil || len(kc.Args) != 1 {
		return nil
	}
	return kc.Args[0]
}
