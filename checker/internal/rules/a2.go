package rules

import (
	"go/ast"
	"go/token"
	"go/types"
	"strings"

	"gengoverif/checker/internal/core"
)

// A2: sources of schedule-dependent order.

type OrderSource struct {
	Kind string // map-range, syncmap-range, reflect-mapkeys, maps-iter, select, go, time, rand
	What string
	Pos  token.Pos
	Node ast.Node
}

func isMapType(t types.Type) bool {
	if t == nil {
		return false
	}
	_, ok := t.Underlying().(*types.Map)
	return ok
}

// orderSources enumerates the order sources in the body of f (nested
// literals excluded: they are functions of their own).
func orderSources(f *core.Func) []OrderSource {
	info := f.Info()
	var out []OrderSource
	if f.Body == nil {
		return nil
	}
	sortedWrapped := map[ast.Node]bool{}
	ast.Inspect(f.Body, func(n ast.Node) bool {
		if lit, ok := n.(*ast.FuncLit); ok && lit != f.Lit {
			return false
		}
		switch x := n.(type) {
		case *ast.RangeStmt:
			t := info.TypeOf(x.X)
			if isMapType(t) {
				out = append(out, OrderSource{"map-range", "range over map " + core.ExprStr(x.X), x.Pos(), x})
			}
			// range over a method value (*sync.Map).Range
			if sel, ok := ast.Unparen(x.X).(*ast.SelectorExpr); ok {
				if fn, ok := info.ObjectOf(sel.Sel).(*types.Func); ok && fn.FullName() == "(*sync.Map).Range" {
					out = append(out, OrderSource{"syncmap-range", "range over sync.Map " + core.ExprStr(sel.X), x.Pos(), x})
				}
			}
		case *ast.CallExpr:
			name := core.CalleeName(info, x)
			switch {
			case name == "slices.Sorted" || name == "slices.SortedFunc" || name == "slices.SortedStableFunc":
				if len(x.Args) >= 1 {
					if inner, ok := ast.Unparen(x.Args[0]).(*ast.CallExpr); ok {
						sortedWrapped[inner] = true
					}
				}
			case name == "(*sync.Map).Range":
				out = append(out, OrderSource{"syncmap-range", "sync.Map.Range " + core.ExprStr(recvOf(x)), x.Pos(), x})
			case name == "(reflect.Value).MapKeys" || name == "(reflect.Value).MapRange":
				out = append(out, OrderSource{"reflect-mapkeys", core.ExprStr(x), x.Pos(), x})
			case name == "maps.Keys" || name == "maps.Values" || name == "maps.All":
				if !sortedWrapped[x] {
					out = append(out, OrderSource{"maps-iter", core.ExprStr(x) + " not directly wrapped in slices.Sorted", x.Pos(), x})
				} else {
					out = append(out, OrderSource{"maps-sorted", "slices.Sorted(" + core.ExprStr(x) + ")", x.Pos(), x})
				}
			case name == "time.Now" || name == "time.Since":
				out = append(out, OrderSource{"time", core.ExprStr(x), x.Pos(), x})
			case strings.HasPrefix(name, "math/rand.") || strings.HasPrefix(name, "math/rand/v2.") || strings.HasPrefix(name, "crypto/rand."):
				out = append(out, OrderSource{"rand", core.ExprStr(x), x.Pos(), x})
			}
		case *ast.SelectStmt:
			if len(x.Body.List) > 1 {
				out = append(out, OrderSource{"select", "select with several cases", x.Pos(), x})
			}
		case *ast.GoStmt:
			out = append(out, OrderSource{"go", "go " + core.ExprStr(x.Call), x.Pos(), x})
		}
		return true
	})
	return out
}
