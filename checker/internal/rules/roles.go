package rules

import (
	"go/ast"
	"go/constant"
	"go/token"
	"go/types"
	"strings"

	"gengoverif/checker/internal/core"
)

// Field roles. Unexported fields are identified by what they are - the struct
// that owns them (itself found by its exported methods) and their type - not by
// their name, so renaming an unexported field, type or method is not an alarm.
//
//	ctx.callbacks   []func(Context) error on the context type (the receiver of Execute)
//	ctx.ignore      the bool on the context type
//	ctx.sumFile     *sumfile.File on the context type
//	ctx.pkgTags     map[string][]string on the context type
//	ctx.genfile     pointer to the file type (the struct with a WriteToFile method)
//	ctx.logger      logr.Logger on the context type
//	file.body       *bytes.Buffer on the file type
//	file.imports    namer.ImportTracker on the file type
//	file.name       the string on the file type
//	tracker.byPath  the map the tracker's Imports() returns
//	tracker.byName  the other map[string]string of the tracker
//	namer.pkgPath   the string of the namer type (the struct with a processName-like rewriter: owner of Name())
//	logger.started  time.Time on the logger type (Start/End)

var roleCache = map[*types.Var]string{}

// ownerOf: the named struct type (of the field's package) that declares fld.
func ownerOf(fld *types.Var) *types.TypeName {
	if fld == nil || !fld.IsField() || fld.Pkg() == nil {
		return nil
	}
	sc := fld.Pkg().Scope()
	for _, n := range sc.Names() {
		tn, ok := sc.Lookup(n).(*types.TypeName)
		if !ok {
			continue
		}
		st, ok := tn.Type().Underlying().(*types.Struct)
		if !ok {
			continue
		}
		for i := 0; i < st.NumFields(); i++ {
			if st.Field(i) == fld {
				return tn
			}
		}
	}
	return nil
}

func hasMethodNamed(tn *types.TypeName, names ...string) bool {
	named, ok := tn.Type().(*types.Named)
	if !ok {
		return false
	}
	// the method set of *T, promoted methods of embedded parts included
	have := map[string]bool{}
	ms := types.NewMethodSet(types.NewPointer(named))
	for i := 0; i < ms.Len(); i++ {
		have[ms.At(i).Obj().Name()] = true
	}
	for _, n := range names {
		if !have[n] {
			return false
		}
	}
	return true
}

// ownerRole classifies the struct types the rules care about by their method sets.
func ownerRole(p *core.Program, tn *types.TypeName) string {
	if tn == nil || tn.Pkg() == nil {
		return ""
	}
	if r := ownRole(p, tn); r != "" {
		return r
	}
	// an unexported struct that is embedded in a role struct is part of it
	sc := tn.Pkg().Scope()
	for _, n := range sc.Names() {
		outer, ok := sc.Lookup(n).(*types.TypeName)
		if !ok || outer == tn {
			continue
		}
		st, ok := outer.Type().Underlying().(*types.Struct)
		if !ok {
			continue
		}
		for i := 0; i < st.NumFields(); i++ {
			f := st.Field(i)
			if !f.Embedded() {
				continue
			}
			t := f.Type()
			if pt, isPtr := t.(*types.Pointer); isPtr {
				t = pt.Elem()
			}
			if nt, isNamed := t.(*types.Named); isNamed && nt.Obj() == tn {
				if r := ownRole(p, outer); r != "" {
					return r
				}
			}
		}
	}
	return ""
}

func ownRole(p *core.Program, tn *types.TypeName) string {
	if tn == nil || tn.Pkg() == nil {
		return ""
	}
	rel := core.RelPkg(tn.Pkg().Path())
	switch {
	case rel == "pkg/gengo" && hasMethodNamed(tn, "Execute"):
		return "ctx"
	case rel == "pkg/gengo" && hasMethodNamed(tn, "WriteToFile"):
		return "file"
	case rel == "pkg/gengo" && hasMethodNamed(tn, "Start", "End"):
		return "logger"
	case rel == "pkg/namer" && hasMethodNamed(tn, "AddType", "LocalNameOf", "Imports"):
		return "tracker"
	case rel == "pkg/namer" && hasMethodNamed(tn, "Name") && !hasMethodNamed(tn, "AddType"):
		return "namer"
	}
	return ""
}

func fieldRole(p *core.Program, fld *types.Var) string {
	if fld == nil || !fld.IsField() {
		return ""
	}
	if r, ok := roleCache[fld]; ok {
		return r
	}
	role := ""
	tn := ownerOf(fld)
	or := ownerRole(p, tn)
	t := fld.Type()
	ts := t.String()
	switch or {
	case "ctx":
		switch {
		case isSliceOfFunc(t):
			role = "ctx.callbacks"
		case isBasicKind(t, types.Bool):
			role = "ctx.ignore"
		case strings.HasSuffix(ts, "/pkg/sumfile.File"):
			role = "ctx.sumFile"
		case ts == "map[string][]string":
			role = "ctx.pkgTags"
		case strings.HasSuffix(ts, "logr.Logger"):
			role = "ctx.logger"
		default:
			if pt, ok := t.(*types.Pointer); ok {
				if n, ok := pt.Elem().(*types.Named); ok && ownerRole(p, n.Obj()) == "file" {
					role = "ctx.genfile"
				}
			}
		}
	case "file":
		switch {
		case ts == "*bytes.Buffer":
			role = "file.body"
		case strings.HasSuffix(ts, "/pkg/namer.ImportTracker"):
			role = "file.imports"
		case isBasicKind(t, types.String):
			role = "file.name"
		}
	case "logger":
		if ts == "time.Time" {
			role = "logger.started"
		}
	case "namer":
		if isBasicKind(t, types.String) {
			role = "namer.pkgPath"
		}
	case "tracker":
		if ts == "map[string]string" {
			role = trackerMapRole(p, tn, fld)
		}
	}
	roleCache[fld] = role
	return role
}

func isSliceOfFunc(t types.Type) bool {
	s, ok := t.Underlying().(*types.Slice)
	if !ok {
		return false
	}
	_, ok = s.Elem().Underlying().(*types.Signature)
	return ok
}

func isBasicKind(t types.Type, k types.BasicKind) bool {
	b, ok := t.Underlying().(*types.Basic)
	return ok && b.Kind() == k
}

// trackerMapRole: the map Imports() returns is the path->name map; the other one is name->path.
func trackerMapRole(p *core.Program, tn *types.TypeName, fld *types.Var) string {
	if p == nil {
		return ""
	}
	for _, f := range p.Funcs() {
		if f.Decl == nil || f.Decl.Recv == nil || f.Decl.Name.Name != "Imports" || f.Pkg.Types != tn.Pkg() {
			continue
		}
		info := f.Info()
		ret := singleReturn(f)
		if ret == nil {
			continue
		}
		if rf := core.FieldOf(info, ret); rf != nil {
			if rf == fld {
				return "tracker.byPath"
			}
			return "tracker.byName"
		}
	}
	return ""
}

// isRole: the expression is a selector of a field with that role.
func isRole(p *core.Program, fld *types.Var, role string) bool {
	return fld != nil && fieldRole(p, fld) == role
}

// isRoleAny: like isRole for call sites that have no *core.Program at hand (roles only use type information).
func isRoleAny(fld *types.Var, role string) bool { return fld != nil && fieldRole(nil, fld) == role }

// fileMethod: a method of the file type of pkg/gengo (the struct with a WriteToFile method) by its
// exported name, flattened; the type itself is unexported and may be called anything.
func fileMethod(p *core.Program, name string) *core.Func {
	for _, f := range p.Funcs() {
		if f.Decl == nil || f.Decl.Recv == nil || f.Decl.Name.Name != name || core.RelPkg(f.Pkg.PkgPath) != "pkg/gengo" {
			continue
		}
		t := f.Info().TypeOf(f.Decl.Recv.List[0].Type)
		if pt, ok := t.(*types.Pointer); ok {
			t = pt.Elem()
		}
		if n, ok := t.(*types.Named); ok && ownerRole(p, n.Obj()) == "file" {
			return flatten(p, f)
		}
	}
	return nil
}

// trackerMethod: a method of the import tracker type of pkg/namer (the struct with AddType, LocalNameOf and Imports) by its exported name.
func trackerMethod(p *core.Program, name string) *core.Func {
	for _, f := range p.Funcs() {
		if f.Decl == nil || f.Decl.Recv == nil || f.Decl.Name.Name != name || core.RelPkg(f.Pkg.PkgPath) != "pkg/namer" {
			continue
		}
		t := f.Info().TypeOf(f.Decl.Recv.List[0].Type)
		if pt, ok := t.(*types.Pointer); ok {
			t = pt.Elem()
		}
		if n, ok := t.(*types.Named); ok && ownerRole(p, n.Obj()) == "tracker" {
			return f
		}
	}
	return nil
}

var importPrinterCache = map[*core.Program]*core.Func{}

// importPrinter: the function of pkg/gengo that writes the import block - the one that emits the
// constant text "import (" - whatever it is called and whether it is a function or a method.
func importPrinter(p *core.Program) *core.Func {
	if f, ok := importPrinterCache[p]; ok {
		return f
	}
	var found *core.Func
	for _, f := range p.Funcs() {
		if f.Decl == nil || core.RelPkg(f.Pkg.PkgPath) != "pkg/gengo" || f.Decl.Name.IsExported() {
			continue
		}
		info := f.Info()
		has := false
		ast.Inspect(f.Body, func(n ast.Node) bool {
			if lit, ok := n.(*ast.BasicLit); ok && lit.Kind == token.STRING {
				if tv := info.Types[lit]; tv.Value != nil && tv.Value.Kind() == constant.String && strings.Contains(constant.StringVal(tv.Value), "import (") {
					has = true
				}
			}
			return !has
		})
		if has && found == nil {
			found = f
		}
	}
	if found == nil {
		// the printer merged into the file writer: the exported method of the file type that emits the constant
		for _, f := range p.Funcs() {
			if f.Decl == nil || f.Decl.Recv == nil || core.RelPkg(f.Pkg.PkgPath) != "pkg/gengo" || !f.Decl.Name.IsExported() {
				continue
			}
			if importBlockLiteral(f) != nil && found == nil {
				found = f
			}
		}
	}
	importPrinterCache[p] = found
	return found
}

// isImportPrinterCall: c calls the import printer.
func isImportPrinterCall(p *core.Program, info *types.Info, c *ast.CallExpr) bool {
	ip := importPrinter(p)
	return ip != nil && ip.Obj() != nil && core.CalleeFunc(info, c) == ip.Obj()
}

// trackerCall: the name of the import-tracker method a call invokes ("AddType", "LocalNameOf", ...), or "". The call
// may go through the exported ImportTracker interface, through a narrower interface of pkg/namer that ImportTracker
// satisfies (an unexported `importResolver` with two of its methods), or through the concrete tracker type.
func trackerCall(p *core.Program, info *types.Info, c *ast.CallExpr) string {
	fn := core.CalleeFunc(info, c)
	if fn == nil {
		return ""
	}
	sig, _ := fn.Type().(*types.Signature)
	if sig == nil || sig.Recv() == nil || fn.Pkg() == nil || core.RelPkg(fn.Pkg().Path()) != "pkg/namer" {
		return ""
	}
	it := fn.Pkg().Scope().Lookup("ImportTracker")
	if it == nil {
		return ""
	}
	full, _ := it.Type().Underlying().(*types.Interface)
	if full == nil {
		return ""
	}
	rt := sig.Recv().Type()
	if iface, ok := rt.Underlying().(*types.Interface); ok {
		// every method of the interface is one of ImportTracker's, with the same signature
		if types.Implements(it.Type(), iface) {
			return fn.Name()
		}
		return ""
	}
	if types.Implements(rt, full) || types.Implements(types.NewPointer(rt), full) {
		return fn.Name()
	}
	return ""
}

// namerRewriter: the function of pkg/namer that rewrites the package paths nested in a reference's name: the one that
// parses the name with ParseTypeRef (today (*rawNamer).processName; a plain function after a refactoring).
var namerRewriterCache = map[*core.Program]*core.Func{}

func namerRewriter(p *core.Program) *core.Func {
	if f, ok := namerRewriterCache[p]; ok {
		return f
	}
	var out *core.Func
	for _, cs := range callersOf(p, core.G("pkg/types.ParseTypeRef")) {
		if core.RelPkg(cs.In.Pkg.PkgPath) == "pkg/namer" && cs.In.Body != nil {
			out = cs.In.Root()
			break
		}
	}
	namerRewriterCache[p] = out
	return out
}

// registerAndName: helpers of pkg/namer whose body is exactly `<tr>.AddType(<t>); return <tr>.LocalNameOf(<p>)` with
// tr, t and p parameters. A call of such a helper is a registration and the lookup of the registered name in one; the
// rules about the pair are decided where the helper is called, with its arguments.
type regNameHelper struct {
	F         *core.Func
	Tr, T, Pa int // parameter indexes of the tracker, the registered type and the path asked for
}

func registerAndNameHelpers(p *core.Program) map[*types.Func]regNameHelper {
	out := map[*types.Func]regNameHelper{}
	for _, f := range p.Funcs() {
		if core.RelPkg(f.Pkg.PkgPath) != "pkg/namer" || f.Decl == nil || f.Body == nil || f.Obj() == nil || len(f.Body.List) != 2 {
			continue
		}
		info := f.Info()
		es, ok1 := f.Body.List[0].(*ast.ExprStmt)
		ret, ok2 := f.Body.List[1].(*ast.ReturnStmt)
		if !ok1 || !ok2 || len(ret.Results) != 1 {
			continue
		}
		add, okA := ast.Unparen(es.X).(*ast.CallExpr)
		loc, okL := ast.Unparen(ret.Results[0]).(*ast.CallExpr)
		if !okA || !okL || trackerCall(p, info, add) != "AddType" || trackerCall(p, info, loc) != "LocalNameOf" || len(add.Args) != 1 || len(loc.Args) != 1 {
			continue
		}
		idx := func(e ast.Expr) int {
			v := core.VarOf(info, e)
			if v == nil || !isParamOf(f, v) {
				return -1
			}
			return paramIndex(f, v)
		}
		tr1, tr2, t, pa := idx(recvOf(add)), idx(recvOf(loc)), idx(add.Args[0]), idx(loc.Args[0])
		if tr1 < 0 || tr1 != tr2 || t < 0 || pa < 0 {
			continue
		}
		out[f.Obj()] = regNameHelper{F: f, Tr: tr1, T: t, Pa: pa}
	}
	return out
}

// ownPathOperand: the expression denotes the path of the package a namer renders for: the namer's own field, or a
// parameter of an unexported function of pkg/namer that receives that field at every call.
func ownPathOperand(p *core.Program, f *core.Func, e ast.Expr) bool {
	info := f.Info()
	if isRole(p, core.FieldOf(info, e), "namer.pkgPath") {
		return true
	}
	v := core.VarOf(info, e)
	root := f.Root()
	if v == nil || !isParamOf(root, v) || root.Obj() == nil || root.Decl == nil || root.Decl.Name.IsExported() {
		return false
	}
	k := paramIndex(root, v)
	n := 0
	for _, cs := range allCalls(p) {
		if cs.In.Body == nil || core.CalleeFunc(cs.In.Info(), cs.Call) != root.Obj() {
			continue
		}
		n++
		if k >= len(cs.Call.Args) || !isRole(p, core.FieldOf(cs.In.Info(), cs.Call.Args[k]), "namer.pkgPath") {
			return false
		}
	}
	return n > 0
}

// roleValue: the expression denotes the field with the given role: a selection of it, or a call of a one-line accessor
// of the package that returns it (`func (ff *genfile) buf() *bytes.Buffer { return ff.body }`).
func roleValue(p *core.Program, info *types.Info, e ast.Expr, role string) bool {
	e = ast.Unparen(e)
	if isRole(p, core.FieldOf(info, e), role) {
		return true
	}
	c, ok := e.(*ast.CallExpr)
	if !ok {
		return false
	}
	h := p.FuncOfObj(core.CalleeFunc(info, c))
	if h == nil || h.Body == nil || len(h.Body.List) != 1 {
		return false
	}
	ret, ok := h.Body.List[0].(*ast.ReturnStmt)
	return ok && len(ret.Results) == 1 && isRole(p, core.FieldOf(h.Info(), ret.Results[0]), role)
}

// importBlockLiteral: the string literal of f that spells `import (`, or nil.
func importBlockLiteral(f *core.Func) *ast.BasicLit {
	if f == nil || f.Body == nil {
		return nil
	}
	info := f.Info()
	var out *ast.BasicLit
	ast.Inspect(f.Body, func(n ast.Node) bool {
		if lit, ok := n.(*ast.BasicLit); ok && lit.Kind == token.STRING && out == nil {
			if tv := info.Types[lit]; tv.Value != nil && tv.Value.Kind() == constant.String && strings.Contains(constant.StringVal(tv.Value), "import (") {
				out = lit
			}
		}
		return out == nil
	})
	return out
}

// importRegion: when the import block is printed by statements of f itself (no printer function of its own), the
// top-level statement of f's body that contains the `import (` constant.
func importRegion(p *core.Program, f *core.Func) ast.Stmt {
	ip := importPrinter(p)
	if ip == nil || f == nil || f.Body == nil {
		return nil
	}
	if ip != f && ip != f.Origin {
		return nil
	}
	lit := importBlockLiteral(f)
	if lit == nil {
		return nil
	}
	for _, st := range f.Body.List {
		if st.Pos() <= lit.Pos() && lit.End() <= st.End() {
			return st
		}
	}
	return nil
}
