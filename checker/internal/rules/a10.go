package rules

import (
	"go/ast"
	"go/types"
	"strconv"
	"strings"

	"gengoverif/checker/internal/core"
)

// A10 (U1): with gotypesalias=1 a declared alias is a *types.Alias node, not
// the type it denotes. A type switch / assertion whose operand has static type
// go/types.Type and whose arms name concrete kinds must look through aliases.

type aliasSite struct {
	F           *core.Func
	Node        ast.Node // TypeSwitchStmt or TypeAssertExpr
	Operand     ast.Expr
	Kinds       []string
	HasAliasArm bool
	Protected   bool
	How         string
}

var a10Kinds = map[string]bool{
	"go/types.Pointer": true, "go/types.Named": true, "go/types.Map": true, "go/types.Slice": true,
	"go/types.Struct": true, "go/types.Array": true, "go/types.Chan": true, "go/types.Interface": true, "go/types.Basic": true,
}

func isTypesType(t types.Type) bool {
	return t != nil && core.NamedTypeName(t) == "go/types.Type"
}

// protectedOperand: the operand is types.Unalias(..) or x.Underlying(), possibly
// through single-definition locals.
func protectedOperand(f *core.Func, e ast.Expr) (bool, string) {
	return protectedExpr(f, e, map[*types.Var]bool{})
}

func protectedExpr(f *core.Func, e ast.Expr, seen map[*types.Var]bool) (bool, string) {
	info := f.Info()
	body := f.Root().Body
	e, _ = core.Resolve(info, body, e)
	if c, ok := ast.Unparen(e).(*ast.CallExpr); ok {
		switch name := core.CalleeName(info, c); {
		case name == "go/types.Unalias":
			return true, "types.Unalias"
		case len(name) > 11 && name[len(name)-11:] == ".Underlying":
			return true, "Underlying()"
		}
	}
	// a local that is assigned more than once: every value it can hold is looked through
	// (`t := types.Unalias(a); if p, ok := t.(*types.Pointer); ok { t = types.Unalias(p.Elem()) }`)
	if v := core.VarOf(info, e); v != nil && !v.IsField() && core.DeclaredIn(info, body, v) && !seen[v] {
		seen[v] = true
		defs := core.DefsOf(info, body, v)
		how := ""
		for _, d := range defs {
			if d.Rhs == nil || d.Index >= 0 || (d.Kind != "define" && d.Kind != "var" && d.Kind != "assign") {
				return false, ""
			}
			ok, h := protectedExpr(f, d.Rhs, seen)
			if !ok {
				return false, ""
			}
			how = h
		}
		if len(defs) > 0 {
			return true, how + " at each of its " + strconv.Itoa(len(defs)) + " definitions"
		}
	}
	return false, ""
}

func aliasSites(p *core.Program) []aliasSite {
	var out []aliasSite
	for _, f := range p.Funcs() {
		info := f.Info()
		ast.Inspect(f.Body, func(n ast.Node) bool {
			if lit, ok := n.(*ast.FuncLit); ok && lit != f.Lit {
				return false
			}
			switch x := n.(type) {
			case *ast.TypeSwitchStmt:
				var ta *ast.TypeAssertExpr
				switch a := x.Assign.(type) {
				case *ast.AssignStmt:
					ta, _ = a.Rhs[0].(*ast.TypeAssertExpr)
				case *ast.ExprStmt:
					ta, _ = a.X.(*ast.TypeAssertExpr)
				}
				if ta == nil || !isTypesType(info.TypeOf(ta.X)) {
					return true
				}
				s := aliasSite{F: f, Node: x, Operand: ta.X}
				for _, c := range x.Body.List {
					for _, e := range c.(*ast.CaseClause).List {
						name := core.NamedTypeName(info.TypeOf(e))
						if name == "go/types.Alias" {
							s.HasAliasArm = true
						}
						if a10Kinds[name] {
							s.Kinds = append(s.Kinds, name[len("go/types."):])
						}
					}
				}
				if len(s.Kinds) == 0 {
					return true
				}
				s.Protected, s.How = protectedOperand(f, ta.X)
				if s.HasAliasArm {
					s.Protected, s.How = true, "explicit *types.Alias arm"
				}
				out = append(out, s)
			case *ast.TypeAssertExpr:
				if x.Type == nil || !isTypesType(info.TypeOf(x.X)) {
					return true
				}
				name := core.NamedTypeName(info.TypeOf(x.Type))
				if !a10Kinds[name] {
					return true
				}
				s := aliasSite{F: f, Node: x, Operand: x.X, Kinds: []string{name[len("go/types."):]}}
				s.Protected, s.How = protectedOperand(f, x.X)
				out = append(out, s)
			}
			return true
		})
	}
	return out
}

// a10Exceptions: reviewed sites, one symbol each.
// keyed by package + the asserted operand's shape (method chain), not by function or variable names
var a10Exceptions = map[string]string{
	"pkg/namer :: Type().(*types.Named)":                                  "operand is the Type() of a *types.TypeName; only a defined generic type has its own type-parameter list to print, an alias TypeName is rendered through the *types.Alias arm of snippet.ID",
	"devpkg/deepcopygen/helper :: Results().At().Type().(*types.Pointer)": "result type of a DeepCopy method spelled through an alias of a pointer type: outside the property's type domain (methods are generated or written with *T)",
	"devpkg/deepcopygen/helper :: Params().At().Type().(*types.Pointer)":  "parameter type of a DeepCopyInto method spelled through an alias of a pointer type: outside the property's type domain",
}

// chainKey spells the method chain of an asserted operand by the names of its steps only: locals that are defined once
// are replaced by their definition, arguments and the root variable are dropped -
// `results := fn.Results(); results.At(0).Type().(*types.Pointer)` is `...Results().At().Type().(*types.Pointer)`.
// An exception names the *end* of such a chain (how the signature was obtained does not matter).
func chainKey(f *core.Func, e ast.Expr, depth int) string {
	info := f.Info()
	if depth > 12 {
		return ""
	}
	switch x := ast.Unparen(e).(type) {
	case *ast.TypeAssertExpr:
		if x.Type == nil {
			return chainKey(f, x.X, depth+1) + ".(type)"
		}
		return chainKey(f, x.X, depth+1) + ".(" + types.ExprString(x.Type) + ")"
	case *ast.CallExpr:
		if sel, ok := ast.Unparen(x.Fun).(*ast.SelectorExpr); ok {
			if _, isPkg := info.ObjectOf(identOf(sel.X)).(*types.PkgName); isPkg && identOf(sel.X) != nil {
				return sel.Sel.Name + "()"
			}
			return chainKey(f, sel.X, depth+1) + "." + sel.Sel.Name + "()"
		}
		return types.ExprString(x.Fun) + "()"
	case *ast.SelectorExpr:
		return chainKey(f, x.X, depth+1) + "." + x.Sel.Name
	case *ast.IndexExpr:
		return chainKey(f, x.X, depth+1) + "[]"
	case *ast.Ident:
		if v := core.VarOf(info, x); v != nil {
			if d, ok := core.SingleDef(info, f.Root().Body, v); ok && d.Index < 0 && d.Rhs != nil {
				if _, isIdent := ast.Unparen(d.Rhs).(*ast.Ident); !isIdent {
					return chainKey(f, d.Rhs, depth+1)
				}
			}
		}
		return ""
	}
	return ""
}

func a10Exception(f *core.Func, node ast.Node) (string, bool) {
	ta, ok := node.(*ast.TypeAssertExpr)
	if !ok {
		return "", false
	}
	chain := strings.TrimPrefix(chainKey(f, ta, 0), ".")
	rel := core.RelPkg(f.Pkg.PkgPath)
	for k, reason := range a10Exceptions {
		pkg, suffix, _ := strings.Cut(k, " :: ")
		if pkg == rel && (chain == suffix || strings.HasSuffix(chain, "."+suffix)) {
			return reason, true
		}
	}
	return "", false
}

// chainShape drops the leading variable of a method chain: fn.Results().At(0).Type().(*types.Pointer) -> Results().At(0).Type().(*types.Pointer)
func chainShape(s string) string {
	if i := strings.Index(s, "."); i > 0 {
		return s[i+1:]
	}
	return s
}

// a10Report files one obligation per alias-sensitive site in the given packages.
func a10Report(p *core.Program, r *core.Report, rule string, rels ...string) int {
	n := 0
	for _, s := range aliasSites(p) {
		rel := core.RelPkg(s.F.Pkg.PkgPath)
		match := false
		for _, want := range rels {
			if rel == want {
				match = true
			}
		}
		if !match {
			continue
		}
		n++
		construct := ""
		switch x := s.Node.(type) {
		case *ast.TypeSwitchStmt:
			construct = "type switch on " + core.ExprStr(s.Operand)
		case *ast.TypeAssertExpr:
			construct = core.ExprStr(x)
		}
		if s.Protected {
			r.OK(rule, s.F, construct, s.Node.Pos(), "looks through aliases: "+s.How)
		} else if reason, ok := a10Exception(s.F, s.Node); ok {
			r.ReviewedOK(rule, s.F, construct, s.Node.Pos(), reason)
		} else {
			r.Bad(rule, s.F, construct, s.Node.Pos(), "the operand is a go/types.Type that may be a *types.Alias (gotypesalias=1): the concrete-kind arm(s) are skipped for a type declared through an alias; use types.Unalias / Underlying or add a *types.Alias arm")
		}
	}
	return n
}
