package rules

import (
	"go/ast"
	"go/types"
	"os"
	"strings"

	"gengoverif/checker/internal/core"
)

// A1: file-effect inventory. Every call in scope that can create, truncate,
// write, rename or delete a file.

type fileEffect struct {
	In     *core.Func
	Call   *ast.CallExpr
	Callee string
	Kind   string // open, write, remove, rename, mkdir, meta, exec
}

var effectCallees = map[string]string{
	"os.Create": "open", "os.OpenFile": "open", "os.CreateTemp": "open", "os.WriteFile": "write", "io/ioutil.WriteFile": "write",
	"os.Remove": "remove", "os.RemoveAll": "remove", "os.Rename": "rename", "os.Mkdir": "mkdir", "os.MkdirAll": "mkdir", "os.MkdirTemp": "mkdir",
	"os.Chmod": "meta", "os.Chown": "meta", "os.Lchown": "meta", "os.Chtimes": "meta", "os.Truncate": "write", "os.Symlink": "rename", "os.Link": "rename", "os.CopyFS": "write",
	"(*os.File).Write": "write", "(*os.File).WriteString": "write", "(*os.File).WriteAt": "write", "(*os.File).Truncate": "write", "(*os.File).ReadFrom": "write", "(*os.File).Chmod": "meta",
	"(*os.Root).Create": "open", "(*os.Root).OpenFile": "open", "(*os.Root).Remove": "remove", "(*os.Root).Mkdir": "mkdir",
	"os/exec.Command": "exec", "os/exec.CommandContext": "exec", "os.StartProcess": "exec", "syscall.Exec": "exec",
}

// writer-taking callees: index of the destination argument
var writerCallees = map[string]int{
	"io.Copy": 0, "io.CopyN": 0, "io.CopyBuffer": 0, "io.WriteString": 0,
	"fmt.Fprint": 0, "fmt.Fprintf": 0, "fmt.Fprintln": 0,
	"go/format.Node": 0, "go/printer.Fprint": 0, "(*go/printer.Config).Fprint": 0,
	"bufio.NewWriter": 0, "bufio.NewWriterSize": 0, "(*encoding/json.Encoder).Encode": -1,
}

func isOSFile(t types.Type) bool { return t != nil && core.NamedTypeName(t) == "os.File" }

func isStdStream(info *types.Info, e ast.Expr) bool {
	sel, ok := ast.Unparen(e).(*ast.SelectorExpr)
	if !ok {
		return false
	}
	if pn, ok := info.ObjectOf(identOf(sel.X)).(*types.PkgName); ok && pn.Imported().Path() == "os" {
		return sel.Sel.Name == "Stdout" || sel.Sel.Name == "Stderr"
	}
	return false
}

// mayBeFile: can the writer expression be an *os.File? Static type, or - for an
// io.Writer parameter - the static types of the arguments at all call sites.
func mayBeFile(p *core.Program, f *core.Func, e ast.Expr, depth int) bool {
	info := f.Info()
	if isStdStream(info, e) {
		return false
	}
	t := info.TypeOf(e)
	if isOSFile(t) {
		return true
	}
	if t == nil {
		return false
	}
	if _, isIface := t.Underlying().(*types.Interface); !isIface {
		return false
	}
	e2, _ := core.Resolve(info, f.Root().Body, e)
	if e2 != e {
		return mayBeFile(p, f, e2, depth+1)
	}
	v := core.VarOf(info, e)
	if v == nil || depth > 2 {
		// embedded io.Writer field of the snippet writer: single store from NewSnippetWriter's parameter
		if fld := core.FieldOf(info, e); fld != nil {
			return fieldMayBeFile(p, fld, depth)
		}
		return false
	}
	root := f.Root()
	if !isParamOf(root, v) && !isParamOf(f, v) {
		return false
	}
	// argument types at the call sites of root
	obj := root.Obj()
	if obj == nil {
		return false
	}
	idx := paramIndex(root, v)
	if idx < 0 {
		return false
	}
	for _, cs := range allCalls(p) {
		if core.CalleeFunc(cs.In.Info(), cs.Call) != obj || idx >= len(cs.Call.Args) {
			continue
		}
		if mayBeFile(p, cs.In, cs.Call.Args[idx], depth+1) {
			return true
		}
	}
	return false
}

func paramIndex(f *core.Func, v *types.Var) int {
	i := 0
	for _, fld := range f.Type.Params.List {
		for _, n := range fld.Names {
			if f.Info().ObjectOf(n) == types.Object(v) {
				return i
			}
			i++
		}
	}
	return -1
}

func fieldMayBeFile(p *core.Program, fld *types.Var, depth int) bool {
	for _, f := range p.Funcs() {
		info := f.Info()
		found := false
		ast.Inspect(f.Body, func(n ast.Node) bool {
			switch x := n.(type) {
			case *ast.KeyValueExpr:
				if id, ok := x.Key.(*ast.Ident); ok && info.ObjectOf(id) == types.Object(fld) {
					if mayBeFile(p, f, x.Value, depth+1) {
						found = true
					}
				}
			case *ast.AssignStmt:
				for i, l := range x.Lhs {
					if core.FieldOf(info, l) == fld && i < len(x.Rhs) && mayBeFile(p, f, x.Rhs[i], depth+1) {
						found = true
					}
				}
			}
			return !found
		})
		if found {
			return true
		}
	}
	return false
}

func fileEffects(p *core.Program) []fileEffect {
	var out []fileEffect
	for _, cs := range allCalls(p) {
		if cs.In.Body == nil {
			// package-level initialiser
			if k, ok := effectCallees[cs.Name]; ok {
				out = append(out, fileEffect{cs.In, cs.Call, cs.Name, k})
			}
			continue
		}
		info := cs.In.Info()
		if k, ok := effectCallees[cs.Name]; ok {
			if cs.Name == "os.OpenFile" && len(cs.Call.Args) == 3 {
				if v, isC := core.ConstInt(info, cs.Call.Args[1]); isC && v == 0 { // O_RDONLY
					continue
				}
			}
			out = append(out, fileEffect{cs.In, cs.Call, cs.Name, k})
			continue
		}
		if idx, ok := writerCallees[cs.Name]; ok && idx >= 0 && idx < len(cs.Call.Args) {
			if mayBeFile(p, cs.In, cs.Call.Args[idx], 0) {
				out = append(out, fileEffect{cs.In, cs.Call, cs.Name, "write"})
			}
			continue
		}
		// any method call on an *os.File other than reads/close
		if strings.HasPrefix(cs.Name, "(*os.File).") {
			switch strings.TrimPrefix(cs.Name, "(*os.File).") {
			case "Close", "Read", "ReadAt", "Name", "Stat", "Fd", "Seek", "Readdir", "ReadDir", "Readdirnames", "SyscallConn", "SetDeadline", "SetReadDeadline":
			default:
				out = append(out, fileEffect{cs.In, cs.Call, cs.Name, "write"})
			}
		}
	}
	return out
}

// allowedEffects is the inventory of today's tree, by role (the role functions
// are found from the effects themselves, see findPipeline; the path rules
// C07.R1-R3 then check every such site's operand).
var allowedEffects = map[string]map[string]string{
	"file writer": {
		"os.OpenFile":    "opens <source dir>/<base>.<generator>.go for writing (C07.R1)",
		"os.Create":      "fallback open of the same path (C07.R1)",
		"go/format.Node": "prints the formatted AST into the opened file (C01.R1)",
	},
	"per-package function": {
		"os.RemoveAll": "removes stale <base>.* files of the processed package (C07.R2)",
	},
	"sum file writer": {
		"os.OpenFile":      "opens <module root>/gengo.sum for writing (C07.R3)",
		"(*os.File).Write": "writes the sorted sums (C08.R5)",
	},
}

// a1Report files one obligation per effect site; sites outside the role
// functions (and their inlined private helpers), or of an unlisted kind, are violations.
func a1Report(p *core.Program, r *core.Report, rule string, pl *pipeline) []fileEffect {
	effs := fileEffects(p)
	seen := map[string]int{}
	roleOf := func(f *core.Func) string {
		u := unitRoot(p, f)
		switch {
		case pl.write.Has(u):
			return "file writer"
		case pl.pkgExec.Has(u):
			return "per-package function"
		case pl.save.Has(u):
			return "sum file writer"
		}
		return ""
	}
	for _, e := range effs {
		role := roleOf(e.In)
		construct := "file effect " + e.Callee + " (" + e.Kind + ")"
		// os.OpenFile(p, O_RDWR|O_CREATE|O_TRUNC, 0o666) is what os.Create(p) is defined as: counted as that site
		if e.Callee == "os.OpenFile" && len(e.Call.Args) == 3 && seen[role+"|os.OpenFile"] >= 1 && seen[role+"|os.Create"] == 0 {
			if fl, isC := core.ConstInt(e.In.Info(), e.Call.Args[1]); isC && fl == int64(os.O_RDWR|os.O_CREATE|os.O_TRUNC) {
				if pm, isC2 := core.ConstInt(e.In.Info(), e.Call.Args[2]); isC2 && pm == 0o666 {
					e.Callee = "os.Create"
					construct = "file effect os.Create spelled as os.OpenFile (" + e.Kind + ")"
				}
			}
		}
		seen[role+"|"+e.Callee]++
		if role != "" && seen[role+"|"+e.Callee] > 1 {
			r.Bad(rule, e.In, construct+" (additional site)", e.Call.Pos(), "the inventory has one `"+e.Callee+"` site in the "+role+"; a second one is an unreviewed file-system effect")
			continue
		}
		if why, ok := allowedEffects[role][e.Callee]; ok {
			r.OK(rule, e.In, construct, e.Call.Pos(), "inventoried ("+role+"): "+why)
		} else {
			r.Bad(rule, e.In, construct, e.Call.Pos(), "a file-system effect outside the inventory of gengo's own output paths: `"+core.ExprStr(e.Call)+"` can create, change or delete a file that is not <base>.<generator>.go / a stale <base>.* file / gengo.sum")
		}
	}
	return effs
}
