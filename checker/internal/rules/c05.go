package rules

import (
	"fmt"
	"go/ast"
	"go/token"
	"go/types"
	"sort"
	"strings"

	"gengoverif/checker/internal/core"
)

func init() {
	register(Property{
		ID:          "C05",
		Explanation: "Decided statically: R1 the generator value on which GenerateType / GenerateAliasType is invoked originates (through the parameters of the dispatch functions, each bound at its only call site) from (*gengoCtx).New(gen) evaluated inside the body of the loop over the generators in the per-package function; that value is not stored anywhere; New returns GeneratorNewer.New(c) or reflect.New(<type of the prototype>).Interface() and uses the registered prototype for nothing but the interface assertion and its reflect type (no aliasing, no copying of its fields); R2 in the same loop body the context's file is the result of the file constructor, which allocates a new buffer and a new import tracker (two new maps) and the namer is bound in InitWith to that file's tracker (C03.R2); R3 the context handed to generators and callbacks is the per-iteration allocation, and fields of a context are written through a receiver only by Defer (defers), the dispatchers (ignore) and Execute (sumFile, run-level by design); R4 no function of the library outside init writes a package-level variable (assignment, ++, delete, append, or a mutating method of a package-level sync.Map/Pool/Mutex-guarded value), except the enumerated registry (Register, called from init functions only); the sample generators keep their state in instance fields. R5 methods of the loaded universe write no receiver state while generators run (shared scan with C13.R7); R6 every map the per-package function stores into is allocated by that very call (all possible values are make/literal maps). R7 nothing in the library assigns a field of the run's GeneratorArgs. R8 the sets that decide which packages are local are complete before the first package is registered (C04.R2). R9 = C03.R8: snippets remember nothing a previous rendering resolved. NOT decided: user-supplied generators with their own globals or a New that returns a shared value (outside the repository).",
		Assumptions: commonAssumptions,
		Run:         runC05,
	})
}

func runC05(p *core.Program, r *core.Report) {
	pl := findPipeline(p, r, "R1")
	if pl == nil {
		return
	}
	c05R1(p, r, pl)
	c05R2(p, r, pl)
	c05R3(p, r, pl)
	c05R4(p, r)
	// R5: the loaded universe is shared by every package of a run: a method that writes it while generators run
	// makes what one package reads depend on which packages were processed before
	r.Floor("R5", 1)
	universeWriteScan(p, r, "R5", nil)
	c05R6(p, r, pl)
	c05R7(p, r)
	// R8: "independent of what else is generated": which packages count as local does not depend on the order of the
	// entrypoints (C04.R2: the root-module and direct-package sets are complete before the first package is registered)
	chainRules(p, r, "R8", "C04", []string{"C04.R2"}, "the sets that decide what is local are complete before any package is registered")
	// R9: "a fresh import table per file": a snippet value a generator keeps across packages resolves its names against
	// the writer that renders it every time - no Frag/IsNil method remembers what an earlier rendering resolved (C03.R8)
	chainRules(p, r, "R9", "C03", []string{"C03.R8"}, "snippets remember nothing a previous rendering resolved")
}

// genLoop finds the loop over the variadic generators parameter in the per-package function.
func genLoop(pl *pipeline) (*ast.RangeStmt, *types.Var) {
	f := pl.pkgExec
	info := f.Info()
	var loop *ast.RangeStmt
	ast.Inspect(f.Body, func(n ast.Node) bool {
		rs, ok := n.(*ast.RangeStmt)
		if !ok {
			return true
		}
		if v := core.VarOf(info, rs.X); v != nil && isParamOf(f, v) {
			if sl, ok := v.Type().Underlying().(*types.Slice); ok && core.NamedTypeName(sl.Elem()) == core.G("pkg/gengo.Generator") {
				loop = rs
			}
		}
		return true
	})
	if loop == nil {
		return nil, nil
	}
	return loop, core.VarOf(info, loop.Value)
}

func c05R1(p *core.Program, r *core.Report, pl *pipeline) {
	const rule = "R1"
	r.Floor(rule, 5)
	genType := "(" + core.G("pkg/gengo.Generator") + ").GenerateType"
	genAlias := "(" + core.G("pkg/gengo.AliasGenerator") + ").GenerateAliasType"
	newFn := ctxMethod(p, "New")
	if newFn == nil {
		r.Anchor(rule, "New method of the context type of pkg/gengo")
		return
	}
	newFn = flatten(p, newFn) // a single-exit result variable shown as the returns it stands for
	loop, gen := genLoop(pl)
	if loop == nil {
		r.Anchor(rule, "loop over the generators parameter in the per-package function")
		return
	}
	// origin of an argument expression: follow parameters to their unique call sites
	var origin func(f *core.Func, e ast.Expr, depth int) (*core.Func, ast.Expr, string)
	origin = func(f *core.Func, e ast.Expr, depth int) (*core.Func, ast.Expr, string) {
		info := f.Info()
		if depth > 6 {
			return f, e, "depth"
		}
		e = ast.Unparen(e)
		if ta, ok := e.(*ast.TypeAssertExpr); ok {
			return origin(f, ta.X, depth+1)
		}
		v := core.VarOf(info, e)
		if v == nil {
			return f, e, ""
		}
		// the binding of a type switch clause stands for the switch operand
		if id, isID := e.(*ast.Ident); isID {
			for _, x := range typeFactsAt(f, id) {
				if x.Binding == v && x.Binding != nil {
					if _, isClause := x.Scope.(*ast.CaseClause); isClause {
						return origin(f, x.Operand, depth+1)
					}
				}
			}
		}
		if isParamOf(f.Root(), v) {
			root := f.Root()
			idx := paramIndex(root, v)
			var sites []CallSite
			for _, cs := range allCalls(p) {
				if core.CalleeFunc(cs.In.Info(), cs.Call) == root.Obj() {
					sites = append(sites, cs)
				}
			}
			if len(sites) != 1 || idx < 0 || idx >= len(sites[0].Call.Args) {
				return f, e, fmt.Sprintf("parameter %s of %s is bound at %d call sites", v.Name(), root.Name, len(sites))
			}
			return origin(sites[0].In, sites[0].Call.Args[idx], depth+1)
		}
		// local: single definition (also the comma-ok form a, ok := g.(T))
		defs := core.DefsOf(info, f.Root().Body, v)
		if len(defs) == 1 && defs[0].Rhs != nil {
			if defs[0].Index > 0 {
				return f, e, "derived from a multi-value result"
			}
			return origin(f, defs[0].Rhs, depth+1)
		}
		return f, e, fmt.Sprintf("variable %s has %d definitions", v.Name(), len(defs))
	}
	n := 0
	for _, cs := range callersOf(p, genType, genAlias) {
		if !strings.HasPrefix(core.RelPkg(cs.In.Pkg.PkgPath), "pkg/") {
			continue
		}
		n++
		of, oe, why := origin(cs.In, recvOf(cs.Call), 0)
		call, isCall := ast.Unparen(oe).(*ast.CallExpr)
		good := why == "" && isCall && core.CalleeFunc(of.Info(), call) == newFn.Obj() && pl.pkgExec.Has(of) &&
			loop.Body.Pos() <= call.Pos() && call.End() <= loop.Body.End() && len(call.Args) == 1 && core.VarOf(of.Info(), call.Args[0]) == gen
		if why == "" && !good {
			why = "the value originates from `" + core.ExprStr(oe) + "` in " + of.QName()
		}
		r.Check(good, rule, cs.In, "the generator invoked by "+shortName(cs.Name)+" is a fresh instance created for this (package, generator)", cs.Call.Pos(),
			"origin: ctx.New(gen) inside the body of the loop over the generators", "the invoked generator is not the result of New(gen) evaluated inside the per-package generator loop ("+why+"): per-package state such as 'processed' sets or 'helper emitted' flags carries over between packages")
	}
	if n == 0 {
		r.Anchor(rule, "invocations of Generator.GenerateType / AliasGenerator.GenerateAliasType")
	}
	// the fresh instance is not stored anywhere
	info := pl.pkgExec.Info()
	var gv *types.Var
	for _, c := range core.Calls(loop.Body, true) {
		if core.CalleeFunc(info, c) == newFn.Obj() {
			g := graph(pl.pkgExec)
			if as, ok := g.PointOf(c).Node().(*ast.AssignStmt); ok && len(as.Lhs) == 1 {
				gv = core.VarOf(info, as.Lhs[0])
			}
		}
	}
	if gv != nil {
		escapes := ""
		ast.Inspect(pl.pkgExec.Body, func(nd ast.Node) bool {
			switch x := nd.(type) {
			case *ast.AssignStmt:
				for i, rhs := range x.Rhs {
					if core.VarOf(info, rhs) == gv && i < len(x.Lhs) {
						if lv := core.VarOf(info, x.Lhs[i]); lv == nil || lv.IsField() {
							escapes = core.ExprStr(x)
						}
					}
				}
			case *ast.KeyValueExpr:
				if core.VarOf(info, x.Value) == gv {
					escapes = core.ExprStr(x)
				}
			case *ast.CallExpr:
				cn := core.CalleeName(info, x)
				if strings.HasPrefix(cn, "(*sync.Map).") || cn == "builtin.append" {
					for _, a := range x.Args {
						if core.VarOf(info, a) == gv {
							escapes = core.ExprStr(x)
						}
					}
				}
			}
			return true
		})
		r.Check(escapes == "", rule, pl.pkgExec, "the per-package generator instance is not stored", loop.Pos(), "used only as receiver and call argument", "the instance is stored (`"+escapes+"`) and can be reused for another package")
	}
	// New: uses of the prototype parameter
	ninfo := newFn.Info()
	var proto *types.Var
	if ps := newFn.Type.Params.List; len(ps) == 1 && len(ps[0].Names) == 1 {
		proto, _ = ninfo.ObjectOf(ps[0].Names[0]).(*types.Var)
	}
	var stack []ast.Node
	bad := ""
	uses := 0
	ast.Inspect(newFn.Body, func(nd ast.Node) bool {
		if nd == nil {
			stack = stack[:len(stack)-1]
			return false
		}
		stack = append(stack, nd)
		id, ok := nd.(*ast.Ident)
		if !ok || ninfo.ObjectOf(id) != types.Object(proto) {
			return true
		}
		uses++
		// allowed: X of a type assertion to GeneratorNewer; argument chain ValueOf -> (Indirect) -> .Type()
		k := len(stack) - 2
		if ta, ok := stack[k].(*ast.TypeAssertExpr); ok && ta.X == ast.Expr(id) {
			if ta.Type != nil && core.NamedTypeName(ninfo.TypeOf(ta.Type)) == core.G("pkg/gengo.GeneratorNewer") {
				return true
			}
			// the operand of a type switch whose only clauses test for GeneratorNewer (or are the default)
			if ta.Type == nil {
				onlyNewer := false
				for j := k - 1; j >= 0 && j >= k-3; j-- {
					if ts, isTS := stack[j].(*ast.TypeSwitchStmt); isTS {
						onlyNewer = true
						for _, c := range ts.Body.List {
							for _, e := range c.(*ast.CaseClause).List {
								if core.NamedTypeName(ninfo.TypeOf(e)) != core.G("pkg/gengo.GeneratorNewer") {
									onlyNewer = false
								}
							}
						}
					}
				}
				if onlyNewer {
					return true
				}
			}
		}
		okChain := false
		var cur ast.Node = id
		for ; k >= 0; k-- {
			switch x := stack[k].(type) {
			case *ast.CallExpr:
				isArg := false
				for _, a := range x.Args {
					if a == cur {
						isArg = true
					}
				}
				if isArg {
					cn := core.CalleeName(ninfo, x)
					if cn == "reflect.ValueOf" || cn == "reflect.TypeOf" || strings.HasSuffix(cn, "/reflect.Indirect") || cn == "reflect.Indirect" {
						cur = x
						continue
					}
				}
				if x.Fun == cur {
					cur = x
					continue
				}
			case *ast.SelectorExpr:
				if x.X == cur && (x.Sel.Name == "Type" || x.Sel.Name == "Elem") {
					if x.Sel.Name == "Type" {
						okChain = true
					}
					cur = x
					continue
				}
			case *ast.ParenExpr:
				cur = x
				continue
			}
			break
		}
		if !okChain {
			bad = "`" + id.Name + "` is used outside the GeneratorNewer assertion and the reflect-type chain"
		}
		return true
	})
	r.Check(bad == "" && uses >= 2, rule, newFn, "New uses the registered prototype only for the interface assertion and its reflect type", newFn.Node().Pos(), "no aliasing and no copying of the prototype",
		"New "+bad+": the per-package instance shares or copies fields (maps, pointers) of the long-lived registered generator, so state carries over between packages")
	// returns of New
	okRet := true
	ast.Inspect(newFn.Body, func(nd ast.Node) bool {
		ret, ok := nd.(*ast.ReturnStmt)
		if !ok || len(ret.Results) != 1 {
			return true
		}
		// through type assertions and single-definition locals
		e, _ := core.Resolve(ninfo, newFn.Body, ret.Results[0])
		e = ast.Unparen(e)
		if ta, ok := e.(*ast.TypeAssertExpr); ok {
			e, _ = core.Resolve(ninfo, newFn.Body, ta.X)
			e = ast.Unparen(e)
		}
		c, ok := e.(*ast.CallExpr)
		if !ok {
			okRet = false
			return true
		}
		cn := core.CalleeName(ninfo, c)
		switch {
		case cn == "("+core.G("pkg/gengo.GeneratorNewer")+").New":
		case cn == "(reflect.Value).Interface":
			// the receiver is reflect.New(...)
			rcv, _ := core.Resolve(ninfo, newFn.Body, recvOf(c))
			if rc, isCall := ast.Unparen(rcv).(*ast.CallExpr); !isCall || core.CalleeName(ninfo, rc) != "reflect.New" {
				okRet = false
			}
		default:
			okRet = false
		}
		return true
	})
	r.Check(okRet, rule, newFn, "New returns GeneratorNewer.New(c) or reflect.New(T).Interface()", newFn.Node().Pos(), "both returns create a new value", "New can return something else than a newly created generator")
}

func c05R2(p *core.Program, r *core.Report, pl *pipeline) {
	const rule = "R2"
	r.Floor(rule, 4)
	f := pl.pkgExec
	info := f.Info()
	loop, _ := genLoop(pl)
	if loop == nil {
		r.Anchor(rule, "generator loop")
		return
	}
	ctor := p.FuncByName("pkg/gengo", "newGenfile")
	if ctor == nil {
		r.Anchor(rule, "pkg/gengo.newGenfile")
		return
	}
	// the context literal inside the loop
	var lit *ast.CompositeLit
	ast.Inspect(loop.Body, func(n ast.Node) bool {
		if cl, ok := n.(*ast.CompositeLit); ok && core.NamedTypeName(info.TypeOf(cl)) == ctxG(p) {
			lit = cl
		}
		return true
	})
	if lit == nil {
		r.Bad(rule, f, "a new context is allocated per (package, generator)", loop.Pos(), "no gengoCtx literal inside the generator loop: generators share a context (buffer, imports, defers, ignore flag)")
		return
	}
	fresh := false
	for _, el := range lit.Elts {
		kv, ok := el.(*ast.KeyValueExpr)
		if !ok {
			continue
		}
		if id, ok := kv.Key.(*ast.Ident); ok && isRole(p, fieldVarOf(info, id), "ctx.genfile") {
			if c, ok := ast.Unparen(kv.Value).(*ast.CallExpr); ok && core.CalleeFunc(info, c) == ctor.Obj() {
				fresh = true
			}
		}
		// fields that must not be inherited
		if id, ok := kv.Key.(*ast.Ident); ok && (isRole(p, fieldVarOf(info, id), "ctx.callbacks") || isRole(p, fieldVarOf(info, id), "ctx.ignore")) {
			r.Bad(rule, f, "per-generator context starts without inherited "+id.Name, kv.Pos(), "`"+core.ExprStr(kv)+"`: callbacks / the ignore mark of another generator or package are carried into this one")
		}
	}
	r.Check(fresh, rule, f, "each (package, generator) gets its own file: buffer + import table", lit.Pos(), "genfile: newGenfile(gen.Name()) in the loop body", "the per-generator context does not get a newly constructed genfile: buffers/import tables are shared between generators or packages")
	// constructor freshness
	cinfo := ctor.Info()
	okCtor := false
	if rets := ownReturnsOf(ctor); len(rets) == 1 && len(rets[0].Results) == 1 {
		if inits, ok := structInits(cinfo, ctor.Body, rets[0].Results[0]); ok {
			body, imports := false, false
			for fld, v := range inits {
				switch fieldRole(p, fld) {
				case "file.body":
					if c := core.AsCall(cinfo, v, "bytes.NewBuffer", "bytes.NewBufferString"); c != nil {
						body = true
					}
					if u2, ok := ast.Unparen(v).(*ast.UnaryExpr); ok && u2.Op == token.AND {
						if _, isLit := ast.Unparen(u2.X).(*ast.CompositeLit); isLit {
							body = true
						}
					}
					if c := core.AsCall(cinfo, v, "builtin.new"); c != nil {
						body = true
					}
				case "file.imports":
					if core.AsCall(cinfo, v, core.G("pkg/namer.NewDefaultImportTracker")) != nil {
						imports = true
					}
				}
			}
			okCtor = body && imports
		}
	}
	r.Check(okCtor, rule, ctor, "the file constructor allocates a new buffer and a new import tracker", ctor.Node().Pos(), "&genfile{body: bytes.NewBuffer(nil), imports: NewDefaultImportTracker()}", "the constructor reuses a buffer or tracker (pool, package variable, parameter)")
	nt := p.FuncByName("pkg/namer", "NewDefaultImportTracker")
	if nt != nil {
		nt = flatten(p, nt) // a shared unexported constructor is seen in place
	}
	okNT := false
	if nt != nil && len(nt.Body.List) >= 1 {
		if ret, ok := nt.Body.List[len(nt.Body.List)-1].(*ast.ReturnStmt); ok && len(ret.Results) == 1 && len(ownReturnsOf(nt)) == 1 {
			res, _ := core.Resolve(nt.Info(), nt.Body, ret.Results[0])
			if u, ok := ast.Unparen(res).(*ast.UnaryExpr); ok && u.Op == token.AND {
				if cl, ok := u.X.(*ast.CompositeLit); ok {
					// freshly allocated empty maps among the fields, those of embedded struct literals included
					maps := 0
					var count func(cl *ast.CompositeLit)
					count = func(cl *ast.CompositeLit) {
						for _, el := range cl.Elts {
							kv, ok := el.(*ast.KeyValueExpr)
							if !ok {
								continue
							}
							v := ast.Unparen(kv.Value)
							if u, isU := v.(*ast.UnaryExpr); isU && u.Op == token.AND {
								v = ast.Unparen(u.X)
							}
							if m, ok := v.(*ast.CompositeLit); ok {
								if isMapType(nt.Info().TypeOf(m)) {
									if len(m.Elts) == 0 {
										maps++
									}
								} else {
									count(m)
								}
							}
							if c, ok := v.(*ast.CallExpr); ok && core.CalleeName(nt.Info(), c) == "builtin.make" && isMapType(nt.Info().TypeOf(c)) {
								maps++
							}
						}
					}
					count(cl)
					okNT = maps == 2
				}
			}
		}
	}
	r.Check(okNT, rule, nt, "a new import tracker starts with two empty maps of its own", token.NoPos, "&defaultImportTracker{pathToName: map{}, nameToPath: map{}}", "NewDefaultImportTracker does not return a struct with two newly allocated empty maps: import names chosen for one file leak into the next")
	// InitWith binds the namer on this file
	iw := fileMethod(p, "InitWith")
	if iw != nil {
		called := false
		for _, c := range core.Calls(loop.Body, true) {
			if core.CalleeFunc(info, c) == iw.Obj() {
				called = true
			}
		}
		r.Check(called, rule, f, "the file's namer is initialised per (package, generator)", loop.Pos(), "genfile.InitWith(ctx) in the loop body", "InitWith is not called for the per-generator file")
	}
}

func c05R3(p *core.Program, r *core.Report, pl *pipeline) {
	const rule = "R3"
	r.Floor(rule, 3)
	f := pl.pkgExec
	info := f.Info()
	loop, _ := genLoop(pl)
	if loop == nil {
		return
	}
	// the per-iteration context variable
	var ctxVar *types.Var
	ast.Inspect(loop.Body, func(n ast.Node) bool {
		as, ok := n.(*ast.AssignStmt)
		if !ok || as.Tok != token.DEFINE || len(as.Rhs) != 1 {
			return true
		}
		if u, ok := ast.Unparen(as.Rhs[0]).(*ast.UnaryExpr); ok && u.Op == token.AND {
			if cl, ok := u.X.(*ast.CompositeLit); ok && core.NamedTypeName(info.TypeOf(cl)) == ctxG(p) {
				ctxVar = core.VarOf(info, as.Lhs[0])
			}
		}
		return true
	})
	if ctxVar == nil {
		r.Anchor(rule, "per-iteration context variable")
		return
	}
	dg := pl.dispatch
	newFn := ctxMethod(p, "New")
	okRecv := true
	what := ""
	for _, c := range core.Calls(loop.Body, true) {
		fn := core.CalleeFunc(info, c)
		if fn == nil {
			// callbacks
			if v := core.VarOf(info, c.Fun); v != nil && len(c.Args) == 1 {
				if _, isSig := v.Type().Underlying().(*types.Signature); isSig && core.VarOf(info, c.Args[0]) != ctxVar {
					okRecv, what = false, core.ExprStr(c)
				}
			}
			continue
		}
		if (dg != nil && fn == dg.Obj()) || (newFn != nil && fn == newFn.Obj()) || fn.Name() == "IsZero" {
			rv := core.VarOf(info, recvOf(c))
			if rv != ctxVar && fn.Name() == "IsZero" {
				// the context's emptiness test written out: the file's own IsZero on the file of this very context
				if sel, isSel := ast.Unparen(recvOf(c)).(*ast.SelectorExpr); isSel && core.VarOf(info, sel.X) == ctxVar && core.FieldOf(info, sel) != nil {
					rv = ctxVar
				}
			}
			if rv != ctxVar {
				okRecv, what = false, core.ExprStr(c)
			}
		}
	}
	r.Check(okRecv, rule, f, "generation, callbacks and the emptiness test use the per-iteration context", loop.Pos(), "receiver/argument is the context allocated in this iteration", "`"+what+"` runs on another context than the one allocated for this (package, generator)")
	// receiver-field stores of gengoCtx
	// reviewed writers, by role: Defer appends to the callback list, the dispatchers set the ignore mark, Execute stores the loaded sum file
	allowedStore := func(root *core.Func, fld *types.Var) bool {
		switch fieldRole(p, fld) {
		case "ctx.callbacks":
			return root.Name == "(*"+ctxTypeName(p)+").Defer"
		case "ctx.ignore":
			// the dispatchers, or a private helper that only they call (their shared error-handling tail)
			var fromDispatchers func(f *core.Func, depth int) bool
			fromDispatchers = func(f *core.Func, depth int) bool {
				for _, d := range pl.dispatchers {
					if d == f {
						return true
					}
				}
				obj := f.Obj()
				if depth > 2 || obj == nil || obj.Exported() || len(funcValueUses(p, obj)) > 0 {
					return false
				}
				sites := 0
				for _, cs := range allCalls(p) {
					if cs.In.Body == nil || core.CalleeFunc(cs.In.Info(), cs.Call) != obj {
						continue
					}
					sites++
					if !fromDispatchers(cs.In.Root(), depth+1) {
						return false
					}
				}
				return sites > 0
			}
			return fromDispatchers(root, 0)
		case "ctx.sumFile":
			return pl.execute.Has(root)
		}
		return false
	}
	n := 0
	for _, ff := range p.Funcs() {
		if core.RelPkg(ff.Pkg.PkgPath) != "pkg/gengo" {
			continue
		}
		finfo := ff.Info()
		ast.Inspect(ff.Body, func(nd ast.Node) bool {
			if lit, ok := nd.(*ast.FuncLit); ok && lit != ff.Lit {
				return false
			}
			as, ok := nd.(*ast.AssignStmt)
			if !ok {
				return true
			}
			for _, l := range as.Lhs {
				sel, ok := ast.Unparen(l).(*ast.SelectorExpr)
				if !ok {
					continue
				}
				fld := core.FieldOf(finfo, sel)
				if fld == nil || core.NamedTypeName(finfo.TypeOf(sel.X)) != ctxG(p) {
					continue
				}
				n++
				root := ff.Root()
				viaRecv := core.SameRef(finfo, sel.X, recvIdent(root))
				if !viaRecv {
					// stores on a freshly allocated local context (e.g. pkgCtxForGen.l = ...) are local
					if v := core.VarOf(finfo, sel.X); v != nil && !isParamOf(root, v) {
						r.OK(rule, ff, "store into a locally allocated context: "+core.ExprStr(l), as.Pos(), "the context was allocated in this function")
						continue
					}
				}
				r.Check(allowedStore(root, fld), rule, ff, "receiver-field store "+core.ExprStr(l), as.Pos(), "reviewed writer of this field", "a long-lived or shared context's field `"+fld.Name()+"` is written here: per-run state may carry over between packages or generators")
			}
			return true
		})
	}
	if n == 0 {
		r.Anchor(rule, "stores into gengoCtx fields")
	}
}

// mutatingSyncMethods: methods that change a sync container.
var mutatingSyncMethods = map[string]bool{
	"(*sync.Map).Store": true, "(*sync.Map).LoadOrStore": true, "(*sync.Map).Delete": true, "(*sync.Map).Swap": true, "(*sync.Map).CompareAndSwap": true,
	"(*sync.Map).LoadAndDelete": true, "(*sync.Map).CompareAndDelete": true, "(*sync.Map).Clear": true, "(*sync.Pool).Put": true, "(*sync.Pool).Get": true,
}

func isPkgLevelVar(info *types.Info, e ast.Expr) *types.Var {
	for {
		e = ast.Unparen(e)
		switch x := e.(type) {
		case *ast.SelectorExpr:
			if _, isPkg := info.ObjectOf(identOf(x.X)).(*types.PkgName); isPkg {
				v, _ := info.ObjectOf(x.Sel).(*types.Var)
				if v != nil && !v.IsField() {
					return v
				}
				return nil
			}
			e = x.X
		case *ast.IndexExpr:
			e = x.X
		case *ast.StarExpr:
			e = x.X
		case *ast.UnaryExpr:
			e = x.X
		case *ast.Ident:
			v, _ := info.ObjectOf(x).(*types.Var)
			if v != nil && !v.IsField() && v.Pkg() != nil && v.Parent() == v.Pkg().Scope() {
				return v
			}
			return nil
		default:
			return nil
		}
	}
}

func c05R4(p *core.Program, r *core.Report) {
	const rule = "R4"
	r.Floor(rule, 3)
	io := initOnly(p)
	// enumerate package-level variables
	var names []string
	for _, pkg := range p.InScope() {
		sc := pkg.Types.Scope()
		for _, n := range sc.Names() {
			if v, ok := sc.Lookup(n).(*types.Var); ok {
				names = append(names, core.RelPkg(pkg.PkgPath)+"."+v.Name())
			}
		}
	}
	sort.Strings(names)
	r.Note("package-level variables in scope (%d): %s", len(names), strings.Join(names, ", "))
	nf := 0
	for _, f := range p.Funcs() {
		root := f.Root()
		if isInitFunc(root) || (root.Obj() != nil && io[root.Obj()]) {
			continue
		}
		// literals in package-level initialisers run whenever they are called: they are checked too
		nf++
		info := f.Info()
		for _, w := range globalWrites(f) {
			// the generator registry is written by Register, whose callers are init functions
			if root.Name == "Register" && core.RelPkg(root.Pkg.PkgPath) == "pkg/gengo" {
				ok := true
				for _, cs := range allCalls(p) {
					if core.CalleeFunc(cs.In.Info(), cs.Call) == root.Obj() && !isInitFunc(cs.In.Root()) {
						ok = false
					}
				}
				r.Check(ok, rule, f, "the generator registry is only filled from init functions", w.Pos(), "all in-scope callers of Register are init functions", "Register is called outside init: the set of generators can change during a run")
				continue
			}
			r.Bad(rule, f, "write to package-level state: "+core.ExprStr(w), w.Pos(), "a function that can run during generation mutates a package-level variable: output for one package can depend on what was processed before it")
		}
		ast.Inspect(f.Body, func(nd ast.Node) bool {
			if lit, ok := nd.(*ast.FuncLit); ok && lit != f.Lit {
				return false
			}
			c, ok := nd.(*ast.CallExpr)
			if !ok {
				return true
			}
			if mutatingSyncMethods[core.CalleeName(info, c)] {
				if v := isPkgLevelVar(info, recvOf(c)); v != nil {
					r.Bad(rule, f, "mutation of package-level "+v.Name()+" through "+shortName(core.CalleeName(info, c)), c.Pos(), "a process-wide cache/pool is filled during generation: what a later package sees depends on the packages processed earlier in the same run")
				}
			}
			return true
		})
	}
	r.OK(rule, nil, "no other package-level write outside init in the library", token.NoPos, fmt.Sprintf("%d function bodies scanned, %d package-level variables enumerated", nf, len(names)))
	// sample generators: state only in instance fields (their maps are created lazily on the receiver)
	for _, g := range []struct{ rel, typ string }{{"devpkg/deepcopygen", "deepcopyGen"}, {"devpkg/runtimedocgen", "runtimedocGen"}, {"devpkg/partialstruct", "partialStructGen"}, {"devpkg/defaultergen", "defaulterGen"}} {
		pkg := p.Pkg(g.rel)
		if pkg == nil {
			continue
		}
		mut := 0
		sc := pkg.Types.Scope()
		for _, n := range sc.Names() {
			if v, ok := sc.Lookup(n).(*types.Var); ok {
				switch v.Type().Underlying().(type) {
				case *types.Map, *types.Slice, *types.Pointer, *types.Chan:
					if strings.Contains(v.Type().String(), "regexp.Regexp") {
						continue
					}
					mut++
					r.Bad(rule, nil, "sample generator keeps state in package variable "+g.rel+"."+n, v.Pos(), "a mutable package-level container in a generator package")
				}
			}
		}
		if mut == 0 {
			r.OK(rule, nil, g.rel+": generator state lives in instance fields only", token.NoPos, "no mutable package-level container")
		}
	}
}

// ownReturnsOf: the return statements of f itself (not of nested literals).
func ownReturnsOf(f *core.Func) []*ast.ReturnStmt {
	var out []*ast.ReturnStmt
	ast.Inspect(f.Body, func(n ast.Node) bool {
		switch x := n.(type) {
		case *ast.FuncLit:
			return x == f.Lit
		case *ast.ReturnStmt:
			out = append(out, x)
		}
		return true
	})
	return out
}

// fieldVarOf: the field a composite-literal key identifier names.
func fieldVarOf(info *types.Info, id *ast.Ident) *types.Var {
	v, _ := info.ObjectOf(id).(*types.Var)
	if v != nil && v.IsField() {
		return v
	}
	return nil
}

// c05R6: every map the per-package function stores into is allocated by this very call: a local (or the field of a
// context built here) all of whose values are fresh `make`/literal maps. A map that came from outside - the global tag
// table, a field of the run's context - and is written per package carries one package's entries into the next.
func c05R6(p *core.Program, r *core.Report, pl *pipeline) {
	const rule = "R6"
	r.Floor(rule, 1)
	f := pl.pkgExec
	info := f.Info()
	var fresh func(e ast.Expr, depth int) (bool, string)
	fresh = func(e ast.Expr, depth int) (bool, string) {
		e = ast.Unparen(e)
		if depth > 6 {
			return false, "origin too deep to follow"
		}
		switch x := e.(type) {
		case *ast.CompositeLit:
			return true, ""
		case *ast.CallExpr:
			if core.CalleeName(info, x) == "builtin.make" {
				return true, ""
			}
			return false, "`" + core.ExprStr(x) + "` is not an allocation"
		case *ast.Ident:
			v := core.VarOf(info, x)
			if v == nil || v.IsField() || !core.DeclaredIn(info, f.Body, v) {
				return false, "`" + x.Name + "` is not a variable of this call"
			}
			defs := core.DefsOf(info, f.Body, v)
			if len(defs) == 0 {
				return false, "`" + x.Name + "` has no definition here"
			}
			for _, d := range defs {
				if d.Rhs == nil || d.Index >= 0 {
					if d.Kind == "var" && d.Rhs == nil {
						continue // declared nil, assigned later
					}
					return false, "`" + x.Name + "` is defined by " + d.Kind
				}
				if ok, why := fresh(d.Rhs, depth+1); !ok {
					return false, "`" + x.Name + "` can be `" + core.ExprStr(d.Rhs) + "`: " + why
				}
			}
			return true, ""
		case *ast.SelectorExpr:
			// field of a context built in this function
			fld := core.FieldOf(info, x)
			base := core.VarOf(info, x.X)
			if fld == nil || base == nil || !core.DeclaredIn(info, f.Body, base) {
				return false, "`" + core.ExprStr(x) + "` is reached through something that was not built by this call"
			}
			d, ok := core.SingleDef(info, f.Body, base)
			if !ok {
				return false, "`" + base.Name() + "` is assigned more than once"
			}
			inits, copies, ok := structInitsEx(info, f.Body, d.Rhs)
			if !ok {
				return false, "`" + base.Name() + "` is not built from a struct literal here"
			}
			v, has := inits[fld]
			if !has {
				// the field belongs to a part that is copied as a whole from another value built here
				if from, isCopy := copies[fld]; isCopy {
					root := ast.Unparen(from)
					for {
						sel, isSel := root.(*ast.SelectorExpr)
						if !isSel {
							break
						}
						root = ast.Unparen(sel.X)
					}
					if rv := core.VarOf(info, root); rv != nil && rv != base {
						n := &ast.SelectorExpr{X: root, Sel: &ast.Ident{Name: fld.Name(), NamePos: from.Pos()}}
						// evaluate "the same field of the value the part came from" by hand: no selection can be made up
						if rd, okd := core.SingleDef(info, f.Body, rv); okd && core.DeclaredIn(info, f.Body, rv) {
							if rinits, _, okr := structInitsEx(info, f.Body, rd.Rhs); okr {
								if rvv, has2 := rinits[fld]; has2 {
									return fresh(rvv, depth+1)
								}
							}
						}
						_ = n
					}
					return false, "field " + fld.Name() + " is copied from `" + core.ExprStr(from) + "`, which is not built by this call"
				}
				return false, "field " + fld.Name() + " is not initialised where `" + base.Name() + "` is built"
			}
			return fresh(v, depth+1)
		}
		return false, "`" + core.ExprStr(e) + "` is not an allocation"
	}
	n := 0
	check := func(container ast.Expr, at ast.Node) {
		if !isMapType(info.TypeOf(container)) {
			return
		}
		n++
		ok, why := fresh(container, 0)
		r.Check(ok, rule, f, "a map written per package is allocated by the per-package call: "+core.ExprStr(container), at.Pos(), "every value the container can have is a make/literal of this call",
			"the per-package function stores into a map that is not its own ("+why+"): entries written for one package are still there when the next package is processed, so what a package's generators see depends on what was generated before")
	}
	ast.Inspect(f.Body, func(m ast.Node) bool {
		switch x := m.(type) {
		case *ast.AssignStmt:
			for _, l := range x.Lhs {
				if ix, ok := ast.Unparen(l).(*ast.IndexExpr); ok {
					check(ix.X, x)
				}
			}
		case *ast.CallExpr:
			switch core.CalleeName(info, x) {
			case "builtin.delete", "builtin.clear", "maps.Copy", "maps.Insert":
				if len(x.Args) >= 1 {
					check(x.Args[0], x)
				}
			}
		}
		return true
	})
	if n == 0 {
		r.OK(rule, f, "the per-package function stores into no map", f.Node().Pos(), "nothing to carry over")
	}
}

// c05R7: the arguments of a run are shared by every package of the run and read where each package starts (the prefix
// of its previous output) and where it ends (the file name). Nothing in the library assigns a field of the arguments:
// a default filled in on first use is seen by the packages processed later and not by the first.
func c05R7(p *core.Program, r *core.Report) {
	const rule = "R7"
	r.Floor(rule, 1)
	n := 0
	isArgsField := func(info *types.Info, e ast.Expr) bool {
		fld := core.FieldOf(info, e)
		if fld == nil {
			return false
		}
		own := ownerOf(fld)
		return own != nil && own.Pkg() != nil && core.RelPkg(own.Pkg().Path()) == "pkg/gengo" && own.Name() == "GeneratorArgs"
	}
	for _, f := range p.Funcs() {
		if f.Body == nil {
			continue
		}
		info := f.Info()
		ast.Inspect(f.Body, func(m ast.Node) bool {
			if lit, ok := m.(*ast.FuncLit); ok && lit != f.Lit {
				return false
			}
			switch x := m.(type) {
			case *ast.AssignStmt:
				for _, l := range x.Lhs {
					base := ast.Unparen(l)
					if ix, isIx := base.(*ast.IndexExpr); isIx {
						base = ix.X
					}
					if isArgsField(info, base) {
						n++
						r.Bad(rule, f, "the run's arguments are written: "+core.ExprStr(x), x.Pos(), "a field of the shared GeneratorArgs is assigned while packages are processed: the packages handled before the assignment ran with another value than the ones after it (e.g. a default output base name that appears only after the first file name was built: the stale-file scan of the first package used the empty prefix)")
					}
				}
			case *ast.IncDecStmt:
				if isArgsField(info, x.X) {
					n++
					r.Bad(rule, f, "the run's arguments are written: "+core.ExprStr(x), x.Pos(), "a field of the shared GeneratorArgs is changed while packages are processed")
				}
			}
			return true
		})
	}
	if n == 0 {
		r.OK(rule, nil, "nothing in the library assigns a field of the run's arguments", token.NoPos, "GeneratorArgs is read-only after NewContext")
	}
}
