package rules

import (
	"fmt"
	"go/ast"
	"go/constant"
	"go/parser"
	"go/token"
	"go/types"
	"os"
	"regexp"
	"strings"

	"gengoverif/checker/internal/cfgx"
	"gengoverif/checker/internal/core"
)

func init() {
	register(Property{
		ID:          "C01",
		Explanation: "Decided statically on the file writer (anchor: the function of pkg/gengo that opens a file for writing) and the snippet writer: R1 sink provenance - the only transfer of bytes into the opened file is go/format.Node(f, fset, file) with file/fset being the result and FileSet of the single go/parser.ParseFile call, whose source is the bytes of the assembled buffer; the file is opened with O_TRUNC|O_CREATE (or os.Create), so no old tail survives; R2 must-pass-through - every path from ParseFile to format.Node passes mvdan.cc/gofumpt/format.File on the same fset/file with LangVersion derived from the module's GoVersion and ModulePath from the module's Path (of c.Package(\"\").Module()); R3 header shape - the first write into the source buffer is an Fprintf with a constant format which, with its verbs replaced by marker identifiers, parses to a file whose leading comment contains the generator-name operand and whose package clause is the operand originating from c.Package(\"\").Pkg().Name(); R4 verbatim append - the snippet writer writes every fragment of Frag unmodified with io.WriteString, skipping only nil/IsNil snippets; the source buffer receives header, imports (writeImports) and the body (io.Copy of the very buffer handed to the snippet writer) in this order and nothing else. R5 in the loop over the generators a non-empty file is handed to the writer on every path (the only way round the hand-over is the edge on which the file is known to be empty) and the writer call over the queue is unconditional; R6 the directory written to is the processed package's own (C13.R6). R7 the import printer writes the imports as one parenthesised declaration (no constant spells a lone `import <spec>`); R8 every generator of a package renders into a context and file of its own (C05.R2/R3). R9 the tree returned by ParseFile is handed to the formatters and the printer only (no store into it, no other callee, no replacement); R10 the body buffer of a file only grows (no Truncate/Reset/read, no replacement; handed only to the snippet writer's constructor, to writers as destination and to the file writer's io.Copy); R5 also: the emptiness test is made after the last rendering of the iteration (no dispatch or deferred callback follows it). R11 the module record gofumpt's options come from is what go list reported (C13.R9). NOT decided: that go/format and gofumpt are idempotent (fixed point) and that a rendered body parses (its failure path is C02) - properties of third-party code and run-time strings. Round 8: R12 = C09.R7 (a snippet is skipped only when it holds nothing: a blank Block is text); R4 also reads an import block that the writer prints itself (the statement holding `import (` is one step of the source order). Round 9: R13 = C07.R1 (the output file is named after the generator's name as it is).",
		Assumptions: append([]string{"go/format.Node prints canonical gofmt output for a parsed AST; gofumpt's format.File applies its rules in place (third-party, trusted)"}, commonAssumptions...),
		Run:         runC01,
	})
}

func runC01(p *core.Program, r *core.Report) {
	pl := findPipeline(p, r, "R1")
	if pl == nil {
		return
	}
	w := pl.write
	info := w.Info()
	g := graph(w)
	parse := core.CallsTo(info, w.Body, true, "go/parser.ParseFile")
	if len(parse) != 1 {
		r.Anchor("R1", "single go/parser.ParseFile call in the file writer")
		return
	}
	var fileV, fsetV *types.Var
	if as, ok := g.PointOf(parse[0]).Node().(*ast.AssignStmt); ok && len(as.Lhs) == 2 {
		fileV = core.VarOf(info, as.Lhs[0])
	}
	fsetV = core.VarOf(info, parse[0].Args[0])
	c01R1(p, r, w, parse[0], fileV, fsetV)
	c01R2(p, r, w, parse[0], fileV, fsetV)
	c01R3(p, r, w)
	c01R4(p, r, w, parse[0])
	c01R5(p, r, pl)
	// R6: "declares the target package's own name": the file is written into the directory of the package it was
	// rendered for, which the writer takes from Package.SourceDir()
	chainRules(p, r, "R6", "C13", []string{"C13.R6"}, "the directory a file is written to is the processed package's own")
	c01R7(p, r)
	// R8: "the declarations the generator rendered": each (package, generator) renders into its own context and file
	chainRules(p, r, "R8", "C05", []string{"C05.R2", "C05.R3"}, "every generator of a package renders into a context and file of its own")
	// R11: "gofumpt for the module's language version": the version and module path handed to gofumpt are the module's as
	// go list reports them - nothing edits the loaded module record (C13.R9)
	chainRules(p, r, "R11", "C13", []string{"C13.R9"}, "the loaded module record is not edited")
	// round 8: whether rendered text reaches the file also rests on the snippets answering IsNil for nothing but emptiness
	chainRules(p, r, "R12", "C09", []string{"C09.R7"}, "a snippet is skipped only when it holds nothing (a blank Block is text)")
	// round 9: two generators never share a file - the name of the file is the generator's name as it is (C07.R1)
	chainRules(p, r, "R13", "C07", []string{"C07.R1"}, "the output file is named <base>.<generator name>.go, the name as it is")
	c01R9(p, r, w, parse[0], fileV)
	c01R10(p, r, w)
}

var loneImport = regexp.MustCompile(`(^|\n)\s*import\s+[^(\s]`)

// c01R7: "a fixed point of gofmt and of gofumpt": the imports are written as ONE parenthesised declaration. That is the
// form go/format sorts and gofumpt groups; a lone `import x "p"` line can be joined by gofumpt with an adjacent lone
// import a generator rendered, into a declaration neither tool sorts afterwards - the written file is then not a fixed
// point. The import printer emits no constant that spells an import spec outside the block.
func c01R7(p *core.Program, r *core.Report) {
	const rule = "R7"
	r.Floor(rule, 1)
	ip := importPrinter(p)
	if ip == nil {
		r.Anchor(rule, "the import printer of pkg/gengo (the function that emits `import (`)")
		return
	}
	info := ip.Info()
	bad := ""
	n := 0
	ast.Inspect(ip.Body, func(m ast.Node) bool {
		e, ok := m.(ast.Expr)
		if !ok {
			return true
		}
		if _, isLit := e.(*ast.BasicLit); !isLit {
			if _, isID := e.(*ast.Ident); !isID {
				return true
			}
		}
		s, isC := core.ConstString(info, e)
		if !isC {
			return true
		}
		n++
		if loneImport.MatchString(s) {
			bad = s
		}
		return true
	})
	r.Check(bad == "", rule, ip, "imports are written as one parenthesised declaration", ip.Node().Pos(), "no constant of the printer spells `import <spec>` outside the block",
		"the import printer can write a lone import line ("+strconvQuote(strings.TrimSpace(bad))+"): next to a lone import rendered by a generator, gofumpt joins the two into one declaration that is neither grouped nor sorted - the file on disk is not a fixed point of gofmt/gofumpt")
}

func c01R1(p *core.Program, r *core.Report, w *core.Func, parse *ast.CallExpr, fileV, fsetV *types.Var) {
	const rule = "R1"
	r.Floor(rule, 3)
	info := w.Info()
	// every effect in the write function that transfers bytes
	nodeCalls := 0
	for _, e := range fileEffects(p) {
		if !w.Has(e.In) {
			continue
		}
		switch e.Kind {
		case "write":
			if e.Callee == "go/format.Node" && len(e.Call.Args) == 3 {
				nodeCalls++
				okArgs := isOSFile(info.TypeOf(e.Call.Args[0])) && sameAlias(w, e.Call.Args[1], fsetV) && sameAlias(w, e.Call.Args[2], fileV) && fileV != nil && fsetV != nil
				r.Check(okArgs, rule, w, "the file receives format.Node of the parsed AST", e.Call.Pos(), "format.Node(f, fset, file) with fset/file of the ParseFile call",
					"format.Node does not print the AST returned by the ParseFile call (with its FileSet) into the opened file")
			} else {
				r.Bad(rule, w, "bytes reach the file through "+e.Callee, e.Call.Pos(), "the output file is written by something else than go/format.Node of the parsed and formatted AST (e.g. a bare go/printer, which skips gofmt's literal normalisation, or raw bytes): the file on disk is not canonical gofmt output")
			}
		case "open":
			// flags must truncate
			switch e.Callee {
			case "os.Create":
				r.OK(rule, w, "destination is truncated on open (os.Create)", e.Call.Pos(), "os.Create truncates")
			case "os.OpenFile":
				flags, ok := int64(0), false
				if tv := info.Types[e.Call.Args[1]]; tv.Value != nil && tv.Value.Kind() == constant.Int {
					flags, ok = constant.Int64Val(tv.Value)
				}
				good := ok && flags&int64(os.O_TRUNC) != 0 && flags&int64(os.O_CREATE) != 0 && flags&int64(os.O_WRONLY|os.O_RDWR) != 0
				r.Check(good, rule, w, "destination is truncated on open (O_TRUNC|O_CREATE)", e.Call.Pos(), "constant flags contain O_TRUNC, O_CREATE and a write mode", "the destination is opened without O_TRUNC|O_CREATE: when the new output is shorter than the existing file the old tail survives and the file no longer parses")
			default:
				r.Bad(rule, w, "destination opened through "+e.Callee, e.Call.Pos(), "unexpected way of opening the output file")
			}
		}
	}
	if nodeCalls == 0 {
		r.Bad(rule, w, "the file receives format.Node of the parsed AST", w.Node().Pos(), "no go/format.Node call writes into the opened file: the bytes on disk are not printer output of the parsed, formatted AST")
	}
	// the parsed source is the assembled buffer
	src, _ := core.Resolve(info, w.Body, parse.Args[2])
	okSrc := false
	if c, ok := ast.Unparen(src).(*ast.CallExpr); ok && (core.CalleeName(info, c) == "(*bytes.Buffer).Bytes" || core.CalleeName(info, c) == "(*bytes.Buffer).String") { // the buffer's content, as bytes or as a string: go/parser takes either
		okSrc = true
	}
	r.Check(okSrc, rule, w, "the parsed source is the assembled buffer", parse.Pos(), "ParseFile(fset, name, src.Bytes(), ...)", "ParseFile does not parse the bytes of the assembled source buffer")
	// parse mode keeps comments
	mode := core.ExprStr(parse.Args[3])
	keeps := strings.Contains(mode, "ParseComments")
	if tv, okc := info.Types[parse.Args[3]]; okc && tv.Value != nil {
		// the mode as a value: a named constant for the flags is the same mode
		if v, exact := constant.Uint64Val(constant.ToInt(tv.Value)); exact {
			keeps = v&uint64(parser.ParseComments) != 0
		}
	}
	r.Check(keeps, rule, w, "comments are kept when parsing", parse.Pos(), "parser.ParseComments in the mode", "the assembled source is parsed without ParseComments: the generator header and rendered comments are dropped from the file")
}

func c01R2(p *core.Program, r *core.Report, w *core.Func, parse *ast.CallExpr, fileV, fsetV *types.Var) {
	const rule = "R2"
	r.Floor(rule, 3)
	info := w.Info()
	g := graph(w)
	fumpt := core.CallsTo(info, w.Body, true, "mvdan.cc/gofumpt/format.File")
	nodes := core.CallsTo(info, w.Body, true, "go/format.Node")
	if len(nodes) == 0 {
		return
	}
	isFumpt := func(q cfgx.Point) bool {
		for _, c := range core.CallsTo(info, q.Node(), true, "mvdan.cc/gofumpt/format.File") {
			if len(c.Args) == 3 && sameAlias(w, c.Args[0], fsetV) && sameAlias(w, c.Args[1], fileV) {
				return true
			}
		}
		return false
	}
	pp := g.PointOf(parse)
	for _, n := range nodes {
		np := g.PointOf(n)
		_, skip := g.Reach(pp, false, cfgx.Query{
			Target: func(q cfgx.Point) bool { return q == np },
			Cut:    func(q cfgx.Point) bool { return q.Node() != nil && isFumpt(q) },
		})
		r.Check(!skip && len(fumpt) > 0, rule, w, "gofumpt is applied to the parsed file before printing", n.Pos(), "every path from ParseFile to format.Node passes gofumpt's format.File(fset, file, ...)", "a path reaches format.Node without gofumpt having been applied to the same AST: the written file is gofmt- but not gofumpt-canonical")
	}
	for _, c := range fumpt {
		if len(c.Args) != 3 {
			continue
		}
		opt, _ := core.Resolve(info, w.Body, c.Args[2])
		cl, ok := ast.Unparen(opt).(*ast.CompositeLit)
		if !ok {
			r.Unknown(rule, w, "gofumpt options", c.Pos(), "options are not a literal")
			continue
		}
		var modOKd func(e ast.Expr, field string, depth int) bool
		modOKd = func(e ast.Expr, field string, depth int) bool {
			found := false
			ast.Inspect(e, func(n ast.Node) bool {
				// a local (or the parameter of an inlined helper) that was given the value
				if id, isID := n.(*ast.Ident); isID && depth < 4 {
					if v := core.VarOf(info, id); v != nil && !v.IsField() {
						if d, single := core.SingleDef(info, w.Body, v); single && d.Rhs != nil && d.Index < 0 && modOKd(d.Rhs, field, depth+1) {
							found = true
						}
					}
				}
				sel, isSel := n.(*ast.SelectorExpr)
				if !isSel || sel.Sel.Name != field {
					return true
				}
				s := canonBase(p, w, sel.X, 0)
				if strings.HasSuffix(s, `.Package("").Module()`) {
					found = true
				}
				return true
			})
			return found
		}
		modOK := func(e ast.Expr, field string) bool { return modOKd(e, field, 0) }
		var lang, modp, extra ast.Expr
		for _, el := range cl.Elts {
			if kv, isKV := el.(*ast.KeyValueExpr); isKV {
				switch kv.Key.(*ast.Ident).Name {
				case "LangVersion":
					lang = kv.Value
				case "ModulePath":
					modp = kv.Value
				case "ExtraRules":
					extra = kv.Value
				}
			}
		}
		r.Check(lang != nil && modOK(lang, "GoVersion"), rule, w, "gofumpt LangVersion comes from the target module's go version", c.Pos(), "derived from c.Package(\"\").Module().GoVersion", "gofumpt's LangVersion is not derived from the target package's module GoVersion (constant or missing): version-dependent rules are applied for the wrong language version")
		r.Check(modp != nil && modOK(modp, "Path"), rule, w, "gofumpt ModulePath comes from the target module's path", c.Pos(), "derived from c.Package(\"\").Module().Path", "gofumpt's ModulePath is not the target module's path: std/module import grouping is wrong for this module")
		if extra != nil {
			tv := info.Types[extra]
			r.Check(tv.Value != nil && tv.Value.String() == "false", rule, w, "gofumpt extra rules stay off", c.Pos(), "ExtraRules: false", "gofumpt's ExtraRules are switched on: the output is no fixed point of plain gofumpt")
		}
	}
}

func c01R3(p *core.Program, r *core.Report, w *core.Func) {
	const rule = "R3"
	r.Floor(rule, 2)
	info := w.Info()
	g := graph(w)
	// source buffer: the buffer whose Bytes() are parsed
	var src *types.Var
	for _, c := range core.CallsTo(info, w.Body, true, "(*bytes.Buffer).Bytes", "(*bytes.Buffer).String") {
		if v := core.VarOf(info, recvOf(c)); v != nil {
			src = v
		}
	}
	if src == nil {
		r.Anchor(rule, "source buffer of the file writer")
		return
	}
	// the header: every write into the source buffer (alias class) that precedes the import block,
	// in dominance order; its abstract text (constant parts + one marker per operand) is what is parsed.
	// A single Fprintf, several WriteStrings or a mix are the same thing.
	isImports := func(c *ast.CallExpr) bool {
		// the import block step: a call of the import printer, or any call that passes the source buffer together with the tracker's Imports()
		if isImportPrinterCall(p, info, c) {
			return true
		}
		for _, a := range c.Args {
			if ic, ok := ast.Unparen(a).(*ast.CallExpr); ok && strings.HasSuffix(core.CalleeName(info, ic), ").Imports") {
				return true
			}
		}
		return false
	}
	type hw struct {
		at   cfgx.Point
		call *ast.CallExpr
		t    tmpl
		ok   bool
	}
	var writes []hw
	var stop []cfgx.Point // imports / body steps
	for _, q := range g.Points(func(n ast.Node) bool { return true }) {
		for _, c := range core.Calls(q.Node(), true) {
			if g.InLit(c) {
				continue
			}
			name := core.CalleeName(info, c)
			if name == "io.Copy" && len(c.Args) == 2 && sameAlias(w, c.Args[0], src) {
				stop = append(stop, q)
				continue
			}
			if name == "(*bytes.Buffer).WriteTo" && len(c.Args) == 1 && sameAlias(w, c.Args[0], src) { // buf.WriteTo(src) is io.Copy(src, buf)
				stop = append(stop, q)
				continue
			}
			passesSrc := false
			for _, a := range c.Args {
				if sameAlias(w, a, src) {
					passesSrc = true
				}
			}
			if passesSrc && isImports(c) {
				stop = append(stop, q)
				continue
			}
			if dest, t, ok := writeTemplate(info, c); dest != nil && sameAlias(w, dest, src) {
				writes = append(writes, hw{q, c, t, ok})
			}
		}
	}
	// header writes: those that dominate every stop point
	var header []hw
	for _, x := range writes {
		before := len(stop) > 0
		for _, sp := range stop {
			if !g.Dominates(x.at, sp) {
				before = false
			}
		}
		if before {
			header = append(header, x)
		}
	}
	// order by dominance
	sortedOK := true
	for i := 0; i < len(header); i++ {
		for j := i + 1; j < len(header); j++ {
			if g.Dominates(header[j].at, header[i].at) && !g.Dominates(header[i].at, header[j].at) {
				header[i], header[j] = header[j], header[i]
			}
		}
	}
	for i := 0; i+1 < len(header); i++ {
		if !g.Dominates(header[i].at, header[i+1].at) {
			sortedOK = false
		}
	}
	if len(header) == 0 || !sortedOK {
		r.Bad(rule, w, "the file starts with the generator header", w.Node().Pos(), "no write of a header into the source buffer precedes the import block on every path")
		return
	}
	first := header[0].call
	full := tmpl{}
	for _, x := range header {
		if !x.ok {
			r.Bad(rule, w, "the header is built from constant text", x.call.Pos(), "a header write is not constant text with plain string operands: "+core.ExprStr(x.call))
			return
		}
		full = full.concat(x.t)
	}
	ops := full.Ops
	var sb strings.Builder
	k := 0
	for i := 0; i < len(full.Text); i++ {
		if full.Text[i] == 0 {
			sb.WriteString(fmt.Sprintf("MARKER%d", k))
			k++
			continue
		}
		sb.WriteByte(full.Text[i])
	}
	fset := token.NewFileSet()
	hf, err := parser.ParseFile(fset, "header.go", sb.String()+"\n", parser.PackageClauseOnly|parser.ParseComments)
	if err != nil {
		r.Bad(rule, w, "the header parses as comment + package clause", first.Pos(), "with markers for its operands the constant header does not parse up to the package clause: "+errStr(err))
		return
	}
	// which operand is which
	nameOp, pkgOps := -1, map[int]bool{}
	for i, o := range ops {
		oe, _ := core.Resolve(info, w.Body, o)
		if fld := core.FieldOf(info, oe); isRole(p, fld, "file.name") && sameAlias(w, oe.(*ast.SelectorExpr).X, recvVar(w)) {
			nameOp = i
		}
		e, _ := core.Resolve(info, w.Body, o)
		if strings.HasSuffix(canonBase(p, w, e, 0), `.Package("").Pkg().Name()`) {
			pkgOps[i] = true
		}
	}
	pkgMarker := -1
	fmt.Sscanf(hf.Name.Name, "MARKER%d", &pkgMarker)
	r.Check(pkgMarker >= 0 && pkgOps[pkgMarker], rule, w, "the package clause declares the target package's own name", first.Pos(), "package <c.Package(\"\").Pkg().Name()>",
		"the operand substituted into the package clause is not the target package's Name(): the generated file declares another package")
	firstIsComment := len(hf.Comments) > 0 && hf.Comments[0].Pos() < hf.Package && fset.Position(hf.Comments[0].Pos()).Offset == strings.Index(sb.String(), "/")
	inComment := false
	if len(hf.Comments) > 0 && nameOp >= 0 {
		for _, c := range hf.Comments[0].List {
			if strings.Contains(c.Text, fmt.Sprintf("MARKER%d", nameOp)) {
				inComment = true
			}
		}
	}
	r.Check(firstIsComment && inComment, rule, w, "the file opens with a comment naming the generator", first.Pos(), "leading comment contains ff.name", "the file does not open with a comment that contains the generator's name")
}

func c01R4(p *core.Program, r *core.Report, w *core.Func, parse *ast.CallExpr) {
	const rule = "R4"
	r.Floor(rule, 4)
	info := w.Info()
	g := graph(w)
	var src *types.Var
	for _, c := range core.CallsTo(info, w.Body, true, "(*bytes.Buffer).Bytes", "(*bytes.Buffer).String") {
		if v := core.VarOf(info, recvOf(c)); v != nil {
			src = v
		}
	}
	if src == nil {
		return
	}
	// ordered writes into src
	type wr struct {
		at   cfgx.Point
		kind string
		call *ast.CallExpr
	}
	var ws []wr
	region := importRegion(p, w)
	isImportsCall := func(c *ast.CallExpr) bool {
		if isImportPrinterCall(p, info, c) {
			return true
		}
		for _, a := range c.Args {
			if ic, ok := ast.Unparen(a).(*ast.CallExpr); ok && strings.HasSuffix(core.CalleeName(info, ic), ").Imports") {
				return true
			}
		}
		return false
	}
	for _, q := range g.Points(func(n ast.Node) bool { return true }) {
		for _, c := range core.Calls(q.Node(), true) {
			if g.InLit(c) {
				continue
			}
			name := core.CalleeName(info, c)
			passesSrc := false
			for _, a := range c.Args {
				if sameAlias(w, a, src) {
					passesSrc = true
				}
			}
			dest, _, _ := writeTemplate(info, c)
			switch {
			case passesSrc && isImportsCall(c):
				ws = append(ws, wr{q, "imports", c})
			case name == "io.Copy" && len(c.Args) == 2 && sameAlias(w, c.Args[0], src):
				ws = append(ws, wr{q, "body", c})
			case name == "(*bytes.Buffer).WriteTo" && len(c.Args) == 1 && sameAlias(w, c.Args[0], src) && recvOf(c) != nil:
				// buf.WriteTo(src) is io.Copy(src, buf): shown with the operands of the copy
				ws = append(ws, wr{q, "body", &ast.CallExpr{Fun: c.Fun, Lparen: c.Lparen, Args: []ast.Expr{c.Args[0], recvOf(c)}, Rparen: c.Rparen}})
			case dest != nil && sameAlias(w, dest, src) && region != nil && region.Pos() <= c.Pos() && c.End() <= region.End():
				// the import block printed in place: the statement that holds it is one step
				dup := false
				for _, x := range ws {
					if x.kind == "imports" {
						dup = true
					}
				}
				if !dup {
					ws = append(ws, wr{g.FirstIn(region), "imports", c})
				}
			case dest != nil && sameAlias(w, dest, src):
				// text writes: they form the header when they precede the import block (R3 checks what they say)
				if len(ws) > 0 && ws[len(ws)-1].kind == "header" {
					continue // consecutive header writes are one step
				}
				ws = append(ws, wr{q, "header", c})
			default:
				mentions := passesSrc
				if rv := core.VarOf(info, recvOf(c)); rv != nil && sameAlias(w, recvOf(c), src) && strings.HasPrefix(name, "(*bytes.Buffer).") && name != "(*bytes.Buffer).Bytes" && name != "(*bytes.Buffer).Len" && name != "(*bytes.Buffer).String" {
					mentions = true
				}
				if mentions && name != "bytes.NewBuffer" {
					ws = append(ws, wr{q, "other:" + name, c})
				}
			}
		}
	}
	order := ""
	okOrder := len(ws) == 3
	if okOrder {
		for i, want := range []string{"header", "imports", "body"} {
			found := false
			for _, x := range ws {
				if x.kind == want {
					found = true
					// dominates the later ones
					for _, y := range ws {
						for j, w2 := range []string{"header", "imports", "body"} {
							if y.kind == w2 && j > i && !g.Dominates(x.at, y.at) {
								okOrder = false
							}
						}
					}
				}
			}
			if !found {
				okOrder = false
			}
		}
	}
	for _, x := range ws {
		order += x.kind + " "
	}
	r.Check(okOrder, rule, w, "the source is header, then imports, then the rendered body, and nothing else", w.Node().Pos(), "Fprintf(header) -> writeImports -> io.Copy(src, body), each dominating the next",
		"the assembled source is not exactly header -> import block -> body in this order (writes seen: "+strings.TrimSpace(order)+"): declarations are lost, duplicated or precede the package clause")
	// the body copied is ff.body, the buffer handed to the snippet writer
	bodyOK := false
	for _, x := range ws {
		if x.kind == "body" {
			if fld := core.FieldOf(info, x.call.Args[1]); isRole(p, fld, "file.body") && sameAlias(w, x.call.Args[1].(*ast.SelectorExpr).X, recvVar(w)) {
				bodyOK = true
			}
		}
	}
	iw := fileMethod(p, "InitWith")
	swOK := false
	if iw != nil {
		for _, c := range core.CallsTo(iw.Info(), iw.Body, true, core.G("pkg/gengo.NewSnippetWriter")) {
			if fld := core.FieldOf(iw.Info(), c.Args[0]); isRole(p, fld, "file.body") && core.SameRef(iw.Info(), c.Args[0].(*ast.SelectorExpr).X, recvIdent(iw)) {
				swOK = true
			}
		}
	}
	// body field: single store in the constructor
	stores := 0
	for _, f := range p.Funcs() {
		if core.RelPkg(f.Pkg.PkgPath) != "pkg/gengo" {
			continue
		}
		finfo := f.Info()
		ast.Inspect(f.Body, func(n ast.Node) bool {
			switch x := n.(type) {
			case *ast.KeyValueExpr:
				if id, ok := x.Key.(*ast.Ident); ok && id.Name == "body" {
					if v, ok := finfo.ObjectOf(id).(*types.Var); ok && v.IsField() {
						stores++
					}
				}
			case *ast.AssignStmt:
				for _, l := range x.Lhs {
					if fld := core.FieldOf(finfo, l); isRole(p, fld, "file.body") && core.NamedTypeName(fld.Type()) == "bytes.Buffer" {
						stores++
					}
				}
			}
			return true
		})
	}
	r.Check(bodyOK && swOK && stores == 1, rule, w, "the body written is the buffer the generator rendered into", w.Node().Pos(), "io.Copy(src, ff.body); NewSnippetWriter(ff.body, ...); body stored once", "the buffer copied into the file is not the (single-store) buffer the snippet writer renders into")
	// the snippet writer
	rf := p.FuncByName("pkg/gengo", "(*snippetWriter).Render")
	if rf == nil {
		r.Anchor(rule, "pkg/gengo.(*snippetWriter).Render")
		return
	}
	rinfo := rf.Info()
	rg := graph(rf)
	nw := 0
	for _, c := range core.Calls(rf.Body, true) {
		name := core.CalleeName(rinfo, c)
		idx, isW := writerCallees[name]
		if !isW && !strings.HasSuffix(name, ").Write") && !strings.HasSuffix(name, ").WriteString") {
			continue
		}
		if isW && (idx < 0 || idx >= len(c.Args)) {
			continue
		}
		nw++
		good := name == "io.WriteString" && len(c.Args) == 2
		if good {
			fld := core.FieldOf(rinfo, c.Args[0])
			good = fld != nil && fld.Name() == "Writer"
			v := core.VarOf(rinfo, c.Args[1])
			d, ok := core.SingleDef(rinfo, rf.Body, v)
			good = good && v != nil && ok && d.Kind == "range-key"
			if good {
				fc, isCall := ast.Unparen(d.Rhs).(*ast.CallExpr)
				good = isCall && core.CalleeName(rinfo, fc) == "("+core.G("pkg/gengo/snippet.Snippet")+").Frag"
				if good {
					if pv := core.VarOf(rinfo, recvOf(fc)); pv == nil || !isParamOf(rf, pv) {
						good = false
					}
				}
			}
		}
		r.Check(good, rule, rf, "fragments are appended verbatim: "+core.ExprStr(c), c.Pos(), "io.WriteString(sw.Writer, code) for code ranging over snippet.Frag(ctx)", "the snippet writer does not append each fragment of the rendered snippet unmodified (trimmed, transformed, or written somewhere else)")
		// guards: only nil / IsNil
		for _, fct := range rg.FactsAt(rg.PointOf(c)) {
			okGuard := false
			if cc, isCall := ast.Unparen(fct.Cond).(*ast.CallExpr); isCall && strings.HasSuffix(core.CalleeName(rinfo, cc), "Snippet).IsNil") && !fct.Val {
				okGuard = true
			}
			if b, isBin := ast.Unparen(fct.Cond).(*ast.BinaryExpr); isBin && (b.Op == token.EQL || b.Op == token.NEQ) {
				if id, isID := ast.Unparen(b.Y).(*ast.Ident); isID && id.Name == "nil" {
					okGuard = true
				}
			}
			if !okGuard {
				r.Bad(rule, rf, "a snippet is skipped only when nil/IsNil: "+core.ExprStr(fct.Cond), fct.Cond.Pos(), "rendering is filtered by another condition: declarations a generator rendered are dropped")
			}
		}
	}
	if nw == 0 {
		r.Bad(rule, rf, "fragments are appended verbatim", rf.Node().Pos(), "Render does not write to its writer")
	}
	// Context.Render / RenderT forward to the file's writer
	for _, name := range []string{"(*" + ctxTypeName(p) + ").Render", "(*" + ctxTypeName(p) + ").RenderT"} {
		f := p.FuncByName("pkg/gengo", name)
		if f == nil {
			r.Anchor(rule, "pkg/gengo."+name)
			continue
		}
		ok := false
		for _, c := range core.Calls(f.Body, true) {
			if fld := core.FieldOf(f.Info(), recvOf(c)); !isRole(p, fld, "ctx.genfile") {
				continue
			}
			if strings.HasSuffix(core.CalleeName(f.Info(), c), "SnippetWriter).Render") {
				ok = true // the file's (embedded) snippet writer
			}
			// ... or the file's own Render method, which is itself a single forward to its snippet writer
			if h := p.FuncOfObj(core.CalleeFunc(f.Info(), c)); h != nil && h.Body != nil && len(h.Body.List) == 1 && h.Decl != nil && h.Decl.Recv != nil {
				for _, hc := range core.Calls(h.Body, true) {
					if strings.HasSuffix(core.CalleeName(h.Info(), hc), "SnippetWriter).Render") && len(hc.Args) == 1 && len(c.Args) == 1 {
						if pv := core.VarOf(h.Info(), hc.Args[0]); pv != nil && isParamOf(h, pv) {
							ok = true
						}
					}
				}
			}
		}
		r.Check(ok && len(f.Body.List) == 1, rule, f, name+" forwards to the context's own file", f.Node().Pos(), "c.genfile.Render(...)", name+" does not simply forward to c.genfile.Render")
	}
	_ = parse
}

// writeSites: the calls of the file writer inside the per-package function, each with the loop that feeds it and
// the container that loop ranges over.
type writeSite struct {
	Call      *ast.CallExpr
	Loop      *ast.RangeStmt
	Container *types.Var
}

func writeSitesOf(p *core.Program, pl *pipeline) []writeSite {
	f := pl.pkgExec
	info := f.Info()
	wobj := pl.write.Obj()
	if pl.write.Origin != nil {
		wobj = pl.write.Origin.Obj()
	}
	var out []writeSite
	for _, c := range core.Calls(f.Body, true) {
		if wobj == nil || core.CalleeFunc(info, c) != wobj {
			continue
		}
		ws := writeSite{Call: c}
		path := core.PathTo(f.Body, c)
		for k := len(path) - 1; k >= 0; k-- {
			if rs, ok := path[k].(*ast.RangeStmt); ok {
				ws.Loop = rs
				e := ast.Unparen(rs.X)
				for {
					switch x := e.(type) {
					case *ast.SelectorExpr:
						// m.Range of a sync.Map (range over func) or a field
						if fn, isFn := info.ObjectOf(x.Sel).(*types.Func); isFn && fn.Name() == "Range" {
							e = ast.Unparen(x.X)
							continue
						}
					case *ast.CallExpr:
						if len(x.Args) == 1 { // maps.Values(m), slices.Values(s)
							e = ast.Unparen(x.Args[0])
							continue
						}
					case *ast.UnaryExpr:
						e = ast.Unparen(x.X)
						continue
					}
					break
				}
				ws.Container = core.CanonVarOf(info, f.Body, e)
				if ws.Container == nil {
					if fld := core.FieldOf(info, e); fld != nil {
						ws.Container = fld
					}
				}
				break
			}
		}
		out = append(out, ws)
	}
	return out
}

// fileEmptyTests: the functions of pkg/gengo whose result `true` implies that the file's body is empty: the file
// type's own test (a method whose only statement returns a condition over the body buffer - nil or Len() == 0), and
// functions returning a conjunction that contains such a test.
func fileEmptyTests(p *core.Program) map[*types.Func]bool {
	out := map[*types.Func]bool{}
	for round := 0; round < 3; round++ {
		for _, f := range p.Funcs() {
			if core.RelPkg(f.Pkg.PkgPath) != "pkg/gengo" || f.Decl == nil || f.Obj() == nil || out[f.Obj()] {
				continue
			}
			ret := singleReturn(f)
			if ret == nil || f.Decl.Type.Results == nil || len(f.Decl.Type.Results.List) != 1 || !isBasicKind(f.Info().TypeOf(f.Decl.Type.Results.List[0].Type), types.Bool) {
				continue
			}
			info := f.Info()
			// the base test: a disjunction whose every operand looks at the body buffer only, one of them Len() == 0
			onlyBody, hasLen := true, false
			var walk func(e ast.Expr)
			walk = func(e ast.Expr) {
				e = ast.Unparen(e)
				if b, ok := e.(*ast.BinaryExpr); ok && b.Op == token.LOR {
					walk(b.X)
					walk(b.Y)
					return
				}
				b, ok := e.(*ast.BinaryExpr)
				if !ok || b.Op != token.EQL {
					onlyBody = false
					return
				}
				if id, isNil := ast.Unparen(b.Y).(*ast.Ident); isNil && id.Name == "nil" && roleValue(p, info, b.X, "file.body") {
					return
				}
				if k, isC := core.ConstInt(info, b.Y); isC && k == 0 {
					if lc, isCall := ast.Unparen(b.X).(*ast.CallExpr); isCall && strings.HasSuffix(core.CalleeName(info, lc), ").Len") && roleValue(p, info, recvOf(lc), "file.body") {
						hasLen = true
						return
					}
				}
				onlyBody = false
			}
			walk(ret)
			if onlyBody && hasLen {
				out[f.Obj()] = true
				continue
			}
			// a conjunction containing a known test
			for _, a := range cfgx.Atoms(ret, true) {
				if c, ok := ast.Unparen(a.Cond).(*ast.CallExpr); ok && a.Val && out[core.CalleeFunc(info, c)] {
					out[f.Obj()] = true
				}
			}
		}
	}
	return out
}

// c01R5: "contains the declarations the generator rendered": in the loop over the generators, after the types were
// dispatched, a file that is not empty is handed on to the writer on every path - the only way round the hand-over is
// the edge on which the file is known to be empty - and the writer is called for every file handed on, unconditionally.
func c01R5(p *core.Program, r *core.Report, pl *pipeline) {
	const rule = "R5"
	r.Floor(rule, 2)
	f := pl.pkgExec
	info := f.Info()
	g := graph(f)
	loop, _ := genLoop(pl)
	var disp *ast.CallExpr
	if pl.dispatch != nil {
		for _, c := range core.Calls(f.Body, true) {
			if core.CalleeFunc(info, c) == pl.dispatch.Obj() {
				disp = c
			}
		}
	}
	sites := writeSitesOf(p, pl)
	if loop == nil || disp == nil || len(sites) == 0 {
		r.Anchor(rule, "generator loop, dispatch call and writer call of the per-package function")
		return
	}
	empty := fileEmptyTests(p)
	// hand-over: a node of the loop body that passes the context's file on (stores it in the queue / writes it)
	isFileExpr := func(e ast.Expr) bool { return isRole(p, core.FieldOf(info, e), "ctx.genfile") }
	handsOn := func(n ast.Node) bool {
		hit := false
		ast.Inspect(n, func(m ast.Node) bool {
			if _, ok := m.(*ast.FuncLit); ok {
				return false
			}
			switch x := m.(type) {
			case *ast.CallExpr:
				for _, a := range x.Args {
					if isFileExpr(a) {
						hit = true
					}
				}
				for _, ws := range sites {
					if ws.Call == x {
						hit = true
					}
				}
			case *ast.AssignStmt:
				for i, l := range x.Lhs {
					if _, isIx := ast.Unparen(l).(*ast.IndexExpr); isIx && i < len(x.Rhs) && isFileExpr(x.Rhs[i]) {
						hit = true
					}
				}
			}
			return !hit
		})
		return hit
	}
	inLoop := func(n ast.Node) bool { return n != nil && loop.Body.Pos() <= n.Pos() && n.End() <= loop.Body.End() }
	knownEmpty := func(b *cfgBlock, k int) bool {
		if len(b.Succs) != 2 || len(b.Nodes) == 0 {
			return false
		}
		e, ok := b.Nodes[len(b.Nodes)-1].(ast.Expr)
		if !ok {
			return false
		}
		for _, a := range cfgx.Atoms(e, k == 0) {
			if c, ok := ast.Unparen(a.Cond).(*ast.CallExpr); ok && a.Val && empty[core.CalleeFunc(info, c)] {
				return true
			}
		}
		return false
	}
	tp, missed := g.Reach(g.PointOf(disp), false, cfgx.Query{
		CutEdge: knownEmpty,
		Target: func(q cfgx.Point) bool {
			if q.B.Stmt == ast.Stmt(loop) && (q.B.Kind == kindRangeLoop || q.B.Kind == kindRangeDone) {
				return true
			}
			if ret, ok := q.Node().(*ast.ReturnStmt); ok && len(ret.Results) == 1 {
				if id, ok := ast.Unparen(ret.Results[0]).(*ast.Ident); ok && id.Name == "nil" {
					return true
				}
			}
			return false
		},
		Cut: func(q cfgx.Point) bool {
			n := q.Node()
			if n == nil {
				return false
			}
			if inLoop(n) && handsOn(n) {
				return true
			}
			if _, ok := n.(*ast.ReturnStmt); ok {
				return true // an error return ends the run
			}
			return false
		},
	})
	why := ""
	if missed {
		why = "after the types were dispatched the loop over the generators can move on without handing the file to the writer on a path where the file is not known to be empty"
		if n := tp.Node(); n != nil {
			why += " (reaching `" + core.ExprStr(n) + "`)"
		}
		why += ": what the generator rendered in this run is dropped and the file on disk keeps the previous run's declarations"
	}
	r.Check(!missed, rule, f, "a non-empty file is always handed to the writer", disp.Pos(), "every path from the dispatch to the next generator passes the hand-over or the edge on which the file is empty", why)
	// the emptiness test is made when nothing can render into the file any more: within the iteration no dispatch and no
	// call of a deferred callback (a value taken from the context's callback list) follows it
	isCallbackCall := func(n ast.Node) bool {
		hit := false
		ast.Inspect(n, func(m ast.Node) bool {
			if _, ok := m.(*ast.FuncLit); ok {
				return false
			}
			c, ok := m.(*ast.CallExpr)
			if !ok {
				return true
			}
			if c == disp {
				hit = true
			}
			if v := core.VarOf(info, c.Fun); v != nil && !v.IsField() {
				for _, d := range core.DefsOf(info, f.Body, v) {
					if d.Rhs == nil {
						continue
					}
					src, _ := core.Resolve(info, f.Body, d.Rhs)
					if ix, isIx := ast.Unparen(src).(*ast.IndexExpr); isIx {
						src = ix.X
					}
					if isRole(p, core.FieldOf(info, src), "ctx.callbacks") {
						hit = true
					}
				}
			}
			return !hit
		})
		return hit
	}
	for _, br := range g.Branches() {
		if !inLoop(br.Cond) || br.Tag != nil {
			continue
		}
		tests := false
		for k := 0; k < 2; k++ {
			if knownEmpty(br.B, k) {
				tests = true
			}
		}
		if !tests {
			continue
		}
		start := cfgx.Point{B: br.B, I: len(br.B.Nodes) - 1}
		late, found := g.Reach(start, false, cfgx.Query{
			Target: func(q cfgx.Point) bool { n := q.Node(); return n != nil && inLoop(n) && isCallbackCall(n) },
			Cut: func(q cfgx.Point) bool {
				return q.B.Stmt == ast.Stmt(loop) && (q.B.Kind == kindRangeLoop || q.B.Kind == kindRangeDone)
			},
		})
		whyLate := ""
		if found {
			whyLate = "after the file was tested for emptiness the same iteration still runs `" + core.ExprStr(late.Node()) + "`, which can render into it: a generator that renders only from a deferred callback is taken for silent - its file is not written and its previous file is removed as stale"
		}
		r.Check(!found, rule, f, "the file is tested for emptiness after the last rendering of the iteration", br.Cond.Pos(), "no dispatch and no deferred callback runs between the test and the next generator", whyLate)
	}
	for _, ws := range sites {
		bad := ""
		for _, fct := range g.FactsAt(g.PointOf(ws.Call)) {
			if fct.Cond.Pos() < loop.End() {
				continue // decided before or while the generators ran: not about a file that was handed on
			}
			if v := core.VarOf(info, fct.Cond); v != nil && isBasicKind(v.Type(), types.Bool) {
				if d, ok := core.SingleDef(info, f.Body, v); ok && d.Index == 1 {
					continue // comma-ok of the conversion of the queued value
				}
			}
			if b, ok := ast.Unparen(fct.Cond).(*ast.BinaryExpr); ok {
				if v := core.VarOf(info, b.X); v != nil && isErrorType(v.Type()) {
					continue
				}
			}
			bad = core.ExprStr(fct.Cond)
		}
		r.Check(bad == "", rule, f, "every file handed on is written", ws.Call.Pos(), "the writer call is unconditional in the loop over the queue", "the writer is called only under `"+bad+"`: a rendered file can stay unwritten")
	}
}

// c07R7 (shared anchor): the queue of files the per-package function writes is its own: a variable declared in the
// function, filled in this call. A queue that lives longer (a field of the run's context, a package-level variable)
// still holds the files of the packages processed before, and they are written again - into this package's directory.
func c07R7(p *core.Program, r *core.Report, pl *pipeline) {
	const rule = "R7"
	r.Floor(rule, 1)
	f := pl.pkgExec
	info := f.Info()
	sites := writeSitesOf(p, pl)
	if len(sites) == 0 {
		r.Anchor(rule, "call of the file writer in the per-package function")
		return
	}
	for _, ws := range sites {
		if ws.Loop == nil {
			// written directly: the file must be the one of a context made in this function
			r.OK(rule, f, "the file is written directly, without a queue", ws.Call.Pos(), "no container between rendering and writing")
			continue
		}
		local := ws.Container != nil && !ws.Container.IsField() && core.DeclaredIn(info, f.Body, ws.Container)
		what := "<unresolved>"
		if ws.Container != nil {
			what = ws.Container.Name()
		}
		r.Check(local, rule, f, "the queue of files to write belongs to this call", ws.Loop.Pos(), "the loop around the writer ranges over a variable declared in the function",
			"the files written for a package are taken from `"+what+"`, which outlives the per-package call: files rendered for the packages processed before are written again, with this package's context, into this package's directory")
	}
}
