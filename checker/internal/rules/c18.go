package rules

import (
	"go/ast"
	"go/token"
	"go/types"
	"strings"

	"gengoverif/checker/internal/core"
)

func init() {
	register(Property{
		ID:          "C18",
		Explanation: "Decided statically on constants and literals: T1/T2 the partialstruct templates are fully bound and their skeletons parse (the field template as a struct field list); C17.R1 the generated DeepCopyAs starts with the nil guard; T3 struct-tag and doc text reach the generated struct only behind Comment, as a quoted literal, or - tags - verbatim between the template's backquotes, never through snippet.ID (a reference parser that splits at '.'); R1 the rendering call is dominated by the struct assertion having succeeded and the origin being known, and both failure edges return a non-nil fmt.Errorf; R2 the field list and the copy body skip exactly the same fields (same Omit map, same key f.Name()), fields are emitted in index order over the struct's own NumFields(), and the field type is rendered by ID(f.Type()) (type printer, imports registered); R4 the origin is taken from the declaration spec whose name matches the generated type (no last-wins over a grouped declaration). R3 the obligations of the shared field-copy helper (C17.R3/R7) hold; R5 no schedule-dependent order source in the generator. R2 also: every store into the Omit set stores the constant true (the field list tests presence, the copy body the value); R6 the import block binds every registered package under the name the rendered field types use (C03.R2's printer rule). R1 accepts any newly made error; R7 the error GenerateType returns reaches the result of Execute (C02.R4/R5); R8 the generated file is replaced as a whole (C01.R1). R9 field types are rendered structurally with element types through the printer (C11.R1); R10 effective tags are merged into a fresh map per declaration (C06.R3). R11 the copy helper uses the field context of the field at hand (C17.R12); R12 tag key/value split at the first '=' or space (C12.R4). R13 import names are bound only when free and always committed (C03.R4/R6); R14 ID renders go/types types through the type-literal printer only (C11.R4). R15 = C09.R7 (a snippet is skipped only when it holds nothing); R16 = C13.R3 (the imports of every registered package are followed). NOT decided: that the compiled struct equals origin minus omitted fields and the copy semantics (needs compilation/execution). Round 8: R17 = C17.R9 (the shared copy helper gives every field a copy statement), R18 = C06.R9 (a package is processed with the generators it was given). Round 9: R19 the origin stored for a partial struct is the checker's object for the identifier the declaration wrote.",
		Assumptions: commonAssumptions,
		Run:         runC18,
	})
}

func runC18(p *core.Program, r *core.Report) {
	// the generator has three template sites, two of them with the same field template: merging those two is a
	// refactoring, so two distinct templates are what must remain visible
	r.Floor("T1", 2)
	r.Floor("T2", 2)
	sites := templateRules(p, r, "devpkg/partialstruct")
	c17R1(p, r, sites, 1)
	r.Floor("T3", 1)
	t3Report(p, r, sites, "devpkg/partialstruct")
	c18R1(p, r)
	c18R2(p, r, sites)
	r.Floor("R4", 1)
	c17R4(p, r, "devpkg/partialstruct")
	c17R3(p, r, "devpkg/partialstruct")
	// the copy body comes from the shared field-copy helper: its container arms are part of this property too
	sub := core.NewReport(r.Prog, "C17")
	c17R2(p, sub)
	c17R7(p, sub)
	r.Floor("R3", 3)
	for _, o := range sub.Obls {
		if o.Status == core.Violated || o.Status == core.Undecided {
			r.Bad("R3", nil, "shared copy helper: "+o.Construct, token.NoPos, o.How)
		} else {
			r.OK("R3", nil, "shared copy helper: "+o.Construct, token.NoPos, o.How)
		}
	}
	generatorOrderSources(p, r, "R5", "devpkg/partialstruct")
	// R7: "is reported as an error": the error GenerateType returns reaches the result of Execute
	chainRules(p, r, "R7", "C02", []string{"C02.R4", "C02.R5"}, "an error returned by GenerateType reaches the result of Execute")
	// R8: "the generated code compiles": the file is replaced as a whole, no tail of the previous output survives
	chainRules(p, r, "R8", "C01", []string{"C01.R1"}, "the generated file is replaced as a whole")
	// R9: "with identical types": every arm of the type printer goes through the printer for its element types
	chainRules(p, r, "R9", "C11", []string{"C11.R1"}, "field types are rendered structurally, element types through the printer")
	// R10: "exactly the origin's fields that are not omitted": the omit/replace tags a type is generated with are its own
	// effective tags, merged into a fresh map (C06.R3)
	chainRules(p, r, "R10", "C06", []string{"C06.R3"}, "effective tags are merged into a fresh map per declaration")
	// R11: "replaced by a replace tag": the copy helper asks the generator's FieldContext hook for EVERY field and uses the
	// answer for that field only (C17.R12: the context of a field is the hook's answer or a value made for this field)
	chainRules(p, r, "R11", "C17", []string{"C17.R12"}, "the copy helper uses the field context of the field at hand")
	// R12: the omit / replace tags are read with the documented tag syntax: key and value are split at the first '=' or
	// space (C12.R4), so `replace Spec:SpecPartial json:\"spec\" validate:\"min=1\"` keeps its key
	chainRules(p, r, "R12", "C12", []string{"C12.R4"}, "tag lines are split into key and value at the first '=' or space")
	// R13: "foreign types correctly imported": the names the import block binds are unique and always committed (C03.R4/R6)
	chainRules(p, r, "R13", "C03", []string{"C03.R4", "C03.R6"}, "an import name is bound only when free, and a name is always committed")
	// R14: "identical types": a field type given as a go/types type is rendered by the type-literal printer, whatever kind
	// it is (C11.R4)
	chainRules(p, r, "R14", "C11", []string{"C11.R4"}, "ID renders go/types and reflect types through the type-literal printer only")
	// R15: "identical tags": the tag is rendered through snippet.Block, which renders whatever text it holds - a renderer
	// skips a part only when IsNil, and IsNil is a plain emptiness test (C09.R7)
	chainRules(p, r, "R15", "C09", []string{"C09.R7"}, "a snippet is skipped only when it holds nothing")
	// R16: "generates for a valid origin": the package of every type reached from a loaded package is in the universe -
	// Context.Doc looks the field's package up there (C13.R3)
	chainRules(p, r, "R16", "C13", []string{"C13.R3"}, "the imports of every registered package are followed")
	// round 8: the shared copy helper gives every field a copy statement
	chainRules(p, r, "R17", "C17", []string{"C17.R9"}, "every field of the struct gets a copy statement")
	chainRules(p, r, "R18", "C06", []string{"C06.R9"}, "a package is processed with the generators it was given")
	c18R19(p, r)
	// R6: "foreign types correctly imported" - every package the type printer registered is
	// imported under the very name the rendered field types use (C03.R2's printer rule)
	r.Floor("R6", 2)
	importBlockRule(p, r, "R6")
}

func c18R1(p *core.Program, r *core.Report) {
	const rule = "R1"
	r.Floor(rule, 3)
	f := p.FuncByName("devpkg/partialstruct", "(*partialStructGen).GenerateType")
	gen := p.FuncByName("devpkg/partialstruct", "(*PartialStruct).generate")
	if f == nil || gen == nil {
		r.Anchor(rule, "devpkg/partialstruct.(*partialStructGen).GenerateType / (*PartialStruct).generate")
		return
	}
	info := f.Info()
	g := graph(f)
	var call *ast.CallExpr
	for _, c := range core.Calls(f.Body, true) {
		if core.CalleeFunc(info, c) == gen.Obj() {
			call = c
		}
	}
	if call == nil {
		r.Anchor(rule, "call of (*PartialStruct).generate in GenerateType")
		return
	}
	facts := g.FactsAt(g.PointOf(call))
	isStruct, hasOrigin := false, false
	for _, fct := range facts {
		if v := core.VarOf(info, fct.Cond); v != nil && fct.Val {
			if d, ok := core.SingleDef(info, f.Body, v); ok && d.Index == 1 {
				if ta, ok := ast.Unparen(d.Rhs).(*ast.TypeAssertExpr); ok && core.NamedTypeName(info.TypeOf(ta.Type)) == "go/types.Struct" {
					isStruct = true
				}
			}
		}
		if b, ok := ast.Unparen(fct.Cond).(*ast.BinaryExpr); ok && ((b.Op == token.EQL && !fct.Val) || (b.Op == token.NEQ && fct.Val)) {
			if fld := core.FieldOf(info, b.X); fld != nil && fld.Name() == "Origin" {
				hasOrigin = true
			}
		}
	}
	r.Check(isStruct, rule, f, "code is rendered only for struct declarations", call.Pos(), "dominated by the *types.Struct assertion succeeding", "rendering is reachable for a declaration whose underlying type is not a struct")
	r.Check(hasOrigin, rule, f, "code is rendered only when the origin type is known", call.Pos(), "dominated by Origin != nil", "rendering is reachable without an origin type (`type x origin.T` not recognised): a nil origin is rendered")
	// failure edges return fmt.Errorf
	nerr := 0
	for _, rp := range g.Points(func(n ast.Node) bool { _, ok := n.(*ast.ReturnStmt); return ok }) {
		ret := rp.Node().(*ast.ReturnStmt)
		if len(ret.Results) == 1 && isNewError(info, ret.Results[0]) {
			nerr++
		}
	}
	r.Check(nerr >= 2, rule, f, "non-struct and non-derived declarations are reported as errors", f.Node().Pos(), "two returns of a newly made error", "a declaration that is not a struct / not defined from another named type is not reported as an error")
	// nothing is rendered before the checks
	early := false
	for _, c := range core.Calls(f.Body, true) {
		cn := core.CalleeName(info, c)
		if (strings.HasSuffix(cn, ").RenderT") || strings.HasSuffix(cn, ").Render")) && !g.Dominates(g.PointOf(call), g.PointOf(c)) {
			early = true
		}
	}
	r.Check(!early, rule, f, "nothing is rendered before the declaration was validated", f.Node().Pos(), "no Render call outside generate", "something is rendered before the struct/origin checks")
	// the struct handed to generate is the asserted one and belongs to the generated type
	okArg := false
	// the struct argument: the one of type *types.Struct (third of the method; one further on when the receiver became a parameter)
	var structArg ast.Expr
	for _, a := range call.Args {
		if core.NamedTypeName(info.TypeOf(a)) == "go/types.Struct" {
			structArg = a
		}
	}
	if structArg != nil {
		if v := core.VarOf(info, structArg); v != nil {
			if d, ok := core.SingleDef(info, f.Body, v); ok && d.Index == 0 {
				if ta, ok := ast.Unparen(d.Rhs).(*ast.TypeAssertExpr); ok {
					e, _ := core.Resolve(info, f.Body, ta.X)
					if c, ok := ast.Unparen(e).(*ast.CallExpr); ok && strings.HasSuffix(core.CalleeName(info, c), ").Underlying") {
						if nv := core.VarOf(info, recvOf(c)); nv != nil && isParamOf(f, nv) {
							okArg = true
						}
					}
				}
			}
		}
	}
	r.Check(okArg, rule, f, "the rendered struct is the generated type's own underlying struct", call.Pos(), "named.Underlying().(*types.Struct)", "generate does not receive the underlying struct of the type being generated")
}

func c18R2(p *core.Program, r *core.Report, sites []templateSite) {
	const rule = "R2"
	r.Floor(rule, 4)
	gen := p.FuncByName("devpkg/partialstruct", "(*PartialStruct).generate")
	if gen == nil {
		r.Anchor(rule, "devpkg/partialstruct.(*PartialStruct).generate")
		return
	}
	// every index of the Omit map in generate and its literals: key must be <field var>.Name()
	n := 0
	// generate, its literals, and the methods of the package it hands on as callbacks (`Skip: ps.omitted`)
	genRaw := gen
	if gen.Origin != nil {
		genRaw = gen.Origin // the declaration behind a method-like view
	}
	part := reachableFrom(p, genRaw)
	for _, f := range p.Funcs() {
		if f.Root() != genRaw && !(part[f] && f.Pkg == gen.Pkg) {
			continue
		}
		info := f.Info()
		ast.Inspect(f.Body, func(nd ast.Node) bool {
			if lit, ok := nd.(*ast.FuncLit); ok && lit != f.Lit {
				return false
			}
			ix, ok := nd.(*ast.IndexExpr)
			if !ok {
				return true
			}
			fld := core.FieldOf(info, ix.X)
			if fld == nil || fld.Name() != "Omit" {
				return true
			}
			n++
			e, _ := core.Resolve(info, f.Root().Body, ix.Index)
			good := false
			if c, ok := ast.Unparen(e).(*ast.CallExpr); ok && isMethodOfVar(info, c, "Name") {
				good = true
			}
			r.Check(good, rule, f, "field is skipped by its own name: "+core.ExprStr(ix), ix.Pos(), "Omit[f.Name()]", "the omit test does not use the field's own name as key: the field list and the copy body skip different fields")
			return true
		})
	}
	r.Check(n >= 2, rule, gen, "both the field list and the copy body consult the Omit set", gen.Node().Pos(), itoa(int64(n))+" lookups", "the Omit set is not consulted by both the field list and the copy helper's Skip callback: an omitted field is still copied (does not compile) or a kept field is not copied")
	// Omit is a set: the field list tests presence, the copy body tests the value; the two agree only
	// while every stored value is the constant true (a present-but-false entry drops the field from
	// the struct but keeps its copy statement, which does not compile)
	nst := 0
	for _, f := range p.Funcs() {
		if core.RelPkg(f.Pkg.PkgPath) != "devpkg/partialstruct" {
			continue
		}
		info := f.Info()
		ast.Inspect(f.Body, func(nd ast.Node) bool {
			if lit, ok := nd.(*ast.FuncLit); ok && lit != f.Lit {
				return false
			}
			as, ok := nd.(*ast.AssignStmt)
			if !ok {
				return true
			}
			for i, l := range as.Lhs {
				ix, ok := ast.Unparen(l).(*ast.IndexExpr)
				if !ok || i >= len(as.Rhs) {
					continue
				}
				if fld := core.FieldOf(info, ix.X); fld == nil || fld.Name() != "Omit" {
					continue
				}
				nst++
				tv := info.Types[as.Rhs[i]]
				r.Check(tv.Value != nil && tv.Value.String() == "true" && as.Tok == token.ASSIGN, rule, f, "the Omit set only ever stores true: "+core.ExprStr(as), as.Pos(), "constant true",
					"an entry of the Omit set can be present with a value other than true: the field list (presence test) drops the field while the copy body (value test) still copies it, so the generated code refers to a field the generated struct does not have")
			}
			return true
		})
	}
	if nst == 0 {
		r.Anchor(rule, "store into the Omit set in devpkg/partialstruct")
	}
	// fieldType is ID(f.Type()) ; fieldName is ID(f.Name())
	okType := false
	for _, s := range sites {
		for _, b := range s.Bindings {
			if b.Name != "fieldType" || b.Ctor != "ID" {
				continue
			}
			alts := b.Alts
			if len(alts) == 0 {
				alts = []ast.Expr{b.Expr}
			}
			for _, alt := range alts {
				if c, ok := ast.Unparen(alt).(*ast.CallExpr); ok && len(c.Args) == 1 {
					if tc, ok := ast.Unparen(c.Args[0]).(*ast.CallExpr); ok && isMethodOfVar(s.F.Info(), tc, "Type") {
						okType = true
					}
				}
			}
		}
	}
	r.Check(okType, rule, gen, "field types are rendered by the type printer", gen.Node().Pos(), "fieldType: ID(f.Type())", "no field template binds fieldType to ID(f.Type()): foreign field types are not imported / not identical")
	// index-order loop over the struct's own fields
	sub := core.NewReport(r.Prog, "C14")
	c14R3(p, sub)
	loops := 0
	for _, o := range sub.Obls {
		if strings.HasPrefix(o.Func, "devpkg/partialstruct.") {
			loops++
			if o.Status != core.Discharged {
				r.Bad(rule, gen, o.Construct, token.NoPos, o.How)
			}
		}
	}
	r.Check(loops >= 1, rule, gen, "fields are emitted in index order over the struct's own NumFields()", gen.Node().Pos(), "counted loop with matching accessor", "no counted loop over the struct's fields")
}

// isNewError: the expression makes an error value on the spot (fmt.Errorf, errors.New, errors.Join, a literal of
// an error type) or names a package-level error variable - in any case it is an error and it is not nil.
func isNewError(info *types.Info, e ast.Expr) bool {
	e = ast.Unparen(e)
	if core.AsCall(info, e, "fmt.Errorf", "errors.New", "errors.Join") != nil {
		return true
	}
	t := info.TypeOf(e)
	if t == nil || !types.Implements(t, types.Universe.Lookup("error").Type().Underlying().(*types.Interface)) {
		return false
	}
	switch x := e.(type) {
	case *ast.UnaryExpr:
		_, ok := ast.Unparen(x.X).(*ast.CompositeLit)
		return ok
	case *ast.CompositeLit:
		return true
	case *ast.Ident:
		if v, ok := info.ObjectOf(x).(*types.Var); ok && v.Pkg() != nil && v.Parent() == v.Pkg().Scope() {
			return true
		}
	case *ast.SelectorExpr:
		if v, ok := info.ObjectOf(x.Sel).(*types.Var); ok && !v.IsField() && v.Pkg() != nil && v.Parent() == v.Pkg().Scope() {
			return true
		}
	}
	return false
}
