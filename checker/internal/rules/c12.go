package rules

import (
	"go/ast"
	"go/constant"
	"go/parser"
	"go/token"
	"go/types"
	"sort"
	"strings"

	"gengoverif/checker/internal/cfgx"
	"gengoverif/checker/internal/core"
)

func init() {
	register(Property{
		ID:          "C12",
		Explanation: "Decided statically: R1 provenance of the two comment indexes - under the assumption isTrailing == t every store of the collecting closure writes the index of class t, and a comment group is entered as 'leading' only if it is some node's .Doc, or the generic *ast.CommentGroup visit filtered by a membership test in a set that holds the .Comment group of every node kind that has one (Field, ValueSpec, TypeSpec, ImportSpec); a .Comment group is only ever entered as 'trailing' (so a trailing comment can never become the next line's doc); R2 Doc looks up line-1 and Comment line+0, and the trailing index is consulted only for delta 0; R3 index keys: trailing entries at the statement's own line, leading entries at the line above the statement or the line the group ends on, first entry wins; R4 tag extraction: every iteration appends the line to exactly one of {other lines, tags[key]}, decided by a condition that is equivalent (truth table over {line empty, first byte is a marker}; membership test recognised semantically) to `non-empty and first byte is one of the markers`, on the line trimmed with cutset \" \", default markers are '+' and '@', key/value split happens at the first '=' or ' ' only, and lines starting with go: are dropped from comment lines. R1 also: a filter-set store cannot be bypassed inside its case clause (only an `x.Comment != nil` guard is tolerated); R5 Doc, Comment and what they call write no receiver state and fill no cache (callers edit the returned lines in place). R4 also: the comment text is cut at every line break, without a bound on the number of pieces. R2 also: builder and lookup of the comment index turn positions into (file, line) by the same mapping (FileSet.Position vs PositionFor/File.Line), looked through the package's own helpers. R1 also: a group is entered under the position of the node that owns it. R6 every file is parsed with comments (no ParseFile hook in the loader's packages.Config, or a constant mode with ParseComments). R1 also: the callback of the indexing walk answers true (false only for the nil node). R1 also: the .Doc group of every ValueSpec, TypeSpec and Field is entered under the declaration's own position; R4 also: comment lines are handed on as they were cut. NOT decided: the exact text of returned lines for every comment layout (block comments, TrimSpace, blank lines) - value level. Round 8: R1 also: a group entered as leading is the node of the walk or a node's .Doc, never an element of a ranged-over list such as File.Comments (free-floating comments are nobody's documentation); R2/R3 also read keys and lookups that are written out in place (fileLine{x.Filename, x.Line + c} over FileSet.Position).",
		Assumptions: append([]string{"ast.Inspect visits a node before its children (so a spec's .Comment is marked before the generic comment-group visit sees it)"}, commonAssumptions...),
		Run:         runC12,
	})
}

func runC12(p *core.Program, r *core.Report) {
	np := p.FuncByName("pkg/types", "newPkg")
	if np == nil {
		r.Anchor("R1", "pkg/types.newPkg")
		return
	}
	c12R1R3(p, r, flatten(p, np)) // a closure's parameter object shown as its parameters
	c12R2(p, r)
	c12R4(p, r)
	// R5: Doc and Comment build their answer from the indexes on every call and remember
	// nothing: a shared (cached) result is edited by callers - Context.Doc strips the type name
	// from the first line in place - so the next lookup would not return the comment's lines
	r.Floor("R5", 1)
	roots := []*core.Func{}
	for _, n := range []string{"(*pkgInfo).Doc", "(*pkgInfo).Comment"} {
		if f := p.FuncByName("pkg/types", n); f != nil {
			roots = append(roots, f)
		} else {
			r.Anchor("R5", "pkg/types."+n)
		}
	}
	if len(roots) == 2 {
		reach := map[*core.Func]bool{}
		for f := range reachableFrom(p, roots...) {
			if core.RelPkg(f.Pkg.PkgPath) == "pkg/types" {
				reach[f.Root()] = true
			}
		}
		universeWriteScan(p, r, "R5", reach)
	}
	c12R6(p, r)
}

// isCommentGroupMap: map[fileLine]*ast.CommentGroup field
func isCommentGroupMapField(v *types.Var) bool {
	if v == nil {
		return false
	}
	m, ok := v.Type().Underlying().(*types.Map)
	return ok && core.NamedTypeName(m.Elem()) == "go/ast.CommentGroup"
}

func isTrailingField(v *types.Var) bool {
	return strings.Contains(strings.ToLower(v.Name()), "trailing")
}

func c12R1R3(p *core.Program, r *core.Report, np *core.Func) {
	info := np.Info()
	r.Floor("R1", 9)
	r.Floor("R3", 4)
	// the collecting closure: the literal that stores into a comment-group index
	isCGMap := func(t types.Type) bool {
		if t == nil {
			return false
		}
		m, ok := t.Underlying().(*types.Map)
		return ok && core.NamedTypeName(m.Elem()) == "go/ast.CommentGroup"
	}
	storesIn := func(l *core.Func) []*ast.AssignStmt {
		var out []*ast.AssignStmt
		ast.Inspect(l.Body, func(n ast.Node) bool {
			if lit, ok := n.(*ast.FuncLit); ok && lit != l.Lit {
				return false
			}
			as, ok := n.(*ast.AssignStmt)
			if !ok || len(as.Lhs) != 1 {
				return true
			}
			if ix, ok := ast.Unparen(as.Lhs[0]).(*ast.IndexExpr); ok && isCGMap(info.TypeOf(ix.X)) {
				out = append(out, as)
			}
			return true
		})
		return out
	}
	var col *core.Func
	for _, l := range np.Lits {
		if len(storesIn(l)) > 0 && col == nil {
			col = l
		}
	}
	if col == nil {
		r.Anchor("R1", "closure in newPkg that stores into the leading and the trailing comment index")
		return
	}
	// the functions under newPkg: the program's literals, or - when newPkg is read through a view that has literals of
	// its own (a closure's parameter object shown as parameters) - the view's
	npRaw := np
	if np.Origin != nil {
		npRaw = np.Origin
	}
	under := func() []*core.Func {
		if np.Origin != nil {
			return np.AllFuncs()
		}
		var out []*core.Func
		for _, f := range p.Funcs() {
			if f.Root() == np {
				out = append(out, f)
			}
		}
		return out
	}
	colVar := litVar(col)
	params := col.Type.Params.List
	var pGroup, pTrailing, pPos *types.Var
	flat := []*types.Var{}
	for _, f := range params {
		for _, n := range f.Names {
			v, _ := info.ObjectOf(n).(*types.Var)
			flat = append(flat, v)
		}
	}
	if len(flat) == 3 {
		pGroup, pTrailing, pPos = flat[0], flat[1], flat[2]
	} else {
		r.Anchor("R1", "collecting closure has parameters (group, isTrailing, pos)")
		return
	}
	g := graph(col)
	trailingID := identFor(info, col, pTrailing)
	// which index does a store write when isTrailing == t ? ("" = store not executed under t)
	type storeUnder struct {
		S        *ast.AssignStmt
		Trailing bool
	}
	var feasibleStores []storeUnder
	classOf := func(st *ast.AssignStmt, t bool) (class string, feasible bool) {
		assume := []cfgx.Fact{{Cond: trailingID, Val: t}}
		at := g.PointOf(st)
		if _, ok := g.Reach(g.Entry(), true, cfgx.Query{Target: func(q cfgx.Point) bool { return q == at }, CutEdge: assumeCut(info, assume)}); !ok {
			return "", false
		}
		ix := ast.Unparen(st.Lhs[0]).(*ast.IndexExpr)
		fieldClass := func(e ast.Expr) string {
			f := core.FieldOf(info, e)
			if !isCommentGroupMapField(f) {
				return "?"
			}
			if isTrailingField(f) {
				return "trailing"
			}
			return "leading"
		}
		if core.FieldOf(info, ix.X) != nil {
			return fieldClass(ix.X), true
		}
		v := core.VarOf(info, ix.X)
		if v == nil {
			return "?", true
		}
		defs, fromEntry := reachingDefsAssuming(g, info, v, at, assume)
		if fromEntry || len(defs) == 0 {
			return "?", true
		}
		class = ""
		for _, d := range defs {
			c := "?"
			if as, ok := d.Node().(*ast.AssignStmt); ok && len(as.Lhs) == 1 && len(as.Rhs) == 1 {
				c = fieldClass(as.Rhs[0])
			}
			if class != "" && class != c {
				return "?", true
			}
			class = c
		}
		return class, true
	}
	for _, st := range storesIn(col) {
		for _, t := range []bool{false, true} {
			class, feasible := classOf(st, t)
			if !feasible {
				continue
			}
			feasibleStores = append(feasibleStores, storeUnder{st, t})
			valOK := core.VarOf(info, st.Rhs[0]) == pGroup
			if t {
				r.Check(class == "trailing" && valOK, "R1", col, "with isTrailing set the group goes to the trailing index", st.Pos(),
					"store writes the trailing index under isTrailing == true", "with isTrailing == true this store writes the "+class+" index: a trailing comment is indexed as documentation")
			} else {
				r.Check(class == "leading" && valOK, "R1", col, "with isTrailing unset the group goes to the leading index", st.Pos(),
					"store writes the leading index under isTrailing == false", "with isTrailing == false this store writes the "+class+" index: a doc comment is indexed as a trailing comment")
			}
		}
	}
	haveLead, haveTrail := false, false
	for _, fs := range feasibleStores {
		if fs.Trailing {
			haveTrail = true
		} else {
			haveLead = true
		}
	}
	if !haveLead || !haveTrail {
		r.Anchor("R1", "a store for isTrailing == false and one for isTrailing == true in the collecting closure")
		return
	}

	// no other store into the two indexes anywhere
	var everywhere []*core.Func
	for _, f := range p.Funcs() {
		if f.Root() != npRaw {
			everywhere = append(everywhere, f)
		}
	}
	everywhere = append(everywhere, under()...)
	for _, f := range everywhere {
		if core.RelPkg(f.Pkg.PkgPath) != "pkg/types" || f == col {
			continue
		}
		ast.Inspect(f.Body, func(n ast.Node) bool {
			if lit, ok := n.(*ast.FuncLit); ok && lit != f.Lit {
				return false
			}
			if as, ok := n.(*ast.AssignStmt); ok {
				for _, l := range as.Lhs {
					if ix, ok := ast.Unparen(l).(*ast.IndexExpr); ok && isCGMap(f.Info().TypeOf(ix.X)) {
						r.Bad("R1", f, "store into a comment index outside the collecting closure", as.Pos(), "comment groups are indexed by a second, unchecked writer")
					}
				}
			}
			return true
		})
	}

	// call sites of the closure
	nodeKindsWithComment := map[string]bool{}
	nodeKindsWithDoc := map[string]bool{}
	calls := 0
	for _, f := range under() {
		finfo := f.Info()
		for _, c := range core.Calls(f.Body, true) {
			if core.VarOf(finfo, c.Fun) != colVar || len(c.Args) != 3 {
				continue
			}
			calls++
			tv, isConst := finfo.Types[c.Args[1]]
			if !isConst || tv.Value == nil {
				r.Unknown("R1", f, "call of the collecting closure with a non-constant isTrailing: "+core.ExprStr(c), c.Pos(), "cannot classify the call")
				continue
			}
			trailing := tv.Value.String() == "true"
			// the position a group is entered under is the position of the node that owns it (`x.Doc` / `x.Comment` with
			// `x.Pos()`, a bare group with its own Pos()): the position of another node files the comment under a line it
			// does not belong to
			// posOwner: per (expanded) call site, the node whose Pos() is passed - `X.Pos()` with X looked through the
			// parameters of a wrapper closure
			posOwner := map[*ast.CallExpr]ast.Expr{}
			if pc, isCall := ast.Unparen(c.Args[2]).(*ast.CallExpr); isCall && len(pc.Args) == 0 {
				if psel, isSel := ast.Unparen(pc.Fun).(*ast.SelectorExpr); isSel && psel.Sel.Name == "Pos" {
					for _, ps := range expandParam(p, f, psel.X, c, 0) {
						posOwner[ps.Call] = ps.E
					}
				}
			}
			for _, site := range expandParam(p, f, c.Args[0], c, 0) {
				arg := ast.Unparen(site.E)
				construct := "collect(" + core.ExprStr(arg) + ", isTrailing=" + tv.Value.String() + ")"
				if site.F != f {
					construct += " via " + core.ExprStr(site.Call.Fun)
				}
				{
					var owner ast.Expr = arg
					if sel, ok := arg.(*ast.SelectorExpr); ok && (sel.Sel.Name == "Doc" || sel.Sel.Name == "Comment") {
						owner = sel.X
					}
					sinfo := site.F.Info()
					okPos := false
					if po, has := posOwner[site.Call]; has && core.SameRef(sinfo, po, owner) {
						okPos = true
					}
					r.Check(okPos, "R1", site.F, "position of "+construct, site.Call.Pos(), "the group is entered under the position of the node that owns it",
						"the comment group "+core.ExprStr(arg)+" is entered under the position of something else than its owner: it is found as the doc (or trailing comment) of whatever sits on that other line, and replaces that declaration's own comment (first entry wins)")
				}
				if sel, ok := arg.(*ast.SelectorExpr); ok {
					switch sel.Sel.Name {
					case "Doc":
						r.Check(!trailing, "R1", site.F, construct, site.Call.Pos(), "a .Doc group is entered as leading", "a .Doc group is entered in the trailing index")
						if po, has := posOwner[site.Call]; !trailing && has && core.SameRef(site.F.Info(), po, sel.X) {
							nodeKindsWithDoc[core.NamedTypeName(site.F.Info().TypeOf(sel.X))] = true
						}
					case "Comment":
						r.Check(trailing, "R1", site.F, construct, site.Call.Pos(), "a .Comment group is entered as trailing",
							"a node's trailing .Comment group is entered in the leading (doc) index: it becomes the documentation of the declaration on the next line")
						if trailing {
							nodeKindsWithComment[core.NamedTypeName(finfo.TypeOf(sel.X))] = true
						}
					default:
						r.Unknown("R1", site.F, construct, site.Call.Pos(), "group of unknown provenance")
					}
					continue
				}
				// the generic visit: the type-switch binding for *ast.CommentGroup
				if v := core.VarOf(finfo, arg); v != nil && core.NamedTypeName(v.Type()) == "go/ast.CommentGroup" {
					if trailing {
						r.Bad("R1", site.F, construct, site.Call.Pos(), "every visited comment group (including doc comments) is entered in the trailing index")
						continue
					}
					// the group is the node the walk is at - a *ast.CommentGroup that ast.Inspect reaches is attached to a node as its
					// Doc or Comment; the file's own list (`File.Comments`) also holds the free-floating groups (`type T struct { // x`),
					// which are nobody's documentation
					fromList := false
					ast.Inspect(site.F.Root().Body, func(m ast.Node) bool {
						if rs, isRange := m.(*ast.RangeStmt); isRange {
							for _, kv := range []ast.Expr{rs.Key, rs.Value} {
								if id, isID := kv.(*ast.Ident); isID && finfo.Defs[id] == types.Object(v) {
									fromList = true
								}
							}
						}
						return true
					})
					if fromList {
						r.Bad("R1", site.F, construct, site.Call.Pos(), "the group entered as leading comes from a list that is ranged over (the file's Comments), not from the walk: free-floating comments - attached to no node, such as the one after an opening brace - are entered too and become the documentation of the declaration on the next line")
						continue
					}
					ok, why := genericVisitFiltered(p, site.F, site.Call, v)
					r.Check(ok, "R1", site.F, construct, site.Call.Pos(), "generic visit is filtered by a set holding every node's .Comment group",
						"ast.Inspect's generic *ast.CommentGroup visit also reaches every node's trailing .Comment group; entering it unfiltered in the leading index makes `A int // x` the doc of the next declaration"+why)
					continue
				}
				r.Unknown("R1", site.F, construct, site.Call.Pos(), "group of unknown provenance")
			}
		}
	}
	if calls == 0 {
		r.Anchor("R1", "calls of the collecting closure")
	}
	// the doc of a spec or field is looked up under the line above the DECLARATION: it is entered under the declaration's
	// own position. (The generic visit enters every group under the line its End() is on - the same line only while
	// End() is exact, which it is not for a block comment in a CRLF file or behind a //line directive.)
	for _, k := range []string{"go/ast.ValueSpec", "go/ast.TypeSpec", "go/ast.Field"} {
		r.Check(nodeKindsWithDoc[k], "R1", np, "the .Doc group of every "+k+" is entered under the declaration's own position", np.Node().Pos(), "collect(x.Doc, false, x.Pos()) in the arm of the node kind",
			"no arm enters the .Doc group of a "+k+" under the position of the declaration itself: its documentation is found only through the line the comment group claims to end on, which differs from the line above the declaration for a block comment in a CRLF file (go/scanner strips the carriage returns from the text End() is computed from) - Doc answers nothing, tags included")
	}
	// the walk that indexes the comments descends everywhere: its callback answers true (a pruned subtree - a function
	// signature, a block - can hold struct types whose fields have doc and trailing comments)
	for _, f := range under() {
		if f.Lit == nil {
			continue
		}
		finfo := f.Info()
		callsCol := false
		for _, c := range core.Calls(f.Body, false) {
			if core.VarOf(finfo, c.Fun) == colVar {
				callsCol = true
			}
		}
		// through a wrapper closure of the collector
		if !callsCol {
			for _, c := range core.Calls(f.Body, false) {
				if v := core.VarOf(finfo, c.Fun); v != nil {
					if d, single := core.SingleDef(finfo, np.Body, v); single {
						if lit, isLit := ast.Unparen(d.Rhs).(*ast.FuncLit); isLit {
							for _, c2 := range core.Calls(lit.Body, false) {
								if core.VarOf(finfo, c2.Fun) == colVar {
									callsCol = true
								}
							}
						}
					}
				}
			}
		}
		if !callsCol || f.Type.Results == nil || len(f.Type.Results.List) != 1 || !isBasicKind(finfo.TypeOf(f.Type.Results.List[0].Type), types.Bool) {
			continue
		}
		ast.Inspect(f.Body, func(n ast.Node) bool {
			if lit, isLit := n.(*ast.FuncLit); isLit && lit != f.Lit {
				return false
			}
			ret, isRet := n.(*ast.ReturnStmt)
			if !isRet || len(ret.Results) != 1 {
				return true
			}
			tv := finfo.Types[ret.Results[0]]
			good := tv.Value != nil && tv.Value.String() == "true"
			if !good {
				// `return false` for the nil node that ends a subtree is what ast.Inspect expects
				for _, fct := range graph(f).FactsAt(graph(f).PointOf(ret)) {
					if b, isB := ast.Unparen(fct.Cond).(*ast.BinaryExpr); isB && b.Op == token.EQL && fct.Val && (constNil(finfo, b.X) || constNil(finfo, b.Y)) {
						good = true
					}
				}
			}
			r.Check(good, "R1", f, "the indexing walk descends into every node: return "+core.ExprStr(ret.Results[0]), ret.Pos(), "the callback answers true",
				"the walk that indexes comment groups is cut off below some nodes: documented fields of struct types inside the pruned subtree (a function signature, for instance) have no Doc and no Comment although the comments are in the source")
			return true
		})
	}

	// R3: keys
	lineFn := keyFunc(p, np)
	direct := lineFn == nil // no key-building function: the keys are written out where they are used (keyFormOf reads them)
	if direct {
		lineFn = np
	}
	// shape of the fileLine closure: fileLine{position.Filename, position.Line + delta}
	okShape := direct
	ast.Inspect(lineFn.Body, func(n ast.Node) bool {
		if direct {
			return false
		}
		cl, ok := n.(*ast.CompositeLit)
		if !ok || len(cl.Elts) != 2 {
			return true
		}
		el := cl.Elts[1]
		if kv, ok := el.(*ast.KeyValueExpr); ok {
			el = kv.Value
		}
		b, ok := ast.Unparen(el).(*ast.BinaryExpr)
		if ok && b.Op == token.ADD {
			if sel, ok := ast.Unparen(b.X).(*ast.SelectorExpr); ok && sel.Sel.Name == "Line" {
				if v := core.VarOf(info, b.Y); v != nil && isParamOf(lineFn, v) {
					okShape = true
				}
			}
		}
		return true
	})
	if !direct {
		r.Check(okShape, "R3", lineFn, "key line is position.Line + delta", lineFn.Node().Pos(), "fileLine{Filename, Line + delta}", "the key-building closure does not compute Line + delta")
	} else {
		r.OK("R3", np, "keys are written as (file, line + constant) of a position where they are used", np.Node().Pos(), "no key-building function; each key is read as a literal over FileSet.Position (keyFormOf)")
	}
	var lineVar *types.Var
	ast.Inspect(np.Body, func(n ast.Node) bool {
		if direct {
			return false
		}
		if as, ok := n.(*ast.AssignStmt); ok && len(as.Rhs) == 1 && as.Rhs[0] == ast.Expr(lineFn.Lit) {
			lineVar = core.VarOf(info, as.Lhs[0])
		}
		return true
	})
	keyForms := func(store *ast.AssignStmt, trailing bool) {
		ix := ast.Unparen(store.Lhs[0]).(*ast.IndexExpr)
		kv := core.VarOf(info, ix.Index)
		name := "leading"
		if trailing {
			name = "trailing"
		}
		if kv == nil {
			r.Unknown("R3", col, name+" index key", store.Pos(), "key is not a variable")
			return
		}
		at := g.PointOf(store)
		assume := []cfgx.Fact{{Cond: identFor(info, col, pTrailing), Val: trailing}}
		defs, fromEntry := reachingDefsAssuming(g, info, kv, at, assume)
		good := len(defs) > 0 && !fromEntry
		var forms []string
		for _, d := range defs {
			var rhs ast.Expr
			if as, ok := d.Node().(*ast.AssignStmt); ok && len(as.Rhs) == 1 {
				rhs = as.Rhs[0]
			}
			var posArg ast.Expr
			var delta int64
			if direct {
				pe, dl, okForm := keyFormOf(info, col.Body, rhs)
				if rhs == nil || !okForm {
					good = false
					continue
				}
				posArg, delta = pe, dl
			} else {
				c, ok := ast.Unparen(rhs).(*ast.CallExpr)
				isKeyCall := ok && ((lineVar != nil && core.VarOf(info, c.Fun) == lineVar) || (lineFn.Obj() != nil && core.CalleeFunc(info, c) == lineFn.Obj()))
				if rhs == nil || !isKeyCall || len(c.Args) != 2 {
					good = false
					continue
				}
				dl, isC := core.ConstInt(info, c.Args[1])
				if !isC {
					good = false
					continue
				}
				posArg, delta = c.Args[0], dl
			}
			switch {
			case core.VarOf(info, posArg) == pPos && delta == 0 && trailing:
				forms = append(forms, "(stmt line)")
			case core.VarOf(info, posArg) == pPos && delta == -1 && !trailing:
				forms = append(forms, "(stmt line - 1)")
			case isEndOf(info, posArg, pGroup) && delta == 0:
				forms = append(forms, "(group end line)")
			default:
				good = false
				forms = append(forms, "UNEXPECTED "+core.ExprStr(rhs))
			}
		}
		want := "the line above the statement or the line the group ends on"
		if trailing {
			want = "the statement's own line"
		}
		r.Check(good, "R3", col, name+" entries are keyed by "+want, store.Pos(), "reaching key definitions: "+strings.Join(forms, " "),
			"a "+name+" entry can be stored under another key than "+want+": "+strings.Join(forms, " "))
		// first entry wins
		first := false
		for _, f := range g.FactsAt(at) {
			b, ok := ast.Unparen(f.Cond).(*ast.BinaryExpr)
			if !ok {
				continue
			}
			isNilCmp := (b.Op == token.EQL && f.Val) || (b.Op == token.NEQ && !f.Val)
			if !isNilCmp {
				continue
			}
			for _, side := range []ast.Expr{b.X, b.Y} {
				e, _ := core.Resolve(info, col.Body, side)
				if eix, ok := ast.Unparen(e).(*ast.IndexExpr); ok && core.SameRef(info, eix.X, ix.X) && core.SameRef(info, eix.Index, ix.Index) {
					first = true
				}
			}
		}
		r.Check(first, "R3", col, name+" index: first entry wins", store.Pos(), "store under `existing == nil`", "an existing "+name+" entry is overwritten by a later group")
	}
	for _, fs := range feasibleStores {
		keyForms(fs.S, fs.Trailing)
	}
}

func isEndOf(info *types.Info, e ast.Expr, v *types.Var) bool {
	c, ok := ast.Unparen(e).(*ast.CallExpr)
	if !ok {
		return false
	}
	sel, ok := ast.Unparen(c.Fun).(*ast.SelectorExpr)
	return ok && sel.Sel.Name == "End" && core.VarOf(info, sel.X) == v
}

// identFor finds an identifier expression in f that denotes v (to build facts).
func identFor(info *types.Info, f *core.Func, v *types.Var) ast.Expr {
	var out ast.Expr
	ast.Inspect(f.Body, func(n ast.Node) bool {
		if id, ok := n.(*ast.Ident); ok && out == nil && info.ObjectOf(id) == v {
			out = id
		}
		return out == nil
	})
	if out == nil {
		return ast.NewIdent(v.Name())
	}
	return out
}

// reachingDefsAssuming is reachingDefs with branch edges pruned that
// contradict the assumed facts (facts about never-assigned variables only).
func reachingDefsAssuming(g *cfgx.G, info *types.Info, v *types.Var, at cfgx.Point, assume []cfgx.Fact) (defs []cfgx.Point, fromEntry bool) {
	isDef := func(q cfgx.Point) bool { return q.Node() != nil && g.Assigns(q.Node(), v) }
	cutEdge := assumeCut(info, assume)
	for _, d := range g.Points(func(n ast.Node) bool { return g.Assigns(n, v) }) {
		// the definition itself must be executable under the assumptions
		if _, feasible := g.Reach(g.Entry(), true, cfgx.Query{Target: func(q cfgx.Point) bool { return q == d }, CutEdge: cutEdge}); !feasible {
			continue
		}
		if _, ok := g.Reach(d, false, cfgx.Query{Target: func(q cfgx.Point) bool { return q == at }, Cut: isDef, CutEdge: cutEdge}); ok {
			defs = append(defs, d)
		}
	}
	_, fromEntry = g.Reach(g.Entry(), true, cfgx.Query{
		Target:  func(q cfgx.Point) bool { return q == at },
		Cut:     func(q cfgx.Point) bool { return q != at && isDef(q) },
		CutEdge: cutEdge,
	})
	return
}

// assumeCut prunes branch edges whose atoms contradict the assumed facts.
func assumeCut(info *types.Info, assume []cfgx.Fact) func(b *cfgBlock, k int) bool {
	return func(b *cfgBlock, k int) bool {
		if len(b.Succs) != 2 || len(b.Nodes) == 0 {
			return false
		}
		e, ok := b.Nodes[len(b.Nodes)-1].(ast.Expr)
		if !ok {
			return false
		}
		for _, a := range cfgx.Atoms(e, k == 0) {
			for _, as := range assume {
				if core.SameRef(info, a.Cond, as.Cond) && a.Val != as.Val {
					return true
				}
			}
		}
		return false
	}
}

// litVar: the local variable a function literal is bound to (`v := func(..){..}`).
func litVar(f *core.Func) *types.Var {
	if f.Lit == nil || f.Parent == nil {
		return nil
	}
	var out *types.Var
	info := f.Info()
	ast.Inspect(f.Root().Body, func(n ast.Node) bool {
		switch x := n.(type) {
		case *ast.AssignStmt:
			for i, rhs := range x.Rhs {
				if rhs == ast.Expr(f.Lit) && i < len(x.Lhs) {
					out = core.VarOf(info, x.Lhs[i])
				}
			}
		case *ast.ValueSpec:
			for i, rhs := range x.Values {
				if rhs == ast.Expr(f.Lit) && i < len(x.Names) {
					out, _ = info.ObjectOf(x.Names[i]).(*types.Var)
				}
			}
		}
		return out == nil
	})
	return out
}

// argSite: an argument expression, the function it is written in and the call it is passed at.
type argSite struct {
	F    *core.Func
	E    ast.Expr
	Call *ast.CallExpr
}

// expandParam: if e is a parameter of the local closure f, the arguments passed
// for it at every call of that closure (recursively); otherwise e itself.
func expandParam(p *core.Program, f *core.Func, e ast.Expr, call *ast.CallExpr, depth int) []argSite {
	info := f.Info()
	v := core.VarOf(info, e)
	if v == nil || f.Lit == nil || depth > 2 {
		return []argSite{{f, e, call}}
	}
	i := paramIndex(f, v)
	wv := litVar(f)
	if i < 0 || wv == nil || len(funcValueEscapes(p, f, wv)) > 0 {
		return []argSite{{f, e, call}}
	}
	var out []argSite
	for _, g := range funcsUnder(p, f.Root()) {
		for _, c := range core.Calls(g.Body, true) {
			if core.VarOf(info, c.Fun) == wv && i < len(c.Args) && !c.Ellipsis.IsValid() {
				out = append(out, expandParam(p, g, c.Args[i], c, depth+1)...)
			}
		}
	}
	if len(out) == 0 {
		return []argSite{{f, e, call}}
	}
	return out
}

// funcValueEscapes: uses of the closure variable other than calling it.
func funcValueEscapes(p *core.Program, f *core.Func, wv *types.Var) []ast.Node {
	info := f.Info()
	var out []ast.Node
	root := f.Root()
	called := map[*ast.Ident]bool{}
	ast.Inspect(root.Body, func(n ast.Node) bool {
		if c, ok := n.(*ast.CallExpr); ok {
			if id, ok := ast.Unparen(c.Fun).(*ast.Ident); ok && info.ObjectOf(id) == types.Object(wv) {
				called[id] = true
			}
		}
		return true
	})
	ast.Inspect(root.Body, func(n ast.Node) bool {
		if id, ok := n.(*ast.Ident); ok && info.Uses[id] == types.Object(wv) && !called[id] {
			out = append(out, id)
		}
		return true
	})
	return out
}

// lineClosure: the literal in newPkg returning the fileLine key type.
func lineClosure(np *core.Func) *core.Func { return keyFunc(nil, np) }

// commentKeyType: the key type of the comment indexes (maps whose element is *ast.CommentGroup).
func commentKeyType(np *core.Func) types.Type {
	sc := np.Pkg.Types.Scope()
	for _, n := range sc.Names() {
		tn, ok := sc.Lookup(n).(*types.TypeName)
		if !ok {
			continue
		}
		st, ok := tn.Type().Underlying().(*types.Struct)
		if !ok {
			continue
		}
		for i := 0; i < st.NumFields(); i++ {
			if isCommentGroupMapField(st.Field(i)) {
				return st.Field(i).Type().Underlying().(*types.Map).Key()
			}
		}
	}
	return nil
}

// keyFunc: the function that builds an index key from a position and a line delta: a literal in
// the constructor or a declared function/method of the package whose single result is the key type.
func keyFunc(p *core.Program, np *core.Func) *core.Func {
	kt := commentKeyType(np)
	if kt == nil {
		return nil
	}
	isKeyFn := func(ft *ast.FuncType, info *types.Info) bool {
		if ft.Results == nil || len(ft.Results.List) != 1 || len(ft.Results.List[0].Names) > 1 {
			return false
		}
		t := info.TypeOf(ft.Results.List[0].Type)
		return t != nil && types.Identical(t, kt)
	}
	for _, l := range np.Lits {
		if isKeyFn(l.Type, np.Info()) {
			return l
		}
	}
	if p != nil {
		for _, f := range p.Funcs() {
			if f.Decl != nil && f.Pkg == np.Pkg && isKeyFn(f.Decl.Type, f.Info()) {
				return f
			}
		}
	}
	return nil
}

// genericVisitFiltered: the call is dominated by the absent edge of a
// membership test `set[x]` where set is a local map keyed by *ast.CommentGroup
// whose stores are `set[n.Comment] = true` for every node kind with a Comment field.
func genericVisitFiltered(p *core.Program, f *core.Func, call *ast.CallExpr, x *types.Var) (bool, string) {
	info := f.Info()
	g := graph(f)
	var set *types.Var
	for _, fct := range g.FactsAt(g.PointOf(call)) {
		e := ast.Unparen(fct.Cond)
		val := fct.Val
		// forms: set[x] (false) ; _, ok := set[x]; ok (false)
		if v := core.VarOf(info, e); v != nil {
			if d, ok := core.SingleDef(info, f.Body, v); ok {
				e = ast.Unparen(d.Rhs)
			}
		}
		ix, ok := e.(*ast.IndexExpr)
		if !ok || val {
			continue
		}
		if core.VarOf(info, ix.Index) == x && isMapType(info.TypeOf(ix.X)) {
			set = core.VarOf(info, ix.X)
		}
	}
	if set == nil {
		return false, ""
	}
	// stores into the set, anywhere in the root function
	root := f.Root()
	have := map[string]bool{}
	var skipped []string
	bad := false
	for _, ff := range funcsUnder(p, root) {
		ast.Inspect(ff.Body, func(n ast.Node) bool {
			if lit, ok := n.(*ast.FuncLit); ok && lit != ff.Lit {
				return false
			}
			as, ok := n.(*ast.AssignStmt)
			if !ok || len(as.Lhs) != 1 {
				return true
			}
			ix, ok := ast.Unparen(as.Lhs[0]).(*ast.IndexExpr)
			if !ok || core.VarOf(info, ix.X) != set {
				return true
			}
			// the store must run for every node of its kind: from the start of its case clause no
			// path may leave the clause around the store (an early return for e.g. unnamed fields
			// would let embedded fields' trailing comments through)
			bypass := false
			path := core.PathTo(ff.Body, as)
			for k := len(path) - 1; k >= 0; k-- {
				cc, isCC := path[k].(*ast.CaseClause)
				if !isCC || len(cc.Body) == 0 {
					continue
				}
				fg := graph(ff)
				start := fg.FirstIn(cc.Body[0])
				sp := fg.PointOf(as)
				if start.Valid() && sp.Valid() {
					_, bypass = fg.Reach(start, true, cfgx.Query{
						Target: func(q cfgxPoint) bool {
							if fg.IsExit(q) {
								return true
							}
							// left the clause
							n := q.Node()
							return n != nil && !(cc.Pos() <= n.Pos() && n.End() <= cc.End())
						},
						Cut: func(q cfgxPoint) bool { return q == sp },
						CutEdge: func(b *cfgBlock, k int) bool {
							// `if x.Comment != nil { ... }` around the store is harmless
							if len(b.Succs) != 2 || len(b.Nodes) == 0 {
								return false
							}
							e, ok := b.Nodes[len(b.Nodes)-1].(ast.Expr)
							if !ok {
								return false
							}
							for _, a := range cfgx.Atoms(e, k == 0) {
								if bb, ok := ast.Unparen(a.Cond).(*ast.BinaryExpr); ok && (bb.Op == token.EQL || bb.Op == token.NEQ) {
									if id, ok := ast.Unparen(bb.Y).(*ast.Ident); ok && id.Name == "nil" {
										if sel, ok := ast.Unparen(bb.X).(*ast.SelectorExpr); ok && sel.Sel.Name == "Comment" && ((bb.Op == token.EQL) == a.Val) {
											return true
										}
									}
								}
							}
							return false
						},
					})
				}
				break
			}
			for _, site := range expandParam(p, ff, ix.Index, nil, 0) {
				sel, ok := ast.Unparen(site.E).(*ast.SelectorExpr)
				if !ok || sel.Sel.Name != "Comment" {
					bad = true // something else than a .Comment group is filtered out
					continue
				}
				if bypass {
					skipped = append(skipped, core.NamedTypeName(info.TypeOf(sel.X)))
					continue
				}
				have[core.NamedTypeName(info.TypeOf(sel.X))] = true
			}
			return true
		})
	}
	if bad {
		return false, " (the filter set also receives groups that are not a node's .Comment)"
	}
	if len(skipped) > 0 {
		return false, " (the .Comment of " + strings.Join(skipped, ", ") + " is entered in the filter set on some paths only: nodes of that kind that take the other path - e.g. embedded fields, which have no names - leak their trailing comment)"
	}
	var missing []string
	for _, k := range []string{"go/ast.Field", "go/ast.ValueSpec", "go/ast.TypeSpec", "go/ast.ImportSpec"} {
		if !have[k] {
			missing = append(missing, k)
		}
	}
	if len(missing) > 0 {
		return false, " (the filter set misses the .Comment of " + strings.Join(missing, ", ") + ")"
	}
	return true, ""
}

func c12R2(p *core.Program, r *core.Report) {
	const rule = "R2"
	r.Floor(rule, 4)
	lookupName := core.GM("pkg/types", "*pkgInfo", "priorCommentLines")
	for _, spec := range []struct {
		fn    string
		delta int64
		what  string
	}{{"(*pkgInfo).Doc", -1, "Doc consults the line above the declaration"}, {"(*pkgInfo).Comment", 0, "Comment consults the declaration's own line"}} {
		f := p.FuncByName("pkg/types", spec.fn)
		if f == nil {
			r.Anchor(rule, "pkg/types."+spec.fn)
			continue
		}
		if p.FuncByName("pkg/types", "(*pkgInfo).priorCommentLines") == nil {
			continue // no lookup function: c12R2Direct reads the keys where Doc and Comment build them
		}
		calls := core.CallsTo(f.Info(), f.Body, false, lookupName)
		ok := len(calls) == 1 && len(calls[0].Args) == 2
		if ok {
			d, isC := core.ConstInt(f.Info(), calls[0].Args[1])
			ok = isC && d == spec.delta
			if v := core.VarOf(f.Info(), calls[0].Args[0]); v == nil || !isParamOf(f, v) {
				ok = false
			}
		}
		r.Check(ok, rule, f, spec.what, f.Node().Pos(), "lookup(pos, "+itoa(spec.delta)+")", "the lookup is not made with line delta "+itoa(spec.delta)+" on the position passed in")
	}
	f := p.FuncByName("pkg/types", "(*pkgInfo).priorCommentLines")
	if f == nil {
		c12R2Direct(p, r)
		return
	}
	f = flatten(p, f) // the reading half may be a helper (a method of an embedded index part)
	info := f.Info()
	g := graph(f)
	var delta *types.Var
	ps := []*types.Var{}
	for _, fld := range f.Decl.Type.Params.List {
		for _, n := range fld.Names {
			v, _ := info.ObjectOf(n).(*types.Var)
			ps = append(ps, v)
		}
	}
	if len(ps) == 2 {
		delta = ps[1]
	}
	trailingReads, leadingReads := 0, 0
	ast.Inspect(f.Body, func(n ast.Node) bool {
		ix, ok := n.(*ast.IndexExpr)
		if !ok {
			return true
		}
		fld := core.FieldOf(info, ix.X)
		if !isCommentGroupMapField(fld) {
			return true
		}
		if isTrailingField(fld) {
			trailingReads++
			ok := false
			for _, fct := range g.FactsAt(g.PointOf(ix)) {
				if v, isEq := varEqConst(info, fct, delta, 0); isEq && v {
					ok = true
				}
				// a boolean that was computed as `delta == 0` (the argument of a helper's parameter)
				if bv := core.VarOf(info, fct.Cond); bv != nil && fct.Tag == nil {
					if d, single := core.SingleDef(info, f.Body, bv); single && d.Index < 0 {
						if v, isEq := varEqConst(info, cfgx.Fact{Cond: d.Rhs, Val: fct.Val}, delta, 0); isEq && v {
							ok = true
						}
					}
				}
			}
			r.Check(ok, rule, f, "trailing index is read only for delta 0", ix.Pos(), "dominated by delta == 0", "the trailing index is consulted for the doc lookup (delta != 0): a trailing comment of the previous line is returned as documentation")
		} else {
			leadingReads++
		}
		return true
	})
	r.Check(trailingReads >= 1 && leadingReads >= 1, rule, f, "lookup reads both indexes", f.Node().Pos(), "trailing and leading index are read", "the lookup no longer reads the trailing/leading index")
	// key: position.Line + delta
	okKey := false
	ast.Inspect(f.Body, func(n ast.Node) bool {
		cl, ok := n.(*ast.CompositeLit)
		if !ok || len(cl.Elts) != 2 {
			return true
		}
		el := cl.Elts[1]
		if kv, ok := el.(*ast.KeyValueExpr); ok {
			el = kv.Value
		}
		if b, ok := ast.Unparen(el).(*ast.BinaryExpr); ok && b.Op == token.ADD && core.CanonVarOf(info, f.Body, b.Y) == delta { // delta itself or the parameter of an inlined key helper bound to it
			if sel, ok := ast.Unparen(b.X).(*ast.SelectorExpr); ok && sel.Sel.Name == "Line" {
				okKey = true
			}
		}
		return true
	})
	if !okKey {
		// through the key-building function (whose shape R3 checks): keyFn(<pos parameter>, <delta parameter>)
		if np := p.FuncByName("pkg/types", "newPkg"); np != nil {
			if kf := keyFunc(p, np); kf != nil && kf.Obj() != nil {
				for _, c := range core.Calls(f.Body, true) {
					if core.CalleeFunc(info, c) == kf.Obj() && len(c.Args) == 2 && core.VarOf(info, c.Args[1]) == delta {
						if pv := core.VarOf(info, c.Args[0]); pv != nil && isParamOf(f, pv) {
							okKey = true
						}
					}
				}
			}
		}
	}
	r.Check(okKey, rule, f, "lookup key is position.Line + delta", f.Node().Pos(), "fileLine{Filename, Line + delta}", "the lookup key is not Line + delta")
	// both ends take (file name, line) from the same mapping of positions: the index is keyed by what the builder's
	// mapping answers, the lookup must ask the same one (FileSet.Position follows //line directives, PositionFor(p, false)
	// and File.Line do not: below a directive the two disagree and no comment is found)
	if np := p.FuncByName("pkg/types", "newPkg"); np != nil {
		var builder []string
		if kf := keyFunc(p, np); kf != nil {
			builder = positionMappings(p, kf, 0)
		}
		if len(builder) == 0 {
			builder = positionMappings(p, np, 0)
		}
		lookup := positionMappings(p, f, 0)
		same := len(builder) == 1 && len(lookup) == 1 && builder[0] == lookup[0]
		r.Check(same, rule, f, "builder and lookup of the comment index map positions the same way", f.Node().Pos(), "both use "+strings.Join(builder, ", "),
			"the comment index is built with {"+strings.Join(builder, ", ")+"} and consulted with {"+strings.Join(lookup, ", ")+"}: where the two mappings differ (below a //line directive) the doc and trailing comments of a declaration are not found")
	}
}

// positionMappings: the ways a function turns a token.Pos into a token.Position (or a line of a token.File), looked
// through the package's own one-expression accessors: "(*go/token.FileSet).Position", "(*go/token.FileSet).PositionFor(false)" ...
func positionMappings(p *core.Program, f *core.Func, depth int) []string {
	if f == nil || f.Body == nil || depth > 3 {
		return nil
	}
	info := f.Info()
	set := map[string]bool{}
	for _, c := range core.Calls(f.Body, true) {
		name := core.CalleeName(info, c)
		t := info.TypeOf(c)
		isPos := t != nil && core.NamedTypeName(t) == "go/token.Position"
		isLine := name == "(*go/token.File).Line" || name == "(*go/token.File).Name" || name == "(*go/token.File).PositionFor" || name == "(*go/token.File).Position"
		if !isPos && !isLine {
			// a helper of the package that builds the key (or wraps the mapping)
			if h := p.FuncOfObj(core.CalleeFunc(info, c)); h != nil && h.Body != nil && h.Pkg == f.Pkg && h.Root() != f.Root() {
				for _, m := range positionMappings(p, h, depth+1) {
					set[m] = true
				}
			}
			continue
		}
		if h := p.FuncOfObj(core.CalleeFunc(info, c)); h != nil && h.Body != nil && h.Pkg == f.Pkg {
			for _, m := range positionMappings(p, h, depth+1) {
				set[m] = true
			}
			continue
		}
		for _, a := range c.Args[min(1, len(c.Args)):] {
			if tv, ok := info.Types[a]; ok && tv.Value != nil {
				name += "(" + tv.Value.String() + ")"
			}
		}
		set[name] = true
	}
	var out []string
	for m := range set {
		out = append(out, m)
	}
	sort.Strings(out)
	return out
}

// exactlyOnePerIteration checks that every path through one iteration of a
// range loop executes exactly one node satisfying isStore. It returns
// (someIterationWithout, someIterationWithTwo).
func exactlyOnePerIteration(g *cfgx.G, loop *ast.RangeStmt, isStore func(ast.Node) bool, skipEdge func(b *cfgBlock, k int) bool) (without bool, twice bool) {
	bodyEntry := cfgx.Point{B: g.BlockOf(kindRangeBody, loop), I: 0}
	head := g.BlockOf(kindRangeLoop, loop)
	if bodyEntry.B == nil || head == nil {
		return true, true
	}
	leave := func(q cfgx.Point) bool {
		return q.B == head || (q.B.Stmt == ast.Stmt(loop) && q.B.Kind == kindRangeDone) || g.IsExit(q)
	}
	_, without = g.Reach(bodyEntry, true, cfgx.Query{
		Target:  leave,
		Cut:     func(q cfgx.Point) bool { return q.Node() != nil && isStore(q.Node()) },
		CutEdge: skipEdge,
	})
	for _, sp := range g.Points(isStore) {
		if !(loop.Body.Pos() <= sp.Node().Pos() && sp.Node().End() <= loop.Body.End()) {
			continue
		}
		if _, again := g.Reach(sp, false, cfgx.Query{
			Target: func(q cfgx.Point) bool { return q.Node() != nil && isStore(q.Node()) },
			Cut:    func(q cfgx.Point) bool { return q.B == head },
		}); again {
			twice = true
		}
	}
	return
}

func c12R4(p *core.Program, r *core.Report) {
	const rule = "R4"
	r.Floor(rule, 8)
	f := p.FuncByName("pkg/types", "ExtractCommentTags")
	if f == nil {
		r.Anchor(rule, "pkg/types.ExtractCommentTags")
		return
	}
	info := f.Info()
	g := graph(f)
	var loop *ast.RangeStmt
	for _, s := range f.Body.List {
		if rs, ok := s.(*ast.RangeStmt); ok {
			loop = rs
		}
	}
	var linesP, markersP *types.Var
	{
		var ps []*types.Var
		for _, fld := range f.Decl.Type.Params.List {
			for _, n := range fld.Names {
				v, _ := info.ObjectOf(n).(*types.Var)
				ps = append(ps, v)
			}
		}
		if len(ps) == 2 {
			linesP, markersP = ps[0], ps[1]
		}
	}
	if loop == nil || linesP == nil || core.VarOf(info, loop.X) != linesP {
		r.Anchor(rule, "range over the lines parameter in ExtractCommentTags")
		return
	}
	line := core.VarOf(info, loop.Value)
	appendTo := func(n ast.Node) (target ast.Expr, arg ast.Expr) {
		as, ok := n.(*ast.AssignStmt)
		if !ok || len(as.Rhs) != 1 || len(as.Lhs) != 1 {
			return nil, nil
		}
		c, ok := as.Rhs[0].(*ast.CallExpr)
		if !ok || core.CalleeName(info, c) != "builtin.append" || len(c.Args) != 2 || !core.SameRef(info, c.Args[0], as.Lhs[0]) {
			return nil, nil
		}
		return as.Lhs[0], c.Args[1]
	}
	isOther := func(n ast.Node) bool {
		t, a := appendTo(n)
		return t != nil && core.VarOf(info, t) != nil && core.VarOf(info, a) == line
	}
	isTag := func(n ast.Node) bool {
		t, _ := appendTo(n)
		if t == nil {
			return false
		}
		ix, ok := ast.Unparen(t).(*ast.IndexExpr)
		return ok && isMapType(info.TypeOf(ix.X))
	}
	without, twice := exactlyOnePerIteration(g, loop, func(n ast.Node) bool { return isOther(n) || isTag(n) }, nil)
	r.Check(!without, rule, f, "every line is classified", loop.Pos(), "each iteration appends to other-lines or to tags[key]", "a line can be dropped: an iteration ends without appending it to either result")
	r.Check(!twice, rule, f, "no line is classified twice", loop.Pos(), "no path appends twice in one iteration", "a line can be appended to both results (e.g. the `continue` after the other-lines append was dropped)")

	// the deciding branch: the one whose condition tests membership of line[0] in the markers
	bc := &boundsCtx{f: f, g: g, info: info}
	isMarkerTest := func(e ast.Expr) bool {
		c, ok := ast.Unparen(e).(*ast.CallExpr)
		if !ok {
			return false
		}
		set, elem, ok := memberCall(p, f, c)
		if !ok || core.VarOf(info, set) != markersP {
			return false
		}
		ix, ok := ast.Unparen(elem).(*ast.IndexExpr)
		return ok && core.VarOf(info, ix.X) == line && constIs(info, ix.Index, 0)
	}
	// emptiness atom: true/false of e says whether the line is empty
	emptyAtom := func(e ast.Expr) (emptyWhenTrue bool, ok bool) {
		if b, isBin := ast.Unparen(e).(*ast.BinaryExpr); isBin && (b.Op == token.EQL || b.Op == token.NEQ) {
			if (core.VarOf(info, b.X) == line && constStrIs(info, b.Y, "")) || (core.VarOf(info, b.Y) == line && constStrIs(info, b.X, "")) {
				return b.Op == token.EQL, true
			}
		}
		x, op, c, ok := cmpConst(info, e)
		if !ok || !bc.isLenOf(x, loop.Value) {
			return false, false
		}
		switch {
		case (op == token.EQL && c == 0) || (op == token.LSS && c == 1) || (op == token.LEQ && c == 0):
			return true, true
		case (op == token.NEQ && c == 0) || (op == token.GTR && c == 0) || (op == token.GEQ && c == 1):
			return false, true
		}
		return false, false
	}
	var eval func(e ast.Expr, empty, marker bool) (bool, bool)
	eval = func(e ast.Expr, empty, marker bool) (bool, bool) {
		e = ast.Unparen(e)
		switch x := e.(type) {
		case *ast.UnaryExpr:
			if x.Op == token.NOT {
				v, ok := eval(x.X, empty, marker)
				return !v, ok
			}
		case *ast.BinaryExpr:
			if x.Op == token.LAND || x.Op == token.LOR {
				l, lok := eval(x.X, empty, marker)
				rr, rok := eval(x.Y, empty, marker)
				if x.Op == token.LAND {
					return l && rr, lok && rok
				}
				return l || rr, lok && rok
			}
		}
		if isMarkerTest(e) {
			return marker, true
		}
		if w, ok := emptyAtom(e); ok {
			return empty == w, true
		}
		return false, false
	}
	hasMarkerTest := func(e ast.Expr) bool {
		found := false
		ast.Inspect(e, func(n ast.Node) bool {
			if x, ok := n.(ast.Expr); ok && isMarkerTest(x) {
				found = true
			}
			return !found
		})
		return found
	}
	var decide *cfgx.Branch
	for _, br := range g.Branches() {
		if br.Tag == nil && hasMarkerTest(br.Cond) {
			b := br
			decide = &b
		}
	}
	if decide == nil {
		r.Anchor(rule, "branch deciding on the membership of line[0] in the markers")
	} else {
		tagPts := g.Points(isTag)
		tagEdge := -1
		for k := 0; k < 2; k++ {
			all := len(tagPts) > 0
			for _, sp := range tagPts {
				if !g.EdgeDominates(decide.B, k, sp) {
					all = false
				}
			}
			if all {
				tagEdge = k
			}
		}
		// is the line already known to be non-empty when the branch is evaluated?
		nonEmptyBefore := false
		for _, fct := range g.FactsAt(cfgx.Point{B: decide.B, I: len(decide.B.Nodes) - 1}) {
			if w, ok := emptyAtom(fct.Cond); ok && fct.Tag == nil && w != fct.Val {
				nonEmptyBefore = true
			}
		}
		shape := tagEdge >= 0
		why := "the tags[key] append is not on one side of the marker test"
		if shape {
			for _, empty := range []bool{false, true} {
				if empty && nonEmptyBefore {
					continue
				}
				for _, marker := range []bool{false, true} {
					v, ok := eval(decide.Cond, empty, marker)
					if !ok {
						shape, why = false, "the deciding condition mixes in something other than `line is empty` and `line[0] is a marker`"
						continue
					}
					if (v == (tagEdge == 0)) != (!empty && marker) {
						shape, why = false, "the tag/other decision is not equivalent to `len(line) != 0 && line[0] is one of the markers`"
					}
				}
			}
		}
		r.Check(shape, rule, f, "a line is a tag line iff it is non-empty and its first byte is a marker", decide.Cond.Pos(), "truth table of the deciding condition over {empty, marker}", why)
		if tagEdge < 0 {
			tagEdge = 0
		}
		for _, sp := range g.Points(isTag) {
			r.Check(g.EdgeDominates(decide.B, tagEdge, sp), rule, f, "tags[key] append happens only for marker lines", sp.Node().Pos(), "dominated by the marker edge", "a line is stored as a tag without starting with a marker")
			// key and value come from splitKV(line[1:])
			as := sp.Node().(*ast.AssignStmt)
			ix := ast.Unparen(as.Lhs[0]).(*ast.IndexExpr)
			kd, kidx := core.Resolve(info, f.Body, ix.Index)
			_, arg := appendTo(as)
			vd, vidx := core.Resolve(info, f.Body, arg)
			okKV := false
			if kc := core.AsCall(info, kd, core.G("pkg/types.splitKV")); kc != nil && kd == vd && kidx == 0 && vidx == 1 {
				if se, ok := ast.Unparen(kc.Args[0]).(*ast.SliceExpr); ok && core.VarOf(info, se.X) == line && constIs(info, se.Low, 1) && se.High == nil {
					okKV = true
				}
			}
			r.Check(okKV, rule, f, "key and value are splitKV(line[1:])", as.Pos(), "k, v := splitKV(line[1:]); tags[k] = append(tags[k], v)", "the tag's key/value are not the two results of splitKV on the line without its marker")
		}
		for _, sp := range g.Points(isOther) {
			okOther := g.EdgeDominates(decide.B, 1-tagEdge, sp)
			for _, fct := range g.FactsAt(sp) {
				if w, ok := emptyAtom(fct.Cond); ok && fct.Tag == nil && w == fct.Val {
					okOther = true // the line is empty here
				}
			}
			r.Check(okOther, rule, f, "other-lines append happens only for non-marker lines", sp.Node().Pos(), "dominated by the non-marker edge (or by `line is empty`)", "a marker line can be returned as an ordinary comment line")
		}
	}
	// the line is trimmed with cutset " " before the test
	trimOK := false
	if decide != nil {
		defs, _ := reachingDefs(g, line, cfgx.Point{B: decide.B, I: len(decide.B.Nodes) - 1})
		trimOK = len(defs) > 0
		for _, d := range defs {
			as, ok := d.Node().(*ast.AssignStmt)
			if !ok {
				// the range value definition itself reaching the test means untrimmed
				trimOK = false
				continue
			}
			c := core.AsCall(info, as.Rhs[0], "strings.Trim")
			if c == nil || core.VarOf(info, c.Args[0]) != line || !constStrIs(info, c.Args[1], " ") {
				trimOK = false
			}
		}
	}
	r.Check(trimOK, rule, f, "line is trimmed with cutset \" \" before classification", loop.Pos(), "line = strings.Trim(line, \" \") reaches the test", "the line that is classified is not `strings.Trim(line, \" \")`")
	// default markers
	defOK := false
	ast.Inspect(f.Body, func(n ast.Node) bool {
		as, ok := n.(*ast.AssignStmt)
		if !ok || len(as.Lhs) != 1 || core.VarOf(info, as.Lhs[0]) != markersP {
			return true
		}
		cl, ok := as.Rhs[0].(*ast.CompositeLit)
		if !ok {
			return true
		}
		set := map[int64]bool{}
		for _, e := range cl.Elts {
			if v, ok := core.ConstInt(info, e); ok {
				set[v] = true
			}
		}
		guard := false
		bc := &boundsCtx{f: f, g: g, info: info}
		for _, fct := range g.FactsAt(g.PointOf(as)) {
			x, op, c, ok := cmpConst(info, fct.Cond)
			if ok && bc.isLenOf(x, as.Lhs[0]) && ((op == token.EQL && c == 0 && fct.Val) || (op == token.NEQ && c == 0 && !fct.Val) || (op == token.GTR && c == 0 && !fct.Val)) {
				guard = true
			}
		}
		defOK = len(set) == 2 && set['+'] && set['@'] && len(cl.Elts) == 2 && guard
		return true
	})
	r.Check(defOK, rule, f, "default markers are '+' and '@'", f.Node().Pos(), "markers = []byte{'+', '@'} when none are given", "the default marker set is not exactly {'+', '@'} applied when no markers are passed")
	a5Check(r, rule, f)

	// splitKV
	sk := p.FuncByName("pkg/types", "splitKV")
	if sk == nil {
		r.Anchor(rule, "pkg/types.splitKV")
	} else {
		sinfo := sk.Info()
		sg := graph(sk)
		var flag *types.Var
		var setStmt *ast.AssignStmt
		ast.Inspect(sk.Body, func(n ast.Node) bool {
			as, ok := n.(*ast.AssignStmt)
			if ok && as.Tok == token.ASSIGN && len(as.Lhs) == 1 {
				if tv, ok := sinfo.Types[as.Rhs[0]]; ok && tv.Value != nil && tv.Value.String() == "true" {
					flag = core.VarOf(sinfo, as.Lhs[0])
					setStmt = as
				}
			}
			return true
		})
		okSplit := false
		if flag != nil {
			var rs *ast.RangeStmt
			for _, s := range sk.Body.List {
				if x, ok := s.(*ast.RangeStmt); ok {
					rs = x
				}
			}
			var c *types.Var
			if rs != nil {
				c = core.VarOf(sinfo, rs.Value)
			}
			facts := sg.FactsAt(sg.PointOf(setStmt))
			notYet, delim := false, false
			for _, fct := range facts {
				if core.VarOf(sinfo, fct.Cond) == flag && !fct.Val {
					notYet = true
				}
				if b, ok := ast.Unparen(fct.Cond).(*ast.BinaryExpr); ok && b.Op == token.LOR && fct.Val {
					l, lok := varEqConst(sinfo, cfgx.Fact{Cond: b.X, Val: true}, c, '=')
					rr, rok := varEqConst(sinfo, cfgx.Fact{Cond: b.Y, Val: true}, c, ' ')
					l2, lok2 := varEqConst(sinfo, cfgx.Fact{Cond: b.X, Val: true}, c, ' ')
					r2, rok2 := varEqConst(sinfo, cfgx.Fact{Cond: b.Y, Val: true}, c, '=')
					if (lok && rok && l && rr) || (lok2 && rok2 && l2 && r2) {
						delim = true
					}
				}
			}
			okSplit = notYet && delim
		}
		if !okSplit {
			okSplit = splitAtFirstSeparator(sk)
		}
		r.Check(okSplit, rule, sk, "key ends at the first '=' or ' ' only", sk.Node().Pos(), "switch to the value under `!forValue && (c == '=' || c == ' ')`", "the key/value split is not made at the first '=' or space only (e.g. every '=' is dropped from the value)")
	}
	// go: lines are dropped
	cl := p.FuncByName("pkg/types", "commentLinesFrom")
	if cl == nil {
		r.Anchor(rule, "pkg/types.commentLinesFrom")
	} else {
		cinfo := cl.Info()
		cg := graph(cl)
		var app *ast.AssignStmt
		ast.Inspect(cl.Body, func(n ast.Node) bool {
			if as, ok := n.(*ast.AssignStmt); ok && len(as.Rhs) == 1 {
				if c, ok := as.Rhs[0].(*ast.CallExpr); ok && core.CalleeName(cinfo, c) == "builtin.append" {
					app = as
				}
			}
			return true
		})
		ok := false
		if app != nil {
			for _, fct := range cg.FactsAt(cg.PointOf(app)) {
				if c := core.AsCall(cinfo, fct.Cond, "strings.HasPrefix"); c != nil && !fct.Val && constStrIs(cinfo, c.Args[1], "go:") {
					ok = true
				}
			}
		}
		r.Check(ok, rule, cl, "lines starting with go: are dropped", cl.Node().Pos(), "append dominated by !HasPrefix(line, \"go:\")", "comment lines are no longer filtered by the `go:` prefix test")
		// ... and every other line is handed on as it was cut: what is appended is the loop's own line, never rewritten
		// (a tag line is one whose first byte after blanks is a marker; a line trimmed of its tab here becomes one)
		if app != nil {
			rewritten := ""
			for _, a := range app.Rhs[0].(*ast.CallExpr).Args[1:] {
				a = ast.Unparen(a)
				if _, isIx := a.(*ast.IndexExpr); isIx {
					continue
				}
				v := core.VarOf(cinfo, a)
				if v == nil {
					rewritten = "`" + core.ExprStr(a) + "` is appended, not the line itself"
					continue
				}
				for _, d := range core.DefsOf(cinfo, cl.Body, v) {
					switch {
					case d.Kind == "range-value":
					case (d.Kind == "define" || d.Kind == "var") && d.Rhs != nil && isLineItself(cinfo, d.Rhs):
					default:
						rewritten = "the line is redefined by `" + core.ExprStr(d.Stmt) + "` before it is appended"
					}
				}
			}
			r.Check(rewritten == "", rule, cl, "comment lines are handed on as they were cut", app.Pos(), "what is appended is the range value of the split (or an element / the scanner's text), defined nowhere else",
				rewritten+": what tells a tag line from prose (a marker as the first byte after blanks) is then decided on another text than the comment's - an indented `+gengo:x` quoted in a doc code block becomes a tag")
		}
		// every line of the group's text is a line of its own: the text is cut at each line break, without a bound on
		// the number of pieces (one block comment is one entry of the group's list and many lines)
		var splits []*ast.CallExpr
		for _, c := range core.Calls(cl.Body, true) {
			switch core.CalleeName(cinfo, c) {
			case "strings.Split", "strings.SplitSeq", "strings.Lines", "strings.SplitN", "strings.SplitAfter", "strings.SplitAfterN", "strings.Fields", "strings.FieldsFunc", "strings.Cut", "(*bufio.Scanner).Scan":
				splits = append(splits, c)
			}
		}
		if len(splits) == 0 {
			r.Anchor(rule, "the call that cuts the comment text into lines (commentLinesFrom)")
		}
		for _, c := range splits {
			name := core.CalleeName(cinfo, c)
			good := false
			switch name {
			case "strings.Split", "strings.SplitSeq":
				good = len(c.Args) == 2 && constStrIs(cinfo, c.Args[1], "\n")
			case "strings.Lines", "(*bufio.Scanner).Scan":
				good = true
			case "strings.SplitN":
				if v, isC := core.ConstInt(cinfo, c.Args[2]); isC && v < 0 && constStrIs(cinfo, c.Args[1], "\n") {
					good = true
				}
			}
			r.Check(good, rule, cl, "the comment text is cut at every line break: "+name, c.Pos(), "split on \"\\n\" without a limit", "the text of a comment group is not cut at every line break ("+core.ExprStr(c)+"): lines of a block comment stay glued together, tag lines inside are never classified")
		}
	}
}

// isLineItself: the expression is an element of a slice or the text of a scanner: a line as it was cut.
func isLineItself(info *types.Info, e ast.Expr) bool {
	e = ast.Unparen(e)
	if _, ok := e.(*ast.IndexExpr); ok {
		return true
	}
	if c, ok := e.(*ast.CallExpr); ok {
		return core.CalleeName(info, c) == "(*bufio.Scanner).Text"
	}
	return false
}

// evalRuneCond evaluates a condition built from comparisons of the rune variable c with constants, for c = r.
func evalRuneCond(info *types.Info, e ast.Expr, c *types.Var, r rune) (bool, bool) {
	e = ast.Unparen(e)
	switch x := e.(type) {
	case *ast.UnaryExpr:
		if x.Op == token.NOT {
			v, ok := evalRuneCond(info, x.X, c, r)
			return !v, ok
		}
	case *ast.BinaryExpr:
		switch x.Op {
		case token.LAND, token.LOR:
			a, ok1 := evalRuneCond(info, x.X, c, r)
			b, ok2 := evalRuneCond(info, x.Y, c, r)
			if !ok1 || !ok2 {
				return false, false
			}
			if x.Op == token.LAND {
				return a && b, true
			}
			return a || b, true
		case token.EQL, token.NEQ:
			var k int64
			var isC bool
			if core.VarOf(info, x.X) == c {
				k, isC = core.ConstInt(info, x.Y)
			} else if core.VarOf(info, x.Y) == c {
				k, isC = core.ConstInt(info, x.X)
			}
			if !isC {
				return false, false
			}
			return (rune(k) == r) == (x.Op == token.EQL), true
		}
	}
	return false, false
}

// splitAtFirstSeparator recognises the early-exit spelling of the key/value split: a loop over the runes of the
// parameter that stops (break / return) exactly when the rune is '=' or ' ' - the stop condition has the truth table
// {'=': true, ' ': true, anything else: false} and mentions nothing but the rune - takes `line[i+1:]` (i the rune's
// index, both separators are one byte wide) as the value on that edge, and the runes before it (written one by one on
// the other edge, or `line[:i]`) as the key.
func splitAtFirstSeparator(sk *core.Func) bool {
	info := sk.Info()
	g := graph(sk)
	if len(sk.Decl.Type.Params.List) != 1 || len(sk.Decl.Type.Params.List[0].Names) != 1 {
		return false
	}
	line, _ := info.ObjectOf(sk.Decl.Type.Params.List[0].Names[0]).(*types.Var)
	var rs *ast.RangeStmt
	for _, st := range sk.Body.List {
		if x, ok := st.(*ast.RangeStmt); ok && core.VarOf(info, x.X) == line && x.Key != nil && x.Value != nil {
			rs = x
		}
	}
	if rs == nil || line == nil {
		return false
	}
	iv, cv := core.VarOf(info, rs.Key), core.VarOf(info, rs.Value)
	if iv == nil || cv == nil {
		return false
	}
	// the stop: an if directly in the loop body whose body leaves the loop
	var stop *ast.IfStmt
	for _, st := range rs.Body.List {
		ifs, ok := st.(*ast.IfStmt)
		if !ok || ifs.Else != nil || ifs.Init != nil || len(ifs.Body.List) == 0 {
			continue
		}
		switch last := ifs.Body.List[len(ifs.Body.List)-1].(type) {
		case *ast.BranchStmt:
			if last.Tok == token.BREAK && last.Label == nil {
				stop = ifs
			}
		case *ast.ReturnStmt:
			stop = ifs
		}
	}
	if stop == nil {
		return false
	}
	for _, tc := range []struct {
		r    rune
		want bool
	}{{'=', true}, {' ', true}, {'a', false}, {'+', false}, {'\t', false}, {':', false}, {0xe9, false}, {0, false}} {
		v, ok := evalRuneCond(info, stop.Cond, cv, tc.r)
		if !ok || v != tc.want {
			return false
		}
	}
	// value: line[i+1:] inside the stop, and no other cut of the line relative to i except line[:i]
	bc := &boundsCtx{f: sk, g: g, info: info}
	valueCut, badCut, keyCut := false, false, false
	ast.Inspect(sk.Body, func(n ast.Node) bool {
		se, ok := n.(*ast.SliceExpr)
		if !ok || core.VarOf(info, se.X) != line {
			return true
		}
		inStop := stop.Body.Pos() <= se.Pos() && se.End() <= stop.Body.End()
		switch {
		case se.High == nil && se.Low != nil:
			l, okL := bc.linOf(se.Low, cfgx.Point{})
			if okL && len(l.Atoms) == 1 && l.Atoms[0].Var == iv && l.Coef[0] == 1 && l.C == 1 && inStop {
				valueCut = true
			} else {
				badCut = true
			}
		case se.Low == nil && se.High != nil:
			if core.VarOf(info, se.High) == iv {
				keyCut = true
			} else {
				badCut = true
			}
		default:
			badCut = true
		}
		return true
	})
	if !valueCut || badCut {
		return false
	}
	// key: the rune is written on the edge on which the loop goes on (after the stop), or the key is line[:i]
	keyWrite := false
	for _, st := range rs.Body.List {
		if st.Pos() < stop.End() {
			continue
		}
		for _, c := range core.Calls(st, true) {
			name := core.CalleeName(info, c)
			if (strings.HasSuffix(name, ").WriteRune") || strings.HasSuffix(name, ").WriteByte") || strings.HasSuffix(name, ").WriteString")) && len(c.Args) == 1 && core.Mentions(info, c.Args[0], cv) {
				keyWrite = true
			}
		}
	}
	return keyWrite || keyCut
}

// c12R6: "for all source files": every file of the universe is parsed with its comments. go/packages keeps comments by
// default; a ParseFile hook in the loader's configuration replaces that default. Decided over pkg/types: no
// packages.Config gets a ParseFile hook, or every go/parser.ParseFile call of the hook has a constant mode with the
// ParseComments bit.
func c12R6(p *core.Program, r *core.Report) {
	const rule = "R6"
	r.Floor(rule, 1)
	n := 0
	hooks := 0
	check := func(f *core.Func, hook ast.Expr, pos token.Pos) {
		hooks++
		info := f.Info()
		var body ast.Node
		switch h := ast.Unparen(hook).(type) {
		case *ast.FuncLit:
			body = h.Body
		default:
			if fn, ok := info.ObjectOf(identOf(h)).(*types.Func); ok {
				if hf := p.FuncOfObj(fn); hf != nil {
					body = hf.Body
					info = hf.Info()
				}
			}
		}
		if body == nil {
			r.Unknown(rule, f, "the loader's ParseFile hook keeps comments", pos, "the hook is not a function of the module: whether it parses with comments cannot be seen")
			return
		}
		calls := core.CallsTo(info, body, true, "go/parser.ParseFile", "go/parser.ParseDir")
		ok := len(calls) > 0
		for _, c := range calls {
			keeps := false
			if len(c.Args) >= 4 {
				if tv, has := info.Types[c.Args[len(c.Args)-1]]; has && tv.Value != nil {
					if v, exact := constant.Uint64Val(constant.ToInt(tv.Value)); exact {
						keeps = v&uint64(parser.ParseComments) != 0
					}
				}
			}
			ok = ok && keeps
		}
		r.Check(ok, rule, f, "the loader's ParseFile hook keeps comments", pos, "every parse of the hook has a constant mode with ParseComments",
			"the loader installs its own ParseFile hook and that hook can parse a file without ParseComments (the mode is computed or lacks the bit): Doc and Comment answer nothing for every declaration of such a file although the comments are in the source")
	}
	for _, f := range p.Funcs() {
		if f.Body == nil || core.RelPkg(f.Pkg.PkgPath) != "pkg/types" {
			continue
		}
		info := f.Info()
		ast.Inspect(f.Body, func(m ast.Node) bool {
			if lit, ok := m.(*ast.FuncLit); ok && lit != f.Lit {
				return false
			}
			switch x := m.(type) {
			case *ast.CompositeLit:
				if core.NamedTypeName(info.TypeOf(x)) != "golang.org/x/tools/go/packages.Config" {
					return true
				}
				n++
				for _, el := range x.Elts {
					if kv, ok := el.(*ast.KeyValueExpr); ok {
						if id, isID := kv.Key.(*ast.Ident); isID && id.Name == "ParseFile" {
							check(f, kv.Value, kv.Pos())
						}
					}
				}
			case *ast.AssignStmt:
				for i, l := range x.Lhs {
					if sel, ok := ast.Unparen(l).(*ast.SelectorExpr); ok && sel.Sel.Name == "ParseFile" && core.NamedTypeName(info.TypeOf(sel.X)) == "golang.org/x/tools/go/packages.Config" && i < len(x.Rhs) {
						check(f, x.Rhs[i], x.Pos())
					}
				}
			}
			return true
		})
	}
	if n == 0 {
		r.Anchor(rule, "the packages.Config literal of the loader in pkg/types")
		return
	}
	if hooks == 0 {
		r.OK(rule, &core.Func{Pkg: p.Pkg("pkg/types"), Name: "<package>"}, "files are parsed by go/packages' default parser", 0, "no ParseFile hook is installed: the default keeps comments (parser.AllErrors|parser.ParseComments)")
	}
}

// funcsUnder: a function and its literals: the program's, or a view's own.
func funcsUnder(p *core.Program, root *core.Func) []*core.Func {
	if root.Origin != nil {
		return root.AllFuncs()
	}
	var out []*core.Func
	for _, f := range p.Funcs() {
		if f.Root() == root {
			out = append(out, f)
		}
	}
	return out
}

// keyFormOf reads a key of a comment index that is written out in place: `fileLine{x.Filename, x.Line + c}` (c a
// constant, possibly absent or subtracted) with x the token.Position some mapping answered for one position
// expression. It returns that position expression and the line delta.
func keyFormOf(info *types.Info, body ast.Node, e ast.Expr) (pos ast.Expr, delta int64, ok bool) {
	if e == nil {
		return nil, 0, false
	}
	e, _ = core.Resolve(info, body, e)
	cl, isLit := ast.Unparen(e).(*ast.CompositeLit)
	if !isLit || len(cl.Elts) != 2 {
		return nil, 0, false
	}
	val := func(el ast.Expr) ast.Expr {
		if kv, isKV := el.(*ast.KeyValueExpr); isKV {
			return kv.Value
		}
		return el
	}
	fileE, lineE := ast.Unparen(val(cl.Elts[0])), ast.Unparen(val(cl.Elts[1]))
	if b, isB := lineE.(*ast.BinaryExpr); isB && (b.Op == token.ADD || b.Op == token.SUB) {
		c, isC := core.ConstInt(info, b.Y)
		if !isC {
			return nil, 0, false
		}
		if b.Op == token.SUB {
			c = -c
		}
		delta, lineE = c, ast.Unparen(b.X)
	}
	fs, ok1 := fileE.(*ast.SelectorExpr)
	ls, ok2 := lineE.(*ast.SelectorExpr)
	if !ok1 || !ok2 || fs.Sel.Name != "Filename" || ls.Sel.Name != "Line" {
		return nil, 0, false
	}
	px, _ := core.Resolve(info, body, fs.X)
	py, _ := core.Resolve(info, body, ls.X)
	cx, isCx := ast.Unparen(px).(*ast.CallExpr)
	cy, isCy := ast.Unparen(py).(*ast.CallExpr)
	if !isCx || !isCy || cx != cy && !(core.SameRef(info, fs.X, ls.X)) {
		return nil, 0, false
	}
	if t := info.TypeOf(cx); t == nil || core.NamedTypeName(t) != "go/token.Position" || len(cx.Args) < 1 {
		return nil, 0, false
	}
	return cx.Args[0], delta, true
}

// c12R2Direct: R2 when Doc and Comment consult the indexes themselves (no lookup function between them and the maps).
// In each of the two, every read of a comment index is keyed by (the position parameter, delta): Doc reads the leading
// index only, at delta -1; Comment reads at delta 0, the trailing index and the leading one.
func c12R2Direct(p *core.Program, r *core.Report) {
	const rule = "R2"
	for _, spec := range []struct {
		fn    string
		delta int64
		what  string
	}{{"(*pkgInfo).Doc", -1, "Doc consults the line above the declaration"}, {"(*pkgInfo).Comment", 0, "Comment consults the declaration's own line"}} {
		f := p.FuncByName("pkg/types", spec.fn)
		if f == nil {
			r.Anchor(rule, "pkg/types."+spec.fn)
			continue
		}
		f = flatten(p, f)
		info := f.Info()
		trailingReads, leadingReads := 0, 0
		okKeys := true
		ast.Inspect(f.Body, func(n ast.Node) bool {
			ix, isIx := n.(*ast.IndexExpr)
			if !isIx {
				return true
			}
			fld := core.FieldOf(info, ix.X)
			if !isCommentGroupMapField(fld) {
				return true
			}
			pe, d, okForm := keyFormOf(info, f.Body, ix.Index)
			pv := core.VarOf(info, pe)
			if !okForm || d != spec.delta || pv == nil || !isParamOf(f, pv) {
				okKeys = false
			}
			if isTrailingField(fld) {
				trailingReads++
				r.Check(spec.delta == 0 && okForm && d == 0, rule, f, "trailing index is read only for delta 0", ix.Pos(), "read in the lookup of the declaration's own line", "the trailing index is consulted for the doc lookup (delta != 0): a trailing comment of the previous line is returned as documentation")
			} else {
				leadingReads++
			}
			return true
		})
		r.Check(okKeys && leadingReads >= 1, rule, f, spec.what, f.Node().Pos(), "every index read is keyed by (the position passed in, "+itoa(spec.delta)+")", "the lookup is not made with line delta "+itoa(spec.delta)+" on the position passed in")
		if spec.delta == 0 {
			r.Check(trailingReads >= 1 && leadingReads >= 1, rule, f, "lookup reads both indexes", f.Node().Pos(), "trailing and leading index are read", "the lookup no longer reads the trailing/leading index")
		}
		if np := p.FuncByName("pkg/types", "newPkg"); np != nil {
			var builder []string
			if kf := keyFunc(p, np); kf != nil {
				builder = positionMappings(p, kf, 0)
			}
			if len(builder) == 0 {
				builder = positionMappings(p, np, 0)
			}
			if len(builder) == 0 {
				// the keys are built inside the collecting closure
				seen := map[string]bool{}
				for _, sub := range funcsUnder(p, np) {
					for _, m := range positionMappings(p, sub, 0) {
						if !seen[m] {
							seen[m] = true
							builder = append(builder, m)
						}
					}
				}
				sort.Strings(builder)
			}
			lookup := positionMappings(p, f, 0)
			same := len(builder) == 1 && len(lookup) == 1 && builder[0] == lookup[0]
			r.Check(same, rule, f, "builder and lookup of the comment index map positions the same way", f.Node().Pos(), "both use "+strings.Join(builder, ", "),
				"the comment index is built with {"+strings.Join(builder, ", ")+"} and consulted with {"+strings.Join(lookup, ", ")+"}: where the two mappings differ (below a //line directive) the doc and trailing comments of a declaration are not found")
		}
	}
}
