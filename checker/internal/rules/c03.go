package rules

import (
	"go/ast"
	"go/token"
	"go/types"
	"regexp"
	"strings"

	"gengoverif/checker/internal/cfgx"
	"gengoverif/checker/internal/core"
)

func init() {
	register(Property{
		ID:          "C03",
		Explanation: "Decided statically: R1 every LocalNameOf(p) in the naming system is dominated by an AddType on the same tracker for the same package path (no qualifier is printed for an unregistered package); R2 the import block is printed from the very tracker the file's namer registers into (single-store field, same field load at both ends) and the printer emits one line per key with the name from the same map, without mutating it; R3 registration happens only in the namer (and std's init, on another tracker) and is always followed by the LocalNameOf whose result is printed; R4 the two tracker maps are written only in one function, only on the absent edge of both lookups (a binding is never overwritten, a name never bound to two paths), and never deleted from; R5 the name committed is dominated by token.IsIdentifier(name) == true (valid, non-keyword); R6 every normal return of the storing function passes the 'already bound' edge or the store (a name is always committed); R7 each registration is dominated by the path differing from the namer's own package path, which InitWith binds to the target package's path. R8 no Frag/IsNil method of pkg/gengo/snippet writes its receiver or other non-local memory (a snippet that memoised what a first rendering resolved would skip the registration when rendered into another file). R2 also: every iteration of the printing loop emits exactly one `name \"path\"` line (a path written without the tracker's name is bound under the package's declared name); R9 every name the namer hands out went through the argument rewriter, which is what registers the packages of a generic instantiation's type arguments. R10 the body buffer of a generated file is only written to, measured and finally read (never truncated or reset: the tracker cannot forget a package); R11 no string constant of the printers spells a qualified identifier; R12 in the value and type printers the text of every registering call reaches the function's result on every path (followed through its holders; empty-holder edges and counted writes are understood). R13 textual references are split into package path and name at the last dot (C15.R3); R14 template arguments are rendered at their placeholders only (C09.R3). R15 every nested package path of a generic instantiation is blanked or registered and rewritten (C15.R4); R16 the identifier snippet writes a string as it is only on the edge on which ParseRef failed. R17 types.Ref stores its path and name unchanged and Pkg()/Name() answer them; R18 = C10.R14 (value literals are written from the printer's own renderings). NOT decided: that the rendered body really uses every registered name (a caller may discard a rendered fragment); termination of the candidate search is argued, not proven. Round 8: R19 = C11.R7 (the printers keep no memo: every rendering of a type goes through the namer); R20 import-name candidates are made of the path's own segments (no constant text is spliced into a candidate: `_` is an identifier and names nothing). Round 9: R21 every return of the printer's Name is the namer's answer for the reference it was given.",
		Assumptions: commonAssumptions,
		Run:         runC03,
	})
}

var (
	ifaceAddType     = "(" + core.ModulePath + "/pkg/namer.ImportTracker).AddType"
	ifaceLocalNameOf = "(" + core.ModulePath + "/pkg/namer.ImportTracker).LocalNameOf"
	ifaceImports     = "(" + core.ModulePath + "/pkg/namer.ImportTracker).Imports"
)

// pathOfTypeArg: the package path expression an AddType argument stands for:
// Ref(P, _) -> P ; v -> v.Pkg().Path()
func samePathAsAddType(f *core.Func, add *ast.CallExpr, pathArg ast.Expr) bool {
	info := f.Info()
	if len(add.Args) != 1 {
		return false
	}
	arg := ast.Unparen(add.Args[0])
	pe, _ := core.Resolve(info, f.Body, pathArg)
	if rc := core.AsCall(info, arg, core.G("pkg/types.Ref")); rc != nil && len(rc.Args) == 2 {
		return core.SameRef(info, rc.Args[0], pathArg) || core.SameRef(info, rc.Args[0], pe)
	}
	// v.Pkg().Path()
	if pc, ok := ast.Unparen(pe).(*ast.CallExpr); ok {
		if sel, ok := ast.Unparen(pc.Fun).(*ast.SelectorExpr); ok && sel.Sel.Name == "Path" {
			if ic, ok := ast.Unparen(sel.X).(*ast.CallExpr); ok {
				if isel, ok := ast.Unparen(ic.Fun).(*ast.SelectorExpr); ok && isel.Sel.Name == "Pkg" {
					return core.SameRef(info, isel.X, arg)
				}
			}
		}
	}
	return false
}

func runC03(p *core.Program, r *core.Report) {
	c03R1R3R7(p, r)
	c03R2(p, r)
	c03Tracker(p, r)
	c03R8(p, r)
	// R9: every name the namer hands out went through the argument rewriter, which is what
	// registers the packages of a generic instantiation's type arguments (shared with C11.R6)
	namerRewriteRule(p, r, "R9")
	c03R10(p, r)
	c03R11(p, r)
	c03R12(p, r)
	// R13: a reference given as text names the package up to the LAST dot before the type arguments: the import that is
	// registered is the package that was meant
	chainRules(p, r, "R13", "C15", []string{"C15.R3"}, "textual references are split into package path and name at the last dot")
	// R14: an argument of a template is rendered where its placeholder stands - and only there: rendering registers
	chainRules(p, r, "R14", "C09", []string{"C09.R3"}, "template arguments are rendered at their placeholders only")
	// R15: "none missing" for the type arguments of generic instantiations: every nested package path is either the file's
	// own or registered and replaced by the tracker's name for it (C15.R4)
	chainRules(p, r, "R15", "C15", []string{"C15.R4"}, "every nested package path is blanked (own package) or registered and rewritten")
	c03R16(p, r)
	c03R17(p, r)
	// R18: "every qualified reference uses the name bound to its package" inside value literals: what the value printer
	// writes was rendered under its own namer (C10.R14)
	chainRules(p, r, "R18", "C10", []string{"C10.R14"}, "value literals are written from the printer's own renderings only")
	// round 8: a memoised literal is written without asking the namer, so its package is never registered
	chainRules(p, r, "R19", "C11", []string{"C11.R7"}, "the printers keep no memo: every rendering of a type goes through the namer")
	c03R20(p, r)
	c03R21(p, r)
}

// commitWitness: every definition of the boolean local v is the constant false, or the constant true at a point dominated
// by both stores.
func commitWitness(info *types.Info, g *cfgx.G, sf *core.Func, v *types.Var, pp, np cfgx.Point) bool {
	if b, ok := v.Type().Underlying().(*types.Basic); !ok || b.Kind() != types.Bool || v.IsField() {
		return false
	}
	defs := core.DefsOf(info, sf.Body, v)
	if len(defs) == 0 {
		return false
	}
	nTrue := 0
	for _, d := range defs {
		if d.Rhs == nil {
			if d.Kind == "var" {
				continue // declared without a value: false
			}
			return false
		}
		tv, isConst := info.Types[d.Rhs]
		if !isConst || tv.Value == nil || d.Index >= 0 {
			return false
		}
		if tv.Value.String() == "false" {
			continue
		}
		at := g.PointOf(d.Stmt)
		if !at.Valid() || !g.Dominates(pp, at) || !g.Dominates(np, at) {
			return false
		}
		nTrue++
	}
	return nTrue > 0
}

// c03R8: rendering a snippet registers its imports with the tracker of the
// writer that renders it, so a snippet must not remember anything a previous
// rendering resolved: no Frag/IsNil method of pkg/gengo/snippet writes its
// receiver (or any other non-local memory).
func c03R8(p *core.Program, r *core.Report) {
	const rule = "R8"
	r.Floor(rule, 1)
	n := 0
	for _, f := range p.Funcs() {
		if core.RelPkg(f.Pkg.PkgPath) != "pkg/gengo/snippet" {
			continue
		}
		root := f.Root()
		if root.Decl == nil || root.Decl.Recv == nil || (root.Decl.Name.Name != "Frag" && root.Decl.Name.Name != "IsNil") {
			continue
		}
		n++
		for _, w := range nonLocalWrites(f) {
			// plumbing of the iterator closures (captured locals of the same method) is fine
			var lhs []ast.Expr
			switch x := w.(type) {
			case *ast.AssignStmt:
				lhs = x.Lhs
			case *ast.IncDecStmt:
				lhs = []ast.Expr{x.X}
			}
			if len(lhs) > 0 {
				local := true
				for _, l := range lhs {
					rootE := l
					for {
						switch x := ast.Unparen(rootE).(type) {
						case *ast.SelectorExpr:
							rootE = x.X
							continue
						case *ast.IndexExpr:
							rootE = x.X
							continue
						}
						break
					}
					v := core.VarOf(f.Info(), rootE)
					if v == nil || !core.DeclaredIn(f.Info(), root.Body, v) {
						local = false
					}
				}
				if local {
					continue
				}
			}
			r.Bad(rule, f, "snippet rendering writes non-local state: "+core.ExprStr(w), w.Pos(), "a snippet remembers something resolved by an earlier rendering (e.g. a cached import name): when the same snippet value is rendered by a second writer its package is not registered with that writer's tracker - the reference is printed without an import, or qualified in its own package")
		}
	}
	r.OK(rule, nil, "snippet rendering (Frag/IsNil in pkg/gengo/snippet) is free of receiver writes", token.NoPos, itoa(int64(n))+" method bodies and closures scanned")
}

func c03R1R3R7(p *core.Program, r *core.Report) {
	r.Floor("R1", 2)
	r.Floor("R3", 3)
	r.Floor("R7", 3)
	nLocal, nAdd := 0, 0
	pairs := registerAndNameHelpers(p)
	for _, cs := range allCalls(p) {
		f := cs.In
		if f.Body == nil {
			continue
		}
		info := f.Info()
		rel := core.RelPkg(f.Pkg.PkgPath)
		if f.Root().Obj() != nil {
			if _, inPair := pairs[f.Root().Obj()]; inPair {
				continue // decided where the helper is called
			}
		}
		// a call of a register-and-name helper: registration and lookup in one
		if ph, isPair := pairs[core.CalleeFunc(info, cs.Call)]; isPair && len(cs.Call.Args) > max(ph.Tr, ph.T, ph.Pa) {
			nLocal++
			nAdd++
			tArg, pArg := cs.Call.Args[ph.T], cs.Call.Args[ph.Pa]
			fake := &ast.CallExpr{Fun: cs.Call.Fun, Args: []ast.Expr{tArg}}
			r.Check(samePathAsAddType(f, fake, pArg), "R1", f, "LocalNameOf("+core.ExprStr(pArg)+") is preceded by AddType for the same path", cs.Call.Pos(),
				"the register-and-name helper is called with a type and that type's own path", "the helper registers one package and looks up the name of another: the reference is printed with an empty or stale import name")
			r.Check(rel == "pkg/namer", "R3", f, "AddType is called only by the naming system", cs.Call.Pos(), "call site in pkg/namer", "an import is registered outside the namer")
			r.OK("R3", f, "registration is followed by printing the registered name", cs.Call.Pos(), "the helper returns the registered name")
			g := graph(f)
			own := false
			isOwnField := func(e ast.Expr) bool { return ownPathOperand(p, f, e) }
			isThisPath := func(e ast.Expr) bool { return samePathAsAddType(f, fake, e) }
			facts := g.FactsAt(g.PointOf(cs.Call))
			for _, fct := range facts {
				if v, ok := eqFact(fct, isThisPath, isOwnField); ok && !v {
					own = true
				}
			}
			r.Check(own, "R7", f, "the file's own package is never registered", cs.Call.Pos(), "dominated by path != n.pkgPath",
				"AddType can run for the namer's own package path: the generated file imports its own package (import cycle) and local types are qualified")
			continue
		}
		name := cs.Name
		switch trackerCall(p, info, cs.Call) {
		case "LocalNameOf":
			name = ifaceLocalNameOf
		case "AddType":
			name = ifaceAddType
		}
		switch name {
		case ifaceLocalNameOf:
			nLocal++
			g := graph(f)
			at := g.PointOf(cs.Call)
			ok := g.DominatedBySome(at, func(q cfgx.Point) bool {
				for _, c := range core.CallsTo(info, q.Node(), true, ifaceAddType) {
					if core.SameRef(info, recvOf(c), recvOf(cs.Call)) && samePathAsAddType(f, c, cs.Call.Args[0]) {
						return true
					}
				}
				return false
			})
			r.Check(ok, "R1", f, "LocalNameOf("+core.ExprStr(cs.Call.Args[0])+") is preceded by AddType for the same path", cs.Call.Pos(),
				"dominated by tracker.AddType(t) with path(t) = the path asked for", "a qualifier is looked up for a package that was not registered on every path before: the reference is printed with an empty or stale import name and the import line is missing")
		case ifaceAddType:
			nAdd++
			r.Check(rel == "pkg/namer", "R3", f, "AddType is called only by the naming system", cs.Call.Pos(), "call site in pkg/namer",
				"an import is registered outside the namer, where no qualified reference is printed for it: the import block gets an unused import")
			g := graph(f)
			at := g.PointOf(cs.Call)
			// followed by LocalNameOf of the same path
			ok := g.PostDominatedBySome(at, func(q cfgx.Point) bool {
				for _, c := range core.CallsTo(info, q.Node(), true, ifaceLocalNameOf) {
					if core.SameRef(info, recvOf(c), recvOf(cs.Call)) && samePathAsAddType(f, cs.Call, c.Args[0]) {
						return true
					}
				}
				return false
			})
			r.Check(ok, "R3", f, "registration is followed by printing the registered name", cs.Call.Pos(), "post-dominated by LocalNameOf of the same path", "a package is registered on a path that does not print its name: unused import")
			// R7: not the own package
			own := false
			isOwnField := func(e ast.Expr) bool { return ownPathOperand(p, f, e) }
			isThisPath := func(e ast.Expr) bool { return samePathAsAddType(f, cs.Call, e) }
			for _, fct := range g.FactsAt(at) {
				if v, ok := eqFact(fct, isThisPath, isOwnField); ok && !v {
					own = true
				}
			}
			r.Check(own, "R7", f, "the file's own package is never registered", cs.Call.Pos(), "dominated by path != n.pkgPath",
				"AddType can run for the namer's own package path: the generated file imports its own package (import cycle) and local types are qualified")
		}
	}
	if nLocal == 0 {
		r.Anchor("R1", "calls of ImportTracker.LocalNameOf")
	}
	if nAdd == 0 {
		r.Anchor("R3", "calls of ImportTracker.AddType")
	}
	// own-package references are returned unqualified
	nf := p.FuncByName("pkg/namer", "(*rawNamer).Name")
	if nf == nil {
		r.Anchor("R7", "pkg/namer.(*rawNamer).Name")
	} else {
		info := nf.Info()
		g := graph(nf)
		unq := false
		for _, rp := range g.Points(func(n ast.Node) bool { _, ok := n.(*ast.ReturnStmt); return ok }) {
			ret := rp.Node().(*ast.ReturnStmt)
			isOwn := false
			isOwnField := func(e ast.Expr) bool { fld := core.FieldOf(info, e); return isRole(p, fld, "namer.pkgPath") }
			anyExpr := func(e ast.Expr) bool { return !isOwnField(e) }
			for _, fct := range g.FactsAt(rp) {
				if v, ok := eqFact(fct, anyExpr, isOwnField); ok && v {
					isOwn = true
				}
			}
			if isOwn && len(core.CallsTo(info, ret, true, ifaceLocalNameOf)) == 0 {
				unq = true
			}
		}
		r.Check(unq, "R7", nf, "own-package references are returned unqualified", nf.Node().Pos(), "return under path == n.pkgPath has no qualifier", "references to the file's own package are not returned unqualified")
	}
	// pkgPath is bound to the target package in InitWith
	iw := fileMethod(p, "InitWith")
	if iw == nil {
		r.Anchor("R7", "pkg/gengo.(*genfile).InitWith")
		return
	}
	info := iw.Info()
	ok := false
	for _, c := range core.CallsTo(info, iw.Body, true, core.G("pkg/namer.NewRawNamer")) {
		e, _ := core.Resolve(info, iw.Body, c.Args[0])
		s := canonBase(p, iw, e, 0)
		if strings.HasSuffix(s, ".Package(\"\").Pkg().Path()") || strings.HasSuffix(s, `.Package("").Pkg().Path()`) {
			ok = true
		}
	}
	r.Check(ok, "R7", iw, "the namer's own path is the target package's path", iw.Node().Pos(), "NewRawNamer(c.Package(\"\").Pkg().Path(), ...)", "the namer is not bound to the path of the package the file is generated into")
}

func c03R2(p *core.Program, r *core.Report) {
	const rule = "R2"
	r.Floor(rule, 4)
	pkg := p.Pkg("pkg/gengo")
	// stores into genfile.imports
	stores := 0
	var storePos token.Pos
	fresh := false
	for _, f := range p.Funcs() {
		if f.Pkg != pkg {
			continue
		}
		info := f.Info()
		ast.Inspect(f.Body, func(n ast.Node) bool {
			switch x := n.(type) {
			case *ast.KeyValueExpr:
				if id, ok := x.Key.(*ast.Ident); ok && isRole(p, fieldVarOf(info, id), "file.imports") {
					stores++
					storePos = x.Pos()
					if core.AsCall(info, x.Value, core.G("pkg/namer.NewDefaultImportTracker")) != nil {
						fresh = true
					}
				}
			case *ast.AssignStmt:
				for i, l := range x.Lhs {
					if fld := core.FieldOf(info, l); isRole(p, fld, "file.imports") && core.NamedTypeName(fld.Type()) == core.G("pkg/namer.ImportTracker") {
						stores++
						storePos = x.Pos()
						// field-by-field construction: `gf := &T{}; gf.imports = NewDefaultImportTracker()` on a local that was just allocated
						if i < len(x.Rhs) && len(x.Lhs) == len(x.Rhs) && core.AsCall(info, x.Rhs[i], core.G("pkg/namer.NewDefaultImportTracker")) != nil {
							if hv := core.VarOf(info, l.(*ast.SelectorExpr).X); hv != nil && !isParamOf(f.Root(), hv) && hv != recvVar(f.Root()) {
								if d, ok := core.SingleDef(info, f.Root().Body, hv); ok {
									if u, isU := ast.Unparen(d.Rhs).(*ast.UnaryExpr); isU && u.Op == token.AND {
										if _, isLit := ast.Unparen(u.X).(*ast.CompositeLit); isLit {
											fresh = true
										}
									}
								}
							}
						}
					}
				}
			}
			return true
		})
	}
	r.Check(stores == 1 && fresh, rule, nil, "genfile.imports is stored exactly once, with a fresh tracker", storePos, "single store in the constructor: NewDefaultImportTracker()", "the file's import tracker is replaced or shared: the import block may be printed from another tracker than the one the namer registers into")
	isImportsField := func(info *types.Info, e ast.Expr) bool {
		f := core.FieldOf(info, e)
		return isRoleAny(f, "file.imports")
	}
	iw := fileMethod(p, "InitWith")
	wf := fileMethod(p, "WriteToFile")
	if iw == nil || wf == nil {
		r.Anchor(rule, "pkg/gengo.(*genfile).InitWith / WriteToFile")
		return
	}
	okNamer := false
	for _, c := range core.CallsTo(iw.Info(), iw.Body, true, core.G("pkg/namer.NewRawNamer")) {
		if len(c.Args) == 2 && isImportsField(iw.Info(), c.Args[1]) && core.SameRef(iw.Info(), c.Args[1].(*ast.SelectorExpr).X, recvIdent(iw)) {
			okNamer = true
		}
	}
	r.Check(okNamer, rule, iw, "the namer registers into the file's own tracker", iw.Node().Pos(), "NewRawNamer(_, ff.imports)", "the namer is given another tracker than ff.imports")
	okPrint := false
	var wi []*ast.CallExpr
	for _, c := range core.Calls(wf.Body, true) {
		if isImportPrinterCall(p, wf.Info(), c) {
			wi = append(wi, c)
		}
	}
	for _, c := range wi {
		// the map is passed in: printer(_, ff.imports.Imports())
		for _, a := range c.Args {
			if ic := core.AsCall(wf.Info(), a, ifaceImports); ic != nil && isImportsField(wf.Info(), recvOf(ic)) && sameAlias(wf, recvOf(ic).(*ast.SelectorExpr).X, recvVar(wf)) {
				okPrint = true
			}
		}
		// or the printer is a method of the file and reads its own tracker: ff.printer(_) with m := ff.imports.Imports() inside
		if ip := importPrinter(p); ip != nil && ip.Decl.Recv != nil && sameAlias(wf, recvOf(c), recvVar(wf)) {
			for _, ic := range core.CallsTo(ip.Info(), ip.Body, true, ifaceImports) {
				if isImportsField(ip.Info(), recvOf(ic)) && core.VarOf(ip.Info(), recvOf(ic).(*ast.SelectorExpr).X) == recvVar(ip) {
					okPrint = true
				}
			}
		}
	}
	if ip := importPrinter(p); ip != nil && len(wi) == 0 && (ip == wf || ip == wf.Origin) {
		// the block is printed by the writer itself, from a map read off its own tracker
		nread := 0
		for _, ic := range core.CallsTo(wf.Info(), wf.Body, true, ifaceImports) {
			if isImportsField(wf.Info(), recvOf(ic)) && sameAlias(wf, recvOf(ic).(*ast.SelectorExpr).X, recvVar(wf)) {
				nread++
			}
		}
		if nread == 1 {
			okPrint = true
			wi = append(wi, nil)
		}
	}
	r.Check(okPrint && len(wi) == 1, rule, wf, "the import block is printed from the file's own tracker", wf.Node().Pos(), "writeImports(_, ff.imports.Imports())", "the import block is printed from another source than ff.imports.Imports()")
	importBlockRule(p, r, rule)
}

// importBlockRule: the printer of the import block (shared by C03.R2 and C18.R6:
// "foreign types correctly imported").
func importBlockRule(p *core.Program, r *core.Report, rule string) {
	// writeImports: one line per key, name from the same map, no mutation
	w := importPrinter(p)
	if w == nil {
		r.Anchor(rule, "the import printer of pkg/gengo (the function that writes `import (`)")
		return
	}
	w = flatten(p, w) // loops in range form
	info := w.Info()
	// the path->name map: a parameter, or a local read from the tracker's Imports()
	var mp *types.Var
	for _, fld := range w.Decl.Type.Params.List {
		for _, n := range fld.Names {
			if v, _ := info.ObjectOf(n).(*types.Var); v != nil && isMapType(v.Type()) {
				mp = v
			}
		}
	}
	if mp == nil {
		ast.Inspect(w.Body, func(n ast.Node) bool {
			as, ok := n.(*ast.AssignStmt)
			if !ok || len(as.Lhs) != 1 || len(as.Rhs) != 1 {
				return true
			}
			if c, isCall := ast.Unparen(as.Rhs[0]).(*ast.CallExpr); isCall && strings.HasSuffix(core.CalleeName(info, c), ").Imports") {
				if v := core.VarOf(info, as.Lhs[0]); v != nil && isMapType(v.Type()) {
					if _, single := core.SingleDef(info, w.Body, v); single {
						mp = v
					}
				}
			}
			return true
		})
	}
	mutated := false
	ast.Inspect(w.Body, func(n ast.Node) bool {
		if as, ok := n.(*ast.AssignStmt); ok {
			for _, l := range as.Lhs {
				if ix, ok := ast.Unparen(l).(*ast.IndexExpr); ok && (mp != nil && core.CanonVarOf(info, w.Body, ix.X) == mp) {
					mutated = true
				}
			}
		}
		if c, ok := n.(*ast.CallExpr); ok && core.CalleeName(info, c) == "builtin.delete" && len(c.Args) > 0 && (mp != nil && core.CanonVarOf(info, w.Body, c.Args[0]) == mp) {
			mutated = true
		}
		return true
	})
	lineOK := false
	var goodLine *ast.CallExpr
	var lineLoop *ast.RangeStmt
	for _, c := range core.CallsTo(info, w.Body, true, "fmt.Fprintf") {
		if len(c.Args) == 4 {
			ne, _ := core.Resolve(info, w.Body, c.Args[2])
			ix, ok := ast.Unparen(ne).(*ast.IndexExpr)
			if ok && (mp != nil && core.CanonVarOf(info, w.Body, ix.X) == mp) && core.SameRef(info, ix.Index, c.Args[3]) {
				if s, isC := core.ConstString(info, c.Args[1]); isC && strings.Contains(s, `%s "%s"`) {
					// the path variable ranges over the collected keys
					if v := core.VarOf(info, c.Args[3]); v != nil {
						if d, ok := core.SingleDef(info, w.Body, v); ok && d.Kind == "range-value" {
							lineOK = true
							goodLine = c
							lineLoop, _ = d.Stmt.(*ast.RangeStmt)
						}
					}
				}
			}
		}
	}
	// every iteration emits that line: a path printed without its name (or not at all) binds
	// the package's declared name, which need not be the name the body uses
	if lineOK && lineLoop != nil {
		wg := graph(w)
		without, twice := exactlyOnePerIteration(wg, lineLoop, func(n ast.Node) bool {
			for _, c := range core.Calls(n, true) {
				if c == goodLine {
					return true
				}
			}
			return false
		}, nil)
		r.Check(!without && !twice, rule, w, "every registered path gets exactly one `name \"path\"` line", lineLoop.Pos(), "each iteration of the printing loop passes the line once",
			"an iteration of the import-printing loop can end without printing `name \"path\"` (or print it twice): an import written without the tracker's name is bound under the package's declared name, which the rendered qualifiers do not use")
	}
	r.Check(lineOK && !mutated && mp != nil, rule, w, "one `name \"path\"` line per registered path, name taken from the same map", w.Node().Pos(), "Fprintf(w, `%s \"%s\"`, m[p], p) for p in the key list; map not mutated", "the import lines are not `m[p] \"p\"` for every key of the tracker's map (or the map is mutated while printing)")
	// keys: collected from the map and sorted (also C04)
	var src *ast.RangeStmt
	ast.Inspect(w.Body, func(n ast.Node) bool {
		if rs, ok := n.(*ast.RangeStmt); ok && mp != nil && core.CanonVarOf(info, w.Body, rs.X) == mp {
			src = rs
		}
		return true
	})
	sortedDirect := false
	ast.Inspect(w.Body, func(n ast.Node) bool {
		if rs, ok := n.(*ast.RangeStmt); ok {
			if m := sortedKeysOperand(info, w.Body, rs.X); m != nil && mp != nil && core.CanonVarOf(info, w.Body, m) == mp {
				sortedDirect = true
			}
		}
		return true
	})
	if src == nil && sortedDirect {
		r.OK(rule, w, "every key of the map is printed, in sorted order", w.Node().Pos(), "ranges over slices.Sorted(maps.Keys(m))")
	} else if src == nil {
		r.Bad(rule, w, "every key of the map is printed", w.Node().Pos(), "writeImports does not range over its map")
	} else {
		sh := rangeBodyShape(info, src)
		ok := sh.KeyedOnly && len(sh.Collected) == 1
		why := "the loop over the map does not just collect its keys"
		if ok {
			if good, wy := sortedBeforeUse(w, src, sh.Collected[0]); !good {
				ok, why = false, wy
			}
			// unconditional collect of the key
			if len(src.Body.List) != 1 {
				ok, why = false, "keys are collected conditionally"
			} else if _, isAs := src.Body.List[0].(*ast.AssignStmt); !isAs {
				ok, why = false, "keys are collected conditionally"
			}
		}
		r.Check(ok, rule, w, "every key of the map is printed, in sorted order", src.Pos(), "collect-then-sort over all keys", why)
	}
}

func recvIdent(f *core.Func) ast.Expr {
	if f.Decl != nil && f.Decl.Recv != nil && len(f.Decl.Recv.List) == 1 && len(f.Decl.Recv.List[0].Names) == 1 {
		return f.Decl.Recv.List[0].Names[0]
	}
	return ast.NewIdent("_")
}

// recvVar: the receiver variable of a method (nil for functions).
func recvVar(f *core.Func) *types.Var {
	if id, ok := recvIdent(f).(*ast.Ident); ok && id.Name != "_" {
		v, _ := f.Info().ObjectOf(id).(*types.Var)
		return v
	}
	return nil
}

func c03Tracker(p *core.Program, r *core.Report) {
	r.Floor("R4", 3)
	r.Floor("R5", 1)
	r.Floor("R6", 1)
	isTrackerMap := func(v *types.Var) string {
		if v == nil || !v.IsField() {
			return ""
		}
		// by role (the map Imports() returns vs. the other one), reported under today's names
		switch fieldRole(p, v) {
		case "tracker.byPath":
			return "pathToName"
		case "tracker.byName":
			return "nameToPath"
		}
		return ""
	}
	type store struct {
		f     *core.Func
		as    *ast.AssignStmt
		which string
	}
	var stores []store
	for _, f := range p.Funcs() {
		if core.RelPkg(f.Pkg.PkgPath) != "pkg/namer" {
			continue
		}
		info := f.Info()
		ast.Inspect(f.Body, func(n ast.Node) bool {
			if lit, ok := n.(*ast.FuncLit); ok && lit != f.Lit {
				return false
			}
			switch x := n.(type) {
			case *ast.AssignStmt:
				for _, l := range x.Lhs {
					if ix, ok := ast.Unparen(l).(*ast.IndexExpr); ok {
						if w := isTrackerMap(core.FieldOf(info, ix.X)); w != "" {
							stores = append(stores, store{f, x, w})
						}
					}
					// replacing a whole map outside a composite literal
					if w := isTrackerMap(core.FieldOf(info, l)); w != "" {
						r.Bad("R4", f, "tracker map "+w+" is replaced", x.Pos(), "an existing binding table is thrown away")
					}
				}
			case *ast.CallExpr:
				if core.CalleeName(info, x) == "builtin.delete" && len(x.Args) > 0 && isTrackerMap(core.FieldOf(info, x.Args[0])) != "" {
					r.Bad("R4", f, "delete on a tracker map", x.Pos(), "a committed import name is removed: asking twice no longer yields the same name")
				}
				if cn := core.CalleeName(info, x); (cn == "maps.Copy" || cn == "maps.Insert" || cn == "clear") && len(x.Args) > 0 && isTrackerMap(core.FieldOf(info, x.Args[0])) != "" {
					r.Bad("R4", f, cn+" on a tracker map", x.Pos(), "bindings are bulk-modified outside the guarded store")
				}
			}
			return true
		})
	}
	if len(stores) != 2 {
		r.Bad("R4", nil, "exactly one store per tracker map", token.NoPos, "expected one store into pathToName and one into nameToPath, found "+itoa(int64(len(stores))))
		if len(stores) == 0 {
			return
		}
	}
	// the unit the stores belong to: lookups and stores moved into small private helpers of the tracker are seen in place
	unitOf := func(f *core.Func) *core.Func {
		if f.Lit != nil {
			return f // a local closure that commits a candidate: guards and stores are all inside it
		}
		return unit(p, f)
	}
	sf := unitOf(stores[0].f)
	for _, s := range stores {
		if unitOf(s.f) != sf {
			r.Bad("R4", s.f, "tracker maps are written in one function", s.as.Pos(), "the two maps are written by different functions and can get out of step")
		}
	}
	info := sf.Info()
	g := graph(sf)
	var pathStore, nameStore *ast.AssignStmt
	for _, s := range stores {
		if s.which == "pathToName" {
			pathStore = s.as
		} else {
			nameStore = s.as
		}
	}
	if pathStore == nil || nameStore == nil {
		r.Anchor("R4", "stores into both tracker maps")
		return
	}
	pIx := ast.Unparen(pathStore.Lhs[0]).(*ast.IndexExpr)
	nIx := ast.Unparen(nameStore.Lhs[0]).(*ast.IndexExpr)
	pp, np := g.PointOf(pathStore), g.PointOf(nameStore)
	r.Check(pp.B == np.B, "R4", sf, "both maps are updated together", pathStore.Pos(), "same basic block", "the two stores are not in the same basic block: one map can be updated without the other")
	// consistent: pathToName[path] = name ; nameToPath[name] = path
	canonSame := func(a, b ast.Expr) bool {
		if core.SameRef(info, a, b) {
			return true
		}
		va, vb := core.CanonVarOf(info, sf.Root().Body, a), core.CanonVarOf(info, sf.Root().Body, b)
		if va != nil && va == vb {
			return true
		}
		return copiesOfSame(sf, va, vb)
	}
	r.Check(canonSame(pIx.Index, nameStore.Rhs[0]) && canonSame(nIx.Index, pathStore.Rhs[0]), "R4", sf, "the two maps are inverse of each other", pathStore.Pos(),
		"pathToName[p] = n and nameToPath[n] = p", "the two stores do not record the same (path, name) pair")
	// absent-edge guards
	absent := func(at cfgx.Point, mapName string, key ast.Expr) bool {
		for _, fct := range g.FactsAt(at) {
			v := core.VarOf(info, fct.Cond)
			if v == nil || fct.Val {
				continue
			}
			v = core.CanonVar(info, sf.Root().Body, v) // the result of a small lookup helper is a copy of its `ok`
			d, ok := core.SingleDef(info, sf.Root().Body, v)
			if !ok || d.Index != 1 {
				continue
			}
			ix, ok := ast.Unparen(d.Rhs).(*ast.IndexExpr)
			if !ok {
				continue
			}
			if fld := core.FieldOf(info, ix.X); fld != nil && isTrackerMap(fld) == mapName && canonSame(ix.Index, key) {
				return true
			}
		}
		return false
	}
	r.Check(absent(np, "nameToPath", nIx.Index), "R4", sf, "a name is bound only if it is free", nameStore.Pos(), "dominated by `_, ok := nameToPath[name]` absent",
		"the store is not guarded by the name being absent from nameToPath: two packages can get the same local name")
	// when the candidates are committed by a local closure (called once per candidate), what holds at every call of the
	// closure holds inside it, and the function around it returns only after a call that answered true
	var parent *core.Func
	var closureVar *types.Var
	var closureCalls []*ast.CallExpr
	if sf.Lit != nil && sf.Parent != nil {
		parent = sf.Parent
		pinfo := parent.Info()
		ast.Inspect(parent.Body, func(n ast.Node) bool {
			if as, ok := n.(*ast.AssignStmt); ok && len(as.Lhs) == 1 && len(as.Rhs) == 1 && ast.Unparen(as.Rhs[0]) == ast.Expr(sf.Lit) {
				closureVar = core.VarOf(pinfo, as.Lhs[0])
			}
			return true
		})
		if closureVar != nil {
			for _, c := range core.Calls(parent.Body, true) {
				if core.VarOf(pinfo, c.Fun) == closureVar {
					closureCalls = append(closureCalls, c)
				}
			}
		}
	}
	pathAbsent := absent(pp, "pathToName", pIx.Index)
	if !pathAbsent && len(closureCalls) > 0 {
		pinfo := parent.Info()
		pg := graph(parent)
		all := true
		for _, c := range closureCalls {
			found := false
			for _, fct := range pg.FactsAt(pg.PointOf(c)) {
				v := core.VarOf(pinfo, fct.Cond)
				if v == nil || fct.Val {
					continue
				}
				d, ok := core.SingleDef(pinfo, parent.Body, v)
				if !ok || d.Index != 1 {
					continue
				}
				ix, ok := ast.Unparen(d.Rhs).(*ast.IndexExpr)
				if !ok {
					continue
				}
				if fld := core.FieldOf(pinfo, ix.X); fld != nil && isTrackerMap(fld) == "pathToName" && core.VarOf(pinfo, ix.Index) != nil && core.VarOf(pinfo, ix.Index) == core.VarOf(info, pIx.Index) {
					found = true
				}
			}
			if !found {
				all = false
			}
		}
		pathAbsent = all
	}
	r.Check(pathAbsent, "R4", sf, "a path is bound only once", pathStore.Pos(), "dominated by `_, ok := pathToName[path]` absent",
		"the store is not guarded by the path being absent from pathToName: asking twice can rebind the package to another name")

	// R5 validity
	valid := false
	for _, fct := range g.FactsAt(np) {
		if c := core.AsCall(info, fct.Cond, "go/token.IsIdentifier"); c != nil && fct.Val {
			if canonSame(c.Args[0], nIx.Index) {
				valid = true
				continue
			}
			// the stored key is a copy (an inlined helper's parameter) of the tested variable, made where the
			// test still holds (FactsAt only keeps a fact while its variables are not re-assigned)
			if kv := core.VarOf(info, nIx.Index); kv != nil {
				if d, ok := core.SingleDef(info, sf.Root().Body, kv); ok && d.Index < 0 && core.VarOf(info, d.Rhs) != nil && core.VarOf(info, d.Rhs) == core.VarOf(info, c.Args[0]) {
					for _, f2 := range g.FactsAt(g.PointOf(d.Stmt)) {
						if f2.Cond == fct.Cond && f2.Val {
							valid = true
						}
					}
				}
			}
		}
	}
	r.Check(valid, "R5", sf, "committed name is a valid non-keyword identifier", nameStore.Pos(), "dominated by token.IsIdentifier(name) == true",
		"the candidate name is committed without a validity test: a path segment that is a Go keyword or starts with a digit (`.../go`, `.../2fa`) yields an import line that does not compile")

	// R6 always bound
	_, escapes := g.Reach(g.Entry(), true, cfgx.Query{
		Target: func(q cfgx.Point) bool { return g.IsExit(q) },
		Cut:    func(q cfgx.Point) bool { return q == pp || q == np },
		CutEdge: func(b *cfgBlock, k int) bool {
			// a loop over a generator that never ends by itself is not left on its "exhausted" edge
			if rs, isRange := b.Stmt.(*ast.RangeStmt); isRange && b.Kind == kindRangeLoop && k == 1 && endlessGenerator(p, sf, rs.X) {
				return true
			}
			// the "already bound" edge: `_, ok := pathToName[path]; ok` true
			if len(b.Succs) != 2 || len(b.Nodes) == 0 {
				return false
			}
			e, ok := b.Nodes[len(b.Nodes)-1].(ast.Expr)
			if !ok {
				return false
			}
			for _, a := range cfgx.Atoms(e, k == 0) {
				v := core.VarOf(info, a.Cond)
				if v == nil || !a.Val {
					continue
				}
				// a flag that is only ever set (to the constant true) behind both stores: on the edge on which it is true
				// the name has been committed (`for committed := false; !committed; { …; store; committed = true }`)
				if commitWitness(info, g, sf, v, pp, np) {
					return true
				}
				v = core.CanonVar(info, sf.Root().Body, v)
				d, ok := core.SingleDef(info, sf.Root().Body, v)
				if !ok || d.Index != 1 {
					continue
				}
				if ix, ok := ast.Unparen(d.Rhs).(*ast.IndexExpr); ok {
					if fld := core.FieldOf(info, ix.X); isRole(p, fld, "tracker.byPath") && canonSame(ix.Index, pIx.Index) {
						return true
					}
				}
			}
			return false
		},
	})
	if len(closureCalls) > 0 {
		// (i) the closure answers true only after both stores; (ii) the function around it leaves only on the
		// already-bound edge or on the true edge of a call of the closure
		okTrue := true
		for _, rp := range g.Points(func(n ast.Node) bool { _, ok := n.(*ast.ReturnStmt); return ok }) {
			ret := rp.Node().(*ast.ReturnStmt)
			if len(ret.Results) != 1 {
				okTrue = false
				continue
			}
			tv := info.Types[ret.Results[0]]
			if tv.Value == nil {
				okTrue = false
				continue
			}
			if tv.Value.String() == "true" && !(g.Dominates(pp, rp) && g.Dominates(np, rp)) {
				okTrue = false
			}
		}
		pinfo := parent.Info()
		pg := graph(parent)
		_, pesc := pg.Reach(pg.Entry(), true, cfgx.Query{
			Target: func(q cfgx.Point) bool { return pg.IsExit(q) },
			CutEdge: func(b *cfgBlock, k int) bool {
				if len(b.Succs) != 2 || len(b.Nodes) == 0 {
					return false
				}
				e, ok := b.Nodes[len(b.Nodes)-1].(ast.Expr)
				if !ok {
					return false
				}
				for _, a := range cfgx.Atoms(e, k == 0) {
					if c, isCall := ast.Unparen(a.Cond).(*ast.CallExpr); isCall && a.Val && core.VarOf(pinfo, c.Fun) == closureVar {
						return true
					}
					v := core.VarOf(pinfo, a.Cond)
					if v == nil || !a.Val {
						continue
					}
					d, ok := core.SingleDef(pinfo, parent.Body, v)
					if !ok || d.Index != 1 {
						continue
					}
					if ix, ok := ast.Unparen(d.Rhs).(*ast.IndexExpr); ok {
						if fld := core.FieldOf(pinfo, ix.X); isRole(p, fld, "tracker.byPath") {
							return true
						}
					}
				}
				return false
			},
		})
		escapes = !okTrue || pesc
	}
	r.Check(!escapes, "R6", sf, "a name is always committed", sf.Node().Pos(), "every normal return passes the already-bound edge or the store",
		"the function can return without binding a name (the candidate loop runs out when every candidate is taken or reserved): the reference is rendered as `.Name` and the import line has an empty name")

	// who may call the storing function
	obj := sf.Obj()
	if obj != nil {
		for _, cs := range allCalls(p) {
			if core.CalleeFunc(cs.In.Info(), cs.Call) != obj {
				continue
			}
			root := cs.In.Root()
			ok := root == trackerMethod(p, "AddType") || isInitFunc(root)
			r.Check(ok, "R3", cs.In, "tracker store function is reached only through AddType (and std's init)", cs.Call.Pos(), "caller is AddType / init", "the tracker is filled from an unexpected caller")
		}
	}
	// LocalNameOf / Imports are plain reads of the same map
	for _, spec := range []struct{ fn, what string }{{"LocalNameOf", "LocalNameOf reads pathToName[path]"}, {"Imports", "Imports returns pathToName"}} {
		f := trackerMethod(p, spec.fn)
		if f == nil {
			r.Anchor("R4", "pkg/namer."+spec.fn)
			continue
		}
		ok := false
		if len(f.Body.List) == 1 {
			if ret, isRet := f.Body.List[0].(*ast.ReturnStmt); isRet && len(ret.Results) == 1 {
				e := ast.Unparen(ret.Results[0])
				if ix, isIx := e.(*ast.IndexExpr); isIx {
					e = ix.X
					if v := core.VarOf(f.Info(), ix.Index); v == nil || !isParamOf(f, v) {
						e = nil
					}
				}
				if e != nil {
					if fld := core.FieldOf(f.Info(), e); isRole(p, fld, "tracker.byPath") {
						ok = true
					}
				}
			}
		}
		r.Check(ok, "R4", f, spec.what, f.Node().Pos(), "single return of the map (entry)", "the accessor does not simply read the committed path->name binding: asking twice may give different names")
	}
}

var qualifierText = regexp.MustCompile(`(^|[^A-Za-z0-9_./"%])([a-z][a-z0-9_]*)\.[A-Za-z_][A-Za-z0-9_]*`)

// c03R10: the body and the import tracker grow together and neither shrinks: the tracker has no way to forget a
// package (R4: never deleted from), so text that was rendered - and may be the only reference to a package it
// registered - must stay. The body buffer of a file is only written to, measured and, at the end, read by the writer.
func c03R10(p *core.Program, r *core.Report) {
	const rule = "R10"
	r.Floor(rule, 1)
	grows := map[string]bool{"Write": true, "WriteString": true, "WriteByte": true, "WriteRune": true, "Len": true, "String": true, "Bytes": true, "Cap": true, "Grow": true, "Available": true, "AvailableBuffer": true, "ReadFrom": true}
	n, bad := 0, 0
	for _, f := range p.Funcs() {
		if core.RelPkg(f.Pkg.PkgPath) != "pkg/gengo" || f.Body == nil {
			continue
		}
		info := f.Info()
		for _, c := range core.Calls(f.Body, true) {
			sel, ok := ast.Unparen(c.Fun).(*ast.SelectorExpr)
			if !ok || !roleValue(p, info, sel.X, "file.body") {
				continue
			}
			n++
			if sel.Sel.Name == "WriteTo" && fileMethod(p, "WriteToFile") != nil && fileMethod(p, "WriteToFile").Has(f) {
				continue // body.WriteTo(dst) in the file writer is io.Copy(dst, body): the final read
			}
			if !grows[sel.Sel.Name] {
				bad++
				r.Bad(rule, f, "the rendered body is cut back or consumed: "+core.ExprStr(c.Fun), c.Pos(), "text that was rendered is removed from the file's body ("+sel.Sel.Name+") while the packages it registered stay in the import tracker: the import block lists a package the body no longer references (imported and not used)")
			}
		}
	}
	if n == 0 {
		r.Anchor(rule, "method calls on the body buffer of the generated file")
		return
	}
	if bad == 0 {
		r.OK(rule, nil, "the body of a generated file only grows", token.NoPos, itoa(int64(n))+" uses of the body buffer are writes, measurements or the final read")
	}
}

// c03R11: "none missing": every package qualifier in rendered text comes from the namer (which registers the package).
// The printers of values, types and templates contain no string constant that spells a qualified identifier.
func c03R11(p *core.Program, r *core.Report) {
	const rule = "R11"
	r.Floor(rule, 1)
	n, bad := 0, 0
	for _, f := range p.Funcs() {
		rel := core.RelPkg(f.Pkg.PkgPath)
		if (rel != "pkg/gengo/internal" && rel != "pkg/gengo/snippet" && rel != "pkg/namer") || f.Body == nil {
			continue
		}
		info := f.Info()
		// messages of panics and errors are not rendered text
		msg := map[ast.Node]bool{}
		for _, c := range core.Calls(f.Body, true) {
			switch core.CalleeName(info, c) {
			case "builtin.panic", "fmt.Errorf", "errors.New":
				ast.Inspect(c, func(m ast.Node) bool { msg[m] = true; return true })
			}
		}
		ast.Inspect(f.Body, func(m ast.Node) bool {
			if lit, ok := m.(*ast.FuncLit); ok && lit != f.Lit {
				return false
			}
			e, ok := m.(ast.Expr)
			if !ok || msg[m] {
				return true
			}
			s, isC := core.ConstString(info, e)
			if !isC {
				return true
			}
			if _, isLit := e.(*ast.BasicLit); !isLit {
				if _, isID := e.(*ast.Ident); !isID {
					return true // a constant expression: its literals are visited on their own
				}
			}
			n++
			if mm := qualifierText.FindStringSubmatch(s); mm != nil {
				bad++
				r.Bad(rule, f, "a package qualifier is spelled in a string constant: "+strconvQuote(s), e.Pos(), "the rendered text references package `"+mm[2]+"` by a hard-coded name: the package is not registered with the import tracker (used but not imported), and the name need not be the one the file binds it to")
			}
			return true
		})
	}
	if bad == 0 {
		r.OK(rule, nil, "no string constant of the printers spells a qualified identifier", token.NoPos, itoa(int64(n))+" string constants scanned")
	}
}

// endlessGenerator: e is a push iterator of the module (a method value or function value) whose body returns only after
// its yield answered false: from its entry no exit is reachable once the edges on which a yield call answered false are
// removed. A range loop over it is never left because the sequence ran out.
func endlessGenerator(p *core.Program, f *core.Func, e ast.Expr) bool {
	info := f.Info()
	e, _ = core.Resolve(info, f.Root().Body, e)
	var fn *types.Func
	switch x := ast.Unparen(e).(type) {
	case *ast.SelectorExpr:
		if s := info.Selections[x]; s != nil && s.Kind() == types.MethodVal {
			fn, _ = s.Obj().(*types.Func)
		} else {
			fn, _ = info.ObjectOf(x.Sel).(*types.Func)
		}
	case *ast.Ident:
		fn, _ = info.ObjectOf(x).(*types.Func)
	}
	h := p.FuncOfObj(fn)
	if h == nil || h.Body == nil {
		return false
	}
	y := yieldParam(h)
	if y == nil || !yieldVars(p)[y] {
		return false
	}
	hinfo := h.Info()
	g := graph(h)
	_, exits := g.Reach(g.Entry(), true, cfgx.Query{
		Target: func(q cfgx.Point) bool { return g.IsExit(q) },
		CutEdge: func(b *cfgBlock, k int) bool {
			if len(b.Succs) != 2 || len(b.Nodes) == 0 {
				return false
			}
			c, ok := b.Nodes[len(b.Nodes)-1].(ast.Expr)
			if !ok {
				return false
			}
			for _, a := range cfgx.Atoms(c, k == 0) {
				x, _ := core.Resolve(hinfo, h.Body, a.Cond)
				if call, isCall := ast.Unparen(x).(*ast.CallExpr); isCall && !a.Val && core.VarOf(hinfo, call.Fun) == y {
					return true
				}
			}
			return false
		},
	})
	return !exits
}

// c03R16: "every qualified reference uses the name bound to its package": the identifier snippet writes a string as it
// is only when it is NOT a reference - on the edge on which ParseRef failed. Whenever the string parses as a reference
// (also to a package with a one-segment path such as time or fmt) the text comes from the namer, which registers the
// package.
func c03R16(p *core.Program, r *core.Report) {
	const rule = "R16"
	r.Floor(rule, 2)
	idf := p.FuncByName("pkg/gengo/snippet", "(*ident).Frag")
	if idf == nil {
		r.Anchor(rule, "pkg/gengo/snippet.(*ident).Frag")
		return
	}
	it, ys := closureYields(p, idf)
	if it == nil || len(ys) == 0 {
		r.Anchor(rule, "iterator closure of (*ident).Frag")
		return
	}
	info := it.Info()
	g := graph(it)
	n := 0
	for _, y := range ys {
		if len(y.Args) != 1 {
			continue
		}
		a0, _ := core.Resolve(info, it.Body, y.Args[0])
		if c, isCall := ast.Unparen(a0).(*ast.CallExpr); isCall {
			name := core.CalleeName(info, c)
			if strings.HasSuffix(name, "Dumper).Name") || strings.HasSuffix(name, "Dumper).TypeLit") {
				continue // through the namer / the type printer
			}
		}
		n++
		failed := false
		for _, fct := range g.FactsAt(g.PointOf(y)) {
			b, isB := ast.Unparen(fct.Cond).(*ast.BinaryExpr)
			if !isB || fct.Tag != nil || (b.Op != token.NEQ && b.Op != token.EQL) {
				continue
			}
			var ev *types.Var
			switch {
			case constNil(info, b.Y):
				ev = core.VarOf(info, b.X)
			case constNil(info, b.X):
				ev = core.VarOf(info, b.Y)
			}
			if ev == nil || (b.Op == token.NEQ) != fct.Val {
				continue
			}
			if d, single := core.SingleDef(info, it.Body, ev); single && d.Index == 1 {
				if pc, isCall := ast.Unparen(d.Rhs).(*ast.CallExpr); isCall && core.CalleeName(info, pc) == core.G("pkg/types.ParseRef") {
					failed = true
				}
			}
		}
		r.Check(failed, rule, it, "raw text is written only when it is not a reference: yield("+core.ExprStr(y.Args[0])+")", y.Pos(), "dominated by ParseRef's error being non-nil",
			"ID writes `"+core.ExprStr(y.Args[0])+"` as it is on a path on which the text can be a parsable reference: a qualified name reaches the body without going through the namer, so its package is not in the import block (and the qualifier is not the name bound to it)")
	}
	if n == 0 {
		r.OK(rule, it, "ID never writes its argument as it is", it.Node().Pos(), "every yield goes through the namer or the type printer")
	}
}

// c03R17: "every qualified reference uses the name bound to its package": a reference made from text stands for exactly
// the path and name it was made from. The registration (AddType(Ref(P, N))) and the lookup (LocalNameOf(P)) meet in the
// tracker only if Ref keeps P as it is: the constructed value's fields are the parameters themselves, and Pkg / Name
// answer those fields.
func c03R17(p *core.Program, r *core.Report) {
	const rule = "R17"
	r.Floor(rule, 2)
	f := p.FuncByName("pkg/types", "Ref")
	if f == nil || f.Decl == nil {
		r.Anchor(rule, "pkg/types.Ref")
		return
	}
	f = flatten(p, f)
	info := f.Info()
	var params []*types.Var
	for _, fld := range f.Decl.Type.Params.List {
		for _, nm := range fld.Names {
			if v, _ := info.ObjectOf(nm).(*types.Var); v != nil {
				params = append(params, v)
			}
		}
	}
	if len(params) != 2 {
		r.Anchor(rule, "pkg/types.Ref(pkgPath, name)")
		return
	}
	why := ""
	fieldOf := map[*types.Var]string{}
	nret := 0
	ast.Inspect(f.Body, func(n ast.Node) bool {
		if _, isLit := n.(*ast.FuncLit); isLit {
			return false
		}
		ret, isRet := n.(*ast.ReturnStmt)
		if !isRet || len(ret.Results) != 1 {
			return true
		}
		nret++
		e, _ := core.Resolve(info, f.Body, ret.Results[0])
		if u, isU := ast.Unparen(e).(*ast.UnaryExpr); isU && u.Op == token.AND {
			e = u.X
		}
		cl, isCL := ast.Unparen(e).(*ast.CompositeLit)
		if !isCL {
			why = "`" + core.ExprStr(ret) + "` does not return a value constructed from the parameters"
			return true
		}
		seen := map[*types.Var]bool{}
		for _, el := range cl.Elts {
			kv, isKV := el.(*ast.KeyValueExpr)
			if !isKV {
				continue
			}
			v := core.VarOf(info, kv.Value)
			if v == nil {
				continue
			}
			for _, pv := range params {
				if v == pv {
					seen[pv] = true
					fieldOf[pv] = identOf(kv.Key).Name
				}
			}
		}
		for _, pv := range params {
			if !seen[pv] {
				why = "the parameter " + pv.Name() + " is not stored as it is in `" + core.ExprStr(cl) + "`"
			}
		}
		return true
	})
	for _, pv := range params {
		if len(core.DefsOf(info, f.Body, pv)) > 0 {
			why = "the parameter " + pv.Name() + " is rewritten before it is stored"
		}
	}
	if nret == 0 {
		why = "no return of a constructed value"
	}
	r.Check(why == "", rule, f, "Ref(path, name) stands for exactly that path and name", f.Node().Pos(), "both parameters are stored unchanged in the returned value",
		why+": the tracker registers the reference under another path than the one the caller looks up (LocalNameOf(path) answers \"\" and the reference is written unqualified while its import sits unused in the block)")
	// the accessors answer the stored fields
	pathField, nameField := fieldOf[params[0]], fieldOf[params[1]]
	if why != "" || pathField == "" || nameField == "" {
		return
	}
	tn := ""
	if res := f.Decl.Type.Results; res != nil {
		ast.Inspect(f.Body, func(n ast.Node) bool {
			if cl, ok := n.(*ast.CompositeLit); ok && tn == "" {
				tn = core.NamedTypeName(info.TypeOf(cl))
			}
			return true
		})
	}
	short := tn[strings.LastIndex(tn, ".")+1:]
	for _, acc := range []struct{ m, field string }{{"Pkg", pathField}, {"Name", nameField}} {
		m := p.FuncByName("pkg/types", "(*"+short+")."+acc.m)
		if m == nil {
			m = p.FuncByName("pkg/types", "("+short+")."+acc.m)
		}
		if m == nil {
			r.Anchor(rule, "pkg/types.(*"+short+")."+acc.m)
			continue
		}
		m = flatten(p, m)
		minfo := m.Info()
		recv := recvVar(m)
		bad := ""
		ast.Inspect(m.Body, func(n ast.Node) bool {
			ret, isRet := n.(*ast.ReturnStmt)
			if !isRet || len(ret.Results) != 1 {
				return true
			}
			e, _ := core.Resolve(minfo, m.Body, ret.Results[0])
			if c, isCall := ast.Unparen(e).(*ast.CallExpr); isCall && core.CalleeName(minfo, c) == "go/types.NewPackage" && len(c.Args) == 2 {
				e, _ = core.Resolve(minfo, m.Body, c.Args[0])
			}
			sel, isSel := ast.Unparen(e).(*ast.SelectorExpr)
			if !isSel || sel.Sel.Name != acc.field || core.VarOf(minfo, sel.X) != recv || recv == nil {
				bad = "`" + core.ExprStr(ret) + "` does not answer the field " + acc.field + " as stored"
			}
			return true
		})
		r.Check(bad == "", rule, m, acc.m+"() answers what Ref stored", m.Node().Pos(), "returns the receiver's "+acc.field+" (as the path of a package object for Pkg)",
			bad+": the package registered for the reference is not the one it was made from")
	}
}
