package rules

import (
	"go/ast"
	"go/token"
	"go/types"
	"strings"

	"gengoverif/checker/internal/cfgx"
	"gengoverif/checker/internal/core"
)

func init() {
	register(Property{
		ID:          "C13",
		Explanation: "Decided statically: R1 every store into the name->object tables (Types/Constants/Functions) is dominated by a package-scope test on the stored object (obj.Parent() == pkg.Scope(), or objects taken from Scope().Names()/Lookup); R2 the methods map is keyed - at every store and lookup - by the declared named type ((*types.Named).Origin()), so generic receivers are grouped under the declaration; R3 in Load's registering closure no path leads from the construction of a package record (which reads the universe for its imports) to a recursive registration, every call of the closure is dominated by an absence test on the universe for the same package, and the record is stored after construction; R4 MethodsOf(T,false) keeps a method iff its receiver type is not a pointer; R5 the receiver classification and the filter look through aliases. R6 the read accessors of a loaded package are plain reads of what Load stored, and SourceDir derives the directory from Dir and Path of one and the same module value; R7 methods of the loaded package / universe write no receiver state after Load, except the reviewed idempotent SourceDir memo. R3 also: every iteration of the loop over a package's imports registers the import unless the universe already has it; R8 no caller in the library stores into, deletes from or clears a map obtained from a method of a loaded package or the universe. R7 also: no append into, and no element store through, a slice that shares its backing array with the loaded record (reslices, locals with several definitions). R6 also: every return of the SourceDir computation is the join, the module's Dir, the empty string, the memo or the computed value. R7 also covers methods of types embedding the package record and mutating methods of sync.Map/sync.Pool fields. R3 also: the constructed record is stored on every path from newPkg to the end of the registering closure. R9 no field of a loaded packages.Package / packages.Module is assigned in the library. R3 also: the loop over a package's imports dominates the construction of its record; R10 nothing is taken out of a declaration table again (only init / _ may be deleted from the functions table). NOT decided: value-level equality of the tables with Scope().Names() for every loaded package; SourceDir()/LocateInPackage agreement with the file system (derived from Module.Dir, an environment fact). Round 8: R11 a ParseFile hook of the loader's configuration hands fset, filename and src to go/parser.ParseFile unchanged (positions carry the file names the go command listed; there is no hook today). Round 9: R12 LocateInPackage answers a package only under filepath.Dir(Position(pos).Filename) == its SourceDir().",
		Assumptions: commonAssumptions,
		Run:         runC13,
	})
}

// reachingDefs returns the definitions of v that can reach point at without
// an intervening definition of v, and whether the function entry can.
func reachingDefs(g *cfgx.G, v *types.Var, at cfgx.Point) (defs []cfgx.Point, fromEntry bool) {
	isDef := func(q cfgx.Point) bool { return q.Node() != nil && g.Assigns(q.Node(), v) }
	for _, d := range g.Points(func(n ast.Node) bool { return g.Assigns(n, v) }) {
		if _, ok := g.Reach(d, false, cfgx.Query{
			Target: func(q cfgx.Point) bool { return q == at },
			Cut:    isDef,
		}); ok {
			defs = append(defs, d)
		}
	}
	_, fromEntry = g.Reach(g.Entry(), true, cfgx.Query{
		Target: func(q cfgx.Point) bool { return q == at },
		Cut:    func(q cfgx.Point) bool { return q != at && isDef(q) },
	})
	return
}

func runC13(p *core.Program, r *core.Report) {
	newPkg := p.FuncByName("pkg/types", "newPkg")
	if newPkg == nil {
		r.Anchor("R1", "pkg/types.newPkg")
		return
	}
	c13R1(p, r)
	c13R2(p, r)
	c13R3(p, r)
	c13R4(p, r)
	r.Floor("R5", 3)
	a10Report(p, r, "R5", "pkg/types")
	c13R6(p, r)
	c13R11(p, r)
	c13R12(p, r)
	c13R7(p, r)
	c13R9(p, r)
	c13R8(p, r)
}

// c13R6: the read accessors of a loaded package are plain reads of what Load
// stored (no rewriting on the way out), and SourceDir derives the directory
// from the Dir and Path of one and the same module value.
func c13R6(p *core.Program, r *core.Report) {
	const rule = "R6"
	r.Floor(rule, 12)
	plainPath := func(f *core.Func, e ast.Expr) bool {
		info := f.Info()
		recv := recvIdent(f)
		for {
			e = ast.Unparen(e)
			switch x := e.(type) {
			case *ast.SelectorExpr:
				if core.FieldOf(info, x) == nil {
					return false
				}
				e = x.X
			case *ast.Ident:
				return core.SameRef(info, x, recv)
			default:
				return false
			}
		}
	}
	isParam := func(f *core.Func, e ast.Expr) bool {
		v := core.VarOf(f.Info(), e)
		return v != nil && isParamOf(f, v)
	}
	for _, name := range []string{"(*pkgInfo).Pkg", "(*pkgInfo).Module", "(*pkgInfo).Imports", "(*pkgInfo).Files", "(*pkgInfo).FileSet",
		"(*pkgInfo).Constant", "(*pkgInfo).Constants", "(*pkgInfo).Type", "(*pkgInfo).Types", "(*pkgInfo).Function", "(*pkgInfo).Functions", "(*Universe).SumFile", "(*Universe).Package"} {
		f := p.FuncByName("pkg/types", name)
		if f == nil {
			r.Anchor(rule, "pkg/types."+name)
			continue
		}
		info := f.Info()
		ok := false
		stmts := f.Body.List
		var ret *ast.ReturnStmt
		if len(stmts) >= 1 {
			ret, _ = stmts[len(stmts)-1].(*ast.ReturnStmt)
		}
		if ret != nil && len(ret.Results) == 1 {
			e := ast.Unparen(ret.Results[0])
			switch {
			case len(stmts) == 1 && plainPath(f, e):
				ok = true
			case len(stmts) == 1:
				if ix, isIx := e.(*ast.IndexExpr); isIx && plainPath(f, ix.X) && isParam(f, ix.Index) {
					ok = true
				}
			case len(stmts) == 2 && func() bool {
				// `if v, ok := u.m[key]; ok { return v }; return nil`: the stored value, or the zero value when absent
				ifs, isIf := stmts[0].(*ast.IfStmt)
				if !isIf || ifs.Else != nil || len(ifs.Body.List) != 1 {
					return false
				}
				as, isAs := ifs.Init.(*ast.AssignStmt)
				inner, isRet := ifs.Body.List[0].(*ast.ReturnStmt)
				if !isAs || !isRet || len(as.Lhs) != 2 || len(as.Rhs) != 1 || len(inner.Results) != 1 {
					return false
				}
				ix, isIx := ast.Unparen(as.Rhs[0]).(*ast.IndexExpr)
				if !isIx || !plainPath(f, ix.X) || !isParam(f, ix.Index) {
					return false
				}
				if core.VarOf(info, ifs.Cond) != core.VarOf(info, as.Lhs[1]) || core.VarOf(info, inner.Results[0]) != core.VarOf(info, as.Lhs[0]) || core.VarOf(info, inner.Results[0]) == nil {
					return false
				}
				return constNil(info, e) || constStrIs(info, e, "")
			}():
				ok = true
			case len(stmts) == 2:
				// v, _ := u.m[key]; return v
				if as, isAs := stmts[0].(*ast.AssignStmt); isAs && len(as.Rhs) == 1 && core.VarOf(info, as.Lhs[0]) == core.VarOf(info, e) && core.VarOf(info, e) != nil {
					if ix, isIx := ast.Unparen(as.Rhs[0]).(*ast.IndexExpr); isIx && plainPath(f, ix.X) && isParam(f, ix.Index) {
						ok = true
					}
				}
			}
		}
		r.Check(ok, rule, f, strings.TrimPrefix(name, "(*pkgInfo).")+" is a plain read of what Load stored", f.Node().Pos(), "single return of a receiver field (indexed by the parameter)",
			"the accessor computes, substitutes or filters instead of returning the stored value: what callers see no longer mirrors the type checker's / go list's view (e.g. a Module() that answers the replacement module breaks SourceDir and LocateInPackage, which slice the package path by the module path)")
	}
	// SourceDir: Dir and Path of the same module value, suffix = PkgPath[len(Path):]
	sd := p.FuncByName("pkg/types", "(*pkgInfo).SourceDir")
	if sd == nil {
		r.Anchor(rule, "pkg/types.(*pkgInfo).SourceDir")
		return
	}
	ok := false
	why := "no filepath.Join(<module>.Dir, PkgPath[len(<module>.Path):])"
	// SourceDir itself, its literals, and the package's own helpers it calls
	inSD := map[*core.Func]bool{}
	for ff := range reachableFrom(p, sd) {
		if ff.Pkg == sd.Pkg && (ff.Root() == sd || (ff.Root().Decl != nil && !ff.Root().Decl.Name.IsExported())) {
			inSD[ff] = true
		}
	}
	for _, ff := range p.Funcs() {
		if !inSD[ff] {
			continue
		}
		info := ff.Info()
		for _, c := range core.CallsTo(info, ff.Body, true, "path/filepath.Join") {
			if len(c.Args) != 2 {
				continue
			}
			d, isSel := ast.Unparen(c.Args[0]).(*ast.SelectorExpr)
			se, isSlice := ast.Unparen(c.Args[1]).(*ast.SliceExpr)
			if !isSel || d.Sel.Name != "Dir" || !isSlice || se.High != nil {
				continue
			}
			lc, isLen := ast.Unparen(se.Low).(*ast.CallExpr)
			if !isLen || core.CalleeName(info, lc) != "builtin.len" {
				continue
			}
			ps, isSel2 := ast.Unparen(lc.Args[0]).(*ast.SelectorExpr)
			pk, isSel3 := ast.Unparen(se.X).(*ast.SelectorExpr)
			switch {
			case !isSel2 || ps.Sel.Name != "Path":
				why = "the suffix is not cut at len(<module>.Path)"
			case !core.SameRef(info, ps.X, d.X):
				why = "Dir and Path are taken from different module values"
			case !isSel3 || pk.Sel.Name != "PkgPath":
				why = "the suffix is not taken from the package's own PkgPath"
			default:
				ok = true
			}
		}
	}
	r.Check(ok, rule, sd, "SourceDir = <module>.Dir + PkgPath[len(<module>.Path):] for one module value", sd.Node().Pos(), "filepath.Join(m.Dir, p.PkgPath[len(m.Path):])", why)
	// ... and nothing else: every return of the computation is that join, the module's Dir itself (root package), the
	// empty string, the memo, or the value computed by the function's own closure
	for _, ff := range p.Funcs() {
		if !inSD[ff] {
			continue
		}
		info := ff.Info()
		ast.Inspect(ff.Body, func(n ast.Node) bool {
			if lit, isLit := n.(*ast.FuncLit); isLit && lit != ff.Lit {
				return false
			}
			ret, isRet := n.(*ast.ReturnStmt)
			if !isRet || len(ret.Results) != 1 {
				return true
			}
			if t := info.TypeOf(ret.Results[0]); t == nil || !isBasicKind(t, types.String) {
				return true
			}
			var allowed func(e ast.Expr, depth int) bool
			allowed = func(e ast.Expr, depth int) bool {
				if depth > 4 {
					return false
				}
				e, _ = core.Resolve(info, ff.Root().Body, e)
				e = ast.Unparen(e)
				switch x := e.(type) {
				case *ast.BasicLit:
					return constStrIs(info, x, "")
				case *ast.StarExpr:
					return true // the memo
				case *ast.SelectorExpr:
					return x.Sel.Name == "Dir" && core.NamedTypeName(info.TypeOf(x.X)) == "golang.org/x/tools/go/packages.Module"
				case *ast.CallExpr:
					if core.CalleeName(info, x) == "path/filepath.Join" {
						return true // its shape is judged above
					}
					// the function's own closure (immediately invoked, or called through a local) or an unexported helper of it
					if _, isLit := ast.Unparen(x.Fun).(*ast.FuncLit); isLit {
						return true
					}
					if v := core.VarOf(info, x.Fun); v != nil && !v.IsField() {
						return true
					}
					if fn := core.CalleeFunc(info, x); fn != nil {
						if hf := p.FuncOfObj(fn); hf != nil && inSD[hf] {
							return true
						}
					}
				case *ast.Ident:
					if tv, has := info.Types[x]; has && tv.Value != nil {
						return constStrIs(info, x, "")
					}
					// a local assigned on several branches: every value it can have
					if v := core.VarOf(info, x); v != nil && !v.IsField() {
						defs := core.DefsOf(info, ff.Root().Body, v)
						if len(defs) == 0 {
							return false
						}
						for _, d := range defs {
							if d.Rhs == nil {
								if d.Kind == "var" {
									continue // zero value ""
								}
								return false
							}
							if d.Index >= 0 || !allowed(d.Rhs, depth+1) {
								return false
							}
						}
						return true
					}
				}
				return false
			}
			good := allowed(ret.Results[0], 0)
			r.Check(good, rule, ff, "SourceDir answers only the module-relative directory: return "+core.ExprStr(ret.Results[0]), ret.Pos(), "the join, the module's Dir, \"\", the memo or the computed value",
				"SourceDir can answer a directory that is not derived from the module's Dir and the package path (for instance the directory of a file position, which follows //line directives): generated files are written there and LocateInPackage no longer finds the package's own files")
			return true
		})
	}
}

// c13R7: the universe is read-only after Load. Methods of the loaded package /
// universe write no receiver state (no caches filled while generators run),
// except the reviewed idempotent SourceDir memo.
func c13R7(p *core.Program, r *core.Report) {
	r.Floor("R7", 2)
	universeWriteScan(p, r, "R7", nil)
}

// universeWriteScan is shared by C13.R7 (all methods) and C12.R5 (the methods
// reachable from Doc / Comment: what they return must be built per call).
func universeWriteScan(p *core.Program, r *core.Report, rule string, only map[*core.Func]bool) {
	n := 0
	for _, f := range p.Funcs() {
		root := f.Root()
		if only != nil && !only[root] {
			continue
		}
		if constructionOnly(p, root, 0) {
			continue // runs while Load builds the record (only ever called from the constructor)
		}
		if core.RelPkg(f.Pkg.PkgPath) != "pkg/types" || root.Decl == nil || root.Decl.Recv == nil {
			continue
		}
		rtT := f.Info().TypeOf(root.Decl.Recv.List[0].Type)
		rt := core.NamedTypeName(rtT)
		if rt != core.G("pkg/types.pkgInfo") && rt != core.G("pkg/types.Universe") && !embedsUniverseRecord(rtT) {
			continue
		}
		n++
		info := f.Info()
		if _, named := recvIdent(root).(*ast.Ident); !named {
			continue // receiver not named: nothing can be reached through it
		}
		recvObj := info.ObjectOf(recvIdent(root).(*ast.Ident))
		// state behind a synchronised container is state all the same: a Store into a sync.Map of the record is a write
		for _, c := range core.Calls(f.Body, false) {
			name := core.CalleeName(info, c)
			if !syncMutators[name] {
				continue
			}
			if rcv := recvOf(c); rcv != nil && core.Mentions(info, rcv, recvObj) {
				r.Bad(rule, f, "loaded package state is written after Load: "+core.ExprStr(c.Fun), c.Pos(), "a method reached while generators run stores into a synchronised container of the loaded universe ("+name+"): what later calls answer - also for other packages of the run - depends on the calls made before")
			}
		}
		for _, w := range nonLocalWrites(f) {
			onRecv := false
			switch x := w.(type) {
			case *ast.AssignStmt:
				for _, l := range x.Lhs {
					if core.Mentions(info, l, recvObj) {
						onRecv = true
					}
				}
			case *ast.IncDecStmt:
				onRecv = core.Mentions(info, x.X, recvObj)
			default:
				onRecv = core.Mentions(info, w, recvObj)
			}
			if !onRecv {
				continue
			}
			if root.Name == "(*pkgInfo).SourceDir" {
				if as, ok := w.(*ast.AssignStmt); ok && len(as.Lhs) == 1 {
					if fld := core.FieldOf(info, as.Lhs[0]); fld != nil && fld.Name() == "sourceDir" {
						r.ReviewedOK(rule, f, "memo of the derived source directory: "+core.ExprStr(w), w.Pos(), "idempotent: the stored value is computed from fields that are never written after Load (Module, PkgPath)")
						continue
					}
				}
			}
			r.Bad(rule, f, "loaded package state is written after Load: "+core.ExprStr(w), w.Pos(), "a method of the loaded universe mutates its receiver while generators run: answers (doc lines, tables) may depend on earlier calls")
		}
		// a slice read from the record shares its backing array with it: appending into it (or a reslice of it) and
		// assigning its elements writes the record
		var sharesRecord func(e ast.Expr) bool
		visiting := map[*types.Var]bool{}
		sharesRecord = func(e ast.Expr) bool {
			for i := 0; i < 12; i++ {
				e, _ = core.Resolve(info, root.Body, e)
				switch x := ast.Unparen(e).(type) {
				case *ast.Ident:
					// a local with several definitions: it shares the record if one of its values does
					v := core.VarOf(info, x)
					if v == nil || v.IsField() || visiting[v] {
						return false
					}
					visiting[v] = true
					defer delete(visiting, v)
					for _, d := range core.DefsOf(info, root.Body, v) {
						if d.Rhs == nil || d.Index > 0 {
							continue
						}
						rhs := ast.Unparen(d.Rhs)
						if c, isCall := rhs.(*ast.CallExpr); isCall && core.CalleeName(info, c) == "builtin.append" && len(c.Args) >= 1 {
							rhs = c.Args[0] // append keeps the backing array of its first operand (when it fits)
							if core.VarOf(info, rhs) == v {
								continue
							}
						}
						if sharesRecord(rhs) {
							return true
						}
					}
					return false
				case *ast.SliceExpr:
					e = x.X
					continue
				case *ast.IndexExpr:
					if isMapType(info.TypeOf(x.X)) || core.Mentions(info, x.X, recvObj) {
						return core.Mentions(info, x.X, recvObj)
					}
					e = x.X
					continue
				case *ast.SelectorExpr:
					return core.Mentions(info, x, recvObj)
				}
				return false
			}
			return false
		}
		ast.Inspect(f.Body, func(nd ast.Node) bool {
			if lit, ok := nd.(*ast.FuncLit); ok && lit != f.Lit {
				return false
			}
			switch x := nd.(type) {
			case *ast.CallExpr:
				if core.CalleeName(info, x) == "builtin.append" && len(x.Args) >= 1 {
					if _, isSlice := info.TypeOf(x.Args[0]).Underlying().(*types.Slice); isSlice && sharesRecord(x.Args[0]) {
						r.Bad(rule, f, "append into a slice that shares its backing array with the loaded record: "+core.ExprStr(x), x.Pos(), "the first operand is (a reslice of) a slice stored in the loaded package: append overwrites the stored elements in place, later queries of the same table see the overwritten entries")
					}
				}
			case *ast.AssignStmt:
				for _, l := range x.Lhs {
					if ix, ok := ast.Unparen(l).(*ast.IndexExpr); ok && !core.Mentions(info, l, recvObj) {
						if _, isSlice := info.TypeOf(ix.X).Underlying().(*types.Slice); isSlice && sharesRecord(ix.X) {
							r.Bad(rule, f, "element store into a slice that shares its backing array with the loaded record: "+core.ExprStr(x), x.Pos(), "the slice was read from the loaded package: the store changes what later queries return")
						}
					}
				}
			}
			return true
		})
		ast.Inspect(f.Body, func(nd ast.Node) bool {
			if lit, ok := nd.(*ast.FuncLit); ok && lit != f.Lit {
				return false
			}
			c, ok := nd.(*ast.CallExpr)
			if !ok || !mutatingSyncMethods[core.CalleeName(info, c)] {
				return true
			}
			if core.Mentions(info, recvOf(c), recvObj) {
				r.Bad(rule, f, "a cache on the loaded package is filled after Load: "+core.ExprStr(c), c.Pos(), "values handed out by the universe are cached and shared between callers: a caller that edits what it got (Context.Doc trims the type name in place) changes what the next caller sees - the second lookup of the same declaration returns different doc lines")
			}
			return true
		})
	}
	r.OK(rule, nil, "methods of the loaded universe write no receiver state", token.NoPos, itoa(int64(n))+" method bodies scanned")
}

// tableKind classifies a map field by its value type.
func tableKind(t types.Type) string {
	m, ok := t.Underlying().(*types.Map)
	if !ok {
		return ""
	}
	if b, ok := m.Key().Underlying().(*types.Basic); !ok || b.Kind() != types.String {
		return ""
	}
	switch core.NamedTypeName(m.Elem()) {
	case "go/types.TypeName":
		return "types"
	case "go/types.Const":
		return "constants"
	case "go/types.Func":
		return "functions"
	}
	return ""
}

func c13R1(p *core.Program, r *core.Report) {
	const rule = "R1"
	r.Floor(rule, 3)
	seen := map[string]bool{}
	// over flattened units: a helper extracted from the constructor is seen with its arguments bound
	for _, f := range pkgUnits(p, "pkg/types") {
		info := f.Info()
		ast.Inspect(f.Body, func(n ast.Node) bool {
			if lit, ok := n.(*ast.FuncLit); ok && lit != f.Lit {
				return false
			}
			as, ok := n.(*ast.AssignStmt)
			if !ok || len(as.Lhs) != 1 || len(as.Rhs) != 1 {
				return true
			}
			ix, ok := ast.Unparen(as.Lhs[0]).(*ast.IndexExpr)
			if !ok {
				return true
			}
			fld := core.FieldOf(info, ix.X)
			if fld == nil {
				return true
			}
			kind := tableKind(fld.Type())
			if kind == "" {
				return true
			}
			seen[kind] = true
			g := graph(f)
			at := g.PointOf(as)
			obj := core.VarOf(info, as.Rhs[0])
			construct := "store into the " + kind + " table is restricted to package-scope objects"
			if obj == nil {
				r.Unknown(rule, f, construct, as.Pos(), "stored value is not a variable")
				return true
			}
			ok = false
			how := ""
			for _, fct := range g.FactsAt(at) {
				if scopeTest(f, fct, obj) {
					ok, how = true, "dominated by `"+core.ExprStr(fct.Cond)+"`"
				}
			}
			if !ok && fromScopeLookup(f, as, obj) {
				ok, how = true, "object comes from Scope().Lookup over Scope().Names()"
			}
			r.Check(ok, rule, f, construct, as.Pos(), how,
				"objects taken from types.Info.Defs are stored under their bare name without a package-scope test: function-local types/constants and type parameters enter the table, and a local declaration sharing a name with a package-level one wins or loses by map-iteration order")
			return true
		})
	}
	for _, k := range []string{"types", "constants", "functions"} {
		if !seen[k] {
			r.Anchor(rule, "store into the "+k+" table of pkgInfo")
		}
	}
	// ... and what was stored stays: nothing is taken out of a table again ("exactly the package-scope names, init and
	// blank-named functions aside" - those two names are the only ones a removal may name)
	r.Floor("R10", 1)
	nDel := 0
	for _, f := range pkgUnits(p, "pkg/types") {
		info := f.Info()
		for _, c := range core.Calls(f.Body, true) {
			name := core.CalleeName(info, c)
			if (name != "builtin.delete" && name != "builtin.clear" && name != "maps.DeleteFunc") || len(c.Args) == 0 {
				continue
			}
			fld := core.FieldOf(info, c.Args[0])
			if fld == nil || (tableKind(fld.Type()) == "" && !isMethodsTable(fld.Type())) {
				continue
			}
			nDel++
			ok := false
			if name == "builtin.delete" && len(c.Args) == 2 && tableKind(fld.Type()) == "functions" {
				ok = constStrIs(info, c.Args[1], "init") || constStrIs(info, c.Args[1], "_")
			}
			r.Check(ok, "R10", f, "nothing is taken out of a declaration table: "+core.ExprStr(c), c.Pos(), "removes only init / the blank name from the functions table",
				"`"+core.ExprStr(c)+"` removes a package-scope object from the table the accessors answer from: Functions()/Function(name) no longer match the package scope (the type checker does declare main in the scope of a command)")
		}
	}
	if nDel == 0 {
		r.OK("R10", nil, "nothing is taken out of a declaration table", token.NoPos, "no delete / clear on a declaration table in pkg/types")
	}
}

// isMethodsTable: map[*types.Named][]*types.Func.
func isMethodsTable(t types.Type) bool {
	m, ok := t.Underlying().(*types.Map)
	if !ok {
		return false
	}
	ptr, ok := m.Key().(*types.Pointer)
	return ok && core.NamedTypeName(ptr.Elem()) == "go/types.Named"
}

// scopeTest: fact is `obj.Parent() == <pkg scope>` (true) or
// `<scope>.Lookup(obj.Name()) == obj` (true).
func scopeTest(f *core.Func, fct cfgx.Fact, obj *types.Var) bool {
	info := f.Info()
	if fct.Tag != nil {
		return false
	}
	b, ok := ast.Unparen(fct.Cond).(*ast.BinaryExpr)
	if !ok {
		return false
	}
	want := true
	if b.Op == token.NEQ {
		want = false
	} else if b.Op != token.EQL {
		return false
	}
	if fct.Val != want {
		return false
	}
	isPkgScope := func(e ast.Expr) bool {
		e, _ = core.Resolve(info, f.Root().Body, e)
		c, ok := ast.Unparen(e).(*ast.CallExpr)
		return ok && core.CalleeName(info, c) == "(*go/types.Package).Scope"
	}
	isParentOfObj := func(e ast.Expr) bool {
		c, ok := ast.Unparen(e).(*ast.CallExpr)
		if !ok || !strings.HasSuffix(core.CalleeName(info, c), ").Parent") {
			return false
		}
		return core.VarOf(info, recvOf(c)) == obj
	}
	isLookupOfObj := func(e ast.Expr) bool {
		c, ok := ast.Unparen(e).(*ast.CallExpr)
		if !ok || core.CalleeName(info, c) != "(*go/types.Scope).Lookup" || !isPkgScope(recvOf(c)) || len(c.Args) != 1 {
			return false
		}
		nc, ok := ast.Unparen(c.Args[0]).(*ast.CallExpr)
		return ok && strings.HasSuffix(core.CalleeName(info, nc), ").Name") && core.VarOf(info, recvOf(nc)) == obj
	}
	if (isParentOfObj(b.X) && isPkgScope(b.Y)) || (isParentOfObj(b.Y) && isPkgScope(b.X)) {
		return true
	}
	if (isLookupOfObj(b.X) && core.VarOf(info, b.Y) == obj) || (isLookupOfObj(b.Y) && core.VarOf(info, b.X) == obj) {
		return true
	}
	return false
}

// fromScopeLookup: the stored object is the type-switch binding of a value
// obtained from (*types.Scope).Lookup.
func fromScopeLookup(f *core.Func, at ast.Node, obj *types.Var) bool {
	info := f.Info()
	path := core.PathTo(f.Body, at)
	for k := len(path) - 1; k >= 0; k-- {
		ts, ok := path[k].(*ast.TypeSwitchStmt)
		if !ok {
			continue
		}
		as, ok := ts.Assign.(*ast.AssignStmt)
		if !ok {
			return false
		}
		ta, ok := as.Rhs[0].(*ast.TypeAssertExpr)
		if !ok {
			return false
		}
		e, _ := core.Resolve(info, f.Root().Body, ta.X)
		c, ok := ast.Unparen(e).(*ast.CallExpr)
		return ok && core.CalleeName(info, c) == "(*go/types.Scope).Lookup"
	}
	return false
}

func isMethodsField(v *types.Var) bool {
	if v == nil {
		return false
	}
	m, ok := v.Type().Underlying().(*types.Map)
	if !ok {
		return false
	}
	return core.NamedTypeName(m.Key()) == "go/types.Named" && strings.HasPrefix(m.Elem().String(), "[]*go/types.Func")
}

func isOriginCall(info *types.Info, e ast.Expr) bool {
	c, ok := ast.Unparen(e).(*ast.CallExpr)
	return ok && core.CalleeName(info, c) == "(*go/types.Named).Origin"
}

func c13R2(p *core.Program, r *core.Report) {
	const rule = "R2"
	r.Floor(rule, 2)
	n := 0
	for _, f := range p.Funcs() {
		if core.RelPkg(f.Pkg.PkgPath) != "pkg/types" {
			continue
		}
		info := f.Info()
		done := map[string]bool{}
		ast.Inspect(f.Body, func(nd ast.Node) bool {
			if lit, ok := nd.(*ast.FuncLit); ok && lit != f.Lit {
				return false
			}
			ix, ok := nd.(*ast.IndexExpr)
			if !ok || !isMethodsField(core.FieldOf(info, ix.X)) {
				return true
			}
			n++
			construct := "methods map is indexed by the declared type (Origin) at " + core.ExprStr(ix)
			if done[construct] {
				return true
			}
			done[construct] = true
			good := isOriginCall(info, ix.Index)
			how := "key is " + core.ExprStr(ix.Index)
			if !good {
				if v := core.VarOf(info, ix.Index); v != nil {
					g := graph(f)
					defs, fromEntry := reachingDefs(g, v, g.PointOf(ix))
					good = len(defs) > 0 && !fromEntry
					for _, d := range defs {
						as, ok := d.Node().(*ast.AssignStmt)
						if !ok || len(as.Rhs) != len(as.Lhs) {
							good = false
							continue
						}
						for i, l := range as.Lhs {
							if core.VarOf(info, l) == v && !isOriginCall(info, as.Rhs[i]) {
								good = false
							}
						}
					}
					how = "every reaching definition of the key is an Origin() call"
				}
			}
			r.Check(good, rule, f, construct, ix.Pos(), how,
				"the key is a *types.Named taken from a receiver (for a generic type: the instantiated receiver type G[T]) or passed by the caller without normalising through Origin(): MethodsOf(G, ...) finds nothing for generic G")
			return true
		})
	}
	if n == 0 {
		r.Anchor(rule, "index expressions on the methods map of pkgInfo")
	}
}

func c13R3(p *core.Program, r *core.Report) {
	const rule = "R3"
	r.Floor(rule, 5)
	load := p.FuncByName("pkg/types", "Load")
	if load == nil {
		r.Anchor(rule, "pkg/types.Load")
		return
	}
	info := load.Info()
	// the registering closure: a literal assigned to a local that it calls itself
	var reg *core.Func
	var regVar *types.Var
	for _, l := range load.Lits {
		ast.Inspect(load.Body, func(n ast.Node) bool {
			if as, ok := n.(*ast.AssignStmt); ok && len(as.Rhs) == 1 && as.Rhs[0] == ast.Expr(l.Lit) {
				v := core.VarOf(info, as.Lhs[0])
				for _, c := range core.Calls(l.Body, true) {
					if v != nil && core.VarOf(info, c.Fun) == v {
						reg, regVar = l, v
					}
				}
			}
			return true
		})
	}
	if reg == nil {
		r.Anchor(rule, "recursive registering closure in Load")
		return
	}
	g := graph(reg)
	ctor := core.CallsTo(info, reg.Body, true, core.G("pkg/types.newPkg"))
	if len(ctor) != 1 {
		r.Anchor(rule, "single newPkg call in the registering closure")
		return
	}
	cp := g.PointOf(ctor[0])
	var recursive []*ast.CallExpr
	for _, c := range core.Calls(reg.Body, true) {
		if core.VarOf(info, c.Fun) == regVar {
			recursive = append(recursive, c)
		}
	}
	for _, c := range recursive {
		r.Check(!g.CanReach(cp, g.PointOf(c)), rule, reg, "package record is constructed after its dependencies are registered", c.Pos(),
			"no path from newPkg(...) to the recursive registration",
			"newPkg (which fills the record's import table from the universe) runs before the imported packages are registered: Imports() maps paths to nil unless the dependency happened to be registered earlier (map-order dependent)")
	}
	// the record is stored under the package's path after construction
	stored := false
	var storeStmt *ast.AssignStmt
	ast.Inspect(reg.Body, func(n ast.Node) bool {
		as, ok := n.(*ast.AssignStmt)
		if !ok || len(as.Lhs) != 1 {
			return true
		}
		ix, ok := ast.Unparen(as.Lhs[0]).(*ast.IndexExpr)
		if !ok {
			return true
		}
		if f := core.FieldOf(info, ix.X); f != nil && f.Name() == "pkgs" {
			e, _ := core.Resolve(info, reg.Body, as.Rhs[0])
			if c, ok := e.(*ast.CallExpr); ok && c == ctor[0] && g.Dominates(cp, g.PointOf(as)) {
				stored = true
				storeStmt = as
			}
		}
		return true
	})
	r.Check(stored, rule, reg, "constructed record is stored in the universe", ctor[0].Pos(), "u.pkgs[p.PkgPath] = <newPkg result>", "the result of newPkg is not stored into the universe's package table")
	if storeStmt != nil {
		// ... on every path: once the record is made nothing - an error of the directory hash, a filter - lets the
		// closure return without publishing it (importers would see nil for a package that was loaded)
		sp := g.PointOf(storeStmt)
		at, skips := g.Reach(cp, false, cfgx.Query{
			Target: func(q cfgx.Point) bool { return g.IsExit(q) },
			Cut:    func(q cfgx.Point) bool { return q == sp },
		})
		why := ""
		if skips {
			why = "the registering closure can return after newPkg without storing the record"
			if n := at.Node(); n != nil {
				why += " (at " + p.Pos(n.Pos()) + ")"
			}
			why += ": a package that was loaded and type-checked is missing from the universe, Universe.Package answers nil for it and every importer's Imports() holds nil under its path"
		}
		r.Check(!skips, rule, reg, "the constructed record is published on every path", storeStmt.Pos(), "every path from newPkg to the closure's end passes the store", why)
	}
	// presence: the expression says "the universe has a package under key": the ok of a comma-ok lookup in the package
	// table, or a call of a predicate of the package whose body is that lookup (`_, ok := u.pkgs[path]; return ok`,
	// `return u.pkgs[path] != nil`) - the key is then the call's argument.
	isPkgTable := func(i *types.Info, e ast.Expr) bool {
		f := core.FieldOf(i, e)
		return f != nil && f.Name() == "pkgs"
	}
	var presence func(in *core.Func, e ast.Expr) (ast.Expr, bool)
	presence = func(in *core.Func, e ast.Expr) (ast.Expr, bool) {
		e = ast.Unparen(e)
		if v := core.VarOf(info, e); v != nil {
			d, isDef := core.SingleDef(info, in.Body, v)
			if !isDef || d.Index != 1 {
				return nil, false
			}
			ix, isIx := ast.Unparen(d.Rhs).(*ast.IndexExpr)
			if !isIx || !isPkgTable(info, ix.X) {
				return nil, false
			}
			return ix.Index, true
		}
		call, isCall := e.(*ast.CallExpr)
		if !isCall || len(call.Args) != 1 {
			return nil, false
		}
		h := p.FuncOfObj(core.CalleeFunc(info, call))
		if h == nil || h.Body == nil || h.Pkg != load.Pkg || h.Decl == nil || len(h.Decl.Type.Params.List) != 1 || len(h.Decl.Type.Params.List[0].Names) != 1 {
			return nil, false
		}
		hinfo := h.Info()
		param := hinfo.ObjectOf(h.Decl.Type.Params.List[0].Names[0])
		rets := ownReturnsOf(h)
		if len(rets) != 1 || len(rets[0].Results) != 1 {
			return nil, false
		}
		res := ast.Unparen(rets[0].Results[0])
		var ix *ast.IndexExpr
		if v := core.VarOf(hinfo, res); v != nil {
			if d, isDef := core.SingleDef(hinfo, h.Body, v); isDef && d.Index == 1 {
				ix, _ = ast.Unparen(d.Rhs).(*ast.IndexExpr)
			}
		} else if b, isBin := res.(*ast.BinaryExpr); isBin && b.Op == token.NEQ {
			if id, isNil := ast.Unparen(b.Y).(*ast.Ident); isNil && id.Name == "nil" {
				ix, _ = ast.Unparen(b.X).(*ast.IndexExpr)
			}
		}
		if ix == nil || !isPkgTable(hinfo, ix.X) || hinfo.ObjectOf(identOf(ix.Index)) != param || identOf(ix.Index) == nil {
			return nil, false
		}
		return call.Args[0], true
	}
	// every call of the closure is dominated by the absence test for the same package
	checkCall := func(in *core.Func, c *ast.CallExpr) {
		gg := graph(in)
		ok := false
		for _, fct := range gg.FactsAt(gg.PointOf(c)) {
			if fct.Val || fct.Tag != nil {
				continue
			}
			key, isP := presence(in, fct.Cond)
			if !isP {
				continue
			}
			// key is <arg>.PkgPath
			sel, isSel := ast.Unparen(key).(*ast.SelectorExpr)
			if isSel && sel.Sel.Name == "PkgPath" && len(c.Args) == 1 && core.SameRef(info, sel.X, c.Args[0]) {
				ok = true
			}
		}
		r.Check(ok, rule, in, "registration call is guarded by an absence test on the universe: "+core.ExprStr(c), c.Pos(),
			"dominated by `_, ok := u.pkgs[x.PkgPath]` being absent for the same package",
			"the registering closure is called without testing that the package is not yet registered: a package that is both requested and imported is registered twice and importers keep the first record")
	}
	for _, c := range recursive {
		checkCall(reg, c)
	}
	// every import is registered before the record is built: an iteration of the loop over the
	// package's imports ends without the recursive registration only on the "already registered" edge
	isPresentTest := func(in *core.Func, e ast.Expr) bool {
		_, ok := presence(in, e)
		return ok
	}
	nImportLoops := 0
	ast.Inspect(reg.Body, func(n ast.Node) bool {
		rs, ok := n.(*ast.RangeStmt)
		if !ok {
			return true
		}
		sel, isSel := ast.Unparen(rs.X).(*ast.SelectorExpr)
		if !isSel || sel.Sel.Name != "Imports" {
			return true
		}
		nImportLoops++
		isRec := func(m ast.Node) bool {
			for _, c := range core.Calls(m, true) {
				if core.VarOf(info, c.Fun) == regVar {
					return true
				}
			}
			return false
		}
		skip := func(b *cfgBlock, k int) bool {
			if len(b.Succs) != 2 || len(b.Nodes) == 0 {
				return false
			}
			e, ok := b.Nodes[len(b.Nodes)-1].(ast.Expr)
			if !ok {
				return false
			}
			for _, a := range cfgx.Atoms(e, k == 0) {
				if a.Val && isPresentTest(reg, a.Cond) {
					return true // the package is already in the universe on this edge
				}
			}
			return false
		}
		without, _ := exactlyOnePerIteration(g, rs, isRec, skip)
		r.Check(!without, rule, reg, "every imported package is registered before the record is built", rs.Pos(), "each iteration over p.Imports registers the import unless the universe already has it",
			"an import can be skipped without being registered (e.g. std packages imported by std packages): newPkg then maps that import path to nil, and the skipped package is missing from the universe unless something else imports it")
		// ... for every package that gets a record: the loop is on every path to the construction
		for _, c := range core.Calls(reg.Body, true) {
			if core.CalleeName(info, c) != core.G("pkg/types.newPkg") {
				continue
			}
			r.Check(g.Dominates(g.PointOf(rs.X), g.PointOf(c)), rule, reg, "the imports of every registered package are followed", rs.Pos(), "the loop over p.Imports dominates the construction of the record",
				"a package can get its record without its imports having been followed (the loop is behind a condition): the packages it imports are missing from the universe unless something else brings them in - Universe.Package(path) answers nil for a type's package, which Context.Doc dereferences")
		}
		return true
	})
	if nImportLoops == 0 {
		r.Anchor(rule, "loop over p.Imports in the registering closure")
	}
	top := 0
	for _, c := range core.Calls(load.Body, true) {
		if core.VarOf(info, c.Fun) == regVar {
			top++
			checkCall(load, c)
		}
	}
	if top == 0 {
		r.Anchor(rule, "top-level call of the registering closure in Load")
	}
	// newPkg reads the universe for every import
	np := p.FuncByName("pkg/types", "newPkg")
	okImports := false
	if np != nil {
		ninfo := np.Info()
		ast.Inspect(np.Body, func(n ast.Node) bool {
			as, ok := n.(*ast.AssignStmt)
			if !ok || len(as.Lhs) != 1 {
				return true
			}
			ix, ok := ast.Unparen(as.Lhs[0]).(*ast.IndexExpr)
			if !ok {
				return true
			}
			if f := core.FieldOf(ninfo, ix.X); f != nil && f.Name() == "imports" {
				if c := core.AsCall(ninfo, as.Rhs[0], core.GM("pkg/types", "*Universe", "Package")); c != nil && len(c.Args) == 1 && core.SameRef(ninfo, c.Args[0], ix.Index) {
					okImports = true
				}
			}
			return true
		})
	}
	r.Check(okImports, rule, np, "import table maps each path to Universe.Package(path)", token.NoPos, "p.imports[path] = u.Package(path) with the same path", "the import table is not filled from Universe.Package with the same key")
}

func c13R4(p *core.Program, r *core.Report) {
	const rule = "R4"
	r.Floor(rule, 1)
	f := p.FuncByName("pkg/types", "(*pkgInfo).MethodsOf")
	if f == nil {
		r.Anchor(rule, "pkg/types.(*pkgInfo).MethodsOf")
		return
	}
	info := f.Info()
	g := graph(f)
	found := false
	ast.Inspect(f.Body, func(n ast.Node) bool {
		as, ok := n.(*ast.AssignStmt)
		if !ok || len(as.Rhs) != 1 {
			return true
		}
		c, ok := as.Rhs[0].(*ast.CallExpr)
		if !ok || core.CalleeName(info, c) != "builtin.append" {
			return true
		}
		found = true
		good := false
		for _, fct := range g.FactsAt(g.PointOf(as)) {
			v := core.VarOf(info, fct.Cond)
			if v == nil {
				continue
			}
			d, isDef := core.SingleDef(info, f.Body, v)
			if !isDef || d.Index != 1 {
				continue
			}
			ta, isTA := ast.Unparen(d.Rhs).(*ast.TypeAssertExpr)
			if !isTA || core.NamedTypeName(info.TypeOf(ta.Type)) != "go/types.Pointer" {
				continue
			}
			// operand derives from Recv().Type()
			recv := derivesFromCall(info, f.Body, ta.X, "(*go/types.Signature).Recv", 0)
			if recv && !fct.Val {
				good = true
			}
		}
		r.Check(good, rule, f, "value-receiver filter keeps a method iff its receiver is not a pointer", as.Pos(),
			"append dominated by `_, ok := <recv type>.(*types.Pointer)` being false", "the canPtr=false filter does not keep exactly the methods whose receiver type is not a *types.Pointer")
		return true
	})
	if !found {
		r.Anchor(rule, "filter append in MethodsOf")
	}
}

// c13R8: the accessors hand out the universe's own maps (Types(), Constants(),
// Functions(), Imports() ...). No caller may store into, delete from or clear a
// map obtained from a method of a loaded package / universe: the tables would
// stop mirroring the type checker's scope for everyone else.
func c13R8(p *core.Program, r *core.Report) {
	const rule = "R8"
	r.Floor(rule, 1)
	fromUniverse := func(f *core.Func, e ast.Expr) (string, bool) {
		info := f.Info()
		e, _ = core.Resolve(info, f.Root().Body, e)
		c, ok := ast.Unparen(e).(*ast.CallExpr)
		if !ok || !isMapType(info.TypeOf(c)) {
			return "", false
		}
		name := core.CalleeName(info, c)
		if strings.Contains(name, core.ModulePath+"/pkg/types.Package).") || strings.Contains(name, core.ModulePath+"/pkg/types.pkgInfo).") || strings.Contains(name, core.ModulePath+"/pkg/types.Universe).") {
			return name[strings.LastIndex(name, ".")+1:], true
		}
		return "", false
	}
	n := 0
	for _, f := range p.Funcs() {
		info := f.Info()
		ast.Inspect(f.Body, func(nd ast.Node) bool {
			if lit, ok := nd.(*ast.FuncLit); ok && lit != f.Lit {
				return false
			}
			switch x := nd.(type) {
			case *ast.AssignStmt:
				for _, l := range x.Lhs {
					if ix, ok := ast.Unparen(l).(*ast.IndexExpr); ok && isMapType(info.TypeOf(ix.X)) {
						if m, ok := fromUniverse(f, ix.X); ok {
							n++
							r.Bad(rule, f, "store into the map returned by "+m+"(): "+core.ExprStr(x), x.Pos(), "the accessor returns the universe's own table; writing to it changes what every other caller of "+m+"() sees")
						}
					}
				}
			case *ast.CallExpr:
				cn := core.CalleeName(info, x)
				if (cn == "builtin.delete" || cn == "builtin.clear" || cn == "maps.DeleteFunc" || cn == "maps.Copy" || cn == "maps.Insert") && len(x.Args) >= 1 {
					if m, ok := fromUniverse(f, x.Args[0]); ok {
						n++
						r.Bad(rule, f, core.ExprStr(x.Fun)+" on the map returned by "+m+"(): "+core.ExprStr(x), x.Pos(), "the accessor returns the universe's own table; removing entries prunes the package's tables for every later caller (Types()/Type(name) no longer match the type checker's scope after a run)")
					}
				}
			}
			return true
		})
	}
	if n == 0 {
		r.OK(rule, nil, "no caller writes to a table handed out by a loaded package", token.NoPos, "scan of stores/delete/clear on maps obtained from Package / Universe methods")
	}
}

// constructionOnly: an unexported function or method that is never used as a value and whose every
// static call site lies in the package-record constructor (newPkg), in Load, or in another
// construction-only function: it cannot run once Load has returned.
func constructionOnly(p *core.Program, f *core.Func, depth int) bool {
	if f == nil || f.Decl == nil || f.Decl.Name.IsExported() || depth > 3 {
		return false
	}
	obj := f.Obj()
	if obj == nil || len(funcValueUses(p, obj)) > 0 {
		return false
	}
	sites := 0
	for _, cs := range allCalls(p) {
		if cs.In.Body == nil || core.CalleeFunc(cs.In.Info(), cs.Call) != obj {
			continue
		}
		sites++
		caller := cs.In.Root()
		if core.RelPkg(caller.Pkg.PkgPath) == "pkg/types" && caller.Decl != nil && (caller.Name == "newPkg" || caller.Name == "Load") {
			continue
		}
		if caller == f || !constructionOnly(p, caller, depth+1) {
			return false
		}
	}
	return sites > 0
}

// derivesFromCall: the expression contains a call of the named function, directly or through locals that are
// defined once (`recv := sig.Recv(); recv.Type()`).
func derivesFromCall(info *types.Info, body ast.Node, e ast.Expr, callee string, depth int) bool {
	if depth > 8 {
		return false
	}
	found := false
	ast.Inspect(e, func(m ast.Node) bool {
		if found {
			return false
		}
		switch x := m.(type) {
		case *ast.CallExpr:
			if core.CalleeName(info, x) == callee {
				found = true
			}
		case *ast.Ident:
			if v, ok := info.ObjectOf(x).(*types.Var); ok && !v.IsField() {
				if d, ok := core.SingleDef(info, body, v); ok && d.Rhs != nil && (d.Kind == "define" || d.Kind == "var") {
					if derivesFromCall(info, body, d.Rhs, callee, depth+1) {
						found = true
					}
				}
			}
		}
		return !found
	})
	return found
}

// syncMutators: methods that change what a synchronised container holds.
var syncMutators = map[string]bool{
	"(*sync.Map).Store": true, "(*sync.Map).LoadOrStore": true, "(*sync.Map).Delete": true, "(*sync.Map).Swap": true,
	"(*sync.Map).CompareAndSwap": true, "(*sync.Map).CompareAndDelete": true, "(*sync.Map).LoadAndDelete": true, "(*sync.Map).Clear": true,
	"(*sync.Pool).Put": true,
}

// embedsUniverseRecord: a struct type of pkg/types that embeds the package record or the universe (by pointer or by
// value): its methods reach the loaded state through the promoted fields.
func embedsUniverseRecord(t types.Type) bool {
	t = types.Unalias(t)
	if pt, ok := t.Underlying().(*types.Pointer); ok {
		t = types.Unalias(pt.Elem())
	}
	st, ok := t.Underlying().(*types.Struct)
	if !ok {
		return false
	}
	for i := 0; i < st.NumFields(); i++ {
		f := st.Field(i)
		if !f.Embedded() {
			continue
		}
		switch core.NamedTypeName(f.Type()) {
		case core.G("pkg/types.pkgInfo"), core.G("pkg/types.Universe"):
			return true
		}
	}
	return false
}

// c13R9: "mirrors go list's view": what go/packages answered is not edited. No function of the library assigns a field of
// a *packages.Package or *packages.Module (the module's GoVersion, Path and Dir are read by the file writer and by
// SourceDir as they were reported).
func c13R9(p *core.Program, r *core.Report) {
	const rule = "R9"
	r.Floor(rule, 1)
	n, bad := 0, 0
	for _, f := range p.Funcs() {
		rel := core.RelPkg(f.Pkg.PkgPath)
		if f.Body == nil || (!strings.HasPrefix(rel, "pkg/") && !strings.HasPrefix(rel, "devpkg/")) {
			continue
		}
		n++
		info := f.Info()
		ast.Inspect(f.Body, func(m ast.Node) bool {
			if lit, isLit := m.(*ast.FuncLit); isLit && lit != f.Lit {
				return false
			}
			var lhs []ast.Expr
			switch x := m.(type) {
			case *ast.AssignStmt:
				if x.Tok != token.DEFINE {
					lhs = x.Lhs
				}
			case *ast.IncDecStmt:
				lhs = []ast.Expr{x.X}
			}
			for _, l := range lhs {
				e := ast.Unparen(l)
				for {
					if ix, isIx := e.(*ast.IndexExpr); isIx {
						e = ast.Unparen(ix.X)
						continue
					}
					break
				}
				sel, isSel := e.(*ast.SelectorExpr)
				if !isSel {
					continue
				}
				switch core.NamedTypeName(info.TypeOf(sel.X)) {
				case "golang.org/x/tools/go/packages.Package", "golang.org/x/tools/go/packages.Module":
					bad++
					r.Bad(rule, f, "what go/packages reported is not edited: "+core.ExprStr(l), m.Pos(), "the loader's answer is changed after loading ("+core.ExprStr(l)+"): Module(), and everything derived from it - the language version given to gofumpt, the module path and directory SourceDir computes with - no longer is what go list reports for the module")
				}
			}
			return true
		})
	}
	if bad == 0 {
		r.OK(rule, nil, "no field of a loaded packages.Package / packages.Module is assigned", token.NoPos, itoa(int64(n))+" function bodies scanned")
	}
}
