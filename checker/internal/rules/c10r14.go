package rules

import (
	"go/ast"
	"go/token"
	"go/types"
	"strings"

	"gengoverif/checker/internal/core"
)

// c10R14 (files R14 and R15): three structural conditions of "evaluates to a deeply equal value, compiled with the imports it registered"
// that concern WHAT the value printer renders rather than how a scalar is spelled:
//
//	(a) the struct arm renders the struct's own fields: field values and names come from Field(i) of the value and of the
//	    type; the reflect calls that flatten embedding (VisibleFields, FieldByIndex, FieldByName...) are not used - a
//	    promoted field is a key of the embedded struct's literal, not of the outer one;
//	(b) a pointer is rendered as the constant nil only when it is nil: every `return "nil"` is dominated by IsNil();
//	(c) what is written was rendered by the printer's own namer: a literal produced by another Dumper (the registering-
//	    nothing one that gives map keys their order) is used for comparison only and reaches neither a buffer nor a result.
func c10R14(p *core.Program, r *core.Report, f *core.Func, armOf map[string]*ast.CaseClause) {
	rule := "R15" // (a) and (b); (c) is R14, which C03 chains
	r.Floor("R14", 1)
	r.Floor("R15", 2)
	info := f.Info()

	// (a)
	if st := armOf["struct"]; st == nil {
		r.Anchor(rule, "struct arm of ValueLit")
	} else {
		own, flat := 0, ""
		for _, c := range core.Calls(st, true) {
			name := core.CalleeName(info, c)
			switch name {
			case "(reflect.Value).Field", "(reflect.Type).Field":
				own++
			case "reflect.VisibleFields", "(reflect.Value).FieldByIndex", "(reflect.Value).FieldByIndexErr", "(reflect.Value).FieldByName",
				"(reflect.Value).FieldByNameFunc", "(reflect.Type).FieldByIndex", "(reflect.Type).FieldByName", "(reflect.Type).FieldByNameFunc":
				flat = core.ExprStr(c)
			}
		}
		why := ""
		switch {
		case flat != "":
			why = "the struct arm enumerates fields with `" + flat + "`, which also answers the fields promoted from embedded structs: they are written as keys of the outer literal (`Doc{Meta: Meta{ID: 7}, ID: 7}` does not compile)"
		case own < 2:
			why = "the struct arm does not read field i of the value and of the type with Field(i)"
		}
		r.Check(why == "", rule, f, "struct literal keys are the struct's own fields", st.Pos(), "fields are read with Field(i) of the value and the type; no embedding-flattening reflect call", why)
	}

	// (b)
	g := graph(f)
	nNil := 0
	ast.Inspect(f.Body, func(n ast.Node) bool {
		if _, isLit := n.(*ast.FuncLit); isLit {
			return false
		}
		ret, isRet := n.(*ast.ReturnStmt)
		if !isRet || len(ret.Results) != 1 || !constStrIs(info, ret.Results[0], "nil") {
			return true
		}
		// the arms of the kinds outside the value domain (an interface without a hook, the invalid value) answer nil as they are
		for _, k := range []string{"interface", "invalid"} {
			if cc := armOf[k]; cc != nil && cc.Pos() <= ret.Pos() && ret.End() <= cc.End() {
				return true
			}
		}
		nNil++
		isNil := false
		for _, fct := range g.FactsAt(g.PointOf(ret)) {
			if c, isCall := ast.Unparen(fct.Cond).(*ast.CallExpr); isCall && fct.Val && fct.Tag == nil {
				switch core.CalleeName(info, c) {
				case "(reflect.Value).IsNil", "(reflect.Value).IsZero":
					isNil = true
				}
			}
		}
		r.Check(isNil, rule, f, "the constant nil is written only for a nil value", ret.Pos(), "dominated by IsNil() being true",
			"`return \"nil\"` is reachable for a value that is not nil (for instance a pointer met before in the same value): the literal evaluates to nil where the value has a pointer")
		return true
	})
	if nNil == 0 {
		r.OK(rule, f, "the constant nil is written only for a nil value", f.Node().Pos(), "ValueLit never returns the constant nil")
	}

	// (c)
	rule = "R14"
	recv := recvVar(f)
	isForeign := func(e ast.Expr) bool {
		c, ok := ast.Unparen(e).(*ast.CallExpr)
		if !ok {
			return false
		}
		name := core.CalleeName(info, c)
		if !strings.Contains(name, "Dumper).") {
			return false
		}
		rc := recvOf(c)
		if rc == nil {
			return false
		}
		// the receiver of an inlined helper method stands for the printer itself (view: `d := d`)
		return core.VarOf(info, rc) == nil || core.CanonVarOf(info, f.Body, rc) != core.CanonVar(info, f.Body, recv)
	}
	tv := map[*types.Var]string{} // tainted variables and fields
	var taint func(e ast.Expr) string
	taint = func(e ast.Expr) string {
		switch x := ast.Unparen(e).(type) {
		case nil:
			return ""
		case *ast.Ident:
			if v, ok := info.ObjectOf(x).(*types.Var); ok {
				return tv[v]
			}
		case *ast.SelectorExpr:
			if s, ok := info.Selections[x]; ok && s.Kind() == types.FieldVal {
				if fv, ok := s.Obj().(*types.Var); ok && tv[fv] != "" {
					return tv[fv]
				}
			}
			return taint(x.X)
		case *ast.CallExpr:
			if isForeign(x) {
				return core.ExprStr(x)
			}
			switch core.CalleeName(info, x) {
			case "builtin.len", "builtin.cap":
				return ""
			}
			for _, a := range x.Args {
				if w := taint(a); w != "" {
					return w
				}
			}
			if rc := recvOf(x); rc != nil {
				return taint(rc)
			}
		case *ast.CompositeLit:
			keyedStruct := false
			if _, isStruct := info.TypeOf(x).Underlying().(*types.Struct); isStruct {
				keyedStruct = true
				for _, el := range x.Elts {
					if _, isKV := el.(*ast.KeyValueExpr); !isKV {
						keyedStruct = false
					}
				}
			}
			if keyedStruct {
				return "" // field by field, recorded by the statement walk
			}
			for _, el := range x.Elts {
				if kv, isKV := el.(*ast.KeyValueExpr); isKV {
					el = kv.Value
				}
				if w := taint(el); w != "" {
					return w
				}
			}
		case *ast.IndexExpr:
			return taint(x.X)
		case *ast.SliceExpr:
			return taint(x.X)
		case *ast.StarExpr:
			return taint(x.X)
		case *ast.UnaryExpr:
			return taint(x.X)
		case *ast.BinaryExpr:
			switch x.Op {
			case token.EQL, token.NEQ, token.LSS, token.GTR, token.LEQ, token.GEQ, token.LAND, token.LOR:
				return ""
			}
			if w := taint(x.X); w != "" {
				return w
			}
			return taint(x.Y)
		}
		return ""
	}
	changed := true
	mark := func(v *types.Var, w string) {
		if v != nil && w != "" && tv[v] == "" {
			tv[v] = w
			changed = true
		}
	}
	markLhs := func(l ast.Expr, w string) {
		if w == "" {
			return
		}
		switch x := ast.Unparen(l).(type) {
		case *ast.Ident:
			v, _ := info.ObjectOf(x).(*types.Var)
			mark(v, w)
		case *ast.SelectorExpr:
			if s, ok := info.Selections[x]; ok && s.Kind() == types.FieldVal {
				fv, _ := s.Obj().(*types.Var)
				mark(fv, w)
			}
		case *ast.IndexExpr:
			mark(core.VarOf(info, x.X), w)
		}
	}
	for changed {
		changed = false
		ast.Inspect(f.Body, func(n ast.Node) bool {
			switch x := n.(type) {
			case *ast.AssignStmt:
				for i, l := range x.Lhs {
					if len(x.Rhs) == len(x.Lhs) {
						markLhs(l, taint(x.Rhs[i]))
					} else if len(x.Rhs) == 1 {
						markLhs(l, taint(x.Rhs[0]))
					}
				}
			case *ast.ValueSpec:
				for i, nm := range x.Names {
					if i < len(x.Values) {
						v, _ := info.ObjectOf(nm).(*types.Var)
						mark(v, taint(x.Values[i]))
					}
				}
			case *ast.RangeStmt:
				w := taint(x.X)
				if x.Value != nil {
					markLhs(x.Value, w)
				}
				if _, isMap := info.TypeOf(x.X).Underlying().(*types.Map); isMap && x.Key != nil {
					markLhs(x.Key, w)
				}
			case *ast.CompositeLit:
				if st, isStruct := info.TypeOf(x).Underlying().(*types.Struct); isStruct {
					for _, el := range x.Elts {
						kv, isKV := el.(*ast.KeyValueExpr)
						if !isKV {
							continue
						}
						if w := taint(kv.Value); w != "" {
							for i := 0; i < st.NumFields(); i++ {
								if id := identOf(kv.Key); id != nil && st.Field(i).Name() == id.Name {
									mark(st.Field(i), w)
								}
							}
						}
					}
				}
			}
			return true
		})
	}
	nSrc := 0
	ast.Inspect(f.Body, func(n ast.Node) bool {
		if e, ok := n.(ast.Expr); ok && isForeign(e) {
			nSrc++
		}
		return true
	})
	leak := ""
	var leakPos token.Pos
	var walk func(n ast.Node, top bool)
	walk = func(n ast.Node, top bool) {
		ast.Inspect(n, func(m ast.Node) bool {
			switch x := m.(type) {
			case *ast.FuncLit:
				if m != n {
					walk(x.Body, false)
					return false
				}
			case *ast.ReturnStmt:
				if top {
					for _, res := range x.Results {
						if w := taint(res); w != "" && leak == "" {
							leak, leakPos = "`"+core.ExprStr(x)+"` returns what `"+w+"` rendered", x.Pos()
						}
					}
				}
			case *ast.CallExpr:
				name := core.CalleeName(info, x)
				if strings.HasPrefix(name, "(*bytes.Buffer).Write") || strings.HasPrefix(name, "(*strings.Builder).Write") || strings.HasPrefix(name, "fmt.Fprint") {
					for _, a := range x.Args {
						if w := taint(a); w != "" && leak == "" {
							leak, leakPos = "`"+core.ExprStr(x)+"` writes what `"+w+"` rendered", x.Pos()
						}
					}
				}
			}
			return true
		})
	}
	walk(f.Body, true)
	if leakPos == token.NoPos {
		leakPos = f.Node().Pos()
	}
	if nSrc == 0 {
		r.OK(rule, f, "only the printer's own renderings are written", f.Node().Pos(), "no other Dumper renders anything inside ValueLit")
	} else {
		r.Check(leak == "", rule, f, "only the printer's own renderings are written", leakPos, "renderings of another Dumper ("+itoa(int64(nSrc))+" call(s)) reach comparisons only",
			leak+": text rendered under a namer that registers nothing is part of the output - a named type in it is spelled with its full import path and its package is not in the import block")
	}
}
