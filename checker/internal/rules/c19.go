package rules

import (
	"go/ast"
	"go/token"
	"go/types"

	"gengoverif/checker/internal/core"
)

func init() {
	register(Property{
		ID:          "C19",
		Explanation: "Decided statically: A5 every index/slice expression in pkg/camelcase (Split, makeCase and the converter closures) is bounded by a dominating length guard, a loop bound on the same base, or the checked non-empty-group invariant of Split's accumulator (groups are created non-empty, only the fix-up statement shrinks a group, after its last read, at the increasing loop index); R1 in Split's classification loop every path of an iteration appends the rune to exactly one group, the loop ranges over the string itself and runs only for valid UTF-8 (the invalid case returns the input whole), and the result loop drops only empty groups; R2 the converters write no package-level state and build the stateful x/text Caser inside the per-call closure. A5 also covers count arguments that panic when negative (Builder.Grow, strings.Repeat, make): they must be non-negative by construction (lengths, constants, sums/products, differences under a dominating length guard). A5 is decided on linear index forms (single-definition locals replaced by their definition when nothing they mention changes in between); the group-invariant tactic compares read and shrink index as offsets from the loop variable. R2 also: no function literal of the package writes - by assignment or a mutating sync method - a variable of the function that made it (state that outlives a call of a converter). R2 also: mutating methods of package-level sync.Map/sync.Pool values are writes of package-level state. NOT decided: concat(Split(s)) == s as an equation over all strings (R1 is its structural necessary condition); totality of third-party callees (x/text/cases). Round 8: the group invariant reads slices.Insert (growth), slices.Delete of the last element (the shrink) and slices.DeleteFunc on the accumulator (whole groups leave).",
		Assumptions: commonAssumptions,
		Run:         runC19,
	})
}

func runC19(p *core.Program, r *core.Report) {
	r.Floor("A5", 8)
	split := p.FuncByName("pkg/camelcase", "Split")
	if split == nil {
		r.Anchor("A5", "pkg/camelcase.Split")
		return
	}
	for _, f := range p.Funcs() {
		if core.RelPkg(f.Pkg.PkgPath) != "pkg/camelcase" {
			continue
		}
		a5Check(r, "A5", f, nonEmptyGroupTactic)
	}
	c19R1(p, r, flatten(p, split))
	c19R2(p, r)
}

// nonEmptyGroupTactic discharges "len(A[j]) >= 1" for elements of a local
// slice-of-slices accumulator A under checked side conditions (see DESIGN C19).
func nonEmptyGroupTactic(bc *boundsCtx, e ast.Expr, base ast.Expr, need needLen) (string, bool) {
	if need.Idx != nil || need.Min > 1 {
		return "", false
	}
	ix, ok := ast.Unparen(base).(*ast.IndexExpr)
	if !ok {
		return "", false
	}
	acc := core.VarOf(bc.info, ix.X)
	if acc == nil || acc.IsField() || acc.Parent() == acc.Pkg().Scope() {
		return "", false
	}
	sl, ok := acc.Type().Underlying().(*types.Slice)
	if !ok {
		return "", false
	}
	if _, ok := sl.Elem().Underlying().(*types.Slice); !ok {
		return "", false
	}
	info := bc.info
	body := bc.f.Root().Body
	nonEmptyLit := func(x ast.Expr) bool {
		cl, ok := ast.Unparen(x).(*ast.CompositeLit)
		return ok && len(cl.Elts) >= 1
	}
	isAppend := func(x ast.Expr) *ast.CallExpr {
		c, ok := ast.Unparen(x).(*ast.CallExpr)
		if ok && core.CalleeName(info, c) == "builtin.append" && len(c.Args) >= 1 {
			return c
		}
		return nil
	}
	var shrinks []*ast.AssignStmt
	sound := true
	ast.Inspect(body, func(n ast.Node) bool {
		as, ok := n.(*ast.AssignStmt)
		if !ok {
			return true
		}
		for i, l := range as.Lhs {
			if len(as.Rhs) != len(as.Lhs) {
				if core.Mentions(info, l, acc) {
					sound = false
				}
				continue
			}
			rhs := as.Rhs[i]
			if core.VarOf(info, l) == acc {
				// acc = slices.DeleteFunc(acc, pred): takes whole groups out, neither creates nor shrinks one
				if dc, ok := ast.Unparen(rhs).(*ast.CallExpr); ok && core.CalleeName(info, dc) == "slices.DeleteFunc" && len(dc.Args) == 2 && core.VarOf(info, dc.Args[0]) == acc {
					continue
				}
				// acc = append(acc, nonEmptyLit...)
				c := isAppend(rhs)
				if c == nil || core.VarOf(info, c.Args[0]) != acc || c.Ellipsis.IsValid() {
					sound = false
					continue
				}
				for _, a := range c.Args[1:] {
					if !nonEmptyLit(a) {
						sound = false
					}
				}
				continue
			}
			li, ok := ast.Unparen(l).(*ast.IndexExpr)
			if !ok || core.VarOf(info, li.X) != acc {
				continue
			}
			// acc[k] = append(acc[k], ...) | append(nonEmptyLit, ...) | acc[k][:len(acc[k])-1]
			if c := isAppend(rhs); c != nil {
				if core.SameRef(info, c.Args[0], l) || nonEmptyLit(c.Args[0]) {
					continue
				}
				sound = false
				continue
			}
			// the shrink may be written on the element or on a snapshot of it (cur := acc[k]; acc[k] = cur[:len(cur)-1])
			sameElem := func(x ast.Expr) bool {
				if core.SameRef(info, x, l) {
					return true
				}
				if ab, _ := bc.aliasOf(x); ab != nil && core.SameRef(info, ab, l) {
					return true
				}
				return false
			}
			if sc, ok := ast.Unparen(rhs).(*ast.CallExpr); ok && len(sc.Args) >= 3 && sameElem(sc.Args[0]) {
				switch core.CalleeName(info, sc) {
				case "slices.Insert":
					// acc[k] = slices.Insert(acc[k], i, v...): the group grows
					continue
				case "slices.Delete":
					// acc[k] = slices.Delete(acc[k], len(acc[k])-1, len(acc[k])): the last element goes, like acc[k][:len-1]
					lo, ok1 := bc.linOf(sc.Args[1], bc.g.PointOf(as))
					hi, ok2 := bc.linOf(sc.Args[2], bc.g.PointOf(as))
					isLen := func(h lin, c int64) bool {
						return h.C == c && len(h.Atoms) == 1 && h.Coef[0] == 1 && h.Atoms[0].LenOf != nil && sameElem(h.Atoms[0].LenOf)
					}
					if len(sc.Args) == 3 && ok1 && ok2 && isLen(lo, -1) && isLen(hi, 0) {
						shrinks = append(shrinks, as)
						continue
					}
				}
			}
			if se, ok := ast.Unparen(rhs).(*ast.SliceExpr); ok && sameElem(se.X) && se.Low == nil && se.High != nil {
				// the new length is len(element) - 1, however it is spelled (also `n := len(cur) - 1 ... cur[:n]`)
				if h, ok := bc.linOf(se.High, bc.g.PointOf(as)); ok && h.C == -1 && len(h.Atoms) == 1 && h.Coef[0] == 1 && h.Atoms[0].LenOf != nil && sameElem(h.Atoms[0].LenOf) {
					shrinks = append(shrinks, as)
					continue
				}
			}
			sound = false
		}
		return true
	})
	if !sound {
		return "", false
	}
	if len(shrinks) == 0 {
		return "T4 group invariant: every group of the accumulator is created non-empty and never shrunk", true
	}
	if len(shrinks) > 1 {
		return "", false
	}
	shrink := shrinks[0]
	// the shrink must be the last statement of its block, inside a counted
	// loop whose variable indexes the shrunk element; e must lie in the same
	// loop body before the shrink, indexing acc[k] or acc[k+c]
	path := core.PathTo(body, shrink)
	var loop *struct{ Body *ast.BlockStmt }
	var loopNode ast.Node
	var blk *ast.BlockStmt
	for k := len(path) - 1; k >= 0; k-- {
		if b, ok := path[k].(*ast.BlockStmt); ok && blk == nil {
			blk = b
		}
		if _, _, lbody, _, ok := countedLoop(info, path[k]); ok {
			loop = &struct{ Body *ast.BlockStmt }{lbody}
			loopNode = path[k]
			break
		}
		switch path[k].(type) {
		case *ast.RangeStmt, *ast.ForStmt:
			return "", false
		}
	}
	if loop == nil || blk == nil || lastStmt(blk.List) != ast.Stmt(shrink) {
		return "", false
	}
	// the shrunk element is at loop variable + s, in linear form (`g[i]`, or `cur := next - 1 ... g[cur]`)
	kv, _, _, _, _ := countedLoop(info, loopNode)
	if kv == nil {
		return "", false
	}
	offsetFromLoopVar := func(idx ast.Expr, at ast.Node) (int64, bool) {
		l, ok := bc.linOf(idx, bc.g.PointOf(at))
		if !ok || len(l.Atoms) != 1 || l.Coef[0] != 1 || l.Atoms[0].Var != kv {
			return 0, false
		}
		return l.C, true
	}
	shrunkAt, ok := offsetFromLoopVar(shrink.Lhs[0].(*ast.IndexExpr).Index, shrink)
	if !ok {
		return "", false
	}
	// the loop variable strictly increases: i++ of a counted for, or the range-over-int form
	if fs, isFor := loopNode.(*ast.ForStmt); isFor {
		post, ok := fs.Post.(*ast.IncDecStmt)
		if !ok || post.Tok != token.INC || core.VarOf(info, post.X) != kv {
			return "", false
		}
	}
	// nothing in the body may write the loop variable
	writesKV := false
	ast.Inspect(loop.Body, func(n ast.Node) bool {
		switch x := n.(type) {
		case *ast.AssignStmt:
			for _, l := range x.Lhs {
				if core.VarOf(info, l) == kv {
					writesKV = true
				}
			}
		case *ast.IncDecStmt:
			if core.VarOf(info, x.X) == kv {
				writesKV = true
			}
		}
		return true
	})
	if writesKV {
		return "", false
	}
	// no nested loop or branch statement in the loop body (straight re-reads)
	nested := false
	ast.Inspect(loop.Body, func(n ast.Node) bool {
		switch n.(type) {
		case *ast.ForStmt, *ast.RangeStmt, *ast.BranchStmt:
			nested = true
		}
		return true
	})
	if nested {
		return "", false
	}
	// where the element is read: the expression, or the snapshot statement (a snapshot keeps its length)
	var readAt ast.Node = e
	if bc.readAt != nil {
		readAt = bc.readAt
	}
	if !(loop.Body.Pos() <= readAt.Pos() && readAt.End() <= shrink.End()) {
		// outside the fix-up loop: only safe when the shrink cannot have run before
		if bc.g.CanReach(bc.g.PointOf(shrink), bc.g.PointOf(readAt)) {
			return "", false
		}
		return "T4 group invariant: groups are created non-empty; the only shrink cannot precede this read", true
	}
	// index of the read: not below the shrunk one (elements below it were shrunk by earlier iterations)
	readIdx, ok := offsetFromLoopVar(ix.Index, readAt)
	if !ok || readIdx < shrunkAt {
		return "", false
	}
	return "T4 group invariant: groups are created non-empty; only `g[i] = g[i][:len(g[i])-1]` shrinks, as the last statement of the fix-up loop body at the strictly increasing index, after this read", true
}

func c19R1(p *core.Program, r *core.Report, split *core.Func) {
	const rule = "R1"
	r.Floor(rule, 6)
	info := split.Info()
	g := graph(split)
	var src *types.Var
	if len(split.Decl.Type.Params.List) == 1 && len(split.Decl.Type.Params.List[0].Names) == 1 {
		src, _ = info.ObjectOf(split.Decl.Type.Params.List[0].Names[0]).(*types.Var)
	}
	// classification loop: range over the string parameter
	var loop *ast.RangeStmt
	var otherRange []*ast.RangeStmt
	for _, s := range split.Body.List {
		if rs, ok := s.(*ast.RangeStmt); ok {
			if b, ok := info.TypeOf(rs.X).Underlying().(*types.Basic); ok && b.Info()&types.IsString != 0 {
				loop = rs
			} else {
				otherRange = append(otherRange, rs)
			}
		}
	}
	if loop == nil || src == nil {
		r.Bad(rule, split, "classification loop ranges over the input string", split.Node().Pos(), "no top-level `for _, r := range <string>` in Split: ranging over bytes or a converted copy does not visit the runes of the input")
		return
	}
	r.Check(core.VarOf(info, loop.X) == src, rule, split, "classification loop ranges over the input string", loop.Pos(),
		"`range src` over the parameter itself (rune iteration)", "the loop does not range over the input parameter itself")
	// guarded by utf8.ValidString(src)
	facts := g.FactsAt(g.PointOf(loop.X))
	valid := factHolds(facts, true, func(f cfgxFact) bool {
		c := core.AsCall(info, f.Cond, "unicode/utf8.ValidString")
		return c != nil && core.VarOf(info, c.Args[0]) == src
	})
	r.Check(valid, rule, split, "decoding loop runs only for valid UTF-8", loop.Pos(),
		"dominated by utf8.ValidString(src) == true", "the decoding loop is not dominated by the utf8.ValidString(src) test: invalid input would be decoded into U+FFFD runes and not returned whole")
	// the invalid path returns []string{src}
	okRet := false
	ast.Inspect(split.Body, func(n ast.Node) bool {
		ifs, ok := n.(*ast.IfStmt)
		if !ok {
			return true
		}
		for _, a := range cfgxAtoms(ifs.Cond, true) {
			if c := core.AsCall(info, a.Cond, "unicode/utf8.ValidString"); c != nil && !a.Val {
				if ret, ok := lastStmt(ifs.Body.List).(*ast.ReturnStmt); ok && len(ret.Results) == 1 {
					if cl, ok := ret.Results[0].(*ast.CompositeLit); ok && len(cl.Elts) == 1 && core.VarOf(info, cl.Elts[0]) == src {
						okRet = true
					}
				}
			}
		}
		return true
	})
	r.Check(okRet, rule, split, "invalid UTF-8 is returned whole", split.Node().Pos(), "`return []string{src}` on the invalid edge", "the invalid-UTF-8 edge does not return the input as a single word")

	// exactly one store of the rune per iteration
	rv := core.VarOf(info, loop.Value)
	isStore := func(n ast.Node) bool {
		as, ok := n.(*ast.AssignStmt)
		if !ok || len(as.Rhs) != 1 {
			return false
		}
		c, ok := as.Rhs[0].(*ast.CallExpr)
		if !ok || core.CalleeName(info, c) != "builtin.append" {
			return false
		}
		for _, a := range c.Args[1:] {
			if core.Mentions(info, a, rv) {
				return true
			}
		}
		return false
	}
	bodyEntry := cfgxPoint{B: g.BlockOf(kindRangeBody, loop), I: 0}
	head := g.BlockOf(kindRangeLoop, loop)
	if bodyEntry.B == nil || head == nil || rv == nil {
		r.Unknown(rule, split, "one append per rune", loop.Pos(), "loop blocks not found")
	} else {
		_, skip := g.Reach(bodyEntry, true, cfgxQuery{
			Target: func(q cfgxPoint) bool {
				return q.B == head || (q.B.Stmt == ast.Stmt(loop) && q.B.Kind == kindRangeDone)
			},
			Cut: func(q cfgxPoint) bool { return q.Node() != nil && isStore(q.Node()) },
		})
		r.Check(!skip, rule, split, "every rune is appended to a group", loop.Pos(),
			"every path of an iteration executes an append that stores the rune", "an iteration can end without appending the rune to any group: the rune is lost")
		twice := false
		for _, sp := range g.Points(isStore) {
			if !(loop.Body.Pos() <= sp.Node().Pos() && sp.Node().End() <= loop.Body.End()) {
				continue
			}
			if _, again := g.Reach(sp, false, cfgxQuery{
				Target: func(q cfgxPoint) bool { return q.Node() != nil && isStore(q.Node()) },
				Cut:    func(q cfgxPoint) bool { return q.B == head },
			}); again {
				twice = true
			}
		}
		r.Check(!twice, rule, split, "no rune is appended twice", loop.Pos(),
			"no path executes two appends of the rune in one iteration", "a path appends the same rune twice in one iteration: the concatenation is longer than the input")
	}

	// result loop: only empty groups are dropped, string(s) appended whole
	okResult := false
	var rpos token.Pos = split.Node().Pos()
	// the loops that visit every group: `for _, s := range groups` (element = s) or a counted loop
	// 0..len(groups) (element = groups[i])
	type groupLoop struct {
		body   *ast.BlockStmt
		isElem func(e ast.Expr) bool
	}
	var groupLoops []groupLoop
	for _, rs := range otherRange {
		if sv := core.VarOf(info, rs.Value); sv != nil {
			groupLoops = append(groupLoops, groupLoop{rs.Body, func(e ast.Expr) bool { return core.VarOf(info, e) == sv }})
		}
	}
	for _, st := range split.Body.List {
		iv, bound, body, op, ok := countedLoop(info, st)
		if !ok || op != token.LSS {
			continue
		}
		lc, isLen := ast.Unparen(bound).(*ast.CallExpr)
		if !isLen || core.CalleeName(info, lc) != "builtin.len" || len(lc.Args) != 1 {
			continue
		}
		acc := core.VarOf(info, lc.Args[0])
		if acc == nil {
			continue
		}
		if fs, isFor := st.(*ast.ForStmt); isFor {
			init, isAs := fs.Init.(*ast.AssignStmt)
			if !isAs || len(init.Rhs) != 1 || !constIs(info, init.Rhs[0], 0) {
				continue
			}
		}
		groupLoops = append(groupLoops, groupLoop{body, func(e ast.Expr) bool {
			ix, ok := ast.Unparen(e).(*ast.IndexExpr)
			return ok && core.VarOf(info, ix.X) == acc && core.VarOf(info, ix.Index) == iv
		}})
	}
	for _, gl := range groupLoops {
		ast.Inspect(gl.body, func(n ast.Node) bool {
			as, ok := n.(*ast.AssignStmt)
			if !ok || len(as.Rhs) != 1 {
				return true
			}
			c, ok := as.Rhs[0].(*ast.CallExpr)
			if !ok || core.CalleeName(info, c) != "builtin.append" || len(c.Args) != 2 {
				return true
			}
			conv, ok := c.Args[1].(*ast.CallExpr)
			if !ok || len(conv.Args) != 1 || !gl.isElem(conv.Args[0]) {
				return true
			}
			if tv, ok := info.Types[conv.Fun]; !ok || !tv.IsType() {
				return true
			}
			rpos = as.Pos()
			// facts about the element at the append: only len(elem) >= 1
			okResult = true
			bc := &boundsCtx{f: split, g: g, info: info}
			for _, f := range g.FactsAt(g.PointOf(as)) {
				mentions := false
				ast.Inspect(f.Cond, func(m ast.Node) bool {
					if e, isExpr := m.(ast.Expr); isExpr && gl.isElem(e) {
						mentions = true
					}
					return !mentions
				})
				if !mentions {
					continue
				}
				if lb, ok := bc.lenLowerBound(f, conv.Args[0]); !ok || lb != 1 {
					okResult = false
				}
			}
			return true
		})
	}
	r.Check(okResult, rule, split, "result keeps every non-empty group whole", rpos,
		"`entries = append(entries, string(s))` guarded by nothing stronger than len(s) > 0", "the result loop drops or truncates non-empty groups")
}

// globalWrites lists statements of f that write package-level variables.
func globalWrites(f *core.Func) []ast.Node {
	info := f.Info()
	var out []ast.Node
	isGlobal := func(e ast.Expr) bool {
		for {
			e = ast.Unparen(e)
			switch x := e.(type) {
			case *ast.SelectorExpr:
				if _, isPkg := info.ObjectOf(identOf(x.X)).(*types.PkgName); isPkg {
					v, ok := info.ObjectOf(x.Sel).(*types.Var)
					return ok && !v.IsField()
				}
				e = x.X
				continue
			case *ast.IndexExpr:
				e = x.X
				continue
			case *ast.StarExpr:
				e = x.X
				continue
			case *ast.Ident:
				v, ok := info.ObjectOf(x).(*types.Var)
				return ok && !v.IsField() && v.Pkg() != nil && v.Parent() == v.Pkg().Scope()
			}
			return false
		}
	}
	ast.Inspect(f.Body, func(n ast.Node) bool {
		if lit, ok := n.(*ast.FuncLit); ok && lit != f.Lit {
			return false
		}
		switch x := n.(type) {
		case *ast.AssignStmt:
			for _, l := range x.Lhs {
				if isGlobal(l) {
					out = append(out, x)
					break
				}
			}
		case *ast.IncDecStmt:
			if isGlobal(x.X) {
				out = append(out, x)
			}
		case *ast.CallExpr:
			// a mutating method of a synchronised container at package level (a cache) is a write as well
			if syncMutators[core.CalleeName(info, x)] {
				if rcv := recvOf(x); rcv != nil && isGlobal(rcv) {
					out = append(out, x)
				}
			}
			if core.CalleeName(info, x) == "builtin.delete" && len(x.Args) > 0 && isGlobal(x.Args[0]) {
				out = append(out, x)
			}
		}
		return true
	})
	return out
}

func identOf(e ast.Expr) *ast.Ident {
	id, _ := ast.Unparen(e).(*ast.Ident)
	if id == nil {
		return &ast.Ident{Name: "_"}
	}
	return id
}

func c19R2(p *core.Program, r *core.Report) {
	const rule = "R2"
	r.Floor(rule, 2)
	n := 0
	for _, f := range p.Funcs() {
		if core.RelPkg(f.Pkg.PkgPath) != "pkg/camelcase" {
			continue
		}
		n++
		for _, w := range globalWrites(f) {
			r.Bad(rule, f, "write to package-level state: "+core.ExprStr(w), w.Pos(), "a converter that mutates package-level state is not a pure function of its input")
		}
	}
	r.OK(rule, nil, "no package-level writes in pkg/camelcase function bodies", token.NoPos, itoa(int64(n))+" function bodies scanned")
	// ... and no state that outlives a call in the closures the converters are: a function literal that is returned (or
	// stored in a package-level variable) must not write - by assignment or by a mutating method of a sync type - a
	// variable of the function that made it: that variable lives as long as the converter
	nlit := 0
	for _, f := range p.Funcs() {
		if core.RelPkg(f.Pkg.PkgPath) != "pkg/camelcase" || f.Lit == nil || f.Parent == nil {
			continue
		}
		nlit++
		info := f.Info()
		captured := func(e ast.Expr) *types.Var {
			for {
				switch x := ast.Unparen(e).(type) {
				case *ast.SelectorExpr:
					e = x.X
					continue
				case *ast.IndexExpr:
					e = x.X
					continue
				case *ast.StarExpr:
					e = x.X
					continue
				case *ast.UnaryExpr:
					e = x.X
					continue
				case *ast.Ident:
					v, _ := info.ObjectOf(x).(*types.Var)
					if v == nil || v.IsField() || core.DeclaredIn(info, f.Body, v) || isParamOf(f, v) {
						return nil
					}
					if v.Pkg() != nil && v.Parent() == v.Pkg().Scope() {
						return nil // package level: reported above
					}
					return v
				}
				return nil
			}
		}
		ast.Inspect(f.Body, func(m ast.Node) bool {
			switch x := m.(type) {
			case *ast.AssignStmt:
				if x.Tok == token.DEFINE {
					return true
				}
				for _, l := range x.Lhs {
					if v := captured(l); v != nil {
						r.Bad(rule, f, "a converter writes state that outlives the call: "+core.ExprStr(x), x.Pos(), "`"+v.Name()+"` belongs to the function that made the converter and lives as long as it: what a call returns depends on the calls before it")
					}
				}
			case *ast.IncDecStmt:
				if v := captured(x.X); v != nil {
					r.Bad(rule, f, "a converter writes state that outlives the call: "+core.ExprStr(x), x.Pos(), "`"+v.Name()+"` lives as long as the converter")
				}
			case *ast.CallExpr:
				if mutatingSyncMethods[core.CalleeName(info, x)] {
					if v := captured(recvOf(x)); v != nil {
						r.Bad(rule, f, "a converter fills a memo that outlives the call: "+core.ExprStr(x.Fun), x.Pos(), "`"+v.Name()+"` is shared by all calls of the converter: an entry made by one call answers for the next (a word converted first at position 0 keeps that form at every other position)")
					}
				}
			}
			return true
		})
	}
	r.OK(rule, nil, "no converter closure writes a variable of its maker", token.NoPos, itoa(int64(nlit))+" function literals scanned")
	// the stateful Caser must be built per call
	pkg := p.Pkg("pkg/camelcase")
	found := 0
	for _, file := range pkg.Syntax {
		ast.Inspect(file, func(node ast.Node) bool {
			call, ok := node.(*ast.CallExpr)
			if !ok || core.CalleeName(pkg.TypesInfo, call) != "golang.org/x/text/cases.Title" {
				return true
			}
			found++
			f := p.EnclosingFunc(pkg, call.Pos())
			r.Check(f != nil, rule, f, "cases.Title(...) is built inside the per-call closure", call.Pos(),
				"the Caser is created on every call", "cases.Title(...) is evaluated once at package initialisation and the (stateful, not concurrency-safe) Caser is shared by all calls")
			return true
		})
	}
	if found == 0 {
		r.Note("no cases.Title call in pkg/camelcase")
	}
	// no package-level variable of a Caser type
	for _, name := range pkg.Types.Scope().Names() {
		if v, ok := pkg.Types.Scope().Lookup(name).(*types.Var); ok {
			if core.NamedTypeName(v.Type()) == "golang.org/x/text/cases.Caser" {
				r.Bad(rule, nil, "package-level Caser "+name, v.Pos(), "a shared x/text Caser is stateful; converters using it are not pure under concurrent use")
			}
		}
	}
}
