package rules

import (
	"go/ast"
	"go/token"
	"go/types"

	"gengoverif/checker/internal/cfgx"
	"gengoverif/checker/internal/core"
)

// c14R14: "no panic": the iterators of the resolver are driven by ast.Inspect, and a walk of ast.Inspect cannot be
// stopped - answering false only prunes the children, the next return statement calls yield again. A yield called after
// it answered false is a runtime panic ("range function continued iteration after function for loop body returned
// false"). The resolver is therefore correct only as long as nobody stops its iterators: every loop that ranges over an
// iterator function in the code reached from ResultsOf runs to the end, or leaves only because its OWN consumer stopped
// (`if !yield(x) { return }` - which moves the question to that consumer). A loop that leaves for a reason of its own
// (a cap, a first match) is reported.
func c14R14(p *core.Program, r *core.Report, fs []*core.Func) {
	const rule = "R14"
	r.Floor(rule, 4)
	isIterFunc := func(t types.Type) bool {
		if t == nil {
			return false
		}
		sig, ok := t.Underlying().(*types.Signature)
		if !ok || sig.Params().Len() != 1 || sig.Results().Len() != 0 {
			return false
		}
		y, ok := sig.Params().At(0).Type().Underlying().(*types.Signature)
		return ok && y.Results().Len() == 1 && types.Identical(y.Results().At(0).Type(), types.Typ[types.Bool])
	}
	for _, f := range fs {
		if f.Body == nil {
			continue
		}
		info := f.Info()
		// the function's own yield parameter, when it is an iterator body
		var yield *types.Var
		if f.Type != nil && f.Type.Params != nil {
			for _, fld := range f.Type.Params.List {
				for _, nm := range fld.Names {
					if v, _ := info.ObjectOf(nm).(*types.Var); v != nil {
						if sig, ok := v.Type().Underlying().(*types.Signature); ok && sig.Results().Len() == 1 && types.Identical(sig.Results().At(0).Type(), types.Typ[types.Bool]) {
							yield = v
						}
					}
				}
			}
		}
		var g *cfgx.G
		var loops []*ast.RangeStmt
		ast.Inspect(f.Body, func(n ast.Node) bool {
			if _, isLit := n.(*ast.FuncLit); isLit {
				return false
			}
			if rs, ok := n.(*ast.RangeStmt); ok && isIterFunc(info.TypeOf(rs.X)) {
				loops = append(loops, rs)
			}
			return true
		})
		for _, rs := range loops {
			if g == nil {
				g = graph(f)
			}
			why := ""
			var at token.Pos
			// exits of the loop body: return, goto, break / continue that target this loop's outside
			var walk func(n ast.Node, depthLoop, depthBreakable int)
			walk = func(n ast.Node, depthLoop, depthBreakable int) {
				if n == nil {
					return
				}
				switch x := n.(type) {
				case *ast.FuncLit:
					return
				case *ast.ForStmt:
					walk(x.Body, depthLoop+1, depthBreakable+1)
					return
				case *ast.RangeStmt:
					walk(x.Body, depthLoop+1, depthBreakable+1)
					return
				case *ast.SwitchStmt:
					walk(x.Body, depthLoop, depthBreakable+1)
					return
				case *ast.TypeSwitchStmt:
					walk(x.Body, depthLoop, depthBreakable+1)
					return
				case *ast.SelectStmt:
					walk(x.Body, depthLoop, depthBreakable+1)
					return
				case *ast.ReturnStmt, *ast.BranchStmt:
					leaves := false
					if _, isRet := x.(*ast.ReturnStmt); isRet {
						leaves = true
					} else {
						b := x.(*ast.BranchStmt)
						switch {
						case b.Tok == token.GOTO:
							leaves = true
						case b.Label != nil && (b.Tok == token.BREAK || b.Tok == token.CONTINUE):
							// a label: leaves unless it names a statement inside this loop's body
							inside := false
							ast.Inspect(rs.Body, func(m ast.Node) bool {
								if ls, ok := m.(*ast.LabeledStmt); ok && ls.Label.Name == b.Label.Name {
									inside = true
								}
								return true
							})
							if b.Tok == token.CONTINUE {
								if ls, ok := parentOf(f.Body, rs).(*ast.LabeledStmt); ok && ls.Label.Name == b.Label.Name {
									inside = true // continue of this very loop
								}
							}
							leaves = !inside
						case b.Tok == token.BREAK && depthBreakable == 0:
							leaves = true
						}
					}
					if !leaves || why != "" {
						return
					}
					// ... because the function's own consumer stopped? (its yield answered false - the function's own parameter
					// or the captured one of the iterator it is nested in - or a local closure that reports just that did)
					own := false
					for _, fct := range g.FactsAt(g.PointOf(x.(ast.Stmt))) {
						if c, isCall := ast.Unparen(fct.Cond).(*ast.CallExpr); isCall && !fct.Val && fct.Tag == nil {
							if v := core.VarOf(info, c.Fun); v != nil && (v == yield || isYieldParam(f.Root(), v) || reportsStop(p, f.Root(), v, 0)) {
								own = true
							}
							// a function of the package that forwards a sequence to the yield it is handed and reports whether to go on
							if h := p.FuncOfObj(core.CalleeFunc(info, c)); h != nil && h.Decl != nil && forwardsAndReportsStop(h) {
								for _, a := range c.Args {
									if av := core.VarOf(info, a); av != nil && (av == yield || isYieldParam(f.Root(), av)) {
										own = true
									}
								}
							}
						}
					}
					if !own {
						why, at = "`"+core.ExprStr(x)+"` leaves the loop over `"+core.ExprStr(rs.X)+"` for a reason of its own", x.Pos()
					}
					return
				}
				// generic descent over statements
				switch x := n.(type) {
				case *ast.BlockStmt:
					for _, s := range x.List {
						walk(s, depthLoop, depthBreakable)
					}
				case *ast.IfStmt:
					walk(x.Body, depthLoop, depthBreakable)
					walk(x.Else, depthLoop, depthBreakable)
				case *ast.CaseClause:
					for _, s := range x.Body {
						walk(s, depthLoop, depthBreakable)
					}
				case *ast.CommClause:
					for _, s := range x.Body {
						walk(s, depthLoop, depthBreakable)
					}
				case *ast.LabeledStmt:
					walk(x.Stmt, depthLoop, depthBreakable)
				}
			}
			walk(rs.Body, 0, 0)
			if at == token.NoPos {
				at = rs.Pos()
			}
			r.Check(why == "", rule, f, "loop over an iterator runs to the end or stops with its own consumer: range "+core.ExprStr(rs.X), at,
				"every exit of the body is behind the function's own yield having answered false",
				why+": the return-statement iterator is driven by ast.Inspect, which cannot be stopped - the walk goes on to the next return statement and calls yield after it answered false, a runtime panic (and a list cut short is not the declared alternatives)")
		}
	}
}

// isYieldParam: v is a parameter of func(...) bool type of the function or of a literal nested in it.
func isYieldParam(root *core.Func, v *types.Var) bool {
	sig, ok := v.Type().Underlying().(*types.Signature)
	if !ok || sig.Results().Len() != 1 || !types.Identical(sig.Results().At(0).Type(), types.Typ[types.Bool]) {
		return false
	}
	found := false
	info := root.Info()
	ast.Inspect(root.Node(), func(n ast.Node) bool {
		ft, isFT := n.(*ast.FuncType)
		if !isFT || ft.Params == nil {
			return true
		}
		for _, fld := range ft.Params.List {
			for _, nm := range fld.Names {
				if info.ObjectOf(nm) == types.Object(v) {
					found = true
				}
			}
		}
		return true
	})
	return found
}

// reportsStop: v is a local closure that answers false only because a yield (or another such closure) answered false:
// every `return false` of it is behind that, every other return is `return true`.
func reportsStop(p *core.Program, root *core.Func, v *types.Var, depth int) bool {
	if depth > 2 {
		return false
	}
	info := root.Info()
	d, ok := core.SingleDef(info, root.Body, v)
	if !ok {
		return false
	}
	lit, isLit := ast.Unparen(d.Rhs).(*ast.FuncLit)
	if !isLit {
		return false
	}
	lf := p.FuncOfLit(lit)
	if lf == nil {
		return false
	}
	g := graph(lf)
	good := true
	nFalse := 0
	ast.Inspect(lit.Body, func(n ast.Node) bool {
		if inner, isInner := n.(*ast.FuncLit); isInner && inner != lit {
			return false
		}
		ret, isRet := n.(*ast.ReturnStmt)
		if !isRet {
			return true
		}
		if len(ret.Results) != 1 {
			good = false
			return true
		}
		tv, isConst := info.Types[ret.Results[0]]
		if !isConst || tv.Value == nil {
			good = false
			return true
		}
		if tv.Value.String() == "true" {
			return true
		}
		nFalse++
		behind := false
		for _, fct := range g.FactsAt(g.PointOf(ret)) {
			if c, isCall := ast.Unparen(fct.Cond).(*ast.CallExpr); isCall && !fct.Val && fct.Tag == nil {
				if cv := core.VarOf(info, c.Fun); cv != nil && (isYieldParam(root, cv) || reportsStop(p, root, cv, depth+1)) {
					behind = true
				}
			}
		}
		if !behind {
			good = false
		}
		return true
	})
	return good && nFalse > 0
}

// forwardsAndReportsStop: a declared function with a yield parameter whose every `return false` is behind that yield
// having answered false and whose other returns are `return true`.
func forwardsAndReportsStop(h *core.Func) bool {
	if h.Body == nil || h.Type.Results == nil || len(h.Type.Results.List) != 1 {
		return false
	}
	info := h.Info()
	g := graph(h)
	good, nFalse := true, 0
	ast.Inspect(h.Body, func(n ast.Node) bool {
		if _, isLit := n.(*ast.FuncLit); isLit {
			return false
		}
		ret, isRet := n.(*ast.ReturnStmt)
		if !isRet {
			return true
		}
		if len(ret.Results) != 1 {
			good = false
			return true
		}
		tv, isConst := info.Types[ret.Results[0]]
		if !isConst || tv.Value == nil {
			good = false
			return true
		}
		if tv.Value.String() == "true" {
			return true
		}
		nFalse++
		behind := false
		for _, fct := range g.FactsAt(g.PointOf(ret)) {
			if c, isCall := ast.Unparen(fct.Cond).(*ast.CallExpr); isCall && !fct.Val && fct.Tag == nil {
				if cv := core.VarOf(info, c.Fun); cv != nil && isYieldParam(h, cv) {
					behind = true
				}
			}
		}
		if !behind {
			good = false
		}
		return true
	})
	return good && nFalse > 0
}

// c14R15: "each alternative being a constant or a type assignable to the declared result type": the type of an
// alternative is what the type checker answered for an expression or object of the function at hand - a forwarded
// Result/TypeAndValue (`ret.Type`), an object's or variable's Type(), TypeOf(expr). A type made up in the resolver
// (an entry of types.Typ, a types.New... constructor, a Universe lookup) is related to the declared result type by
// nothing: `untyped nil` for a never-assigned named result is wrong as soon as the result is a type parameter.
func c14R15(p *core.Program, r *core.Report, fs []*core.Func) {
	const rule = "R15"
	r.Floor(rule, 4)
	for _, f := range fs {
		if f.Body == nil {
			continue
		}
		info := f.Info()
		ast.Inspect(f.Body, func(n ast.Node) bool {
			if _, isLit := n.(*ast.FuncLit); isLit {
				return false // literals are functions of their own in fs
			}
			cl, ok := n.(*ast.CompositeLit)
			if !ok || core.NamedTypeName(info.TypeOf(cl)) != core.G("pkg/types.Result") {
				return true
			}
			for _, el := range cl.Elts {
				kv, isKV := el.(*ast.KeyValueExpr)
				if !isKV || identOf(kv.Key) == nil || identOf(kv.Key).Name != "Type" {
					continue
				}
				e, _ := core.Resolve(info, f.Root().Body, kv.Value)
				e = ast.Unparen(e)
				from := ""
				switch x := e.(type) {
				case *ast.SelectorExpr:
					if x.Sel.Name == "Type" {
						from = "forwarded " + core.ExprStr(x)
					}
				case *ast.CallExpr:
					name := core.CalleeName(info, x)
					switch {
					case len(name) > 6 && name[len(name)-6:] == ").Type":
						from = "Type() of " + core.ExprStr(recvOf(x))
					case len(name) > 8 && name[len(name)-8:] == ".TypeOf" || len(name) > 8 && name[len(name)-8:] == ").TypeOf":
						from = "TypeOf"
					}
				}
				r.Check(from != "", rule, f, "an alternative's type is the type checker's answer: "+core.ExprStr(kv.Value), kv.Pos(), from,
					"`"+core.ExprStr(e)+"` is a type made up in the resolver, not the checker's answer for an expression or object of the function: nothing relates it to the declared result type (untyped nil for a result whose type is a type parameter is not assignable to it)")
			}
			return true
		})
	}
}
