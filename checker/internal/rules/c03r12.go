package rules

import (
	"go/ast"
	"go/token"
	"go/types"
	"strings"

	"gengoverif/checker/internal/cfgx"
	"gengoverif/checker/internal/core"
)

// c03R12: "none unused". Asking the namer for a name registers the package with the import tracker, and the tracker
// never forgets. So in the printers of values and types, the text obtained from a registering call (the namer, or a
// printer that reaches it) must end up in what the function returns, on every path: a path that registers and then
// returns something else leaves an import that nothing references.
//
// The rule follows the text through its holders: the variable or buffer it is put into, and the ones that one is put
// into. Paths on which a holder is known to be empty are not followed (nothing was registered for an empty rendering,
// which is this very rule applied to the callee), and a return under `n == 0` is accepted when every write into the
// holder is counted by `n++` in the same block.
func c03R12(p *core.Program, r *core.Report) {
	const rule = "R12"
	r.Floor(rule, 6)
	const rel = "pkg/gengo/internal"
	namerName := "(" + core.G("pkg/namer.Namer") + ").Name"
	// the registering functions of the package: they call the namer, or one that does
	reg := map[*types.Func]bool{}
	for changed := true; changed; {
		changed = false
		for _, f := range p.Funcs() {
			if core.RelPkg(f.Pkg.PkgPath) != rel || f.Root().Obj() == nil || reg[f.Root().Obj()] || f.Body == nil {
				continue
			}
			for _, c := range core.Calls(f.Body, true) {
				if core.CalleeName(f.Info(), c) == namerName || reg[core.CalleeFunc(f.Info(), c)] {
					reg[f.Root().Obj()] = true
					changed = true
				}
			}
		}
	}
	if len(reg) == 0 {
		r.Anchor(rule, "functions of "+rel+" that reach Namer.Name")
		return
	}
	for _, f := range p.Funcs() {
		if core.RelPkg(f.Pkg.PkgPath) != rel || f.Body == nil {
			continue
		}
		info := f.Info()
		for _, c := range core.Calls(f.Body, true) {
			if !reg[core.CalleeFunc(info, c)] && core.CalleeName(info, c) != namerName {
				continue
			}
			if t := info.TypeOf(c); t == nil || !isBasicKind(t, types.String) {
				continue
			}
			rt := &regText{p: p, r: r, rule: rule, f: f, info: info, g: graph(f), seen: map[string]bool{}}
			rt.fromCall(c)
		}
	}
}

type regText struct {
	p    *core.Program
	r    *core.Report
	rule string
	f    *core.Func
	info *types.Info
	g    *cfgx.G
	seen map[string]bool
	call *ast.CallExpr
}

// wraps: calls whose result contains their (string) arguments.
var wrapCallees = map[string]bool{"fmt.Sprintf": true, "fmt.Sprint": true, "bytes.NewBufferString": true, "strings.Join": true, "strings.Repeat": true, "strings.TrimSpace": true, "builtin.append": true}

// intoCallees: calls that write their arguments into their first argument / receiver.
func (rt *regText) writesInto(c *ast.CallExpr) ast.Expr {
	name := core.CalleeName(rt.info, c)
	switch {
	case (name == "fmt.Fprintf" || name == "fmt.Fprint" || name == "fmt.Fprintln" || name == "io.WriteString") && len(c.Args) >= 2:
		return c.Args[0]
	case strings.HasSuffix(name, ").WriteString") || strings.HasSuffix(name, ").Write") || strings.HasSuffix(name, ").WriteByte") || strings.HasSuffix(name, ").WriteRune"):
		return recvOf(c)
	}
	return nil
}

func (rt *regText) fromCall(c *ast.CallExpr) {
	rt.call = c
	construct := "the text of " + core.ExprStr(c.Fun) + "(...) reaches the result"
	path := core.PathTo(rt.f.Body, c)
	var top ast.Node = c
	for k := len(path) - 2; k >= 0; k-- {
		switch x := path[k].(type) {
		case *ast.ParenExpr:
			top = x
			continue
		case *ast.KeyValueExpr:
			if x.Value == top {
				top = x
				continue
			}
		case *ast.CompositeLit:
			top = x // the text is an element of a literal: the literal holds it
			continue
		case *ast.UnaryExpr:
			if x.Op == token.AND {
				top = x
				continue
			}
		case *ast.BinaryExpr:
			if x.Op == token.ADD {
				top = x
				continue
			}
		case *ast.CallExpr:
			isArg := false
			for _, a := range x.Args {
				if a == top {
					isArg = true
				}
			}
			if tv, ok := rt.info.Types[x.Fun]; ok && tv.IsType() && isArg {
				top = x
				continue
			}
			if isArg && wrapCallees[core.CalleeName(rt.info, x)] {
				top = x
				continue
			}
			if isArg {
				if dst := rt.writesInto(x); dst != nil && dst != top {
					if v := core.VarOf(rt.info, dst); v != nil {
						rt.holder(v, x, construct, 0)
						return
					}
				}
				if fv := core.VarOf(rt.info, x.Fun); fv != nil {
					rt.r.OK(rt.rule, rt.f, construct, c.Pos(), "handed to "+fv.Name()+"(...)")
					return
				}
				if reg := core.CalleeFunc(rt.info, x); reg != nil && rt.p.FuncOfObj(reg) != nil {
					// an argument of another function of the library: not followed
					rt.r.OK(rt.rule, rt.f, construct, c.Pos(), "passed on to "+reg.Name())
					return
				}
			}
		case *ast.ReturnStmt:
			rt.r.OK(rt.rule, rt.f, construct, c.Pos(), "returned")
			return
		case *ast.AssignStmt:
			for i, rhs := range x.Rhs {
				if rhs == top && i < len(x.Lhs) && len(x.Lhs) == len(x.Rhs) {
					if v := core.VarOf(rt.info, x.Lhs[i]); v != nil {
						rt.holder(v, x, construct, 0)
						return
					}
				}
			}
		case *ast.ValueSpec:
			for i, rhs := range x.Values {
				if rhs == top && i < len(x.Names) {
					if v, ok := rt.info.ObjectOf(x.Names[i]).(*types.Var); ok {
						rt.holder(v, path[k-1], construct, 0)
						return
					}
				}
			}
		}
		break
	}
	rt.r.Unknown(rt.rule, rt.f, construct, c.Pos(), "the name is obtained (and its package registered) in a position the rule does not follow: it cannot tell whether the text is used")
}

// emptyEdge: the edge on which holder v is known to be empty.
func (rt *regText) emptyEdge(v *types.Var) func(b *cfgBlock, k int) bool {
	return func(b *cfgBlock, k int) bool {
		if len(b.Succs) != 2 || len(b.Nodes) == 0 {
			return false
		}
		e, ok := b.Nodes[len(b.Nodes)-1].(ast.Expr)
		if !ok {
			return false
		}
		for _, a := range cfgx.Atoms(e, k == 0) {
			if rt.saysEmpty(a, v) {
				return true
			}
		}
		return false
	}
}

func (rt *regText) saysEmpty(a cfgx.Fact, v *types.Var) bool {
	if a.Tag != nil {
		return false
	}
	b, ok := ast.Unparen(a.Cond).(*ast.BinaryExpr)
	if !ok {
		return false
	}
	eq := (b.Op == token.EQL && a.Val) || (b.Op == token.NEQ && !a.Val)
	if !eq {
		return false
	}
	if core.VarOf(rt.info, b.X) == v && constStrIs(rt.info, b.Y, "") {
		return true
	}
	if k, isC := core.ConstInt(rt.info, b.Y); isC && k == 0 {
		if c, isCall := ast.Unparen(b.X).(*ast.CallExpr); isCall {
			name := core.CalleeName(rt.info, c)
			if name == "builtin.len" && len(c.Args) == 1 && core.VarOf(rt.info, c.Args[0]) == v {
				return true
			}
			if strings.HasSuffix(name, ").Len") && core.VarOf(rt.info, recvOf(c)) == v {
				return true
			}
		}
	}
	return false
}

// reads: the node uses the holder's content (not merely writes into it, redefines it or tests it for emptiness).
func (rt *regText) reads(n ast.Node, v *types.Var) bool {
	skip := map[ast.Node]bool{}
	ast.Inspect(n, func(m ast.Node) bool {
		switch x := m.(type) {
		case *ast.CallExpr:
			if dst := rt.writesInto(x); dst != nil && core.VarOf(rt.info, dst) == v {
				skip[ast.Unparen(dst)] = true
			}
			if core.CalleeName(rt.info, x) == "builtin.append" && len(x.Args) >= 1 && core.VarOf(rt.info, x.Args[0]) == v {
				skip[ast.Unparen(x.Args[0])] = true
			}
		case *ast.AssignStmt:
			for _, l := range x.Lhs {
				if core.VarOf(rt.info, l) == v {
					skip[ast.Unparen(l)] = true
				}
			}
		case *ast.BinaryExpr:
			for _, val := range []bool{true, false} {
				if rt.saysEmpty(cfgx.Fact{Cond: x, Val: val}, v) {
					ast.Inspect(x, func(mm ast.Node) bool { skip[mm] = true; return true })
				}
			}
		}
		return true
	})
	hit := false
	ast.Inspect(n, func(m ast.Node) bool {
		if _, ok := m.(*ast.FuncLit); ok {
			return false
		}
		if id, ok := m.(*ast.Ident); ok && !skip[m] && rt.info.ObjectOf(id) == types.Object(v) {
			hit = true
		}
		return !hit
	})
	return hit
}

// countedBy: the statement `at` (a write into the holder) is followed, in its own statement list and before anything
// can leave the list, by `n++`.
func (rt *regText) countedBy(at ast.Node, n *types.Var) bool {
	path := core.PathTo(rt.f.Body, at)
	for k := len(path) - 1; k >= 1; k-- {
		var list []ast.Stmt
		switch x := path[k-1].(type) {
		case *ast.BlockStmt:
			list = x.List
		case *ast.CaseClause:
			list = x.Body
		default:
			continue
		}
		after := false
		for _, s := range list {
			if s == path[k] {
				after = true
				continue
			}
			if !after {
				continue
			}
			switch x := s.(type) {
			case *ast.IncDecStmt:
				if x.Tok == token.INC && core.VarOf(rt.info, x.X) == n {
					return true
				}
			case *ast.BranchStmt, *ast.ReturnStmt:
				return false
			}
		}
		return false
	}
	return false
}

func (rt *regText) holder(v *types.Var, at ast.Node, construct string, depth int) {
	key := v.Name() + "@" + rt.p.Pos(at.Pos())
	if rt.seen[key] || depth > 5 {
		return
	}
	rt.seen[key] = true
	start := rt.g.PointOf(at)
	if !start.Valid() {
		rt.r.Unknown(rt.rule, rt.f, construct, at.Pos(), "statement not found in the control-flow graph")
		return
	}
	var spawn []ast.Node
	dropped := func(q cfgx.Point) bool {
		ret, ok := q.Node().(*ast.ReturnStmt)
		if !ok {
			return false
		}
		if rt.reads(ret, v) {
			return false
		}
		// `return ""` under n == 0, with this write counted by n++
		for _, fct := range rt.g.FactsAt(q) {
			b, isBin := ast.Unparen(fct.Cond).(*ast.BinaryExpr)
			if !isBin || fct.Tag != nil || !((b.Op == token.EQL && fct.Val) || (b.Op == token.NEQ && !fct.Val)) {
				continue
			}
			n := core.VarOf(rt.info, b.X)
			k, isC := core.ConstInt(rt.info, b.Y)
			if n == nil || !isC || k != 0 {
				continue
			}
			bc := &boundsCtx{f: rt.f, g: rt.g, info: rt.info}
			if lo, ok := bc.minStart(n); ok && lo == 0 && rt.countedBy(at, n) {
				return false
			}
		}
		return true
	}
	tp, lost := rt.g.Reach(start, false, cfgx.Query{
		CutEdge: rt.emptyEdge(v),
		Target:  dropped,
		Cut: func(q cfgx.Point) bool {
			n := q.Node()
			if n == nil {
				return false
			}
			if q.B == start.B && q.I == start.I {
				return true // the holder gets a new content
			}
			if rt.reads(n, v) {
				spawn = append(spawn, n)
				return true
			}
			if _, ok := n.(*ast.ReturnStmt); ok {
				return true
			}
			return false
		},
	})
	if lost {
		rt.r.Bad(rt.rule, rt.f, construct, rt.call.Pos(), "the text is put into `"+v.Name()+"`, and `"+core.ExprStr(tp.Node())+"` ("+rt.p.Pos(tp.Node().Pos())+") is reachable without `"+v.Name()+"` being used: the name was asked from the namer, its package is registered with the import tracker, and nothing in the rendered text references it - the generated file imports a package it does not use and fails to compile")
		return
	}
	// follow the text into the next holder
	followed := false
	for _, n := range spawn {
		ast.Inspect(n, func(m ast.Node) bool {
			switch x := m.(type) {
			case *ast.CallExpr:
				if dst := rt.writesInto(x); dst != nil {
					if w := core.VarOf(rt.info, dst); w != nil && w != v {
						for _, a := range x.Args {
							if core.Mentions(rt.info, a, v) {
								followed = true
								rt.holder(w, n, construct, depth+1)
							}
						}
					}
				}
			case *ast.AssignStmt:
				for i, l := range x.Lhs {
					if w := core.VarOf(rt.info, l); w != nil && w != v && i < len(x.Rhs) && len(x.Lhs) == len(x.Rhs) && core.Mentions(rt.info, x.Rhs[i], v) {
						followed = true
						rt.holder(w, n, construct, depth+1)
					}
				}
			}
			return true
		})
	}
	if depth == 0 || !followed {
		rt.r.OK(rt.rule, rt.f, construct+" (via "+v.Name()+")", rt.call.Pos(), "every path from the call uses the holder or passes the edge on which it is empty")
	}
}
