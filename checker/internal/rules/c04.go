package rules

import (
	"fmt"
	"go/ast"
	"go/token"
	"go/types"
	"sort"
	"strings"

	"gengoverif/checker/internal/cfgx"
	"gengoverif/checker/internal/core"
)

func init() {
	register(Property{
		ID:          "C04",
		Explanation: "Decided statically, exhaustively over the library: A2 every source of schedule-dependent order (range over a map, sync.Map.Range, reflect MapKeys/MapRange, maps.Keys/Values/All not directly under slices.Sorted, select, go statements, time, rand) is enumerated and must match an order-insensitive idiom that is verified structurally - I1 collect-then-sort (the loop only appends to a slice that is sorted before its first use on every path), I2 slices.Sorted(maps.Keys(m)), I3 only keyed stores/deletes whose key is the iteration key or the element itself, I4 flag loops (the only exits are under `key == <loop-invariant>`, all other assignments are constants), I5 per-element independent effects (calls whose operands derive from the element only, no loop-carried variable) - or a frozen exception with a written reason and a side condition that is itself checked on every run. An order source that matches nothing is 'undecided' and fails the check. R2 entrypoint order: in Load every store into the root-module / direct-package sets precedes every call of the registering closure (so 'local' never depends on which entrypoint came first), and the loops over the entrypoints only perform keyed stores. A2 accepts a sort only when it orders the elements by their own value (sort.Strings, slices.Sort/Sorted, the natural comparison spelled out): a custom comparator leaves ties in map order and keys such as token.Pos depend on the parse schedule. R3 own-output feedback - every method-set query (NumMethods/Method, NewMethodSet, LookupFieldOrMethod, Implements, MethodsOf) in a generator package is an obligation, because the generators add methods to the package they process and the next run type-checks the package with that output (one known finding: the deepcopy field helper). A2 also: every call evaluated inside a keyed-store loop over an unordered source must be order-free (no dynamic call, nothing concurrent, writes only to own locals, stateless library callees) - a keyed store is order-insensitive only if computing the stored value is. R4 package-level tags are merged over every file of the package (C06.R3), so the files a run adds do not change what the next run reads. R3 has one discharging idiom (ownOutputOverride): queries on one type variable in one loop bounded by the type's own methods, which only writes fields of one local record; an own-package flag defined once by the path comparison; every read of a scanned field after the loop is reached only through an overwrite that mentions neither a scanned field nor a query, or over an edge on which the flag is false or the type is an interface. R5/R6: the sums are recorded only by a complete run and written by nothing but Save (C02.R4/R5, C08.R2). NOT decided: that a second run changes nothing in general (generated files are themselves input of the next run and hashed into gengo.sum; R3 decides the one structural way a generator can see its own output, the method set); byte equality across process restarts beyond A2 (environmental inputs such as go list output are trusted). Round 8: R7 = C07.A1/R2 (nothing outside the inventory of file effects touches the file system, so the hashed directories change only through the writer and the stale-output removal).",
		Assumptions: append([]string{"the go command / go/packages return the same package graph for the same module contents", "log output on stdout (ordered by time and generator order) is not part of the generated files"}, commonAssumptions...),
		Run:         runC04,
	})
}

// elementVars: the range key/value variables plus locals defined (only) from them inside the body.
func elementVars(info *types.Info, rs *ast.RangeStmt) map[types.Object]bool {
	out := map[types.Object]bool{}
	for _, e := range []ast.Expr{rs.Key, rs.Value} {
		if e != nil {
			if v := core.VarOf(info, e); v != nil {
				out[v] = true
			}
		}
	}
	changed := true
	for changed {
		changed = false
		ast.Inspect(rs.Body, func(n ast.Node) bool {
			switch x := n.(type) {
			case *ast.AssignStmt:
				if x.Tok != token.DEFINE {
					return true
				}
				for i, l := range x.Lhs {
					v := core.VarOf(info, l)
					if v == nil || out[v] {
						continue
					}
					var rhs ast.Expr
					if len(x.Rhs) == len(x.Lhs) {
						rhs = x.Rhs[i]
					} else if len(x.Rhs) == 1 {
						rhs = x.Rhs[0]
					}
					if rhs != nil && core.MentionsAny(info, rhs, out) {
						out[v] = true
						changed = true
					}
				}
			case *ast.TypeSwitchStmt:
				if as, ok := x.Assign.(*ast.AssignStmt); ok && core.MentionsAny(info, as.Rhs[0], out) {
					for _, c := range x.Body.List {
						if o := info.Implicits[c]; o != nil && !out[o] {
							out[o] = true
							changed = true
						}
					}
				}
			}
			return true
		})
	}
	return out
}

// keyIsElement: the key of a keyed store identifies the element: the range
// key, or the element value itself / a type assertion of it.
func keyIsElement(info *types.Info, rs *ast.RangeStmt, key ast.Expr) bool {
	kv := core.VarOf(info, key)
	if kv == nil {
		// m[k] read as value is fine; composite keys are not accepted
		return false
	}
	for _, e := range []ast.Expr{rs.Key, rs.Value} {
		if e != nil && core.VarOf(info, e) == kv {
			return true
		}
	}
	// local defined as a type assertion / plain copy of the element
	d, ok := core.SingleDef(info, rs.Body, kv)
	if ok {
		e := ast.Unparen(d.Rhs)
		if ta, isTA := e.(*ast.TypeAssertExpr); isTA {
			e = ast.Unparen(ta.X)
		}
		for _, re := range []ast.Expr{rs.Key, rs.Value} {
			if re != nil && core.VarOf(info, e) == core.VarOf(info, re) && core.VarOf(info, e) != nil {
				return true
			}
		}
		// element looked up by the key: v := m[k]
		if ix, isIx := e.(*ast.IndexExpr); isIx && rs.Key != nil && core.VarOf(info, ix.Index) == core.VarOf(info, rs.Key) {
			return true
		}
	}
	return false
}

// keyedStoresInjective: every keyed store of the body uses an element-identifying key.
func keyedStoresInjective(info *types.Info, rs *ast.RangeStmt) (bool, string) {
	ok, why := true, ""
	ast.Inspect(rs.Body, func(n ast.Node) bool {
		as, isAs := n.(*ast.AssignStmt)
		if !isAs {
			return true
		}
		for _, l := range as.Lhs {
			ix, isIx := ast.Unparen(l).(*ast.IndexExpr)
			if !isIx || !isMapType(info.TypeOf(ix.X)) {
				continue
			}
			if !keyIsElement(info, rs, ix.Index) {
				ok, why = false, "store `"+core.ExprStr(as)+"` is keyed by `"+core.ExprStr(ix.Index)+"`, a derived (possibly non-injective) function of the element: when two elements map to the same key the iteration order decides which one stays"
			}
		}
		return true
	})
	return ok, why
}

// i4Flag: exits only under key == invariant, other assignments constants.
func i4Flag(f *core.Func, rs *ast.RangeStmt) (bool, string) {
	info := f.Info()
	g := graph(f)
	elems := elementVars(info, rs)
	ok, why := true, ""
	sawExit := false
	existsSig := ""
	var keyedExits []ast.Node
	ast.Inspect(rs.Body, func(n ast.Node) bool {
		switch x := n.(type) {
		case *ast.FuncLit:
			return false
		case *ast.ReturnStmt, *ast.BranchStmt:
			if b, isB := x.(*ast.BranchStmt); isB && b.Tok == token.CONTINUE {
				return true
			}
			sawExit = true
			keyed := false
			for _, fct := range g.FactsAt(g.PointOf(x)) {
				if !(rs.Body.Pos() <= fct.Cond.Pos() && fct.Cond.End() <= rs.Body.End()) {
					continue
				}
				b, isBin := ast.Unparen(fct.Cond).(*ast.BinaryExpr)
				if !isBin || !((b.Op == token.EQL && fct.Val) || (b.Op == token.NEQ && !fct.Val)) {
					continue
				}
				keySide := rs.Key != nil && (core.VarOf(info, b.X) == core.VarOf(info, rs.Key) || core.VarOf(info, b.Y) == core.VarOf(info, rs.Key))
				otherInv := !core.MentionsAny(info, b.X, elems) || !core.MentionsAny(info, b.Y, elems)
				if keySide && otherInv {
					keyed = true
				}
			}
			if keyed {
				keyedExits = append(keyedExits, x)
			}
			if !keyed {
				// "exists" loop: leaving on any element-dependent condition is fine when what the exit yields does
				// not depend on the element: a `return` of constants (the same at every such exit) or a plain `break`
				// (the assignments of the loop are checked to be constants below)
				sig := ""
				switch y := x.(type) {
				case *ast.ReturnStmt:
					sig = "return"
					for _, res := range y.Results {
						tv := info.Types[res]
						if tv.Value == nil {
							sig = ""
							break
						}
						sig += " " + tv.Value.ExactString()
					}
				case *ast.BranchStmt:
					if y.Tok == token.BREAK && y.Label == nil {
						sig = "break"
					}
				}
				if sig == "" || (existsSig != "" && existsSig != sig) {
					ok, why = false, "the loop is left (`"+core.ExprStr(x)+"`) on a condition other than `key == <loop-invariant>` with an element-dependent (or differing) result: which element triggers the exit depends on the iteration order"
				} else {
					existsSig = sig
				}
			}
		case *ast.AssignStmt:
			if x.Tok == token.DEFINE {
				return true
			}
			for i, l := range x.Lhs {
				if v := core.VarOf(info, l); v != nil && !elems[v] && i < len(x.Rhs) {
					// allowed: constants; or values computed from the element when followed by the keyed exit (same statement list)
					if tv := info.Types[x.Rhs[i]]; tv.Value != nil {
						continue
					}
					// assignment dominated by the unique-key match
					keyed := false
					for _, fct := range g.FactsAt(g.PointOf(x)) {
						if !(rs.Body.Pos() <= fct.Cond.Pos() && fct.Cond.End() <= rs.Body.End()) {
							continue
						}
						b, isBin := ast.Unparen(fct.Cond).(*ast.BinaryExpr)
						if isBin && b.Op == token.EQL && fct.Val && rs.Key != nil && (core.VarOf(info, b.X) == core.VarOf(info, rs.Key) || core.VarOf(info, b.Y) == core.VarOf(info, rs.Key)) {
							keyed = true
						}
					}
					if !keyed {
						ok, why = false, "`"+core.ExprStr(x)+"` assigns an element-dependent value to an outer variable: the last iteration wins"
					}
				}
			}
		case *ast.ExprStmt:
			if c, isC := x.X.(*ast.CallExpr); isC && core.CalleeName(info, c) != "builtin.delete" {
				ok, why = false, "the flag loop has an effect `"+core.ExprStr(x)+"`"
			}
		}
		return true
	})
	_ = sawExit
	// an "exists" exit next to a unique-key exit is only order-independent when both yield the same constants
	if ok && existsSig != "" {
		for _, x := range keyedExits {
			sig := ""
			if y, isRet := x.(*ast.ReturnStmt); isRet {
				sig = "return"
				for _, res := range y.Results {
					tv := info.Types[res]
					if tv.Value == nil {
						sig = "?"
						break
					}
					sig += " " + tv.Value.ExactString()
				}
			} else if b, isB := x.(*ast.BranchStmt); isB && b.Tok == token.BREAK && b.Label == nil {
				sig = "break"
			}
			if sig != existsSig {
				ok, why = false, "the loop is left both for the unique key (`"+core.ExprStr(x)+"`) and for any matching element ("+existsSig+") with different results: whichever the map yields first decides"
			}
		}
	}
	return ok, why
}

// i5Independent: per-element independent effects.
func i5Independent(f *core.Func, rs *ast.RangeStmt) (bool, string) {
	info := f.Info()
	elems := elementVars(info, rs)
	ok, why := true, ""
	// `firstErr = err; break` (err being the error of this element's own effect) is the error return
	// of the loop, spelled for a callback: both statements are accepted as one exit
	exitPair := map[ast.Node]bool{}
	ast.Inspect(rs.Body, func(n ast.Node) bool {
		var list []ast.Stmt
		switch x := n.(type) {
		case *ast.FuncLit:
			return false
		case *ast.BlockStmt:
			list = x.List
		case *ast.CaseClause:
			list = x.Body
		}
		for i := 0; i+1 < len(list); i++ {
			as, isAs := list[i].(*ast.AssignStmt)
			br, isBr := list[i+1].(*ast.BranchStmt)
			if !isAs || !isBr || br.Tok != token.BREAK || br.Label != nil || as.Tok != token.ASSIGN || len(as.Lhs) != 1 || len(as.Rhs) != 1 {
				continue
			}
			lv, rv := core.VarOf(info, as.Lhs[0]), core.VarOf(info, as.Rhs[0])
			if lv != nil && rv != nil && isErrorType(lv.Type()) && isErrorType(rv.Type()) && core.DeclaredIn(info, rs.Body, rv) {
				exitPair[as], exitPair[br] = true, true
			}
		}
		return true
	})
	// variables written in the body that are declared outside the loop
	ast.Inspect(rs.Body, func(n ast.Node) bool {
		if exitPair[n] {
			return false
		}
		switch x := n.(type) {
		case *ast.FuncLit:
			return false
		case *ast.AssignStmt:
			if x.Tok == token.DEFINE {
				return true
			}
			for _, l := range x.Lhs {
				if id, isID := l.(*ast.Ident); isID && id.Name == "_" {
					continue
				}
				if v := core.VarOf(info, l); v != nil && !core.DeclaredIn(info, rs.Body, v) {
					ok, why = false, "`"+core.ExprStr(x)+"` writes a variable that lives across iterations (loop-carried dependence)"
				}
				if _, isIx := ast.Unparen(l).(*ast.IndexExpr); isIx {
					ok, why = false, "`"+core.ExprStr(x)+"` stores into a container inside an effect loop"
				}
			}
		case *ast.IncDecStmt:
			ok, why = false, "counter `"+core.ExprStr(x)+"` carried across iterations"
		case *ast.BranchStmt:
			if x.Tok != token.CONTINUE {
				ok, why = false, "the loop is left by `"+x.Tok.String()+"`: which element ends it depends on the iteration order"
			}
		case *ast.ReturnStmt:
			// only the propagation of an error produced by this element's own effect
			propagates := false
			for _, res := range x.Results {
				if v := core.VarOf(info, res); v != nil && isErrorType(v.Type()) && core.DeclaredIn(info, rs.Body, v) {
					propagates = true
				}
			}
			if !propagates {
				ok, why = false, "`"+core.ExprStr(x)+"` leaves the loop with a value that is not the error of this element's own effect: which element ends the loop depends on the iteration order"
			}
		case *ast.CallExpr:
			name := core.CalleeName(info, x)
			if name == "builtin.delete" {
				// the struck set is keyed by the element
				if len(x.Args) == 2 && !core.MentionsAny(info, x.Args[1], elems) {
					ok, why = false, "`"+core.ExprStr(x)+"` deletes a key that is not derived from the element"
				}
				return true
			}
			if strings.HasPrefix(name, "builtin.") || name == "" {
				return true
			}
			// only effects with one distinct target per element are order-insensitive:
			// writing/removing the element's own file. Anything else (rendering into a shared
			// buffer, invoking generators, logging into an output) is order-sensitive.
			switch {
			case name == "os.RemoveAll" || name == "os.Remove" || strings.HasSuffix(name, ").WriteToFile") || strings.HasSuffix(name, ").Filename"):
				if !core.MentionsAny(info, x, elems) {
					ok, why = false, "effect `"+core.ExprStr(x)+"` does not depend on the element: it is repeated per element in map order"
				}
			default:
				ok, why = false, "`"+core.ExprStr(x)+"` is called once per element in map-iteration order and is not a per-element file effect: its effects (rendered text, generator invocations) are ordered by the map"
			}
		}
		return true
	})
	return ok, why
}

type a2Exception struct {
	Reason string
	Side   func(p *core.Program, f *core.Func, os OrderSource) (bool, string)
}

// a2Exceptions: function + kind + operand -> reviewed reason and side condition.
var a2Exceptions = map[string]a2Exception{
	"pkg/gengo.(*logger).Start|time": {"the start time only flows into the logger's cost attribute (stdout log), never into a generated file or gengo.sum", sideTimeOnlyLogger},
	"pkg/gengo.(*logger).End|time":   {"the duration only flows into the logger's cost attribute (stdout log)", sideTimeOnlyLogger},
	"pkg/gengo.GetRegisteredGenerators|map-range": {"without names the registered generators are returned in map order; this only permutes independent (package, generator) units, each with its own fresh instance, context and file", func(p *core.Program, f *core.Func, os OrderSource) (bool, string) {
		sub := core.NewReport(p2(p), "C05")
		runC05(p, sub)
		for _, o := range sub.Obls {
			if o.Status == core.Violated || o.Status == core.Undecided {
				return false, "side condition C05 (independence of (package, generator) units) does not hold: " + o.Construct
			}
		}
		return true, "C05 holds: units are independent"
	}},
	"pkg/gengo/internal.(*Dumper).ValueLit|reflect-mapkeys": {"the keys are first rendered by a printer whose namer keeps nothing and without options (so no callback runs), collected, and put in the order of that rendering before the real rendering starts; keys whose stateless rendering ties have the same types and values, render identically with the real namer and register the same packages in the same order", sideMapKeysPreordered},
	"pkg/gengo/snippet.Args.Args$1|map-range":               {"the iterator yields the bindings in map order; its only consumer stores them keyed by name", sideArgsKeyedOnly},
	"pkg/gengo/snippet.Args.Args|maps-iter":                 {"maps.All(args) yields the bindings in map order; its only consumer stores them keyed by name", sideArgsKeyedOnly},
	"pkg/types.(*Universe).LocateInPackage|map-range": {"first match on SourceDir(): a find-unique over packages (one package per directory); not on any output path", func(p *core.Program, f *core.Func, os OrderSource) (bool, string) {
		obj := f.Root().Obj()
		for _, cs := range allCalls(p) {
			if core.CalleeFunc(cs.In.Info(), cs.Call) != obj {
				continue
			}
			// only the forwarding method of the context may call it
			if cs.In.Root().Name != "(*"+ctxTypeName(p)+").LocateInPackage" {
				return false, "LocateInPackage is consumed by " + cs.In.QName()
			}
		}
		fw := ctxMethod(p, "LocateInPackage")
		if fw != nil {
			for _, cs := range allCalls(p) {
				if core.CalleeFunc(cs.In.Info(), cs.Call) == fw.Obj() {
					return false, "the context's LocateInPackage is used by " + cs.In.QName()
				}
			}
			for _, cs := range callersOf(p, "("+core.G("pkg/gengo.Context")+").LocateInPackage") {
				return false, "Context.LocateInPackage is used by " + cs.In.QName()
			}
		}
		return true, "no consumer in the library besides the forwarding method"
	}},
	"pkg/types.Load$1|map-range|p.Imports": {"recursion order over the imports only changes the order of keyed stores into the universe; the import tables are filled after registration", func(p *core.Program, f *core.Func, os OrderSource) (bool, string) {
		sub := core.NewReport(p2(p), "C13")
		c13R3(p, sub)
		for _, o := range sub.Obls {
			if o.Status == core.Violated || o.Status == core.Undecided {
				return false, "side condition C13.R3 (post-order registration) does not hold: " + o.Construct
			}
		}
		// the body only recurses under the absence test
		rs := os.Node.(*ast.RangeStmt)
		info := f.Info()
		for _, s := range rs.Body.List {
			switch x := s.(type) {
			case *ast.AssignStmt:
				if x.Tok != token.DEFINE {
					return false, "the import loop assigns `" + core.ExprStr(x) + "`"
				}
			case *ast.IfStmt:
				for _, bs := range x.Body.List {
					if es, ok := bs.(*ast.ExprStmt); !ok || core.CalleeName(info, es.X.(*ast.CallExpr)) != "" {
						return false, "the import loop does more than recursing"
					}
				}
			default:
				return false, "unexpected statement in the import loop"
			}
		}
		return true, "C13.R3 holds; the loop only recurses"
	}},
	"pkg/types.newPkg|map-range|p.Package.TypesInfo.Defs": {"tables are keyed by the object's name, which is unique among package-scope objects; the methods lists are in map order", func(p *core.Program, f *core.Func, os OrderSource) (bool, string) {
		sub := core.NewReport(p2(p), "C13")
		c13R1(p, sub)
		for _, o := range sub.Obls {
			if o.Rule != "C13.R1" {
				continue
			}
			if o.Status == core.Violated || o.Status == core.Undecided {
				return false, "side condition C13.R1 (package-scope guard => names are unique) does not hold: " + o.Construct + " - two same-named objects (a local type, a type parameter) are stored under one key and the map-iteration order decides which one stays"
			}
		}
		// MethodsOf (the only reader of the order-dependent lists) has no consumer in the library
		for _, cs := range callersOf(p, "("+core.G("pkg/types.Package")+").MethodsOf", core.GM("pkg/types", "*pkgInfo", "MethodsOf")) {
			return false, "the method lists (map order) are consumed by " + cs.In.QName()
		}
		// everything else in the body is a keyed store or an append into a keyed slot
		return true, "C13.R1 holds (unique keys); MethodsOf has no consumer in the library"
	}},
}

func p2(p *core.Program) *core.Program { return p }

func sideTimeOnlyLogger(p *core.Program, f *core.Func, os OrderSource) (bool, string) {
	// the value is stored in field startedAt / passed to slog.Duration only
	info := f.Info()
	ok := true
	ast.Inspect(f.Body, func(n ast.Node) bool {
		switch x := n.(type) {
		case *ast.KeyValueExpr:
			if x.Value == os.Node {
				if id, isID := x.Key.(*ast.Ident); !isID || id.Name != "startedAt" {
					ok = false
				}
			}
		case *ast.CallExpr:
			for _, a := range x.Args {
				if a == os.Node && core.CalleeName(info, x) != "log/slog.Duration" {
					ok = false
				}
			}
		case *ast.AssignStmt:
			for _, rhs := range x.Rhs {
				if rhs == os.Node {
					ok = false
				}
			}
		}
		return true
	})
	// startedAt is read only in logger.End / IsZero
	for _, ff := range p.Funcs() {
		ast.Inspect(ff.Body, func(n ast.Node) bool {
			if sel, isSel := n.(*ast.SelectorExpr); isSel {
				if fld := core.FieldOf(ff.Info(), sel); isRole(p, fld, "logger.started") && !strings.HasPrefix(ff.Root().Name, "(*logger).") {
					ok = false
				}
			}
			return true
		})
	}
	if !ok {
		return false, "the time value flows somewhere else than the logger's cost attribute"
	}
	return true, "flows only into logger.startedAt / slog.Duration"
}

func c04Chains(p *core.Program, r *core.Report) {
	// R4: "running again on the result of a run changes nothing": the package's tags are merged over the doc comments of
	// ALL its files - the files a run adds (each with a tag-less package comment) must not change what the next run reads
	chainRules(p, r, "R4", "C06", []string{"C06.R3"}, "package-level tags are merged over every file of the package")
	// R5: "byte-identical across repeated runs": what a run leaves behind must not depend on whether an EARLIER run was
	// interrupted - the sums are recorded only by a run in which every package was generated (C02.R4/R5), and nothing but
	// Save writes them (C08.R2); otherwise later runs skip packages that were never generated and the file set differs
	chainRules(p, r, "R5", "C02", []string{"C02.R4", "C02.R5"}, "gengo.sum is recorded only after every package was generated")
	chainRules(p, r, "R6", "C08", []string{"C08.R2"}, "the recorded sums are changed by nothing but the load and Save")
	// round 8: a file effect outside the inventory (a removal on the cached path) changes the hashed directory after the sums were taken
	chainRules(p, r, "R7", "C07", []string{"C07.A1", "C07.R2"}, "nothing but the writer, the stale-output removal and Save touches the file system")
}

func runC04(p *core.Program, r *core.Report) {
	c04Chains(p, r)
	// replacing a hand-written collect-and-sort by slices.Sorted(maps.Keys()) keeps a source (I2);
	// flattening a loop over a set into a membership test removes one: the floor only guards against a blind enumerator
	r.Floor("A2", 14)
	// over flattened units: a sync.Map.Range callback is shown as the range loop it desugars from,
	// private helpers are seen inside their callers
	for _, pkg := range p.InScope() {
		for _, f := range pkgUnits(p, core.RelPkg(pkg.PkgPath)) {
			for _, os := range orderSources(f) {
				c04Classify(p, r, f, os)
			}
		}
	}
	c04R2(p, r)
	c04R3(p, r)
}

// c04R3: own-output feedback. The sample generators emit methods (DeepCopy,
// DeepCopyInto, DeepCopyAs, RuntimeDoc) into the package they process, and the
// next run type-checks the package *with* that file. A decision that depends on
// the method set of a type of the processed package therefore depends on the
// generator's own previous output: run 2 sees what run 1 wrote, and the output is
// not a fixed point. Every method-set query in a generator package is an
// obligation; there is no idiom that makes one safe in general, so each site is
// either a finding or needs a reviewed reason (none today).
var methodSetQueries = map[string]bool{
	"(*go/types.Named).NumMethods": true, "(*go/types.Named).Method": true, "(*go/types.Named).Methods": true,
	"go/types.NewMethodSet": true, "go/types.LookupFieldOrMethod": true, "go/types.MissingMethod": true,
	"go/types.Implements": true, "go/types.Satisfies": true,
	"(*go/types.Interface).NumMethods": false, // methods of an interface type are declared, not generated
}

func c04R3(p *core.Program, r *core.Report) {
	const rule = "R3"
	r.Floor(rule, 1)
	// one obligation per generator package, identified by the package and the number of
	// functions that query (moving the scan into a helper is the same site; a further
	// querying function is a new one)
	type site struct {
		pkg   *core.Func
		funcs map[string]bool
		pos   token.Pos
	}
	sites := map[string]*site{}
	var order []string
	byFunc := map[string]*core.Func{}
	for _, cs := range allCalls(p) {
		rel := core.RelPkg(cs.In.Pkg.PkgPath)
		if !strings.HasPrefix(rel, "devpkg/") || cs.In.Body == nil {
			continue
		}
		q := methodSetQueries[cs.Name]
		if !q && strings.HasSuffix(cs.Name, ").MethodsOf") && strings.Contains(cs.Name, core.ModulePath+"/pkg/types") {
			q = true
		}
		if !q {
			continue
		}
		st := sites[rel]
		if st == nil {
			st = &site{pkg: &core.Func{Pkg: cs.In.Pkg, Name: "<package>"}, funcs: map[string]bool{}, pos: cs.Call.Pos()}
			sites[rel] = st
			order = append(order, rel)
		}
		st.funcs[cs.In.Root().QName()] = true
		byFunc[cs.In.Root().QName()] = cs.In.Root()
	}
	for _, rel := range order {
		st := sites[rel]
		construct := "method-set query on a type that may belong to the processed package (in " + itoa(int64(len(st.funcs))) + " function(s))"
		// the one safe idiom: what the scan finds is overwritten before use for types of the processed package
		safe, hows := true, []string{}
		names := []string{}
		for name := range st.funcs {
			names = append(names, name)
		}
		sort.Strings(names)
		for _, name := range names {
			good, how := ownOutputOverride(p, byFunc[name])
			hows = append(hows, how)
			safe = safe && good
		}
		if safe {
			r.OK(rule, st.pkg, construct, st.pos, strings.Join(hows, "; "))
			continue
		}
		r.Bad(rule, st.pkg, construct, st.pos, "a generator decision depends on the methods a type has, and the generators add methods to the package they process: the next run sees the previous run's output in the method set and can decide differently (the output is not a fixed point of a second run) ["+strings.Join(hows, "; ")+"]")
	}
}

func c04Classify(p *core.Program, r *core.Report, f *core.Func, os OrderSource) {
	const rule = "A2"
	info := f.Info()
	construct := os.Kind + ": " + os.What
	if os.Kind == "maps-sorted" {
		r.OK(rule, f, construct, os.Pos, "I2: iteration over slices.Sorted(maps.Keys(m))")
		return
	}
	// exceptions first (exact symbol)
	keys := []string{f.QName() + "|" + os.Kind, f.QName() + "|" + os.Kind + "|" + rangeOperand(os)}
	if u := unitRoot(p, f); u != f.Root() {
		// the construct sits in an unexported helper that is part of an exported function's unit: the exception is the unit's
		keys = append(keys, u.QName()+"|"+os.Kind, u.QName()+"|"+os.Kind+"|"+rangeOperand(os))
	}
	for _, key := range keys {
		if ex, ok := a2Exceptions[key]; ok {
			good, how := ex.Side(p, f, os)
			if good {
				r.ReviewedOK(rule, f, construct, os.Pos, "exception: "+ex.Reason+" [side condition checked: "+how+"]")
			} else {
				r.Bad(rule, f, construct, os.Pos, "reviewed exception (`"+ex.Reason+"`) whose side condition fails: "+how)
			}
			return
		}
	}
	var rs *ast.RangeStmt
	switch x := os.Node.(type) {
	case *ast.RangeStmt:
		rs = x
	case *ast.CallExpr:
		// rv.MapKeys() used as a range operand
		path := core.PathTo(f.Body, x)
		for k := len(path) - 1; k >= 0; k-- {
			if r2, ok := path[k].(*ast.RangeStmt); ok && r2.X == ast.Expr(x) {
				rs = r2
			}
		}
	}
	if rs == nil {
		r.Unknown(rule, f, construct, os.Pos, "an order source that is not a recognisable loop: unreviewed nondeterminism on the generation path (map order, scheduling, time or randomness can reach an output)")
		return
	}
	sh := rangeBodyShape(info, rs)
	if sh.KeyedOnly {
		// a keyed store is order-insensitive only if computing the stored value is: the calls it evaluates must not
		// reach hidden shared state (rendering registers imports in arrival order)
		for _, c := range sh.Calls {
			if free, why := orderFreeCall(p, info, c, 0, map[*types.Func]bool{}); !free {
				r.Bad(rule, f, construct, os.Pos, "the loop only performs keyed stores, but what it stores is computed per element in map order by a call whose effects can be ordered: "+why)
				return
			}
		}
	}
	switch {
	case sh.KeyedOnly && len(sh.Collected) > 0:
		for _, x := range sh.Collected {
			if good, why := sortedBeforeUse(f, rs, x); !good {
				r.Bad(rule, f, construct, os.Pos, "I1 collect-then-sort fails: "+why+" - the collected elements are used in map-iteration order")
				return
			}
		}
		if inj, why := keyedStoresInjective(info, rs); !inj && os.Kind != "reflect-mapkeys" {
			r.Bad(rule, f, construct, os.Pos, why)
			return
		}
		r.OK(rule, f, construct, os.Pos, "I1: the loop only collects (and keyed-stores); every collected slice is sorted before its first use")
		return
	case sh.KeyedOnly:
		if inj, why := keyedStoresInjective(info, rs); !inj {
			r.Bad(rule, f, construct, os.Pos, why)
			return
		}
		r.OK(rule, f, construct, os.Pos, "I3: the loop only performs stores/deletes keyed by the iteration key or the element itself")
		return
	}
	// unique-match loop: the whole body is `if key == <invariant> { ... }`
	if len(rs.Body.List) == 1 {
		if ifs, ok := rs.Body.List[0].(*ast.IfStmt); ok && ifs.Else == nil && rs.Key != nil {
			elems := elementVars(info, rs)
			for _, a := range cfgx.Atoms(ifs.Cond, true) {
				b, isBin := ast.Unparen(a.Cond).(*ast.BinaryExpr)
				if isBin && b.Op == token.EQL && a.Val {
					kx, ky := core.VarOf(info, b.X) == core.VarOf(info, rs.Key), core.VarOf(info, b.Y) == core.VarOf(info, rs.Key)
					if (kx && !core.MentionsAny(info, b.Y, elems)) || (ky && !core.MentionsAny(info, b.X, elems)) {
						r.OK(rule, f, construct, os.Pos, "I4: the body runs only for the unique key equal to a loop-invariant value (`"+core.ExprStr(a.Cond)+"`): at most one iteration has an effect")
						return
					}
				}
			}
		}
	}
	if good, _ := i4Flag(f, rs); good {
		r.OK(rule, f, construct, os.Pos, "I4: the only exits are under `key == <loop-invariant>`, all other assignments are constants")
		return
	}
	if good, _ := i5Independent(f, rs); good {
		r.OK(rule, f, construct, os.Pos, "I5: per-element independent effects (operands derive from the element, no loop-carried variable)")
		return
	}
	_, why4 := i4Flag(f, rs)
	_, why5 := i5Independent(f, rs)
	r.Unknown(rule, f, construct, os.Pos, "the loop matches no order-insensitive idiom (I1 collect-then-sort: other statements "+strings.Join(sh.Other, "; ")+"; I4: "+why4+"; I5: "+why5+"): map-iteration order can reach generated output, gengo.sum, the GenerateType call sequence or a name->object table")
}

func rangeOperand(os OrderSource) string {
	if rs, ok := os.Node.(*ast.RangeStmt); ok {
		return core.ExprStr(rs.X)
	}
	return ""
}

func c04R2(p *core.Program, r *core.Report) {
	const rule = "R2"
	r.Floor(rule, 3)
	load := p.FuncByName("pkg/types", "Load")
	if load == nil {
		r.Anchor(rule, "pkg/types.Load")
		return
	}
	info := load.Info()
	g := graph(load)
	// the registering closure variable
	var regVar *types.Var
	for _, l := range load.Lits {
		ast.Inspect(load.Body, func(n ast.Node) bool {
			if as, ok := n.(*ast.AssignStmt); ok && len(as.Rhs) == 1 && as.Rhs[0] == ast.Expr(l.Lit) {
				v := core.VarOf(info, as.Lhs[0])
				for _, c := range core.Calls(l.Body, true) {
					if v != nil && core.VarOf(info, c.Fun) == v {
						regVar = v
					}
				}
			}
			return true
		})
	}
	if regVar == nil {
		r.Anchor(rule, "registering closure of Load")
		return
	}
	var regCalls, setStores []cfgx.Point
	for _, q := range g.Points(func(n ast.Node) bool { return true }) {
		n := q.Node()
		for _, c := range core.Calls(n, true) {
			if core.VarOf(info, c.Fun) == regVar {
				regCalls = append(regCalls, q)
			}
		}
		if as, ok := n.(*ast.AssignStmt); ok {
			for _, l := range as.Lhs {
				if ix, ok := ast.Unparen(l).(*ast.IndexExpr); ok {
					if v := core.VarOf(info, ix.X); v != nil && (v.Name() == "rootPkgPaths" || v.Name() == "directPkgPaths") {
						setStores = append(setStores, q)
					}
				}
			}
		}
	}
	if len(regCalls) == 0 || len(setStores) < 2 {
		r.Anchor(rule, "register calls and root/direct set stores in Load")
		return
	}
	for _, rc := range regCalls {
		late := false
		for _, st := range setStores {
			if g.CanReach(rc, st) {
				late = true
			}
		}
		r.Check(!late, rule, load, "the root-module and direct-package sets are complete before any package is registered", rc.Node().Pos(), "no path from a register call to a store into rootPkgPaths/directPkgPaths",
			"a package can be registered (and classified as local / hashed) before all entrypoints were entered into the root-module set: packages of a later-listed entrypoint's module are missed, so the result depends on the order entrypoints are listed in")
	}
	// the sets are only read by the closure; stores are keyed by the package's own path / module path
	for _, st := range setStores {
		as := st.Node().(*ast.AssignStmt)
		ix := ast.Unparen(as.Lhs[0]).(*ast.IndexExpr)
		s := canonBase(p, load, ix.Index, 0)
		r.Check(strings.HasSuffix(s, ".Module.Path") || strings.HasSuffix(s, ".PkgPath"), rule, load, "entrypoint loop performs a keyed store: "+core.ExprStr(as.Lhs[0]), as.Pos(), "keyed by the package's own (module) path", "the entrypoint loop stores under a key that is not the entrypoint's own path")
	}
}

// sideArgsKeyedOnly: every consumer of TArg.Args() only stores the bindings keyed by their name.
var sideArgsKeyedOnly = func(p *core.Program, f *core.Func, os OrderSource) (bool, string) {
	// every range over a.Args() in scope is a keyed store of (name, snippet)
	iface := "(" + core.G("pkg/gengo/snippet.TArg") + ").Args"
	n := 0
	for _, cs := range callersOf(p, iface, core.G("pkg/gengo/snippet.Args")+".Args") {
		n++
		info := cs.In.Info()
		path := core.PathTo(cs.In.Body, cs.Call)
		okSite := false
		// maps.Insert(dst, a.Args()) is the keyed store of every pair
		for k := len(path) - 1; k >= 0; k-- {
			if pc, ok := path[k].(*ast.CallExpr); ok && pc != cs.Call && core.CalleeName(info, pc) == "maps.Insert" && len(pc.Args) == 2 && ast.Unparen(pc.Args[1]) == ast.Expr(cs.Call) {
				okSite = true
			}
		}
		for k := len(path) - 1; k >= 0; k-- {
			if rs, ok := path[k].(*ast.RangeStmt); ok && rs.X == ast.Expr(cs.Call) {
				sh := rangeBodyShape(info, rs)
				inj, _ := keyedStoresInjective(info, rs)
				okSite = sh.KeyedOnly && len(sh.Collected) == 0 && inj
			}
		}
		if !okSite {
			return false, "a consumer of TArg.Args() in " + cs.In.QName() + " does more than a keyed store"
		}
	}
	if n == 0 {
		return false, "no consumer of TArg.Args() found"
	}
	return true, fmt.Sprintf("%d consumer(s), all keyed stores", n)
}

// sideMapKeysPreordered: the side condition of the reviewed exception for the value printer's map arm.
//   - the loop over rv.MapKeys() only collects into one slice;
//   - the only call it evaluates (besides order-free ones) is the printer itself, with the key as its only argument (no
//     option functions), on a local printer built here as &Dumper{namer: T{}} with T a field-less struct type of the
//     package whose Name method is a single return over getters of the name it is given;
//   - the collected slice is sorted by the field that holds that rendering before anything else uses it.
func sideMapKeysPreordered(p *core.Program, f *core.Func, os OrderSource) (bool, string) {
	info := f.Info()
	call, _ := os.Node.(*ast.CallExpr)
	var rs *ast.RangeStmt
	for _, n := range core.PathTo(f.Body, call) {
		if r2, ok := n.(*ast.RangeStmt); ok && r2.X == ast.Expr(call) {
			rs = r2
		}
	}
	if rs == nil {
		return false, "rv.MapKeys() is not the operand of a range loop"
	}
	sh := rangeBodyShape(info, rs)
	if !sh.KeyedOnly || len(sh.Collected) != 1 {
		return false, "the loop over the keys does more than collecting them: " + strings.Join(sh.Other, "; ")
	}
	coll := sh.Collected[0]
	self := f.Root().Obj()
	unitSelf := unitRoot(p, f).Obj() // the printer's entry when the map arm lives in a helper of it
	var orderField *types.Var
	for _, c := range sh.Calls {
		if free, _ := orderFreeCall(p, info, c, 0, map[*types.Func]bool{}); free {
			continue
		}
		if (core.CalleeFunc(info, c) != self && core.CalleeFunc(info, c) != unitSelf) || len(c.Args) != 1 || c.Ellipsis.IsValid() || core.VarOf(info, c.Args[0]) != core.VarOf(info, rs.Value) || rs.Value == nil {
			return false, "`" + core.ExprStr(c) + "` is evaluated per key in map order and is neither order-free nor the option-less stateless rendering of the key"
		}
		// the receiver: a local &Dumper{namer: T{}}
		rv := core.VarOf(info, recvOf(c))
		if rv == nil {
			return false, "the ordering pass renders with `" + core.ExprStr(recvOf(c)) + "`, not with a local printer"
		}
		d, ok := core.SingleDef(info, f.Root().Body, rv)
		if !ok {
			return false, "the ordering printer is assigned more than once"
		}
		inits, ok := structInits(info, f.Root().Body, d.Rhs)
		if !ok || len(inits) != 1 {
			return false, "the ordering printer is not built from a literal with just a namer"
		}
		for fld, v := range inits {
			cl, isLit := ast.Unparen(v).(*ast.CompositeLit)
			if !isLit || len(cl.Elts) != 0 {
				return false, "the namer of the ordering printer is not an empty literal"
			}
			nt, _ := info.TypeOf(cl).(*types.Named)
			st, _ := info.TypeOf(cl).Underlying().(*types.Struct)
			if nt == nil || st == nil || st.NumFields() != 0 || nt.Obj().Pkg() != f.Pkg.Types {
				return false, "the namer of the ordering printer (field " + fld.Name() + ") is not a field-less struct type of the package: it can keep state"
			}
			// its Name method: a single return, no writes, getters only
			var nm *core.Func
			for i := 0; i < nt.NumMethods(); i++ {
				if nt.Method(i).Name() == "Name" {
					nm = p.FuncOfObj(nt.Method(i))
				}
			}
			if nm == nil || singleReturn(nm) == nil || len(nonLocalWrites(nm)) != 0 {
				return false, "the Name method of the ordering namer is not a single return without writes"
			}
			for _, nc := range core.Calls(nm.Body, false) {
				name := core.CalleeName(nm.Info(), nc)
				if !strings.HasPrefix(name, "("+core.G("pkg/types.TypeName")+").") && !strings.HasPrefix(name, "(*go/types.") && !strings.HasPrefix(name, "(go/types.") && !strings.HasPrefix(name, "strings.") {
					return false, "the ordering namer calls " + name
				}
			}
		}
		// which field of the collected element holds the rendering
		for _, n := range core.PathTo(rs.Body, c) {
			if kv, ok := n.(*ast.KeyValueExpr); ok && ast.Unparen(kv.Value) == ast.Expr(c) {
				if id, ok := kv.Key.(*ast.Ident); ok {
					orderField = fieldVarOf(info, id)
				}
			}
		}
	}
	if orderField == nil {
		return false, "the stateless rendering of the key is not stored in a field of the collected element"
	}
	// sorted by that field before any other use
	g := graph(f)
	done := g.BlockOf(kindRangeDone, rs)
	if done == nil {
		return false, "loop exit not found"
	}
	isOrderSort := func(n ast.Node) bool {
		for _, sc := range core.Calls(n, true) {
			switch core.CalleeName(info, sc) {
			case "sort.Slice", "sort.SliceStable":
			default:
				continue
			}
			if len(sc.Args) != 2 || core.VarOf(info, sc.Args[0]) != coll {
				continue
			}
			lit, ok := ast.Unparen(sc.Args[1]).(*ast.FuncLit)
			if !ok || len(lit.Body.List) != 1 {
				continue
			}
			ret, ok := lit.Body.List[0].(*ast.ReturnStmt)
			if !ok || len(ret.Results) != 1 {
				continue
			}
			b, ok := ast.Unparen(ret.Results[0]).(*ast.BinaryExpr)
			if !ok || (b.Op != token.LSS && b.Op != token.GTR) {
				continue
			}
			side := func(e ast.Expr) bool {
				sel, ok := ast.Unparen(e).(*ast.SelectorExpr)
				if !ok || core.FieldOf(info, sel) != orderField {
					return false
				}
				ix, ok := ast.Unparen(sel.X).(*ast.IndexExpr)
				return ok && core.VarOf(info, ix.X) == coll
			}
			if side(b.X) && side(b.Y) {
				return true
			}
		}
		return false
	}
	tp, early := g.Reach(cfgxPoint{B: done, I: 0}, true, cfgxQuery{
		Target: func(q cfgxPoint) bool {
			n := q.Node()
			return n != nil && core.Mentions(info, n, coll) && !isOrderSort(n)
		},
		Cut: func(q cfgxPoint) bool { return q.Node() != nil && isOrderSort(q.Node()) },
	})
	if early {
		return false, "`" + core.ExprStr(tp.Node()) + "` uses the collected keys before they are put in the order of their stateless rendering"
	}
	return true, "keys collected with their stateless rendering (option-less call on a local printer over a field-less namer), sorted by it before any other use"
}
