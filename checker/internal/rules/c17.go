package rules

import (
	"fmt"
	"go/ast"
	"go/token"
	"go/types"
	"strings"

	"gengoverif/checker/internal/cfgx"
	"gengoverif/checker/internal/core"
)

func init() {
	register(Property{
		ID:          "C17",
		Explanation: "Decided statically on constants and literals: T1/T2 every template of the deepcopy generator and of the shared field-copy helper is fully bound and its skeleton parses as Go; R1 in the parsed skeletons every value-returning DeepCopy function starts with `if in == nil { return nil }`; R2 the map and slice arms of the field switch return templates that allocate a fresh container of the field's own type with make(...) and copy into it, and the shallow `out.F = in.F` template is not used in those arms; R3 nil-package contradiction - a *types.Named that comes from a field type may be a universe type (error) whose Obj().Pkg() is nil; every .Obj().Pkg().M() on such a value is guarded by a Pkg() != nil test (runtimedoc guards the same access); R4 last-wins rule - no outer variable or field is overwritten on every iteration of a loop with an iteration-dependent value and then read after the loop, unless the assignment is guarded by a unique-key match (such a flag only reflects the last element); R5 (U1) the field switch looks through aliases, so a field declared through an alias of a map/slice is deep-copied; same-package dependencies are rendered at most once (instance-field processed set). R6 no schedule-dependent order source in the generator and its helper; R7 a field whose type is a named type of the same package is always copied through its DeepCopy/DeepCopyInto, never assigned; R8 the 'already generated' set is keyed by the declared type (Origin()) and the on-demand entry does not consult the enablement tags (the field copy calls the dependency's method unconditionally). R9 the only conditions on the way to a field's copy statement are the loop bound, the caller's Skip predicate and the blank name; R10 the field helper takes the copy methods for granted only where the field type's underlying type is known not to be an interface (the generator answers ErrSkip for interfaces); R11 generateType returns a sentinel only under a type fact on the underlying type. R12 the FieldContext of a field is the caller's or a value made for this field, never one that outlives it. R13 from a callback handed to Context.Defer no call of Defer is reachable (the framework runs the callbacks in one pass over the list as it stood). R14 the emitted DeepCopyObject returns nil or a variable under != nil only. R15 the worker looks the gengo:deepcopy tags up in Doc(<its own type>.Obj()), read inside the worker. R16 = C04.R3 (no decision depends on the method set of a type of the processed package). NOT decided: that the generated code compiles, that copies are deeply equal and alias-free for every type graph (needs compilation/execution). Round 8: R17 = C06.R3 (effective tags are merged into a fresh map per declaration), R18 = C13.R1 (the type table holds package-level objects only). Round 9: R19 every copy-statement template of the field helper ends in a line break.",
		Assumptions: commonAssumptions,
		Run:         runC17,
	})
}

func runC17(p *core.Program, r *core.Report) {
	r.Floor("T1", 9)
	r.Floor("T2", 9)
	sites := templateRules(p, r, "devpkg/deepcopygen", "devpkg/deepcopygen/helper")
	c17R1(p, r, sites, 3)
	c17R2(p, r)
	r.Floor("R3", 1)
	c17R3(p, r, "devpkg/deepcopygen", "devpkg/deepcopygen/helper", "devpkg/runtimedocgen", "devpkg/partialstruct")
	r.Floor("R4", 1)
	c17R4(p, r, "devpkg/deepcopygen", "devpkg/deepcopygen/helper")
	r.Floor("R5", 1)
	a10Report(p, r, "R5", "devpkg/deepcopygen", "devpkg/deepcopygen/helper")
	processedGuard(p, r, "R2", "devpkg/deepcopygen", generatorWorkerName(p, "devpkg/deepcopygen", "(*deepcopyGen).generateType"))
	c17R7(p, r)
	generatorOrderSources(p, r, "R6", "devpkg/deepcopygen", "devpkg/deepcopygen/helper")
	c17R8(p, r)
	c17R9(p, r)
	c17R10(p, r)
	c17R11(p, r)
	c17R12(p, r)
	c17R13(p, r)
	c17R14(p, r)
	c17R15(p, r)
	// R16: "the same on first and later runs": no decision of the generator depends on the methods a type of the processed
	// package has - the previous run's output is part of that method set (C04.R3; the own-output override is the one
	// accepted idiom)
	chainRules(p, r, "R16", "C04", []string{"C04.R3"}, "no generator decision depends on the method set of a type of the processed package")
	// round 8: tags of one declaration do not leak into the next; the type table holds package-level objects only
	chainRules(p, r, "R17", "C06", []string{"C06.R3"}, "effective tags are merged into a fresh map per declaration")
	chainRules(p, r, "R18", "C13", []string{"C13.R1"}, "the type table holds package-level objects only")
	c17R19(p, r)
}

// c17R8: on-demand generation of same-package dependencies.
//   - the 'already generated' set is keyed by the declared type: a field whose type is an
//     instantiation G[int] names the same methods as G itself, so the key must be normalised
//     with Origin() before it is tested and marked (cf. C13.R2);
//   - the on-demand entry does not consult the enablement tags: the field-copy helper calls
//     DeepCopyInto on every same-package named field ("always gen"), so refusing to render an
//     untagged dependency leaves a call to a method that does not exist (sibling contradiction).
func c17R8(p *core.Program, r *core.Report) {
	const rule = "R8"
	r.Floor(rule, 2)
	f := p.FuncByName("devpkg/deepcopygen", generatorWorkerName(p, "devpkg/deepcopygen", "(*deepcopyGen).generateType"))
	if f == nil {
		r.Anchor(rule, "devpkg/deepcopygen.(*deepcopyGen).generateType")
		return
	}
	info := f.Info()
	g := graph(f)
	n := 0
	seen := map[string]bool{}
	ast.Inspect(f.Body, func(nd ast.Node) bool {
		ix, ok := nd.(*ast.IndexExpr)
		if !ok {
			return true
		}
		fld := core.FieldOf(info, ix.X)
		if fld == nil || fld.Name() != "processed" {
			return true
		}
		n++
		construct := "the 'already generated' set is keyed by the declared type at " + core.ExprStr(ix)
		if seen[construct] {
			return true
		}
		seen[construct] = true
		good := isOriginCall(info, ix.Index)
		if !good {
			if v := core.VarOf(info, ix.Index); v != nil {
				defs, fromEntry := reachingDefs(g, v, g.PointOf(ix))
				good = len(defs) > 0 && !fromEntry
				for _, d := range defs {
					as, isAs := d.Node().(*ast.AssignStmt)
					if !isAs || len(as.Rhs) != len(as.Lhs) {
						good = false
						continue
					}
					for i, l := range as.Lhs {
						if core.VarOf(info, l) == v && !isOriginCall(info, as.Rhs[i]) {
							good = false
						}
					}
				}
			}
		}
		r.Check(good, rule, f, construct, ix.Pos(), "every reaching definition of the key is an Origin() call",
			"the set is keyed by the *types.Named as it was handed in; for a field of a generic instantiation (Box[int]) that is not the declared type Box, so the methods of Box are rendered a second time (`method Box.DeepCopy already declared`)")
		return true
	})
	if n == 0 {
		r.Anchor(rule, "index expressions on the processed set")
	}
	// no enablement test on the on-demand path
	en := core.CallsTo(info, f.Body, true, core.G("pkg/gengo.IsGeneratorEnabled"))
	pos := f.Node().Pos()
	if len(en) > 0 {
		pos = en[0].Pos()
	}
	r.Check(len(en) == 0, rule, f, "same-package dependencies are rendered whether or not they carry the tag", pos, "the on-demand entry does not consult IsGeneratorEnabled (the framework already filters the types it dispatches)",
		"the on-demand entry returns without rendering when the dependency's own tags do not enable the generator, while the field-copy helper emits `in.F.DeepCopyInto(&out.F)` for every same-package named field: for an untagged dependency the generated code calls a method that was never generated")
}

// generatorOrderSources: the sample generators must not let map-iteration or
// scheduling order reach what they render (same output on the first and on
// later runs): every order source in the given packages has to match one of
// the order-insensitive idioms of C04.
func generatorOrderSources(p *core.Program, r *core.Report, rule string, rels ...string) {
	n := 0
	for _, f := range p.Funcs() {
		rel := core.RelPkg(f.Pkg.PkgPath)
		in := false
		for _, w := range rels {
			if rel == w {
				in = true
			}
		}
		if !in {
			continue
		}
		for _, os := range orderSources(f) {
			n++
			sub := core.NewReport(r.Prog, "C04")
			c04Classify(p, sub, f, os)
			for _, o := range sub.Obls {
				if o.Status == core.Violated || o.Status == core.Undecided {
					r.Bad(rule, f, "order source in a generator: "+o.Construct, os.Pos, "what the generator renders (or which dependency it renders first) follows Go's randomised map iteration: the generated file differs between runs - "+o.How)
				} else {
					r.OK(rule, f, "order source in a generator: "+o.Construct, os.Pos, o.How)
				}
			}
		}
	}
	if n == 0 {
		r.OK(rule, nil, "no map range / select / go / time / rand in "+strings.Join(rels, ", "), token.NoPos, "order-source scan")
	}
}

// c17R7: a field whose type is a named type of the same package is always
// copied through its (generated) DeepCopy/DeepCopyInto, never assigned.
func c17R7(p *core.Program, r *core.Report) {
	const rule = "R7"
	r.Floor(rule, 1)
	f := p.FuncByName("devpkg/deepcopygen/helper", "(*StructFieldsCopy).createFieldSnippet")
	if f == nil {
		r.Anchor(rule, "devpkg/deepcopygen/helper.(*StructFieldsCopy).createFieldSnippet")
		return
	}
	info := f.Info()
	g := graph(f)
	n := 0
	for _, s := range templateSites(p) {
		if !sameFunc(s.F, f) || !s.IsConst {
			continue
		}
		flat := strings.ReplaceAll(strings.ReplaceAll(s.Format, " ", ""), "\n", "")
		flat = strings.TrimSpace(flat)
		if flat != "out.@fieldName=in.@fieldName" {
			continue
		}
		n++
		same := false
		for _, fct := range g.FactsAt(g.PointOf(s.Call)) {
			if fld := core.FieldOf(info, fct.Cond); fld != nil && fld.Name() == "InSamePkg" && fct.Val {
				same = true
			}
		}
		r.Check(!same, rule, f, "the shallow `out.F = in.F` template is not chosen for same-package named types", s.Call.Pos(), "not dominated by InSamePkg == true",
			"a field of a same-package named type can be assigned instead of deep-copied (a shortcut under InSamePkg): a struct that only looks plain but nests a struct with slice/map fields shares those containers with the original")
	}
	if n == 0 {
		r.Anchor(rule, "shallow assignment templates in createFieldSnippet")
	}
	// under InSamePkg both copy methods are forced on (so the chain always picks a DeepCopy form)
	forced := 0
	ast.Inspect(f.Body, func(nd ast.Node) bool {
		as, ok := nd.(*ast.AssignStmt)
		if !ok || len(as.Lhs) != 1 {
			return true
		}
		fld := core.FieldOf(info, as.Lhs[0])
		if fld == nil || (fld.Name() != "HasDeepCopyInto" && fld.Name() != "HasDeepCopy") {
			return true
		}
		under := false
		for _, fct := range g.FactsAt(g.PointOf(as)) {
			if fl := core.FieldOf(info, fct.Cond); fl != nil && fl.Name() == "InSamePkg" && fct.Val {
				under = true
			}
		}
		if !under {
			return true
		}
		if tv := info.Types[as.Rhs[0]]; tv.Value == nil || tv.Value.String() != "true" {
			r.Bad(rule, f, "under InSamePkg `"+core.ExprStr(as)+"` switches a copy method off", as.Pos(), "for a same-package named type the DeepCopy/DeepCopyInto call is switched off again: the field is assigned shallowly, and a struct that nests another struct with slice/map fields shares those containers with the original")
			return true
		}
		forced++
		return true
	})
	r.Check(forced >= 2, rule, f, "same-package named types are always copied through DeepCopy/DeepCopyInto", f.Node().Pos(), "HasDeepCopy and HasDeepCopyInto are forced under InSamePkg", "for same-package dependencies the copy methods are not forced on: the field falls back to a shallow assignment")
}

// c17R1: nil guard in the skeletons of DeepCopy / DeepCopyAs.
func c17R1(p *core.Program, r *core.Report, sites []templateSite, floor int) {
	const rule = "R1"
	r.Floor(rule, floor)
	for _, s := range sites {
		if !s.IsConst || (s.Kind != "T" && s.Kind != "RenderT") {
			continue
		}
		f, _, err := parseSkeleton(skeleton(s))
		if err != nil || f == nil {
			continue
		}
		for _, d := range f.Decls {
			fd, ok := d.(*ast.FuncDecl)
			if !ok || fd.Type.Results == nil || len(fd.Type.Results.List) == 0 || fd.Body == nil {
				continue
			}
			if fd.Name.Name != "DeepCopy" && fd.Name.Name != "DeepCopyAs" {
				continue
			}
			guard := false
			if len(fd.Body.List) > 0 {
				if ifs, ok := fd.Body.List[0].(*ast.IfStmt); ok && ifs.Init == nil {
					if b, ok := ifs.Cond.(*ast.BinaryExpr); ok && b.Op == token.EQL {
						x, xok := b.X.(*ast.Ident)
						y, yok := b.Y.(*ast.Ident)
						if xok && yok && y.Name == "nil" && fd.Recv != nil && len(fd.Recv.List) == 1 && len(fd.Recv.List[0].Names) == 1 && fd.Recv.List[0].Names[0].Name == x.Name {
							if len(ifs.Body.List) == 1 {
								if ret, ok := ifs.Body.List[0].(*ast.ReturnStmt); ok && len(ret.Results) == 1 {
									if id, ok := ret.Results[0].(*ast.Ident); ok && id.Name == "nil" {
										guard = true
									}
								}
							}
						}
					}
				}
			}
			r.Check(guard, rule, s.F, "generated "+fd.Name.Name+" (template `"+firstLine(s.Format)+"`) returns nil for a nil receiver", s.Call.Pos(), "first statement of the skeleton is `if in == nil { return nil }`",
				"the generated "+fd.Name.Name+" does not start with `if in == nil { return nil }`: DeepCopy of nil allocates a value / dereferences nil")
		}
	}
}

func c17R2(p *core.Program, r *core.Report) {
	const rule = "R2"
	r.Floor(rule, 3)
	f := p.FuncByName("devpkg/deepcopygen/helper", "(*StructFieldsCopy).createFieldSnippet")
	if f == nil {
		r.Anchor(rule, "devpkg/deepcopygen/helper.(*StructFieldsCopy).createFieldSnippet")
		return
	}
	info := f.Info()
	var ts *ast.TypeSwitchStmt
	ast.Inspect(f.Body, func(n ast.Node) bool {
		if x, ok := n.(*ast.TypeSwitchStmt); ok && ts == nil {
			ts = x
		}
		return true
	})
	if ts == nil {
		r.Anchor(rule, "field type switch in createFieldSnippet")
		return
	}
	sites := templateSites(p)
	arm := map[string]*ast.CaseClause{}
	lastIsDefault := false
	for i, c := range ts.Body.List {
		cc := c.(*ast.CaseClause)
		if cc.List == nil {
			arm["default"] = cc
			lastIsDefault = i == len(ts.Body.List)-1
		}
		for _, e := range cc.List {
			arm[strings.TrimPrefix(core.NamedTypeName(info.TypeOf(e)), "go/types.")] = cc
		}
	}
	for _, kind := range []struct{ name, copyHint string }{{"Map", "range"}, {"Slice", "copy("}} {
		cc := arm[kind.name]
		if cc == nil {
			r.Bad(rule, f, kind.name+" fields are copied into a fresh container", ts.Pos(), "no *types."+kind.name+" arm: such fields fall into the shallow default (`out.F = in.F`) and the copy shares the container with the original")
			continue
		}
		bound := info.Implicits[cc]
		good := false
		why := "no template in this arm"
		for _, s := range sites {
			if !sameFunc(s.F, f) || !(cc.Pos() <= s.Call.Pos() && s.Call.End() <= cc.End()) || !s.IsConst {
				continue
			}
			// make(@X of the field's own type
			mk := ""
			for _, b := range s.Bindings {
				if b.Ctor == "ID" {
					if c, ok := ast.Unparen(b.Expr).(*ast.CallExpr); ok && len(c.Args) == 1 && bound != nil && info.ObjectOf(identOf(c.Args[0])) == bound {
						mk = b.Name
					}
				}
			}
			sk := s.Format
			switch {
			case mk == "":
				why = "the container type placeholder is not bound to ID(<the field's own type>)"
			case !strings.Contains(sk, "make(@"+mk):
				why = "the template does not allocate with make(@" + mk + ", ...)"
			case !strings.Contains(sk, kind.copyHint):
				why = "the template does not copy the elements (" + kind.copyHint + ")"
			case strings.Contains(strings.ReplaceAll(sk, " ", ""), "out.@fieldName=in.@fieldName"):
				why = "the template assigns the container itself"
			default:
				good = true
			}
		}
		r.Check(good, rule, f, kind.name+" fields are copied into a fresh container", cc.Pos(), "make(<field type>, len) + element copy", kind.name+" arm: "+why+": appending to or assigning into the copy's field changes the original")
	}
	r.Check(arm["default"] != nil && lastIsDefault, rule, f, "the shallow assignment is the default arm only", ts.Pos(), "default arm is last", "the shallow `out.F = in.F` arm is not the (last) default arm")
}

// c17R3: nil-package contradiction.
func c17R3(p *core.Program, r *core.Report, rels ...string) {
	const rule = "R3"
	for _, f := range p.Funcs() {
		rel := core.RelPkg(f.Pkg.PkgPath)
		in := false
		for _, w := range rels {
			if rel == w {
				in = true
			}
		}
		if !in {
			continue
		}
		info := f.Info()
		g := graph(f)
		ast.Inspect(f.Body, func(n ast.Node) bool {
			if lit, ok := n.(*ast.FuncLit); ok && lit != f.Lit {
				return false
			}
			c, ok := n.(*ast.CallExpr)
			if !ok {
				return true
			}
			// X.Obj().Pkg().M()
			sel, ok := ast.Unparen(c.Fun).(*ast.SelectorExpr)
			if !ok {
				return true
			}
			pc, ok := ast.Unparen(sel.X).(*ast.CallExpr)
			if !ok || !isPkgOfObject(info, pc) {
				return true
			}
			oc, ok := ast.Unparen(recvOf(pc)).(*ast.CallExpr)
			if !ok || !strings.HasSuffix(core.CalleeName(info, oc), ").Obj") {
				return true
			}
			x := recvOf(oc)
			xv := core.VarOf(info, x)
			construct := core.ExprStr(c) + " on a type that may be predeclared"
			// the generator's own subject (a parameter of the root method) always has a package
			if xv != nil && (isParamOf(f.Root(), xv) || isParamOf(f, xv)) {
				r.OK(rule, f, core.ExprStr(c)+" on the generated type itself", c.Pos(), "the subject of GenerateType is a package-level type")
				return true
			}
			at := g.PointOf(c)
			facts := g.FactsAt(at)
			if node := at.Node(); node != nil {
				facts = append(facts, shortCircuitFacts(node, c)...)
			}
			guarded := false
			for _, fct := range facts {
				// X.Obj().Pkg() != nil
				if b, ok := ast.Unparen(fct.Cond).(*ast.BinaryExpr); ok && ((b.Op == token.NEQ && fct.Val) || (b.Op == token.EQL && !fct.Val)) {
					for _, side := range []ast.Expr{b.X, b.Y} {
						if core.SameRef(info, side, pc) {
							guarded = true
						}
					}
				}
				// predicate(X) whose body tests Pkg() != nil
				if cc, ok := ast.Unparen(fct.Cond).(*ast.CallExpr); ok && fct.Val && len(cc.Args) == 1 && core.SameRef(info, cc.Args[0], x) {
					if pf := p.FuncOfObj(core.CalleeFunc(info, cc)); pf != nil && len(pf.Body.List) == 1 {
						if ret, ok := pf.Body.List[0].(*ast.ReturnStmt); ok && len(ret.Results) == 1 {
							for _, a := range cfgx.Atoms(ret.Results[0], true) {
								if b, ok := ast.Unparen(a.Cond).(*ast.BinaryExpr); ok && b.Op == token.NEQ && a.Val {
									if cx, ok := ast.Unparen(b.X).(*ast.CallExpr); ok && isPkgOfObject(pf.Info(), cx) {
										guarded = true
									}
								}
							}
						}
					}
				}
			}
			r.Check(guarded, rule, f, construct, c.Pos(), "dominated by a Pkg() != nil test",
				"`"+core.ExprStr(x)+"` comes from a field/element type and may be a predeclared type such as `error`, whose Obj().Pkg() is nil: this call dereferences nil and the generator panics for a struct with an error field (the sibling generator guards the same access)")
			return true
		})
	}
}

// c17R4: last-wins flags.
func c17R4(p *core.Program, r *core.Report, rels ...string) {
	const rule = "R4"
	nLoops := 0
	for _, f := range p.Funcs() {
		rel := core.RelPkg(f.Pkg.PkgPath)
		in := false
		for _, w := range rels {
			if rel == w {
				in = true
			}
		}
		if !in {
			continue
		}
		info := f.Info()
		g := graph(f)
		ast.Inspect(f.Body, func(n ast.Node) bool {
			if lit, ok := n.(*ast.FuncLit); ok && lit != f.Lit {
				return false
			}
			var body *ast.BlockStmt
			var loopVars []*types.Var
			switch x := n.(type) {
			case *ast.ForStmt:
				body = x.Body
				if as, ok := x.Init.(*ast.AssignStmt); ok {
					for _, l := range as.Lhs {
						if v := core.VarOf(info, l); v != nil {
							loopVars = append(loopVars, v)
						}
					}
				}
			case *ast.RangeStmt:
				body = x.Body
				for _, e := range []ast.Expr{x.Key, x.Value} {
					if e != nil {
						if v := core.VarOf(info, e); v != nil {
							loopVars = append(loopVars, v)
						}
					}
				}
			default:
				return true
			}
			nLoops++
			loop := n
			// variables defined inside the loop count as iteration-dependent too
			iter := map[types.Object]bool{}
			for _, v := range loopVars {
				iter[v] = true
			}
			ast.Inspect(body, func(m ast.Node) bool {
				if as, ok := m.(*ast.AssignStmt); ok && as.Tok == token.DEFINE {
					for _, l := range as.Lhs {
						if v := core.VarOf(info, l); v != nil {
							iter[v] = true
						}
					}
				}
				if ts, ok := m.(*ast.TypeSwitchStmt); ok {
					for _, c := range ts.Body.List {
						if o := info.Implicits[c]; o != nil {
							iter[o] = true
						}
					}
				}
				return true
			})
			hasExit := false
			ast.Inspect(body, func(m ast.Node) bool {
				switch y := m.(type) {
				case *ast.FuncLit:
					return false
				case *ast.BranchStmt:
					if y.Tok == token.BREAK || y.Tok == token.GOTO {
						hasExit = true
					}
				case *ast.ReturnStmt:
					hasExit = true
				}
				return true
			})
			if hasExit {
				return true
			}
			ast.Inspect(body, func(m ast.Node) bool {
				if _, ok := m.(*ast.FuncLit); ok {
					return false
				}
				// nested loops are visited on their own
				if m != ast.Node(body) {
					switch m.(type) {
					case *ast.ForStmt, *ast.RangeStmt:
						return false
					}
				}
				as, ok := m.(*ast.AssignStmt)
				if !ok || as.Tok != token.ASSIGN || len(as.Lhs) != len(as.Rhs) {
					return true
				}
				for i, l := range as.Lhs {
					root := l
					isField := false
					for {
						if s, ok := ast.Unparen(root).(*ast.SelectorExpr); ok {
							root, isField = s.X, true
							continue
						}
						break
					}
					if _, isIx := ast.Unparen(l).(*ast.IndexExpr); isIx {
						continue // keyed store
					}
					rv := core.VarOf(info, root)
					if rv == nil || iter[rv] {
						continue
					}
					if core.DeclaredIn(info, loop, rv) {
						continue
					}
					_ = isField
					rhs := as.Rhs[i]
					if tv, ok := info.Types[rhs]; ok && tv.Value != nil {
						continue // constant: monotone
					}
					if !core.MentionsAny(info, rhs, iter) {
						continue // loop-invariant value
					}
					if sameTargetMentioned(info, rhs, l) {
						continue // accumulation: x = x || ...
					}
					// guarded by a unique-key match?
					keyed := false
					for _, fct := range g.FactsAt(g.PointOf(as)) {
						if !(loop.Pos() <= fct.Cond.Pos() && fct.Cond.End() <= loop.End()) {
							continue
						}
						b, ok := ast.Unparen(fct.Cond).(*ast.BinaryExpr)
						if !ok || !((b.Op == token.EQL && fct.Val) || (b.Op == token.NEQ && !fct.Val)) {
							continue
						}
						lm, rm := core.MentionsAny(info, b.X, iter), core.MentionsAny(info, b.Y, iter)
						if lm != rm {
							keyed = true
						}
					}
					// read after the loop? (the field itself, or its holder used as a whole: returned, passed on, stored)
					live := false
					var stack []ast.Node
					ast.Inspect(f.Root().Body, func(k ast.Node) bool {
						if k == nil {
							stack = stack[:len(stack)-1]
							return false
						}
						stack = append(stack, k)
						if e, ok := k.(ast.Expr); ok && k.Pos() >= loop.End() && core.SameRef(info, e, l) {
							live = true
						}
						if id, ok := k.(*ast.Ident); ok && isField && k.Pos() >= loop.End() && info.ObjectOf(id) == types.Object(rv) && len(stack) >= 2 {
							if sel, isSel := stack[len(stack)-2].(*ast.SelectorExpr); !isSel || sel.X != ast.Expr(id) {
								live = true
							}
						}
						return true
					})
					if !live {
						continue
					}
					construct := "`" + core.ExprStr(l) + "` is overwritten on every iteration and read after the loop"
					rf := f
					if fld := core.FieldOf(info, l); fld != nil && isField {
						// a field is identified by its type, not by the variable or function that happens to hold it
						owner := ""
						if sel, ok := ast.Unparen(l).(*ast.SelectorExpr); ok {
							owner = core.NamedTypeName(info.TypeOf(sel.X))
							if i := strings.LastIndex(owner, "."); i >= 0 {
								owner = owner[i+1:]
							}
						}
						construct = "field `" + owner + "." + fld.Name() + "` is overwritten on every iteration of a loop and read after it"
						rf = &core.Func{Pkg: f.Pkg, Name: "<package>"}
					}
					if keyed {
						r.OK(rule, rf, construct, as.Pos(), "the assignment is guarded by a match of the element's key with a loop-invariant value (unique match)")
					} else {
						r.Bad(rule, rf, construct, as.Pos(), "`"+core.ExprStr(as)+"` assigns an iteration-dependent value with `=` on every iteration: after the loop the variable only reflects the LAST element (declaration order decides; for methods that the generator itself emits, the previous run's output decides)")
					}
				}
				return true
			})
			return true
		})
	}
	if nLoops == 0 {
		r.Anchor(rule, "loops in "+strings.Join(rels, ", "))
	} else {
		r.OK(rule, nil, "loops scanned for last-wins assignments in "+strings.Join(rels, ", "), token.NoPos, fmt.Sprintf("%d loops", nLoops))
	}
}

func sameTargetMentioned(info *types.Info, rhs ast.Expr, target ast.Expr) bool {
	found := false
	ast.Inspect(rhs, func(n ast.Node) bool {
		if e, ok := n.(ast.Expr); ok && core.SameRef(info, e, target) {
			found = true
		}
		return !found
	})
	return found
}

// isPkgOfObject: c is <object>.Pkg() returning *types.Package (the method is
// promoted from go/types' embedded object).
func isPkgOfObject(info *types.Info, c *ast.CallExpr) bool {
	sel, ok := ast.Unparen(c.Fun).(*ast.SelectorExpr)
	if !ok || sel.Sel.Name != "Pkg" || len(c.Args) != 0 {
		return false
	}
	return core.NamedTypeName(info.TypeOf(c)) == "go/types.Package" && strings.HasPrefix(core.NamedTypeName(info.TypeOf(sel.X)), "go/types.")
}

// isMethodOfVar: c is <*types.Var>.<name>().
func isMethodOfVar(info *types.Info, c *ast.CallExpr, name string) bool {
	sel, ok := ast.Unparen(c.Fun).(*ast.SelectorExpr)
	return ok && sel.Sel.Name == name && len(c.Args) == 0 && core.NamedTypeName(info.TypeOf(sel.X)) == "go/types.Var"
}

// c17R9: "a copy is deeply equal to its original": the field loop of the shared copy helper renders a copy statement
// for every field of the struct. The only conditions on the way to the statement are the caller's Skip predicate and
// the blank name `_` (which cannot be referenced) - a further filter silently leaves fields of the copy zero.
func c17R9(p *core.Program, r *core.Report) {
	const rule = "R9"
	r.Floor(rule, 1)
	cf := p.FuncByName("devpkg/deepcopygen/helper", "(*StructFieldsCopy).createFieldSnippet")
	if cf == nil {
		r.Anchor(rule, "devpkg/deepcopygen/helper.(*StructFieldsCopy).createFieldSnippet")
		return
	}
	n := 0
	for _, cs := range allCalls(p) {
		if cs.In.Body == nil || core.CalleeFunc(cs.In.Info(), cs.Call) != cf.Obj() {
			continue
		}
		f := cs.In
		info := f.Info()
		g := graph(f)
		n++
		var fv *types.Var
		if len(cs.Call.Args) == 1 {
			fv = core.VarOf(info, cs.Call.Args[0])
		}
		bad := ""
		loopConds := map[ast.Expr]bool{}
		for _, nd := range core.PathTo(f.Body, cs.Call) {
			if fs, ok := nd.(*ast.ForStmt); ok && fs.Cond != nil {
				loopConds[fs.Cond] = true
			}
		}
		for _, fct := range g.FactsAt(g.PointOf(cs.Call)) {
			if fct.Tag != nil {
				bad = core.ExprStr(fct.Tag)
				continue
			}
			if loopConds[fct.Cond] {
				continue // the bound of the loop over the fields (C14.R3 pairs it with the accessor)
			}
			// a compound condition is acceptable when each of its operands is
			var leaves []ast.Expr
			var split func(e ast.Expr)
			split = func(e ast.Expr) {
				e = ast.Unparen(e)
				if b, ok := e.(*ast.BinaryExpr); ok && (b.Op == token.LAND || b.Op == token.LOR) {
					split(b.X)
					split(b.Y)
					return
				}
				if u, ok := e.(*ast.UnaryExpr); ok && u.Op == token.NOT {
					split(u.X)
					return
				}
				leaves = append(leaves, e)
			}
			split(fct.Cond)
			for _, c := range leaves {
				okLeaf := false
				// the caller's predicate: a field of func type, tested against nil or called with the field
				if b, ok := c.(*ast.BinaryExpr); ok && (b.Op == token.EQL || b.Op == token.NEQ) {
					if id, isNil := ast.Unparen(b.Y).(*ast.Ident); isNil && id.Name == "nil" {
						if fld := core.FieldOf(info, b.X); fld != nil {
							if _, isFn := fld.Type().Underlying().(*types.Signature); isFn {
								okLeaf = true
							}
						}
					}
					// f.Name() == "_"
					if s, isC := core.ConstString(info, b.Y); isC && s == "_" {
						if nc, isCall := ast.Unparen(b.X).(*ast.CallExpr); isCall && core.CalleeName(info, nc) == "(*go/types.Var).Name" && core.VarOf(info, recvOf(nc)) == fv {
							okLeaf = true
						}
					}
				}
				if call, ok := c.(*ast.CallExpr); ok {
					if fld := core.FieldOf(info, call.Fun); fld != nil {
						if _, isFn := fld.Type().Underlying().(*types.Signature); isFn {
							okLeaf = true
						}
					}
					// the result of an earlier yield
					if v := core.VarOf(info, call.Fun); v != nil && v == yieldParam(f) {
						okLeaf = true
					}
				}
				if !okLeaf {
					bad = core.ExprStr(c)
				}
			}
		}
		r.Check(bad == "", rule, f, "every field of the struct gets a copy statement", cs.Call.Pos(), "the statement is rendered unless the caller's Skip predicate says otherwise",
			"fields are also filtered by `"+bad+"`: such a field gets no copy statement at all, the copy keeps the zero value and is not deeply equal to its original")
	}
	if n == 0 {
		r.Anchor(rule, "call of createFieldSnippet in the field loop")
	}
}

// c17R10 (sibling agreement): the generator renders DeepCopy/DeepCopyInto for every same-package named type it is asked
// for - except interfaces, for which it answers ErrSkip and renders nothing. The field-copy helper assumes the methods
// exist for every same-package named field ("always gen") and reports the type as a dependency; both must exclude the
// interface kind, or the rendered `in.F.DeepCopyInto(&out.F)` has no method to call and the dependency's ErrSkip ends the
// loop over the remaining dependencies.
func c17R10(p *core.Program, r *core.Report) {
	const rule = "R10"
	r.Floor(rule, 1)
	cf := p.FuncByName("devpkg/deepcopygen/helper", "(*StructFieldsCopy).createFieldSnippet")
	gt := p.FuncByName("devpkg/deepcopygen", generatorWorkerName(p, "devpkg/deepcopygen", "(*deepcopyGen).generateType"))
	if cf == nil || gt == nil {
		r.Anchor(rule, "createFieldSnippet of the copy helper and generateType of the deepcopy generator")
		return
	}
	// does the generator refuse interfaces?
	ginfo := gt.Info()
	refuses := false
	ast.Inspect(gt.Body, func(m ast.Node) bool {
		ret, ok := m.(*ast.ReturnStmt)
		if !ok || len(ret.Results) != 1 || !isSentinel(ginfo, ret.Results[0]) {
			return true
		}
		for _, tf := range typeFactsAt(gt, ret) {
			if core.NamedTypeName(tf.Type) == "go/types.Interface" {
				refuses = true
			}
		}
		return true
	})
	if !refuses {
		r.OK(rule, gt, "the generator renders the copy methods for every kind of same-package named type", gt.Node().Pos(), "no kind is answered with a sentinel")
		return
	}
	info := cf.Info()
	g := graph(cf)
	n := 0
	ast.Inspect(cf.Body, func(m ast.Node) bool {
		as, ok := m.(*ast.AssignStmt)
		if !ok || len(as.Lhs) != 1 || len(as.Rhs) != 1 {
			return true
		}
		fld := core.FieldOf(info, as.Lhs[0])
		if fld == nil || !strings.HasPrefix(fld.Name(), "HasDeepCopy") {
			return true
		}
		if id, isTrue := ast.Unparen(as.Rhs[0]).(*ast.Ident); !isTrue || id.Name != "true" {
			return true
		}
		// a store under `m.Name() == <copy method name>` with m one of the type's own methods records that the method
		// was FOUND; only a store that does not depend on what the type has takes the method for granted
		found := false
		for _, fct := range g.FactsAt(g.PointOf(as)) {
			if fct.Cond == nil || !fct.Val {
				continue
			}
			if mentionsMethodName(info, cf.Body, fct.Cond, 0) {
				found = true
			}
		}
		if found {
			return true
		}
		n++
		excluded := false
		for _, tf := range typeFactsNegAt(cf, as) {
			if core.NamedTypeName(tf.Type) == "go/types.Interface" {
				excluded = true
			}
		}
		r.Check(excluded, rule, cf, "the copy methods are taken for granted only for kinds the generator renders them for: "+fld.Name(), as.Pos(), "the store is reached only when the type's underlying type is not an interface",
			"`"+core.ExprStr(as)+"` is reached for every same-package named field type, also for an interface type - for which the generator answers ErrSkip and renders no methods: the generated `in.F."+strings.TrimPrefix(fld.Name(), "Has")+"(...)` does not compile, and the ErrSkip of that dependency ends the loop over the dependencies that follow it")
		return true
	})
	if n == 0 {
		r.Anchor(rule, "`fc.HasDeepCopy[Into] = true` for same-package fields in createFieldSnippet")
	}
}

// isSentinel: the expression names one of the framework's control values ErrSkip / ErrIgnore.
func isSentinel(info *types.Info, e ast.Expr) bool {
	var id *ast.Ident
	switch x := ast.Unparen(e).(type) {
	case *ast.SelectorExpr:
		id = x.Sel
	case *ast.Ident:
		id = x
	}
	if id == nil {
		return false
	}
	v, ok := info.ObjectOf(id).(*types.Var)
	return ok && v.Pkg() != nil && core.RelPkg(v.Pkg().Path()) == "pkg/gengo" && (v.Name() == "ErrSkip" || v.Name() == "ErrIgnore")
}

// c17R11: generateType calls itself for the dependencies of a type, in a loop that stops at the first non-nil error.
// A sentinel (ErrSkip) returned by the callee is swallowed by the framework further up, so the loop ends silently and
// the dependencies after it are never rendered. Sentinels may therefore be returned only for a kind of type that is
// never a dependency (R10): under a type fact on the argument's underlying type.
func c17R11(p *core.Program, r *core.Report) {
	const rule = "R11"
	r.Floor(rule, 1)
	gt := p.FuncByName("devpkg/deepcopygen", generatorWorkerName(p, "devpkg/deepcopygen", "(*deepcopyGen).generateType"))
	if gt == nil {
		r.Anchor(rule, "devpkg/deepcopygen.(*deepcopyGen).generateType")
		return
	}
	info := gt.Info()
	// the worker is (re-)entered for dependencies: it calls itself, or is called from a loop of the package
	recursive := false
	for _, c := range core.Calls(gt.Body, true) {
		if core.CalleeFunc(info, c) == gt.Obj() {
			recursive = true
		}
	}
	for _, cs := range allCalls(p) {
		if cs.In.Body == nil || core.CalleeFunc(cs.In.Info(), cs.Call) != gt.Obj() {
			continue
		}
		for _, nd := range core.PathTo(cs.In.Body, cs.Call) {
			switch nd.(type) {
			case *ast.ForStmt, *ast.RangeStmt:
				recursive = true
			}
		}
	}
	n := 0
	ast.Inspect(gt.Body, func(m ast.Node) bool {
		ret, ok := m.(*ast.ReturnStmt)
		if !ok || len(ret.Results) != 1 || !isSentinel(info, ret.Results[0]) {
			return true
		}
		n++
		kind := false
		for _, tf := range typeFactsAt(gt, ret) {
			if strings.HasPrefix(core.NamedTypeName(tf.Type), "go/types.") {
				kind = true
			}
		}
		r.Check(kind || !recursive, rule, gt, "a sentinel is returned only for a kind of type that is never a dependency", ret.Pos(), "under a type fact on the underlying type",
			"`"+core.ExprStr(ret)+"` does not depend on the kind of the type: when the type is reached as a dependency, the loop over the dependencies takes the sentinel for a failure and returns, the framework turns it into success, and the dependencies that follow are never generated (the generated file calls DeepCopyInto methods that do not exist)")
		return true
	})
	if n == 0 {
		r.OK(rule, gt, "generateType returns no sentinel", gt.Node().Pos(), "nothing can end the dependency loop silently")
	}
}

// c17R12: the flags that decide how a field is copied are worked out per field: the FieldContext of a field is the
// caller's (FieldContext(f)) or a value made for this field (`&FieldContext{...}`) - never a value that outlives the
// field (a scratch field of the helper, a package variable): flags that are only assigned under a condition (HasDeepCopy
// inside the loop over the type's methods) would otherwise be inherited from the field rendered before.
func c17R12(p *core.Program, r *core.Report) {
	const rule = "R12"
	r.Floor(rule, 1)
	cf := p.FuncByName("devpkg/deepcopygen/helper", "(*StructFieldsCopy).createFieldSnippet")
	if cf == nil {
		r.Anchor(rule, "devpkg/deepcopygen/helper.(*StructFieldsCopy).createFieldSnippet")
		return
	}
	info := cf.Info()
	n := 0
	seen := map[*types.Var]bool{}
	ast.Inspect(cf.Body, func(m ast.Node) bool {
		id, ok := m.(*ast.Ident)
		if !ok {
			return true
		}
		v, _ := info.ObjectOf(id).(*types.Var)
		if v == nil || seen[v] || v.IsField() || !core.DeclaredIn(info, cf.Body, v) {
			return true
		}
		pt, isPtr := v.Type().(*types.Pointer)
		if !isPtr || !strings.HasSuffix(core.NamedTypeName(pt.Elem()), "/helper.FieldContext") {
			return true
		}
		seen[v] = true
		for _, d := range core.DefsOf(info, cf.Body, v) {
			if d.Rhs == nil {
				continue
			}
			n++
			rhs := ast.Unparen(d.Rhs)
			good := false
			switch x := rhs.(type) {
			case *ast.Ident:
				if x.Name == "nil" {
					good = true
				} else if w := core.VarOf(info, x); w != nil && core.DeclaredIn(info, cf.Body, w) {
					good = true // another local of the same kind, checked on its own
				}
			case *ast.CallExpr:
				good = true // the caller's FieldContext(f)
			case *ast.UnaryExpr:
				_, isLit := ast.Unparen(x.X).(*ast.CompositeLit)
				good = x.Op == token.AND && isLit
			}
			r.Check(good, rule, cf, "the field's context is the caller's or made for this field: "+v.Name()+" = "+core.ExprStr(d.Rhs), d.Stmt.Pos(), "nil, a call result or a fresh &FieldContext{...}",
				"`"+v.Name()+"` can point at `"+core.ExprStr(d.Rhs)+"`, a value that outlives the field: HasDeepCopy / HasDeepCopyInto are only assigned inside the loop over the field type's methods, so a named type without methods inherits the flags of the field rendered before it (an `interface{}`-typed field after a struct field is copied with DeepCopyInto)")
		}
		return true
	})
	if n == 0 {
		r.Anchor(rule, "local *FieldContext of createFieldSnippet")
	}
}

// generatorWorkerName: the function of a generator package that does the work for one type: the one that marks the
// type in the generator's `processed` set (a store of `true` into a map[*types.Named]bool field of the receiver). It is
// the named function unless the marking moved (recursion turned into a work list with a per-type function).
func generatorWorkerName(p *core.Program, rel, deflt string) string {
	for _, f := range p.Funcs() {
		if core.RelPkg(f.Pkg.PkgPath) != rel || f.Decl == nil || f.Decl.Recv == nil || f.Body == nil {
			continue
		}
		info := f.Info()
		found := false
		ast.Inspect(f.Body, func(n ast.Node) bool {
			as, ok := n.(*ast.AssignStmt)
			if !ok || len(as.Lhs) != 1 || len(as.Rhs) != 1 {
				return true
			}
			ix, ok := ast.Unparen(as.Lhs[0]).(*ast.IndexExpr)
			if !ok {
				return true
			}
			fld := core.FieldOf(info, ix.X)
			if fld == nil {
				return true
			}
			m, isMap := fld.Type().Underlying().(*types.Map)
			if !isMap || !isBasicKind(m.Elem(), types.Bool) || core.NamedTypeName(m.Key()) != "go/types.Named" {
				return true
			}
			if tv := info.Types[as.Rhs[0]]; tv.Value != nil && tv.Value.String() == "true" {
				found = true
			}
			return true
		})
		if found {
			return f.Name
		}
	}
	return deflt
}

// mentionsMethodName: the condition compares the name of one of a type's own methods - `m.Name()` with m taken from
// (*types.Named).Method / Methods, directly or through locals (`name := m.Name()`, `for m := range x.Methods()`).
func mentionsMethodName(info *types.Info, body ast.Node, e ast.Expr, depth int) bool {
	if depth > 6 || e == nil {
		return false
	}
	found := false
	ast.Inspect(e, func(q ast.Node) bool {
		if found {
			return false
		}
		switch y := q.(type) {
		case *ast.CallExpr:
			if strings.HasSuffix(core.CalleeName(info, y), ").Name") && fromMethodQuery(info, body, recvOf(y), 0) {
				found = true
			}
		case *ast.Ident:
			if v, ok := info.ObjectOf(y).(*types.Var); ok && !v.IsField() {
				if d, single := core.SingleDef(info, body, v); single && d.Rhs != nil && d.Index < 0 && (d.Kind == "define" || d.Kind == "var") {
					if mentionsMethodName(info, body, d.Rhs, depth+1) {
						found = true
					}
				}
			}
		}
		return !found
	})
	return found
}

func fromMethodQuery(info *types.Info, body ast.Node, e ast.Expr, depth int) bool {
	if depth > 6 || e == nil {
		return false
	}
	found := false
	ast.Inspect(e, func(q ast.Node) bool {
		if found {
			return false
		}
		switch y := q.(type) {
		case *ast.CallExpr:
			switch core.CalleeName(info, y) {
			case "(*go/types.Named).Method", "(*go/types.Named).Methods":
				found = true
			}
		case *ast.Ident:
			if v, ok := info.ObjectOf(y).(*types.Var); ok && !v.IsField() {
				if ds := core.DefsOf(info, body, v); len(ds) == 1 && ds[0].Rhs != nil {
					// a definition, or the range variable of `range x.Methods()`
					if fromMethodQuery(info, body, ds[0].Rhs, depth+1) {
						found = true
					}
				}
			}
		}
		return !found
	})
	return found
}

// c17R13: "tagged/untagged dependencies" at any nesting depth get their methods. The framework runs the callbacks of
// Context.Defer in ONE pass over the list as it stands when the pass begins (`for _, fn := range defers`): a callback
// registered while a deferred callback is running is never called. A generator may therefore not reach Context.Defer
// from inside a deferred callback - which is what happens when the dependencies of a type are generated through Defer
// (the dependency's own dependencies are then registered during the pass and dropped). Decided over the generator
// packages: from the function literal handed to Defer no call of Context.Defer is reachable - unless the framework's
// pass re-reads the list (an index loop up to len, checked on the current source).
func c17R13(p *core.Program, r *core.Report) {
	const rule = "R13"
	r.Floor(rule, 1)
	// does the framework's pass pick up late registrations?
	rereads := false
	var passAt token.Pos
	for _, f0 := range p.Funcs() {
		if f0.Body == nil || f0.Decl == nil || core.RelPkg(f0.Pkg.PkgPath) != "pkg/gengo" {
			continue
		}
		f := flatten(p, f0) // loops in range form
		info := f.Info()
		ast.Inspect(f.Body, func(n ast.Node) bool {
			switch x := n.(type) {
			case *ast.RangeStmt:
				// a range evaluates its operand once: the pass runs over the list as it stood, whether the operand is the
				// field itself or a local snapshot of it
				seq, _ := core.Resolve(info, f.Body, x.X)
				if isRole(p, core.FieldOf(info, seq), "ctx.callbacks") {
					passAt = x.Pos()
				}
			case *ast.ForStmt:
				if x.Cond != nil {
					ast.Inspect(x.Cond, func(m ast.Node) bool {
						if c, ok := m.(*ast.CallExpr); ok && core.CalleeName(info, c) == "builtin.len" && len(c.Args) == 1 && isRole(p, core.FieldOf(info, c.Args[0]), "ctx.callbacks") {
							rereads = true
							passAt = x.Pos()
						}
						return true
					})
				}
			}
			return true
		})
	}
	if !passAt.IsValid() {
		r.Anchor(rule, "the loop of pkg/gengo over the deferred callbacks of a context")
		return
	}
	deferName := "(" + core.G("pkg/gengo.Context") + ").Defer"
	n := 0
	for _, cs := range callersOf(p, deferName) {
		if !strings.HasPrefix(core.RelPkg(cs.In.Pkg.PkgPath), "devpkg/") || len(cs.Call.Args) != 1 {
			continue
		}
		n++
		construct := "no Defer from inside a deferred callback: " + core.ExprStr(cs.Call.Fun) + "(…)"
		if rereads {
			r.OK(rule, cs.In, construct, cs.Call.Pos(), "the framework's pass re-reads the length of the list on every step")
			continue
		}
		var root *core.Func
		switch a := ast.Unparen(cs.Call.Args[0]).(type) {
		case *ast.FuncLit:
			root = p.FuncOfLit(a)
		default:
			if fn, ok := cs.In.Info().ObjectOf(identOf(a)).(*types.Func); ok {
				root = p.FuncOfObj(fn)
			}
		}
		if root == nil {
			r.Unknown(rule, cs.In, construct, cs.Call.Pos(), "the callback is not a function of the module")
			continue
		}
		bad := ""
		for f := range reachableFrom(p, root) {
			if f.Body == nil {
				continue
			}
			for _, c := range core.Calls(f.Body, false) {
				if core.CalleeName(f.Info(), c) == deferName {
					bad = f.QName() + " at " + p.Pos(c.Pos())
				}
			}
		}
		r.Check(bad == "", rule, cs.In, construct, cs.Call.Pos(), "nothing the callback reaches registers another callback",
			"the deferred callback reaches Context.Defer again ("+bad+"): the framework runs the callbacks in one pass over the list as it stood at the start, so what is registered during the pass is never run - with dependencies generated this way, the dependencies of a dependency get no methods and the generated file does not compile")
	}
	if n == 0 {
		r.OK(rule, &core.Func{Pkg: p.Pkg("devpkg/deepcopygen"), Name: "<generators>"}, "no generator defers the generation of dependencies", 0, "Context.Defer is not called by a generator package")
	}
}

// c17R14: "DeepCopy of nil is nil" for the interface variant too. A method whose result is an interface must not
// return a pointer-typed expression that can be nil: a nil *T in an interface is not nil. Decided on the constant
// template that declares DeepCopyObject: every return is the literal nil, or a variable returned inside an `if` whose
// condition is `<that variable> != nil`.
func c17R14(p *core.Program, r *core.Report) {
	const rule = "R14"
	r.Floor(rule, 1)
	n := 0
	for _, s := range templateSites(p) {
		if core.RelPkg(s.F.Pkg.PkgPath) != "devpkg/deepcopygen" || !strings.Contains(s.Format, "DeepCopyObject()") {
			continue
		}
		file, _, err := parseSkeleton(skeleton(s))
		if err != nil {
			continue // T2 reports it
		}
		for _, d := range file.Decls {
			fd, ok := d.(*ast.FuncDecl)
			if !ok || fd.Name.Name != "DeepCopyObject" || fd.Body == nil {
				continue
			}
			n++
			bad := ""
			var walk func(n ast.Node, guarded map[string]bool)
			walk = func(n ast.Node, guarded map[string]bool) {
				switch x := n.(type) {
				case nil:
					return
				case *ast.IfStmt:
					g2 := map[string]bool{}
					for k := range guarded {
						g2[k] = true
					}
					for _, a := range cfgxAtoms(x.Cond, true) {
						if b, isB := ast.Unparen(a.Cond).(*ast.BinaryExpr); isB && ((b.Op == token.NEQ) == a.Val) && (b.Op == token.NEQ || b.Op == token.EQL) {
							if id, isID := ast.Unparen(b.X).(*ast.Ident); isID {
								if nl, isNil := ast.Unparen(b.Y).(*ast.Ident); isNil && nl.Name == "nil" {
									g2[id.Name] = true
								}
							}
						}
					}
					walk(x.Body, g2)
					if x.Else != nil {
						walk(x.Else, guarded)
					}
				case *ast.BlockStmt:
					for _, st := range x.List {
						walk(st, guarded)
					}
				case *ast.ReturnStmt:
					if len(x.Results) != 1 {
						return
					}
					switch e := ast.Unparen(x.Results[0]).(type) {
					case *ast.Ident:
						if e.Name != "nil" && !guarded[e.Name] {
							bad = "return " + e.Name
						}
					default:
						bad = "return <expression>"
					}
				case *ast.ForStmt:
					walk(x.Body, guarded)
				case *ast.RangeStmt:
					walk(x.Body, guarded)
				case *ast.SwitchStmt:
					walk(x.Body, map[string]bool{})
				case *ast.CaseClause:
					for _, st := range x.Body {
						walk(st, guarded)
					}
				}
			}
			walk(fd.Body, map[string]bool{})
			r.Check(bad == "", rule, s.F, "DeepCopyObject of a nil receiver is the nil interface", s.Call.Pos(), "every return is nil or a variable under `!= nil`",
				"the emitted DeepCopyObject can hand a nil pointer to its interface result (`"+bad+"`): for a nil receiver the result is a non-nil interface holding a nil *T, so `x.DeepCopyObject() == nil` is false")
		}
	}
	if n == 0 {
		r.Anchor(rule, "the constant template of devpkg/deepcopygen that declares DeepCopyObject")
	}
}

// c17R15: "with and without the gengo:deepcopy:interfaces tag", whichever way a type is reached (dispatched by the
// framework, or generated on demand as the dependency of another type - it is marked processed either way and never
// generated twice): the per-type worker reads the tags of the type it generates itself. The map in which the interfaces
// tag is looked up is the result of Context.Doc for the Obj() of the worker's own type parameter, taken inside the
// worker - not something handed in by a caller that may have none.
func c17R15(p *core.Program, r *core.Report) {
	const rule = "R15"
	r.Floor(rule, 1)
	w := p.FuncByName("devpkg/deepcopygen", generatorWorkerName(p, "devpkg/deepcopygen", "(*deepcopyGen).generateType"))
	if w == nil {
		r.Anchor(rule, "the per-type worker of the deepcopy generator")
		return
	}
	wRaw := w
	w = flatten(p, w) // the lookup may sit in an unexported helper that is handed the tags
	info := w.Info()
	n := 0
	ast.Inspect(w.Body, func(m ast.Node) bool {
		ix, ok := m.(*ast.IndexExpr)
		if !ok {
			return true
		}
		k, isC := core.ConstString(info, ix.Index)
		if !isC || !strings.HasPrefix(k, "gengo:deepcopy") {
			return true
		}
		n++
		good := false
		src, _ := core.Resolve(info, w.Body, ix.X)
		if c, isCall := ast.Unparen(src).(*ast.CallExpr); isCall && strings.HasSuffix(core.CalleeName(info, c), ").Doc") && len(c.Args) == 1 {
			// Doc(<named>.Obj()) with <named> the worker's type parameter (possibly re-assigned to its Origin())
			a0, _ := core.Resolve(info, w.Body, c.Args[0]) // `obj := named.Obj(); c.Doc(obj)`
			if oc, isObj := ast.Unparen(a0).(*ast.CallExpr); isObj && strings.HasSuffix(core.CalleeName(info, oc), ").Obj") {
				if v := core.VarOf(info, recvOf(oc)); v != nil && (isParamOf(w, v) || isParamOf(wRaw, v)) {
					good = true
				}
			}
		}
		r.Check(good, rule, w, "the tags consulted are those of the type being generated: "+core.ExprStr(ix), ix.Pos(), "tags come from Doc(<the worker's type>.Obj()) inside the worker",
			"the worker looks `"+k+"` up in a map it did not read for the type at hand (handed in by the caller, nil for dependencies): a tagged type that is first reached as a field of another type is generated without the tagged methods and, being marked processed, never gets them")
		return true
	})
	if n == 0 {
		r.Anchor(rule, "lookup of a gengo:deepcopy tag in the worker")
	}
}
