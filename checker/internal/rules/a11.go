package rules

import (
	"go/ast"
	"go/types"
	"strings"

	"gengoverif/checker/internal/core"
)

// A11 iterator protocol. A push iterator (`func(yield func(...) bool)`) must not call yield again once a call of it
// answered false: range-over-func then panics ("range function continued iteration after function for loop body
// returned false") - for the run pipeline that means Execute does not return the error of a failed generator, it
// panics while the loop over the packages is being left.
//
// Decided per call of a yield function, inside the function body that contains the call (nested literals are bodies of
// their own): from every edge on which the call is known to have answered false - or from the call itself when its
// answer is dropped - no call of the same yield function is reachable. A call whose answer is returned to the caller
// (`return yield(x)`, the callback of a visitor) hands the decision on and is not judged here (C14.R11 judges the
// visitor callbacks of the resolver).
func iteratorProtocol(p *core.Program, r *core.Report, rule string, floor int) {
	r.Floor(rule, floor)
	for _, f := range p.Funcs() {
		if f.Body == nil {
			continue
		}
		rel := core.RelPkg(f.Pkg.PkgPath)
		if !strings.HasPrefix(rel, "pkg/") && !strings.HasPrefix(rel, "devpkg/") {
			continue
		}
		info := f.Info()
		g := graph(f)
		yv := yieldVars(p)
		// calls of a yield function directly in this body
		type ycall struct {
			call *ast.CallExpr
			v    *types.Var
		}
		var ys []ycall
		ast.Inspect(f.Body, func(n ast.Node) bool {
			if lit, ok := n.(*ast.FuncLit); ok && lit.Body != f.Body {
				return false
			}
			c, ok := n.(*ast.CallExpr)
			if !ok {
				return true
			}
			v := core.VarOf(info, c.Fun)
			if v == nil || !yv[v] {
				return true
			}
			ys = append(ys, ycall{c, v})
			return true
		})
		if len(ys) == 0 {
			continue
		}
		isCallOf := func(n ast.Node, v *types.Var) bool {
			found := false
			if n == nil {
				return false
			}
			ast.Inspect(n, func(m ast.Node) bool {
				if _, ok := m.(*ast.FuncLit); ok {
					return false
				}
				if c, ok := m.(*ast.CallExpr); ok && core.VarOf(info, c.Fun) == v {
					found = true
				}
				return !found
			})
			return found
		}
		for _, y := range ys {
			construct := "no " + y.v.Name() + " after " + y.v.Name() + " answered false: " + core.ExprStr(y.call.Fun) + "(" + joinExprs(y.call.Args) + ")"
			pt := g.PointOf(y.call)
			if pt.B == nil {
				r.Unknown(rule, f, construct, y.call.Pos(), "the call is not in the control-flow graph")
				continue
			}
			// handed on?
			if ret, ok := pt.Node().(*ast.ReturnStmt); ok {
				handed := false
				for _, res := range ret.Results {
					if ast.Unparen(res) == ast.Expr(y.call) {
						handed = true
					}
				}
				if handed {
					r.OK(rule, f, construct, y.call.Pos(), "the answer is returned to the caller of this function")
					continue
				}
			}
			// the variable that receives the answer, if any
			var ansVar *types.Var
			if as, ok := pt.Node().(*ast.AssignStmt); ok && len(as.Lhs) == 1 && len(as.Rhs) == 1 && ast.Unparen(as.Rhs[0]) == ast.Expr(y.call) {
				ansVar = core.VarOf(info, as.Lhs[0])
			}
			isAnswer := func(e ast.Expr) bool {
				e = ast.Unparen(e)
				if e == ast.Expr(y.call) {
					return true
				}
				return ansVar != nil && core.VarOf(info, e) == ansVar
			}
			// stop edges: the answer is false
			type edge struct {
				b *cfgBlock
				k int
			}
			var stops []edge
			decided := false
			for _, br := range g.Branches() {
				if br.Tag != nil {
					continue
				}
				for k := 0; k < 2; k++ {
					for _, a := range cfgxAtoms(br.Cond, k == 0) {
						if a.Tag == nil && isAnswer(a.Cond) {
							decided = true
							if !a.Val {
								stops = append(stops, edge{br.B, k})
							}
						}
					}
				}
			}
			target := func(q cfgxPoint) bool { return q.Node() != nil && !g.InLit(q.Node()) && isCallOf(q.Node(), y.v) }
			bad := cfgxPoint{}
			found := false
			if !decided {
				// the answer is not looked at: whatever runs after the call runs after a false answer too
				bad, found = g.Reach(pt, false, cfgxQuery{Target: target})
			} else {
				for _, e := range stops {
					if e.k >= len(e.b.Succs) {
						continue
					}
					if q, ok := g.Reach(cfgxPoint{B: e.b.Succs[e.k], I: 0}, true, cfgxQuery{Target: target}); ok {
						bad, found = q, true
						break
					}
				}
			}
			if found {
				r.Bad(rule, f, construct, y.call.Pos(), "after this call answered false (the consumer left its loop: an error was returned from inside `for … range`) control can reach another call of "+y.v.Name()+" at "+p.Pos(bad.Node().Pos())+": range-over-func panics instead of letting the consumer's return take effect")
			} else {
				r.OK(rule, f, construct, y.call.Pos(), "every path after a false answer leaves without calling it again")
			}
		}
	}
}

// yieldVars: the parameters `yield` of the program's push iterators: the only parameter, of function type with a
// single bool result, of a function (literal) without results - whatever it is called.
var yieldVarCache = map[*core.Program]map[*types.Var]bool{}

func yieldVars(p *core.Program) map[*types.Var]bool {
	if m, ok := yieldVarCache[p]; ok {
		return m
	}
	m := map[*types.Var]bool{}
	for _, f := range p.Funcs() {
		if f.Type == nil || f.Type.Params == nil || len(f.Type.Params.List) != 1 || len(f.Type.Params.List[0].Names) != 1 {
			continue
		}
		if f.Type.Results != nil && len(f.Type.Results.List) > 0 {
			continue
		}
		v, _ := f.Info().ObjectOf(f.Type.Params.List[0].Names[0]).(*types.Var)
		if v == nil {
			continue
		}
		sig, ok := v.Type().Underlying().(*types.Signature)
		if !ok || sig.Results().Len() != 1 {
			continue
		}
		if b, ok := sig.Results().At(0).Type().Underlying().(*types.Basic); ok && b.Kind() == types.Bool {
			m[v] = true
		}
	}
	yieldVarCache[p] = m
	return m
}

func joinExprs(es []ast.Expr) string {
	parts := make([]string, len(es))
	for i, e := range es {
		s := core.ExprStr(e)
		if len(s) > 40 {
			s = s[:40] + "…"
		}
		parts[i] = s
	}
	return strings.Join(parts, ", ")
}
