package rules

import (
	"go/ast"
	"go/token"
	"go/types"
	"sort"
	"strings"

	"gengoverif/checker/internal/core"
)

// ownOutputOverride is the one idiom that makes a method-set query in a generator package safe against the generator's
// own previous output (C04.R3): what the scan finds is not used for types of the processed package.
//
//   - all queries of the function are on one type variable x and sit in one loop L that is bounded by the type's own
//     methods (`i < x.NumMethods()` / `range x.Methods()`); the loop body only calls go/types getters and writes only
//     loop locals and fields of one local record b (the scan's outputs);
//   - an own-package flag is defined once as `[x.Obj().Pkg() != nil &&] x.Obj().Pkg().Path() == <*types.Package>.Path()`;
//   - every read of an output after L is reached from the end of L only through a store into that output whose value
//     mentions neither an output nor a query, or over an edge on which the flag is false (the type is not of the package
//     being generated: nothing this run or an earlier one writes adds methods to it) or on which
//     `x.Underlying().(*types.Interface)` succeeded (a named interface type has no explicit methods:
//     (*types.Named).NumMethods is 0, L's body did not run and the outputs hold their initial values).
//
// The result says why the idiom does not apply when it does not.
func ownOutputOverride(p *core.Program, f *core.Func) (bool, string) {
	f = unit(p, f) // the scan may sit in a helper that hands the record back: analysed in place in its caller
	info := f.Info()
	body := f.Body
	resolve := func(e ast.Expr) ast.Expr {
		if e == nil {
			return nil
		}
		r, _ := core.Resolve(info, body, e)
		return r
	}
	classOf := func(e ast.Expr) *types.Var {
		if e == nil {
			return nil
		}
		v := core.VarOf(info, e)
		if v == nil || v.IsField() {
			return nil
		}
		return aliasRep(f, v)
	}
	var queries []*ast.CallExpr
	for _, c := range core.Calls(body, true) {
		name := core.CalleeName(info, c)
		if methodSetQueries[name] || (strings.HasSuffix(name, ").MethodsOf") && strings.Contains(name, core.ModulePath+"/pkg/types")) {
			queries = append(queries, c)
		}
	}
	if len(queries) == 0 {
		return false, "no query"
	}
	// one type variable
	var x *types.Var
	for _, q := range queries {
		name := core.CalleeName(info, q)
		if !strings.HasPrefix(name, "(*go/types.Named).") {
			return false, "query " + name + " is not a method of the one named type"
		}
		v := core.CanonVarOf(info, body, recvOf(q))
		if v == nil || (x != nil && v != x) {
			return false, "the queries are not all on one type variable"
		}
		x = v
	}
	isX := func(e ast.Expr) bool { return e != nil && core.CanonVarOf(info, body, e) == x }
	// the scan: one loop bounded by the type's methods, or several such loops directly after one another (one pass per
	// method looked for)
	var loops []ast.Stmt
	for _, q := range queries {
		var l ast.Stmt
		path := core.PathTo(body, q)
		for k := len(path) - 1; k >= 0 && l == nil; k-- {
			switch s := path[k].(type) {
			case *ast.ForStmt, *ast.RangeStmt:
				l = s.(ast.Stmt)
			case *ast.FuncLit:
				return false, "a query sits in a function literal"
			}
		}
		if l == nil {
			return false, "the queries are not all in one loop"
		}
		known := false
		for _, have := range loops {
			if have == l {
				known = true
			}
		}
		if !known {
			loops = append(loops, l)
		}
	}
	sort.Slice(loops, func(i, j int) bool { return loops[i].Pos() < loops[j].Pos() })
	if len(loops) > 1 {
		// adjacent statements of one list
		var list []ast.Stmt
		if pth := core.PathTo(body, loops[0]); len(pth) >= 2 {
			switch par := pth[len(pth)-2].(type) {
			case *ast.BlockStmt:
				list = par.List
			case *ast.CaseClause:
				list = par.Body
			}
		}
		at := -1
		for i, st := range list {
			if st == loops[0] {
				at = i
			}
		}
		for k, l := range loops {
			if at < 0 || at+k >= len(list) || list[at+k] != l {
				return false, "the queries are not all in one loop"
			}
		}
	}
	loop := loops[len(loops)-1]
	var rec *types.Var
	outputs := map[*types.Var]bool{}
	why := ""
	for _, lp := range loops {
		var loopBody *ast.BlockStmt
		bounded := false
		switch l := lp.(type) {
		case *ast.ForStmt:
			loopBody = l.Body
			if l.Cond != nil {
				ast.Inspect(l.Cond, func(n ast.Node) bool {
					if c, ok := n.(*ast.CallExpr); ok && core.CalleeName(info, c) == "(*go/types.Named).NumMethods" && isX(recvOf(c)) {
						if b, isCmp := ast.Unparen(l.Cond).(*ast.BinaryExpr); isCmp && b.Op == token.LSS && ast.Unparen(b.Y) == ast.Expr(c) {
							bounded = true
						}
					}
					return true
				})
			}
		case *ast.RangeStmt:
			loopBody = l.Body
			if c, ok := ast.Unparen(l.X).(*ast.CallExpr); ok && isX(recvOf(c)) {
				switch core.CalleeName(info, c) {
				case "(*go/types.Named).Methods":
					bounded = true
				case "(*go/types.Named).NumMethods": // range x.NumMethods()
					bounded = true
				}
			}
		}
		if !bounded {
			return false, "the loop is not bounded by the type's own methods"
		}
		// the loop body: getters only, outputs = fields of one local record
		for _, c := range core.Calls(loopBody, true) {
			name := core.CalleeName(info, c)
			if tv, isConv := info.Types[c.Fun]; isConv && tv.IsType() {
				continue
			}
			if !strings.Contains(name, "go/types.") {
				return false, "the scan calls " + name
			}
		}
		ast.Inspect(loopBody, func(n ast.Node) bool {
			var lhs []ast.Expr
			switch s := n.(type) {
			case *ast.AssignStmt:
				lhs = s.Lhs
			case *ast.IncDecStmt:
				lhs = []ast.Expr{s.X}
			case *ast.FuncLit, *ast.GoStmt, *ast.DeferStmt, *ast.SendStmt:
				why = "the scan does more than assign"
			case *ast.ReturnStmt:
				why = "the scan decides a return: what it finds leaves the function directly"
			case *ast.BranchStmt:
				if s.Tok != token.CONTINUE || s.Label != nil {
					why = "the scan leaves its loop depending on what it finds"
				}
			}
			for _, l := range lhs {
				l = ast.Unparen(l)
				if id, ok := l.(*ast.Ident); ok {
					if id.Name == "_" {
						continue
					}
					if v, _ := info.ObjectOf(id).(*types.Var); v != nil && core.DeclaredIn(info, loopBody, v) {
						continue
					}
					why = "the scan writes the variable " + id.Name + " declared outside it"
					continue
				}
				sel, ok := l.(*ast.SelectorExpr)
				fld := core.FieldOf(info, l)
				if !ok || fld == nil {
					why = "the scan writes " + core.ExprStr(l)
					continue
				}
				b := classOf(sel.X)
				if b == nil || (rec != nil && b != rec) {
					why = "the scan writes " + core.ExprStr(l) + ", not a field of one local record"
					continue
				}
				rec = b
				outputs[fld] = true
			}
			return true
		})
	}
	if why != "" {
		return false, why
	}
	if rec == nil {
		return true, "the scan of " + x.Name() + "'s methods writes nothing"
	}
	isRec := func(e ast.Expr) bool { return classOf(e) == rec }
	outputOf := func(e ast.Expr) *types.Var {
		sel, ok := ast.Unparen(e).(*ast.SelectorExpr)
		if !ok || !isRec(sel.X) {
			return nil
		}
		if fld := core.FieldOf(info, e); fld != nil && outputs[fld] {
			return fld
		}
		return nil
	}
	// the own-package flag: a field of the record or a local, defined once by the path comparison
	isPathOfX := func(e ast.Expr) bool {
		c, ok := ast.Unparen(e).(*ast.CallExpr)
		if !ok || core.CalleeName(info, c) != "(*go/types.Package).Path" {
			return false
		}
		pk, ok := resolve(recvOf(c)).(*ast.CallExpr) // x.Obj().Pkg(), possibly read into a local first
		if !ok || !strings.HasSuffix(core.CalleeName(info, pk), ").Pkg") {
			return false
		}
		ob, ok := resolve(recvOf(pk)).(*ast.CallExpr)
		return ok && core.CalleeName(info, ob) == "(*go/types.Named).Obj" && isX(recvOf(ob))
	}
	isOtherPath := func(e ast.Expr) bool {
		c, ok := ast.Unparen(e).(*ast.CallExpr)
		return ok && core.CalleeName(info, c) == "(*go/types.Package).Path" && !isPathOfX(e)
	}
	isOwnCompare := func(e ast.Expr) bool {
		conj := []ast.Expr{}
		var split func(e ast.Expr)
		split = func(e ast.Expr) {
			if b, ok := ast.Unparen(e).(*ast.BinaryExpr); ok && b.Op == token.LAND {
				split(b.X)
				split(b.Y)
				return
			}
			conj = append(conj, ast.Unparen(e))
		}
		split(e)
		cmp := 0
		for _, c := range conj {
			b, ok := c.(*ast.BinaryExpr)
			if !ok {
				return false
			}
			switch {
			case b.Op == token.EQL && ((isPathOfX(b.X) && isOtherPath(b.Y)) || (isPathOfX(b.Y) && isOtherPath(b.X))):
				cmp++
			case b.Op == token.NEQ && (constNil(info, b.Y) || constNil(info, b.X)):
				// `x.Obj().Pkg() != nil`: a type without a package is not of the processed package either
				var o ast.Expr = b.X
				if constNil(info, b.X) {
					o = b.Y
				}
				pk, ok := resolve(o).(*ast.CallExpr)
				if !ok || !strings.HasSuffix(core.CalleeName(info, pk), ").Pkg") {
					return false
				}
			default:
				return false
			}
		}
		return cmp == 1
	}
	var ownField *types.Var // field of the record
	var ownLocal *types.Var
	nOwnStores := map[*types.Var]int{}
	recStruct := func() *types.Struct {
		t := rec.Type()
		if pt, ok := t.Underlying().(*types.Pointer); ok {
			t = pt.Elem()
		}
		st, _ := t.Underlying().(*types.Struct)
		return st
	}()
	ast.Inspect(body, func(n ast.Node) bool {
		if cl, isLit := n.(*ast.CompositeLit); isLit && recStruct != nil {
			// the record built as a literal: `fc = &FieldContext{InSamePkg: …}`
			if st, _ := info.TypeOf(cl).Underlying().(*types.Struct); st == recStruct {
				for _, el := range cl.Elts {
					if kv, isKV := el.(*ast.KeyValueExpr); isKV {
						if id, isID := kv.Key.(*ast.Ident); isID {
							if fld, _ := info.ObjectOf(id).(*types.Var); fld != nil && fld.IsField() {
								nOwnStores[fld]++
								if isOwnCompare(kv.Value) {
									ownField = fld
								}
							}
						}
					}
				}
			}
			return true
		}
		as, ok := n.(*ast.AssignStmt)
		if !ok || len(as.Lhs) != len(as.Rhs) {
			return true
		}
		for i, l := range as.Lhs {
			if sel, isSel := ast.Unparen(l).(*ast.SelectorExpr); isSel && isRec(sel.X) {
				if fld := core.FieldOf(info, l); fld != nil {
					nOwnStores[fld]++
					if isOwnCompare(as.Rhs[i]) {
						ownField = fld
					}
				}
			} else if v := core.VarOf(info, l); v != nil && isOwnCompare(as.Rhs[i]) {
				if _, single := core.SingleDef(info, body, v); single {
					ownLocal = v
				}
			}
		}
		return true
	})
	if ownField != nil && (nOwnStores[ownField] != 1 || outputs[ownField]) {
		ownField = nil
	}
	if ownField == nil && ownLocal == nil {
		return false, "no flag is defined (once) as `" + x.Name() + ".Obj().Pkg().Path() == <package>.Path()`: nothing tells types of the processed package from others"
	}
	isOwnFlag := func(e ast.Expr) bool {
		e = ast.Unparen(e)
		if ownLocal != nil && core.VarOf(info, e) == ownLocal {
			return true
		}
		if sel, ok := e.(*ast.SelectorExpr); ok && ownField != nil && isRec(sel.X) && core.FieldOf(info, e) == ownField {
			return true
		}
		return false
	}
	isIfaceOK := func(e ast.Expr) bool {
		v := core.VarOf(info, e)
		if v == nil {
			return false
		}
		d, ok := core.SingleDef(info, body, v)
		if !ok || d.Index != 1 {
			return false
		}
		ta, ok := ast.Unparen(d.Rhs).(*ast.TypeAssertExpr)
		if !ok || ta.Type == nil || core.NamedTypeName(info.TypeOf(ta.Type)) != "go/types.Interface" {
			return false
		}
		u, ok := ast.Unparen(ta.X).(*ast.CallExpr)
		return ok && core.CalleeName(info, u) == "(*go/types.Named).Underlying" && isX(recvOf(u))
	}
	g := graph(f)
	var start cfgxPoint
	switch l := loop.(type) {
	case *ast.ForStmt:
		start = cfgxPoint{B: g.BlockOf(kindForDone, l), I: 0}
	case *ast.RangeStmt:
		start = cfgxPoint{B: g.BlockOf(kindRangeDone, l), I: 0}
	}
	if start.B == nil {
		return false, "the end of the scan loop is not in the control-flow graph"
	}
	loopNodes := map[ast.Node]bool{}
	for _, lp := range loops {
		ast.Inspect(lp, func(n ast.Node) bool {
			if n != nil {
				loopNodes[n] = true
			}
			return true
		})
	}
	inLoop := func(n ast.Node) bool { return loopNodes[n] }
	mentionsOutputOrQuery := func(e ast.Expr) bool {
		bad := false
		ast.Inspect(e, func(n ast.Node) bool {
			switch y := n.(type) {
			case *ast.SelectorExpr:
				if outputOf(y) != nil {
					bad = true
				}
			case *ast.CallExpr:
				if methodSetQueries[core.CalleeName(info, y)] {
					bad = true
				}
			}
			return !bad
		})
		return bad
	}
	// implied: the condition having this value implies "not of the processed package, or an interface type"
	var implied func(e ast.Expr, val bool) bool
	implied = func(e ast.Expr, val bool) bool {
		e = ast.Unparen(e)
		switch y := e.(type) {
		case *ast.UnaryExpr:
			if y.Op == token.NOT {
				return implied(y.X, !val)
			}
		case *ast.BinaryExpr:
			switch {
			case y.Op == token.LAND && val, y.Op == token.LOR && !val: // both operands have the value
				return implied(y.X, val) || implied(y.Y, val)
			case y.Op == token.LAND && !val, y.Op == token.LOR && val: // one of them has, it is not known which
				return implied(y.X, val) && implied(y.Y, val)
			}
		}
		return (isOwnFlag(e) && !val) || (isIfaceOK(e) && val)
	}
	cutEdge := func(b *cfgBlock, k int) bool {
		if len(b.Nodes) == 0 || len(b.Succs) != 2 {
			return false
		}
		e, ok := b.Nodes[len(b.Nodes)-1].(ast.Expr)
		if !ok {
			return false
		}
		return implied(e, k == 0)
	}
	for out := range outputs {
		reads := func(n ast.Node) bool {
			if n == nil || inLoop(n) {
				return false
			}
			found := false
			var lhs map[ast.Expr]bool
			if as, ok := n.(*ast.AssignStmt); ok && as.Tok == token.ASSIGN {
				lhs = map[ast.Expr]bool{}
				for _, l := range as.Lhs {
					lhs[ast.Unparen(l)] = true
				}
			}
			ast.Inspect(n, func(m ast.Node) bool {
				switch y := m.(type) {
				case *ast.FuncLit:
					return false
				case *ast.SelectorExpr:
					if outputOf(y) == out && !lhs[ast.Expr(y)] {
						found = true
					}
					if isRec(y.X) {
						return false
					}
				case *ast.BinaryExpr:
					// `fc == nil` reads no field
					if (y.Op == token.EQL || y.Op == token.NEQ) && (constNil(info, y.X) || constNil(info, y.Y)) {
						return false
					}
				case *ast.AssignStmt:
					// a plain copy between holders of the record reads no field either
					if len(y.Lhs) == len(y.Rhs) && (y.Tok == token.ASSIGN || y.Tok == token.DEFINE) {
						for i := range y.Lhs {
							if !(isRec(y.Lhs[i]) && isRec(y.Rhs[i])) {
								ast.Inspect(y.Rhs[i], func(q ast.Node) bool {
									if id, isID := q.(*ast.Ident); isID && isRec(id) {
										if _, isSel := parentOf(y.Rhs[i], id).(*ast.SelectorExpr); !isSel {
											found = true
										}
									}
									if sel, isSel := q.(*ast.SelectorExpr); isSel && outputOf(sel) == out {
										found = true
									}
									return !found
								})
							}
						}
						return false
					}
				case *ast.Ident:
					// the record as a whole (returned, passed on, captured)
					if info.Defs[y] == nil && isRec(y) {
						found = true
					}
				}
				return !found
			})
			return found
		}
		at, reached := g.Reach(start, true, cfgxQuery{
			Target: func(q cfgxPoint) bool { return reads(q.Node()) },
			Cut: func(q cfgxPoint) bool {
				as, ok := q.Node().(*ast.AssignStmt)
				if !ok || as.Tok != token.ASSIGN || len(as.Lhs) != len(as.Rhs) || inLoop(as) {
					return false
				}
				for i, l := range as.Lhs {
					if outputOf(l) == out && !mentionsOutputOrQuery(as.Rhs[i]) {
						return true
					}
				}
				return false
			},
			CutEdge: cutEdge,
		})
		if reached {
			return false, "`" + rec.Name() + "." + out.Name() + "`, which the scan of " + x.Name() + "'s methods writes, is read at " + p.Fset.Position(at.Node().Pos()).String()[strings.LastIndex(p.Fset.Position(at.Node().Pos()).String(), "/")+1:] + " on a path on which the type can belong to the processed package and the field was not overwritten"
		}
	}
	names := []string{}
	for out := range outputs {
		names = append(names, out.Name())
	}
	sort.Strings(names)
	return true, "what the scan of " + x.Name() + "'s methods finds (" + strings.Join(names, ", ") + ") is overwritten before any use when the type is of the processed package and not an interface; a named interface type has no explicit methods"
}

// constNil: the expression is the predeclared nil.
func constNil(info *types.Info, e ast.Expr) bool {
	id, ok := ast.Unparen(e).(*ast.Ident)
	if !ok {
		return false
	}
	_, isNil := info.ObjectOf(id).(*types.Nil)
	return isNil
}

// parentOf: the node directly above target inside root (nil if target is root or not inside).
func parentOf(root ast.Node, target ast.Node) ast.Node {
	path := core.PathTo(root, target)
	if len(path) < 2 {
		return nil
	}
	return path[len(path)-2]
}
