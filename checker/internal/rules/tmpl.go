package rules

import (
	"go/ast"
	"go/token"
	"go/types"
	"strings"

	"gengoverif/checker/internal/cfgx"
	"gengoverif/checker/internal/core"
)

// A tmpl is the abstract text a string-building expression or a write produces:
// constant text with one \x00 per non-constant operand, in order. fmt.Sprintf /
// Fprintf with a constant format (verbs %s %v %d %q count as operands, %% as a
// percent sign), `+` concatenation and constants are one abstraction, so that a
// rule about *what text is built* does not depend on how it is spelled.
type tmpl struct {
	Text string
	Ops  []ast.Expr
}

func (t tmpl) concat(o tmpl) tmpl {
	return tmpl{t.Text + o.Text, append(append([]ast.Expr{}, t.Ops...), o.Ops...)}
}

// formatTemplate: a printf format with its operands.
func formatTemplate(format string, ops []ast.Expr) (tmpl, bool) {
	var sb strings.Builder
	k := 0
	for i := 0; i < len(format); i++ {
		if format[i] != '%' {
			sb.WriteByte(format[i])
			continue
		}
		if i+1 >= len(format) {
			return tmpl{}, false
		}
		switch format[i+1] {
		case '%':
			sb.WriteByte('%')
		case 's', 'v', 'd', 'q':
			if k >= len(ops) {
				return tmpl{}, false
			}
			sb.WriteByte(0)
			k++
		default:
			return tmpl{}, false
		}
		i++
	}
	if k != len(ops) {
		return tmpl{}, false
	}
	return tmpl{sb.String(), append([]ast.Expr{}, ops...)}, true
}

// exprTemplate: the template of a string expression.
func exprTemplate(info *types.Info, e ast.Expr) (tmpl, bool) {
	e = ast.Unparen(e)
	if s, ok := core.ConstString(info, e); ok {
		return tmpl{Text: s}, true
	}
	if c := core.AsCall(info, e, "fmt.Sprintf"); c != nil && len(c.Args) >= 1 {
		if s, ok := core.ConstString(info, c.Args[0]); ok {
			return formatTemplate(s, c.Args[1:])
		}
		return tmpl{}, false
	}
	if b, ok := e.(*ast.BinaryExpr); ok && b.Op == token.ADD {
		l, lok := exprTemplate(info, b.X)
		r, rok := exprTemplate(info, b.Y)
		if lok && rok {
			return l.concat(r), true
		}
		return tmpl{}, false
	}
	if t := info.TypeOf(e); t != nil {
		if bt, ok := t.Underlying().(*types.Basic); ok && bt.Info()&types.IsString != 0 {
			return tmpl{Text: "\x00", Ops: []ast.Expr{e}}, true
		}
	}
	return tmpl{}, false
}

// writeTemplate: destination and template of a call that writes text into a writer:
// fmt.Fprintf/Fprint/Fprintln(w, ...), io.WriteString(w, s), w.WriteString(s), w.WriteByte/WriteRune(const), w.Write([]byte(s)).
func writeTemplate(info *types.Info, c *ast.CallExpr) (dest ast.Expr, t tmpl, ok bool) {
	name := core.CalleeName(info, c)
	switch {
	case name == "fmt.Fprintf" && len(c.Args) >= 2:
		if s, isC := core.ConstString(info, c.Args[1]); isC {
			t, ok = formatTemplate(s, c.Args[2:])
			return c.Args[0], t, ok
		}
	case (name == "fmt.Fprint" || name == "io.WriteString") && len(c.Args) >= 2:
		t, ok = tmpl{}, true
		for _, a := range c.Args[1:] {
			at, aok := exprTemplate(info, a)
			if !aok {
				return c.Args[0], tmpl{}, false
			}
			t = t.concat(at)
		}
		return c.Args[0], t, ok
	case strings.HasSuffix(name, ").WriteString") && len(c.Args) == 1:
		t, ok = exprTemplate(info, c.Args[0])
		return recvOf(c), t, ok
	case (strings.HasSuffix(name, ").WriteByte") || strings.HasSuffix(name, ").WriteRune")) && len(c.Args) == 1:
		if v, isC := core.ConstInt(info, c.Args[0]); isC {
			return recvOf(c), tmpl{Text: string(rune(v))}, true
		}
	}
	return nil, tmpl{}, false
}

// aliasRep: representative of the may-alias class of a variable inside a (flattened) function:
// variables connected by plain copies `a = b`, `a := b`, `x, a = y, b` are one class. Used for
// identity questions about buffers, files and sets ("is this write into the source buffer?"),
// where parameter passing and result passing of inlined helpers introduce copies.
var aliasCache = map[*core.Func]map[*types.Var]*types.Var{}

func aliasRep(f *core.Func, v *types.Var) *types.Var {
	if v == nil {
		return nil
	}
	root := f.Root()
	m, ok := aliasCache[root]
	if !ok {
		m = map[*types.Var]*types.Var{}
		info := root.Info()
		var find func(x *types.Var) *types.Var
		find = func(x *types.Var) *types.Var {
			for m[x] != nil && m[x] != x {
				x = m[x]
			}
			return x
		}
		union := func(a, b *types.Var) {
			ra, rb := find(a), find(b)
			if ra == rb {
				return
			}
			if ra.Pos() <= rb.Pos() {
				m[rb] = ra
			} else {
				m[ra] = rb
			}
		}
		if root.Body != nil {
			ast.Inspect(root.Body, func(n ast.Node) bool {
				switch x := n.(type) {
				case *ast.AssignStmt:
					if len(x.Lhs) == len(x.Rhs) {
						for i := range x.Lhs {
							a, b := core.VarOf(info, x.Lhs[i]), core.VarOf(info, x.Rhs[i])
							if a != nil && b != nil && !a.IsField() && !b.IsField() {
								union(a, b)
							}
						}
					}
				case *ast.ValueSpec:
					if len(x.Names) == len(x.Values) {
						for i := range x.Names {
							a, _ := info.ObjectOf(x.Names[i]).(*types.Var)
							b := core.VarOf(info, x.Values[i])
							if a != nil && b != nil {
								union(a, b)
							}
						}
					}
				}
				return true
			})
		}
		// path compression into a plain map
		for k := range m {
			m[k] = find(k)
		}
		aliasCache[root] = m
	}
	if r, ok := m[v]; ok && r != nil {
		return r
	}
	return v
}

// sameAlias: the expression names a variable of the same alias class as v.
func sameAlias(f *core.Func, e ast.Expr, v *types.Var) bool {
	x := core.VarOf(f.Info(), e)
	return x != nil && v != nil && aliasRep(f, x) == aliasRep(f, v)
}

// copiesOfSame: a and b are single-definition copies (`a := w`, `b := w`) of one source variable w,
// and w is not re-assigned on the way from the earlier copy to the later one (w may well be
// re-assigned elsewhere, e.g. once per iteration of an enclosing loop): the two hold the same value.
// This is what the parameters of two helpers inlined next to each other look like
// (`if !t.hasName(n) { t.bind(n, p) }`).
func copiesOfSame(f *core.Func, a, b *types.Var) bool {
	if a == nil || b == nil {
		return false
	}
	if a == b {
		return true
	}
	info := f.Info()
	body := f.Root().Body
	src := func(v *types.Var) (*types.Var, ast.Node) {
		d, ok := core.SingleDef(info, body, v)
		if !ok || d.Index >= 0 {
			return nil, nil
		}
		w := core.VarOf(info, d.Rhs)
		return w, d.Stmt
	}
	wa, sa := src(a)
	wb, sb := src(b)
	// one may be the source itself
	if wa != nil && wa == b {
		wb, sb = b, nil
	}
	if wb != nil && wb == a {
		wa, sa = a, nil
	}
	if wa == nil || wa != wb {
		return false
	}
	g := graph(f.Root())
	if sa == nil || sb == nil {
		// a copy and the source itself: the source must not be re-assigned after the copy before ... (not decidable without the use point): be conservative
		return len(core.DefsOf(info, body, wa)) <= 1
	}
	pa, pb := g.PointOf(sa), g.PointOf(sb)
	if !pa.Valid() || !pb.Valid() {
		return false
	}
	first, second := pa, pb
	if !g.Dominates(pa, pb) {
		if !g.Dominates(pb, pa) {
			return false
		}
		first, second = pb, pa
	}
	// no definition of w between first and second (without passing first again)
	for _, d := range g.Points(func(n ast.Node) bool { return g.Assigns(n, wa) }) {
		_, toD := g.Reach(first, false, cfgx.Query{Target: func(q cfgx.Point) bool { return q == d }, Cut: func(q cfgx.Point) bool { return q == first }})
		if !toD {
			continue
		}
		if _, toSecond := g.Reach(d, false, cfgx.Query{Target: func(q cfgx.Point) bool { return q == second }, Cut: func(q cfgx.Point) bool { return q == first }}); toSecond {
			return false
		}
	}
	return true
}
