package rules

import (
	"fmt"
	"go/ast"
	"go/token"
	"go/types"
	"golang.org/x/tools/go/types/typeutil"
	"sort"
	"strings"

	"gengoverif/checker/internal/cfgx"
	"gengoverif/checker/internal/core"
)

func init() {
	register(Property{
		ID:          "C09",
		Explanation: "Decided statically on the two scanning closures (anchor: function literals that assign a local from text/scanner.(*Scanner).Next) and the small snippet constructors: R1 cursor discipline - no read of the cursor rune is reachable from an emit of it without an intervening Next() (a rune is never emitted and then dispatched again); R2 the rune that terminates a placeholder name is re-dispatched without reading the next one only when it is '@', and is emitted only when it is known not to be the apostrophe (so the apostrophe is consumed on every path, also for nil arguments); R3 every yielded value is the cursor rune or a fragment of an argument's own Frag - substituted text never flows back into a scanner; R4 the absent edge of the argument lookup reaches panic before any emit or return; R5 Sprintf verb table: %T -> ID / nested snippet, %v -> Value / nested snippet, %% -> the cursor, default -> panic, one argument consumed per %T/%v, missing argument -> panic; R6 the template format is pre-processed only by strings.TrimLeft(format, \"\\n\"); R7 Comment emits text only behind a constant starting with //, GoDirective starts with the constant //go: and guards arguments by len > 0, Snippets/Fragments yield the parts' own fragments in order, skipping only IsNil parts. R6 also covers the constructors (T, Sprintf, Block, ...): they store their arguments unchanged. R6 also: T stores every binding its argument sets yield (each iteration of the loop over Args() executes the keyed store); R7 also: no IsNil method iterates, calls or hands on a single-use receiver (an iterator function or channel): every rendering path asks IsNil before Frag. R3/R7 accept fragment forwarders (a function whose iterator yields nothing but the range values of its Snippet parameter's Frag) as the fragments of that snippet. R5 also: the test of a Sprintf argument against Snippet decides alone; R6 also: a map-typed field of a constructed value is a map made in the constructor. R2 also: a placeholder terminated by '@' hands that '@' to the dispatch before the next Next(); R4/R5 also: the template panics only behind the absent edge of the argument lookup, Sprintf only in the argument helper or an arm of the verb switch; R7 also: every IsNil is a plain emptiness test. NOT decided: full input/output string equality of rendering for all formats and bindings (needs execution or symbolic execution). Round 8: R8 the rune dispatched as the verb is the one read directly after '%': from that Next() no further Next() is reachable before the cursor was compared with 'T', 'v' or '%' (or looked up in a verb table).",
		Assumptions: commonAssumptions,
		Run:         runC09,
	})
}

// scanClosure describes one rune-scanning closure.
type scanClosure struct {
	f       *core.Func
	g       *cfgx.G
	cursor  *types.Var
	yield   *types.Var
	scanner *types.Var
}

func findScanClosures(p *core.Program) []*scanClosure {
	var out []*scanClosure
	for _, f := range p.Funcs() {
		if f.Lit == nil || core.RelPkg(f.Pkg.PkgPath) != "pkg/gengo/snippet" {
			continue
		}
		info := f.Info()
		var cursor, sc *types.Var
		ast.Inspect(f.Body, func(n ast.Node) bool {
			if lit, ok := n.(*ast.FuncLit); ok && lit != f.Lit {
				return false
			}
			as, ok := n.(*ast.AssignStmt)
			if !ok || len(as.Lhs) != 1 || len(as.Rhs) != 1 {
				return true
			}
			if call := core.AsCall(info, as.Rhs[0], "(*text/scanner.Scanner).Next"); call != nil {
				if v := core.VarOf(info, as.Lhs[0]); v != nil && cursor == nil {
					cursor = v
					sc = core.VarOf(info, recvOf(call))
				}
			}
			return true
		})
		if cursor == nil {
			continue
		}
		out = append(out, &scanClosure{f: f, g: graph(f), cursor: cursor, yield: yieldParam(f), scanner: sc})
	}
	return out
}

// yieldParam returns the func(string) bool parameter of an iterator closure.
func yieldParam(f *core.Func) *types.Var {
	if f.Type == nil || f.Type.Params == nil {
		return nil
	}
	for _, fld := range f.Type.Params.List {
		for _, n := range fld.Names {
			if v, ok := f.Info().ObjectOf(n).(*types.Var); ok {
				if _, isSig := v.Type().Underlying().(*types.Signature); isSig {
					return v
				}
			}
		}
	}
	return nil
}

func (sc *scanClosure) isYieldCall(n ast.Node) *ast.CallExpr {
	var found *ast.CallExpr
	if n == nil {
		return nil
	}
	ast.Inspect(n, func(m ast.Node) bool {
		if _, ok := m.(*ast.FuncLit); ok {
			return false
		}
		if c, ok := m.(*ast.CallExpr); ok && sc.yield != nil && core.VarOf(sc.f.Info(), c.Fun) == sc.yield {
			found = c
		}
		return found == nil
	})
	return found
}

// emitsCursor: the node yields string(cursor).
func (sc *scanClosure) emitsCursor(n ast.Node) bool {
	c := sc.isYieldCall(n)
	if c == nil || len(c.Args) != 1 {
		return false
	}
	return sc.isStringOfCursor(c.Args[0])
}

func (sc *scanClosure) isStringOfCursor(e ast.Expr) bool {
	conv, ok := ast.Unparen(e).(*ast.CallExpr)
	if !ok || len(conv.Args) != 1 {
		return false
	}
	if tv, ok := sc.f.Info().Types[conv.Fun]; !ok || !tv.IsType() {
		return false
	}
	return core.VarOf(sc.f.Info(), conv.Args[0]) == sc.cursor
}

func (sc *scanClosure) defsCursor(n ast.Node) bool {
	return n != nil && sc.g.Assigns(n, sc.cursor)
}

// readsCursor: node mentions the cursor other than as the target of an assignment.
func (sc *scanClosure) readsCursor(n ast.Node) bool {
	if n == nil {
		return false
	}
	info := sc.f.Info()
	if as, ok := n.(*ast.AssignStmt); ok {
		for _, r := range as.Rhs {
			if core.Mentions(info, r, sc.cursor) {
				return true
			}
		}
		for _, l := range as.Lhs {
			if core.VarOf(info, l) == sc.cursor {
				continue
			}
			if core.Mentions(info, l, sc.cursor) {
				return true
			}
		}
		return false
	}
	return core.Mentions(info, n, sc.cursor)
}

func runC09(p *core.Program, r *core.Report) {
	closures := findScanClosures(p)
	if len(closures) < 2 {
		r.Anchor("R1", fmt.Sprintf("scanning closures in pkg/gengo/snippet (found %d, want the Sprintf printer and the template)", len(closures)))
	}
	r.Floor("R1", 3)
	for _, sc := range closures {
		c09R1(r, sc)
		c09R3(p, r, sc)
	}
	var tmpl, prn *scanClosure
	for _, sc := range closures {
		switch sc.f.Root().Name {
		case "(*template).Frag":
			tmpl = sc
		case "(*printer).Frag":
			prn = sc
		}
	}
	if tmpl == nil {
		r.Anchor("R2", "(*template).Frag scanning closure")
	} else {
		c09R2(r, tmpl)
		c09R4(r, tmpl)
		c09R6(p, r, tmpl)
	}
	if prn == nil {
		r.Anchor("R5", "(*printer).Frag scanning closure")
	} else {
		c09R5(p, r, prn)
		c09R8(r, prn)
	}
	c09R7(p, r)
}

func c09R1(r *core.Report, sc *scanClosure) {
	const rule = "R1"
	if sc.yield == nil {
		r.Anchor(rule, "yield parameter of "+sc.f.QName())
		return
	}
	emits := sc.g.Points(func(n ast.Node) bool { return sc.emitsCursor(n) })
	if len(emits) == 0 {
		r.Unknown(rule, sc.f, "emit of the cursor rune", sc.f.Node().Pos(), "the scanning closure never yields string(cursor)")
		return
	}
	for i, e := range emits {
		tp, found := sc.g.Reach(e, false, cfgx.Query{
			Target: func(q cfgx.Point) bool {
				return q.Node() != nil && !sc.defsCursor(q.Node()) && sc.readsCursor(q.Node())
			},
			Cut: func(q cfgx.Point) bool { return sc.defsCursor(q.Node()) },
		})
		construct := fmt.Sprintf("emit #%d of the cursor is followed by Next() before any read", i+1)
		if found {
			r.Bad(rule, sc.f, construct, e.Node().Pos(), "after `"+core.ExprStr(e.Node())+"` the already emitted rune is read again at "+r.Prog.Pos(tp.Node().Pos())+" (`"+core.ExprStr(tp.Node())+"`) without an intervening Next(): it is dispatched twice (e.g. `%%` followed by text panics / is duplicated)")
		} else {
			r.OK(rule, sc.f, construct, e.Node().Pos(), "every path from the emit redefines the cursor from Next() before reading it")
		}
	}
}

func c09R2(r *core.Report, sc *scanClosure) {
	const rule = "R2"
	r.Floor(rule, 2)
	info := sc.f.Info()
	// outer loop: first for statement of the closure; inner: nested for containing a Next() assignment
	var outer, inner *ast.ForStmt
	for _, s := range sc.f.Body.List {
		if fs, ok := s.(*ast.ForStmt); ok {
			outer = fs
			break
		}
	}
	if outer == nil {
		r.Anchor(rule, "outer scanning loop of (*template).Frag")
		return
	}
	var innerDef ast.Node
	var innerDefs []ast.Node
	ast.Inspect(outer.Body, func(n ast.Node) bool {
		if fs, ok := n.(*ast.ForStmt); ok && inner == nil && fs != outer {
			// the cursor may be advanced in the body or in the init/post clauses
			ast.Inspect(fs, func(m ast.Node) bool {
				if as, ok := m.(*ast.AssignStmt); ok && sc.defsCursor(as) {
					inner, innerDef = fs, as
					innerDefs = append(innerDefs, as)
				}
				return true
			})
		}
		return inner == nil
	})
	if inner == nil {
		r.Anchor(rule, "name-scanning loop (nested for with c = s.Next()) of (*template).Frag")
		return
	}
	d := sc.g.PointOf(innerDef)
	_ = innerDefs
	bodyEntry := sc.g.BlockOf(kindForBody, outer)
	isAt := func(f cfgx.Fact) bool { v, ok := varEqConst(info, f, sc.cursor, '@'); return ok && v }
	aposFalse := func(f cfgx.Fact) bool { v, ok := varEqConst(info, f, sc.cursor, '\''); return ok && !v }
	// (a) re-dispatch without Next() only through c == '@'
	found := false
	var tp cfgx.Point
	for _, dn := range innerDefs {
		dp := sc.g.PointOf(dn)
		if t2, f2 := sc.reachDispatch(dp, bodyEntry, isAt); f2 {
			found, tp = true, t2
		}
	}
	_, _ = sc.g.Reach(d, false, cfgx.Query{
		Target: func(q cfgx.Point) bool { return false },
		Cut:    func(q cfgx.Point) bool { return sc.defsCursor(q.Node()) },
		CutEdge: func(b *cfgBlock, k int) bool {
			if len(b.Succs) != 2 || len(b.Nodes) == 0 {
				return false
			}
			e, ok := b.Nodes[len(b.Nodes)-1].(ast.Expr)
			if !ok {
				return false
			}
			for _, a := range cfgx.Atoms(e, k == 0) {
				if isAt(a) {
					return true
				}
			}
			return false
		},
	})
	_ = tp
	r.Check(!found, rule, sc.f, "placeholder terminator is re-dispatched only when it is '@'", innerDef.Pos(),
		"from the terminator's definition the next outer iteration is reached without Next() only through the true edge of c == '@'",
		"a path re-enters the dispatch loop with the placeholder's terminator still in the cursor without knowing it is '@' (e.g. the nil-argument `continue`): an apostrophe delimiter is then emitted by the default arm (`T(\"a@x'b\")` with empty x renders `a'b`)")
	// (d) ... and when it is '@' it always is: from the edge on which the terminator is known to be '@', the dispatch is
	// reached before any Next() (a `continue` that runs a post statement `c = s.Next()` swallows the '@' that starts the
	// next placeholder)
	type atEdge struct {
		b *cfgBlock
		k int
	}
	var atEdges []atEdge
	seenAt := map[atEdge]bool{}
	for _, dn := range innerDefs {
		sc.g.Reach(sc.g.PointOf(dn), false, cfgx.Query{
			Target: func(q cfgx.Point) bool { return false },
			Cut:    func(q cfgx.Point) bool { return sc.defsCursor(q.Node()) || (q.B == bodyEntry && q.I == 0) },
			CutEdge: func(b *cfgBlock, k int) bool {
				if len(b.Succs) != 2 || len(b.Nodes) == 0 {
					return false
				}
				e, ok := b.Nodes[len(b.Nodes)-1].(ast.Expr)
				if !ok {
					return false
				}
				for _, a := range cfgx.Atoms(e, k == 0) {
					if isAt(a) {
						if !seenAt[atEdge{b, k}] {
							seenAt[atEdge{b, k}] = true
							atEdges = append(atEdges, atEdge{b, k})
						}
						return true
					}
				}
				return false
			},
		})
	}
	swallowed := ""
	for _, e := range atEdges {
		tp, lost := sc.g.Reach(cfgx.Point{B: e.b.Succs[e.k], I: 0}, true, cfgx.Query{
			Target: func(q cfgx.Point) bool { return q.Node() != nil && sc.defsCursor(q.Node()) },
			Cut:    func(q cfgx.Point) bool { return q.B == bodyEntry && q.I == 0 },
			CutEdge: func(b *cfgBlock, k int) bool {
				// edges on which the cursor would not be '@'
				if len(b.Succs) != 2 || len(b.Nodes) == 0 {
					return false
				}
				c, ok := b.Nodes[len(b.Nodes)-1].(ast.Expr)
				if !ok {
					return false
				}
				for _, a := range cfgx.Atoms(c, k == 0) {
					if v, known := varEqConst(info, a, sc.cursor, '@'); known && !v {
						return true
					}
					for _, other := range []int64{-1, '\''} {
						if v, known := varEqConst(info, a, sc.cursor, other); known && v {
							return true
						}
					}
				}
				return false
			},
		})
		if lost {
			swallowed = "with the terminator known to be '@' the cursor is overwritten at " + r.Prog.Pos(tp.Node().Pos()) + " (`" + core.ExprStr(tp.Node()) + "`) before the dispatch sees it"
		}
	}
	if len(atEdges) == 0 {
		swallowed = "no test of the terminator against '@' is reached from the name scan"
	}
	r.Check(swallowed == "", rule, sc.f, "a placeholder terminated by '@' hands that '@' to the dispatch", innerDef.Pos(),
		"from every edge on which the terminator is known to be '@' the dispatch is reached before the next Next()",
		swallowed+": the '@' that ends one placeholder and starts the next is lost (`@a@b` renders the text `b` instead of the argument b)")
	// (b) emits of the terminator are guarded by c != '\''
	n := 0
	seenEmit := map[cfgx.Point]bool{}
	for _, dn := range innerDefs {
		sc.g.Reach(sc.g.PointOf(dn), false, cfgx.Query{
			Target: func(q cfgx.Point) bool {
				if q.Node() != nil && sc.emitsCursor(q.Node()) && !seenEmit[q] {
					seenEmit[q] = true
					n++
					facts := sc.g.FactsAt(q)
					ok := false
					for _, f := range facts {
						if aposFalse(f) {
							ok = true
						}
					}
					r.Check(ok, rule, sc.f, "terminator is emitted only when it is not the apostrophe", q.Node().Pos(),
						"emit dominated by c == '\\'' being false", "the rune that ended the placeholder name can be emitted while it may be the apostrophe delimiter")
				}
				return false
			},
			Cut: func(q cfgx.Point) bool { return sc.defsCursor(q.Node()) || (q.B == bodyEntry && q.I == 0) },
		})
	}
	if n == 0 {
		r.Bad(rule, sc.f, "terminator is emitted only when it is not the apostrophe", innerDef.Pos(), "no emit of a non-delimiter terminator found: the character following a placeholder would be lost")
	}
	// (c) the name scan accepts exactly [A-Za-z0-9_] and stops at EOF or '
	classes := map[string]bool{}
	var extraCalls []string
	var collect func(body ast.Node, finfo *types.Info, cur *types.Var, depth int)
	collect = func(body ast.Node, finfo *types.Info, cur *types.Var, depth int) {
		ast.Inspect(body, func(m ast.Node) bool {
			switch x := m.(type) {
			case *ast.BinaryExpr:
				if v, op, c, ok := cmpConst(finfo, x); ok && core.VarOf(finfo, v) == cur {
					classes[fmt.Sprintf("%s%d", op, c)] = true
				}
			case *ast.CallExpr:
				// a predicate applied to the cursor: look inside an in-scope helper, reject anything else
				usesCur := false
				idx := -1
				for i, a := range x.Args {
					if core.VarOf(finfo, a) == cur {
						usesCur, idx = true, i
					}
				}
				if !usesCur {
					return true
				}
				name := core.CalleeName(finfo, x)
				if callee := r.Prog.FuncOfObj(core.CalleeFunc(finfo, x)); callee != nil && depth < 2 {
					k := 0
					for _, fld := range callee.Type.Params.List {
						for _, nm := range fld.Names {
							if k == idx {
								if pv, _ := callee.Info().ObjectOf(nm).(*types.Var); pv != nil {
									collect(callee.Body, callee.Info(), pv, depth+1)
								}
							}
							k++
						}
					}
					return true
				}
				if tv, isConv := finfo.Types[x.Fun]; isConv && tv.IsType() {
					return true
				}
				if strings.HasSuffix(name, ").WriteRune") {
					return true
				}
				extraCalls = append(extraCalls, name)
			}
			return true
		})
	}
	collect(inner, info, sc.cursor, 0)
	want := []string{">=65", "<=90", ">=97", "<=122", ">=48", "<=57", "==95"}
	allowed := map[string]bool{"==-1": true, "==64": true, "!=-1": true, "!=39": true, "==39": true}
	missing, extra := []string{}, []string{}
	for _, w := range want {
		allowed[w] = true
		if !classes[w] {
			missing = append(missing, w)
		}
	}
	for c := range classes {
		if !allowed[c] {
			extra = append(extra, c)
		}
	}
	sort.Strings(extra)
	r.Check(len(missing) == 0 && len(extra) == 0 && len(extraCalls) == 0, rule, sc.f, "placeholder names are [A-Za-z0-9_]+ terminated by EOF, ' or any other rune", inner.Pos(),
		"comparison constants of the name scan (through helper predicates) are exactly A-Z a-z 0-9 _ and the terminators", "the name scan's rune classes differ from [A-Za-z0-9_] / apostrophe: missing comparisons "+strings.Join(missing, ",")+"; additional comparisons "+strings.Join(extra, ",")+"; other predicates on the rune "+strings.Join(extraCalls, ",")+" - characters following a placeholder are absorbed into (or cut from) its name")
}

func c09R3(p *core.Program, r *core.Report, sc *scanClosure) {
	const rule = "R3"
	r.Floor(rule, 6)
	info := sc.f.Info()
	ast.Inspect(sc.f.Body, func(n ast.Node) bool {
		// nested closures (helpers that forward fragments to the captured yield) are included
		c, ok := n.(*ast.CallExpr)
		if !ok || core.VarOf(info, c.Fun) != sc.yield || len(c.Args) != 1 {
			return true
		}
		arg := c.Args[0]
		okArg, how := false, ""
		if sc.isStringOfCursor(arg) {
			okArg, how = true, "the cursor rune"
		} else if v := core.VarOf(info, arg); v != nil {
			if d, ok := core.SingleDef(info, sc.f.Body, v); ok && d.Kind == "range-key" {
				if isFragSource(p, info, d.Rhs) {
					okArg, how = true, "a fragment of "+core.ExprStr(d.Rhs)
				}
			}
		}
		r.Check(okArg, rule, sc.f, "yield("+core.ExprStr(arg)+")", c.Pos(), "yields "+how+" verbatim",
			"a scanning closure yields something else than the cursor rune or an argument's own fragment: substituted text is altered or re-read")
		return true
	})
	// no second scanner / template over argument text
	inits := core.CallsTo(info, sc.f.Body, true, "(*text/scanner.Scanner).Init")
	r.Check(len(inits) == 1, rule, sc.f, "exactly one scanner, over the format", sc.f.Node().Pos(), "one (*Scanner).Init", fmt.Sprintf("%d scanner initialisations: rendered text may be re-scanned", len(inits)))
	for _, call := range core.Calls(sc.f.Body, true) {
		switch core.CalleeName(info, call) {
		case core.G("pkg/gengo/snippet.T"), core.G("pkg/gengo/snippet.Sprintf"):
			r.Bad(rule, sc.f, "nested template construction inside the scanner: "+core.ExprStr(call), call.Pos(), "rendered text is fed back into template syntax")
		}
	}
}

func c09R4(r *core.Report, sc *scanClosure) {
	const rule = "R4"
	r.Floor(rule, 1)
	info := sc.f.Info()
	found := false
	type absentEdge struct {
		b *cfgBlock
		k int
	}
	var absentEdges []absentEdge
	for _, br := range sc.g.Branches() {
		// `ok` or `!ok` of a comma-ok lookup in the argument map
		atoms := cfgx.Atoms(br.Cond, true)
		if len(atoms) != 1 {
			continue
		}
		v := core.VarOf(info, atoms[0].Cond)
		if v == nil {
			continue
		}
		d, ok := core.SingleDef(info, sc.f.Body, v)
		if !ok || d.Index != 1 {
			continue
		}
		ix, ok := ast.Unparen(d.Rhs).(*ast.IndexExpr)
		if !ok || !isMapType(info.TypeOf(ix.X)) {
			continue
		}
		found = true
		absent := 1 // successor taken when ok is false
		if !atoms[0].Val {
			absent = 0 // the condition is !ok
		}
		absentEdges = append(absentEdges, absentEdge{br.B, absent})
		start := cfgx.Point{B: br.B.Succs[absent], I: 0}
		tp, escapes := sc.g.Reach(start, true, cfgx.Query{
			Target: func(q cfgx.Point) bool {
				return sc.g.IsExit(q) || (q.Node() != nil && sc.isYieldCall(q.Node()) != nil) || (q.B.Kind == kindForBody && q.I == 0)
			},
		})
		why := ""
		if escapes {
			why = "an unbound placeholder does not panic: from the absent edge of the argument lookup execution continues"
			if tp.Node() != nil {
				why += " to `" + core.ExprStr(tp.Node()) + "`"
			}
		}
		r.Check(!escapes, rule, sc.f, "unbound placeholder panics before anything else happens", br.Cond.Pos(),
			"the absent edge of `v, ok := args[name]` ends in panic without emit, return or loop continuation", why)
	}
	if !found {
		r.Anchor(rule, "comma-ok lookup of the placeholder name in the argument map")
		return
	}
	// ... and nothing else panics: every panic of the closure is behind an absent edge
	for _, pp := range sc.g.Points(func(n ast.Node) bool { return isPanicNode(info, n) }) {
		ok := false
		for _, e := range absentEdges {
			if sc.g.EdgeDominates(e.b, e.k, pp) {
				ok = true
			}
		}
		r.Check(ok, rule, sc.f, "the template panics only for an unbound placeholder", pp.Node().Pos(),
			"the panic is reached only through the absent edge of the argument lookup",
			"`"+core.ExprStr(pp.Node())+"` is reachable without the argument lookup having failed: a well-formed template with all its placeholders bound can panic")
	}
}

// isPanicNode: the CFG node is (a statement that is) a call of the builtin panic.
func isPanicNode(info *types.Info, n ast.Node) bool {
	if es, ok := n.(*ast.ExprStmt); ok {
		n = es.X
	}
	call, ok := n.(*ast.CallExpr)
	return ok && core.CalleeName(info, call) == "builtin.panic"
}

func c09R5(p *core.Program, r *core.Report, sc *scanClosure) {
	const rule = "R5"
	r.Floor(rule, 6)
	info := sc.f.Info()
	sw, clauses := switchOnConsts(info, sc.f.Body, 'T', 'v', '%')
	// table form: `verbs := map[rune]func(any) Snippet{'T': ID, 'v': Value}; wrap, isVerb := verbs[c]; switch { case isVerb: …
	// wrap(x) …; case c == '%': …; default: panic }` - the verbs that take an argument are the table's keys, what a plain
	// argument is wrapped with is the table's value for the verb
	var tableWrap *types.Var      // the looked-up constructor
	tableOf := map[int64]string{} // verb -> constructor name
	if sw == nil {
		var tableVar, okVar *types.Var
		ast.Inspect(sc.f.Body, func(n ast.Node) bool {
			as, isAs := n.(*ast.AssignStmt)
			if !isAs || len(as.Lhs) != 1 || len(as.Rhs) != 1 {
				return true
			}
			cl, isLit := ast.Unparen(as.Rhs[0]).(*ast.CompositeLit)
			if !isLit {
				return true
			}
			mt, isMap := info.TypeOf(cl).Underlying().(*types.Map)
			if !isMap {
				return true
			}
			if _, isFn := mt.Elem().Underlying().(*types.Signature); !isFn {
				return true
			}
			tv := core.VarOf(info, as.Lhs[0])
			if tv == nil || len(core.DefsOf(info, sc.f.Body, tv)) != 1 {
				return true
			}
			okTable := true
			for _, el := range cl.Elts {
				kv, isKV := el.(*ast.KeyValueExpr)
				if !isKV {
					okTable = false
					continue
				}
				k, isC := core.ConstInt(info, kv.Key)
				fn, _ := info.ObjectOf(identOf(kv.Value)).(*types.Func)
				if !isC || fn == nil || fn.Pkg() == nil || core.RelPkg(fn.Pkg().Path()) != "pkg/gengo/snippet" {
					okTable = false
					continue
				}
				tableOf[k] = fn.Name()
			}
			if okTable {
				tableVar = tv
			}
			return true
		})
		if tableVar != nil {
			ast.Inspect(sc.f.Body, func(n ast.Node) bool {
				as, isAs := n.(*ast.AssignStmt)
				if !isAs || len(as.Lhs) != 2 || len(as.Rhs) != 1 {
					return true
				}
				if ix, isIx := ast.Unparen(as.Rhs[0]).(*ast.IndexExpr); isIx && core.VarOf(info, ix.X) == tableVar && core.VarOf(info, ix.Index) == sc.cursor {
					tableWrap, okVar = core.VarOf(info, as.Lhs[0]), core.VarOf(info, as.Lhs[1])
				}
				return true
			})
		}
		if tableWrap != nil && okVar != nil {
			ast.Inspect(sc.f.Body, func(n ast.Node) bool {
				ss, isSw := n.(*ast.SwitchStmt)
				if !isSw || ss.Tag != nil || sw != nil {
					return true
				}
				cs := map[int64]*ast.CaseClause{}
				for _, c := range ss.Body.List {
					cc := c.(*ast.CaseClause)
					for _, e := range cc.List {
						if core.VarOf(info, e) == okVar {
							for k := range tableOf {
								cs[k] = cc
							}
						}
						if b, isB := ast.Unparen(e).(*ast.BinaryExpr); isB && b.Op == token.EQL && core.VarOf(info, b.X) == sc.cursor && constIs(info, b.Y, '%') {
							cs['%'] = cc
						}
					}
				}
				if cs['T'] != nil && cs['v'] != nil && cs['%'] != nil {
					sw, clauses = ss, cs
				}
				return true
			})
		}
	}
	if sw == nil {
		r.Anchor(rule, "verb switch with cases 'T', 'v', '%' in (*printer).Frag")
		return
	}
	// the verb switch is inside the '%' arm of the outer dispatch and switches on the cursor
	if tableWrap != nil {
		r.Check(len(tableOf) == 2 && tableOf['T'] == "ID" && tableOf['v'] == "Value", rule, sc.f, "verb switch dispatches on the cursor", sw.Pos(), "the verb table is {'T': ID, 'v': Value} and is looked up with the cursor", "the table of verbs is not exactly {'T': ID, 'v': Value}")
	} else {
		r.Check(core.VarOf(info, sw.Tag) == sc.cursor, rule, sc.f, "verb switch dispatches on the cursor", sw.Pos(), "tag is the cursor", "the verb switch does not switch on the rune read after '%'")
	}
	// getArg closure
	var getArg *types.Var
	var getArgLit *ast.FuncLit
	for _, l := range sc.f.Lits {
		if endsInPanic(info, l.Body.List) && l.Type.Results != nil && len(l.Type.Results.List) == 1 {
			// assigned to a local
			ast.Inspect(sc.f.Body, func(n ast.Node) bool {
				if as, ok := n.(*ast.AssignStmt); ok && len(as.Rhs) == 1 && as.Rhs[0] == ast.Expr(l.Lit) {
					getArg = core.VarOf(info, as.Lhs[0])
					getArgLit = l.Lit
				}
				return true
			})
		}
	}
	if getArg == nil {
		r.Bad(rule, sc.f, "argument cursor helper panics when arguments run out", sc.f.Node().Pos(), "no local argument-fetching closure that ends in panic: a missing argument would not panic")
	} else {
		lf := p.FuncOfLit(getArgLit)
		a5Check(r, rule, lf)
		r.OK(rule, sc.f, "argument cursor helper panics when arguments run out", getArgLit.Pos(), "the helper's fall-through is panic")
	}
	countCalls := func(n ast.Node, v *types.Var) int {
		c := 0
		for _, call := range core.Calls(n, true) {
			if core.VarOf(info, call.Fun) == v && v != nil {
				c++
			}
		}
		return c
	}
	// referenced: the constructor is called or passed as a function value inside n
	refers := func(n ast.Node, name string) bool {
		found := false
		ast.Inspect(n, func(m ast.Node) bool {
			if id, ok := m.(*ast.Ident); ok {
				if fn, ok := info.ObjectOf(id).(*types.Func); ok && fn.FullName() == core.G("pkg/gengo/snippet."+name) {
					found = true
				}
			}
			return !found
		})
		return found
	}
	// assertsSnippet: n (or an in-package helper / local closure called from n) tests its argument against Snippet
	mixed := "" // a condition in which the answer of that test is combined with something else
	var assertsSnippet func(n ast.Node, finfo *types.Info, depth int) bool
	assertsSnippet = func(n ast.Node, finfo *types.Info, depth int) bool {
		found := false
		ast.Inspect(n, func(m ast.Node) bool {
			switch x := m.(type) {
			case *ast.TypeSwitchStmt:
				for _, c := range x.Body.List {
					for _, e := range c.(*ast.CaseClause).List {
						if core.NamedTypeName(finfo.TypeOf(e)) == core.G("pkg/gengo/snippet.Snippet") {
							found = true
						}
					}
				}
			case *ast.TypeAssertExpr:
				if x.Type != nil && core.NamedTypeName(finfo.TypeOf(x.Type)) == core.G("pkg/gengo/snippet.Snippet") {
					found = true
					// ... and it decides alone: the comma-ok answer is not combined with anything else
					if root, isNode := n.(ast.Node); isNode {
						for _, anc := range core.PathTo(root, x) {
							as, isAs := anc.(*ast.AssignStmt)
							if !isAs || len(as.Lhs) != 2 || len(as.Rhs) != 1 || ast.Unparen(as.Rhs[0]) != ast.Expr(x) {
								continue
							}
							okv := core.VarOf(finfo, as.Lhs[1])
							if okv == nil {
								continue
							}
							ast.Inspect(root, func(q ast.Node) bool {
								var cond ast.Expr
								switch y := q.(type) {
								case *ast.IfStmt:
									cond = y.Cond
								case *ast.ForStmt:
									cond = y.Cond
								}
								if cond == nil {
									return true
								}
								mentions := false
								ast.Inspect(cond, func(z ast.Node) bool {
									if id, isID := z.(*ast.Ident); isID && finfo.ObjectOf(id) == types.Object(okv) {
										mentions = true
									}
									return true
								})
								if !mentions {
									return true
								}
								c := ast.Unparen(cond)
								if u, isNot := c.(*ast.UnaryExpr); isNot && u.Op == token.NOT {
									c = ast.Unparen(u.X)
								}
								if id, isID := c.(*ast.Ident); !isID || finfo.ObjectOf(id) != types.Object(okv) {
									mixed = "`" + core.ExprStr(cond) + "`"
								}
								return true
							})
						}
					}
				}
			case *ast.CallExpr:
				if depth < 2 {
					if callee := p.FuncOfObj(core.CalleeFunc(finfo, x)); callee != nil && callee.Pkg == sc.f.Pkg {
						if assertsSnippet(callee.Body, callee.Info(), depth+1) {
							found = true
						}
					}
				}
			}
			return !found
		})
		return found
	}
	for _, verb := range []struct {
		c        rune
		want, no string
	}{{'T', "ID", "Value"}, {'v', "Value", "ID"}} {
		cc := clauses[int64(verb.c)]
		ok := refers(cc, verb.want) && !refers(cc, verb.no) && countCalls(cc, getArg) == 1
		if tableWrap != nil {
			// table form: the arm wraps with the constructor looked up for the verb, and names neither constructor itself
			ok = tableOf[int64(verb.c)] == verb.want && countCalls(cc, tableWrap) >= 1 && !refers(cc, "ID") && !refers(cc, "Value") && countCalls(cc, getArg) == 1
		}
		mixed = ""
		snippetArm := assertsSnippet(cc, info, 0)
		r.Check(mixed == "", rule, sc.f, fmt.Sprintf("%%%c: an argument that is a snippet is rendered as itself, whatever it renders", verb.c), cc.Pos(), "the test against Snippet decides alone",
			"whether a nested snippet is rendered as itself also depends on "+mixed+": a snippet for which that fails (an empty one) is handed to "+verb.want+" as a plain value and rendered as a Go literal of the snippet object (or panics as an unsupported type)")
		r.Check(ok && snippetArm, rule, sc.f, fmt.Sprintf("%%%c renders through %s (nested snippets as themselves), one argument consumed", verb.c, verb.want), cc.Pos(),
			"clause fetches one argument, tests it against Snippet (directly or in a helper) and otherwise wraps it with "+verb.want, fmt.Sprintf("the %%%c arm does not (only) render through %s with a nested-snippet arm and exactly one argument fetch", verb.c, verb.want))
	}
	pc := clauses['%']
	emits := false
	for _, s := range pc.Body {
		if sc.emitsCursor(s) {
			emits = true
		}
		if ifs, ok := s.(*ast.IfStmt); ok && sc.emitsCursor(ifs.Cond) {
			emits = true
		}
	}
	r.Check(emits && countCalls(pc, getArg) == 0, rule, sc.f, "%% renders one percent sign and consumes no argument", pc.Pos(), "clause yields the cursor ('%')", "the %% arm does not emit the percent sign / consumes an argument")
	var def *ast.CaseClause
	for _, c := range sw.Body.List {
		if cc := c.(*ast.CaseClause); cc.List == nil {
			def = cc
		}
	}
	r.Check(def != nil && endsInPanic(info, def.Body), rule, sc.f, "any other verb panics", sw.Pos(), "default arm ends in panic", "an unsupported verb does not panic")
	// ... and nothing else panics: every panic of the closure is the argument helper's or in an arm of the verb switch
	ast.Inspect(sc.f.Body, func(n ast.Node) bool {
		call, isCall := n.(*ast.CallExpr)
		if !isCall || core.CalleeName(info, call) != "builtin.panic" {
			return true
		}
		inside := func(m ast.Node) bool { return m != nil && m.Pos() <= call.Pos() && call.End() <= m.End() }
		ok := inside(sw)
		if getArgLit != nil && inside(getArgLit) {
			ok = true
		}
		r.Check(ok, rule, sc.f, "Sprintf panics only for a missing argument or an unknown verb", call.Pos(),
			"the panic is the argument helper's or in an arm of the verb switch",
			"`"+core.ExprStr(call)+"` is neither the argument helper's panic nor in the verb switch: it is decided on something other than the verb being interpreted and the arguments left for it (a format whose escaped `%%v` is counted as a verb panics)")
		return true
	})
	// the verb switch is reached only after '%': enclosing clause of the outer switch
	path := core.PathTo(sc.f.Body, sw)
	inPercent := false
	for i, n := range path {
		if cc, ok := n.(*ast.CaseClause); ok {
			for _, e := range cc.List {
				if constIs(info, e, '%') {
					inPercent = true
				}
			}
		}
		// the dispatch spelled `if c == '%' { … } else { … }`: the verb switch is in the then-branch
		if ifs, ok := n.(*ast.IfStmt); ok && i+1 < len(path) && path[i+1] == ast.Node(ifs.Body) {
			if v, known := varEqConst(info, cfgx.Fact{Cond: ifs.Cond, Val: true}, sc.cursor, '%'); known && v {
				inPercent = true
			}
		}
	}
	r.Check(inPercent, rule, sc.f, "verbs are interpreted only after '%'", sw.Pos(), "verb switch is nested in the '%' arm of the dispatch", "the verb switch is not nested in the '%' arm")
}

func c09R6(p *core.Program, r *core.Report, sc *scanClosure) {
	const rule = "R6"
	r.Floor(rule, 5)
	for _, c := range []*scanClosure{sc} {
		info := c.f.Info()
		var bad []string
		trimOK := false
		for _, call := range core.Calls(c.f.Body, true) {
			cn := core.CalleeName(info, call)
			if !strings.HasPrefix(cn, "strings.") {
				continue
			}
			if cn == "strings.NewReader" {
				continue // a reader over the text, like bytes.NewBuffer([]byte(s)): the scanner's source, nothing is altered
			}
			if cn == "strings.TrimLeft" && len(call.Args) == 2 && constStrIs(info, call.Args[1], "\n") {
				if f := core.FieldOf(info, call.Args[0]); f != nil && f.Name() == "format" {
					trimOK = true
					continue
				}
			}
			bad = append(bad, core.ExprStr(call))
		}
		r.Check(trimOK && len(bad) == 0, rule, c.f, "format is pre-processed only by TrimLeft(format, \"\\n\")", c.f.Node().Pos(),
			"only leading newlines are stripped", "the template format is altered by "+strings.Join(bad, ", ")+" (or leading newlines are no longer stripped): characters other than leading newlines are not preserved")
	}
	// the constructors return the scanning value with the format stored as given, on every path
	for _, spec := range []struct{ fn, typ, field string }{{"Sprintf", "printer", "fmt"}, {"T", "template", "format"}} {
		cf := p.FuncByName("pkg/gengo/snippet", spec.fn)
		if cf == nil {
			r.Anchor(rule, "pkg/gengo/snippet."+spec.fn)
			continue
		}
		cf = p.Flatten(cf) // field-by-field construction is shown as a literal
		cinfo := cf.Info()
		okAll, nret := true, 0
		why := ""
		ast.Inspect(cf.Body, func(n ast.Node) bool {
			ret, isRet := n.(*ast.ReturnStmt)
			if !isRet || len(ret.Results) != 1 {
				return true
			}
			nret++
			e, _ := core.Resolve(cinfo, cf.Body, ret.Results[0])
			u, isAddr := ast.Unparen(e).(*ast.UnaryExpr)
			var cl *ast.CompositeLit
			if isAddr {
				cl, _ = ast.Unparen(u.X).(*ast.CompositeLit)
			}
			if cl == nil || core.NamedTypeName(cinfo.TypeOf(cl)) != core.G("pkg/gengo/snippet."+spec.typ) {
				okAll, why = false, "`"+core.ExprStr(ret)+"` does not return the scanning "+spec.typ
				return true
			}
			stored := false
			for _, el := range cl.Elts {
				if kv, isKV := el.(*ast.KeyValueExpr); isKV {
					if id, isID := kv.Key.(*ast.Ident); isID && id.Name == spec.field {
						if v := core.VarOf(cinfo, kv.Value); v != nil && isParamOf(cf, v) && paramIndex(cf, v) == 0 {
							stored = true
						}
					}
				}
			}
			if !stored {
				okAll, why = false, "the format parameter is not stored unmodified"
			}
			// the value owns its bindings: a map-typed field of the literal is a map made here, never the caller's
			// (rendering is lazy: what is read at render time must be what was bound when the constructor ran)
			for _, el := range cl.Elts {
				if kv, isKV := el.(*ast.KeyValueExpr); isKV {
					if t := cinfo.TypeOf(kv.Value); t != nil && isMapType(t) {
						val, _ := core.Resolve(cinfo, cf.Body, kv.Value)
						fresh := false
						switch x := ast.Unparen(val).(type) {
						case *ast.CompositeLit:
							fresh = true
						case *ast.CallExpr:
							switch core.CalleeName(cinfo, x) {
							case "builtin.make", "maps.Clone", "maps.Collect":
								fresh = true
							}
						}
						if !fresh {
							okAll, why = false, "the map `"+core.ExprStr(kv.Value)+"` is kept as the value's own bindings: it is the caller's map, and a caller that reuses or edits it after the call changes what an earlier template renders"
						}
					}
				}
			}
			return true
		})
		r.Check(okAll && nret >= 1, rule, cf, spec.fn+" always returns the scanning snippet over its unmodified format", cf.Node().Pos(), "every return is &"+spec.typ+"{"+spec.field+": <format parameter>, ...}",
			spec.fn+" has a path that bypasses the scanner or alters the format ("+why+"): on that path %% / verbs / placeholders are not interpreted (no substitution, no panic for missing arguments)")
	}
	// T() stores the format unmodified
	tf := p.FuncByName("pkg/gengo/snippet", "T")
	if tf == nil {
		r.Anchor(rule, "pkg/gengo/snippet.T")
		return
	}
	tf = p.Flatten(tf)
	info := tf.Info()
	okStore := false
	ast.Inspect(tf.Body, func(n ast.Node) bool {
		kv, ok := n.(*ast.KeyValueExpr)
		if !ok {
			return true
		}
		if id, ok := kv.Key.(*ast.Ident); ok && id.Name == "format" {
			if v := core.VarOf(info, kv.Value); v != nil && isParamOf(tf, v) {
				okStore = true
			}
		}
		return true
	})
	r.Check(okStore, rule, tf, "T stores the format argument unmodified", tf.Node().Pos(), "format: <parameter>", "T does not store its format parameter as is")
	// every binding the argument sets yield is stored under its name: a binding that is
	// dropped (e.g. because its snippet is empty) turns "renders nothing" into "missing argument" (panic)
	tg := graph(tf)
	nloops := 0
	ast.Inspect(tf.Body, func(n ast.Node) bool {
		rs, ok := n.(*ast.RangeStmt)
		if !ok {
			return true
		}
		c, isCall := ast.Unparen(rs.X).(*ast.CallExpr)
		if !isCall || !strings.HasSuffix(core.CalleeName(info, c), ").Args") {
			return true
		}
		nloops++
		kv, vv := core.VarOf(info, rs.Key), core.VarOf(info, rs.Value)
		isStore := func(m ast.Node) bool {
			as, ok := m.(*ast.AssignStmt)
			if !ok || len(as.Lhs) != 1 || len(as.Rhs) != 1 {
				return false
			}
			ix, ok := ast.Unparen(as.Lhs[0]).(*ast.IndexExpr)
			if !ok {
				return false
			}
			fld := core.FieldOf(info, ix.X)
			return fld != nil && fld.Name() == "args" && kv != nil && core.VarOf(info, ix.Index) == kv && vv != nil && core.VarOf(info, as.Rhs[0]) == vv
		}
		without, _ := exactlyOnePerIteration(tg, rs, isStore, nil)
		r.Check(!without, rule, tf, "every binding yielded by Args() is stored under its name", rs.Pos(), "each iteration executes t.args[name] = s",
			"T can drop a binding (an iteration of the loop over Args() ends without `t.args[name] = s`): a placeholder bound to that argument then counts as unbound and panics instead of rendering the argument (for an empty argument: nothing)")
		return true
	})
	// maps.Insert(t.args, a.Args()) stores every pair by definition
	for _, c := range core.CallsTo(info, tf.Body, true, "maps.Insert") {
		if len(c.Args) == 2 {
			fld := core.FieldOf(info, c.Args[0])
			if ac, ok := ast.Unparen(c.Args[1]).(*ast.CallExpr); ok && fld != nil && fld.Name() == "args" && strings.HasSuffix(core.CalleeName(info, ac), ").Args") {
				nloops++
				r.OK(rule, tf, "every binding yielded by Args() is stored under its name", c.Pos(), "maps.Insert(t.args, a.Args()) stores every pair")
			}
		}
	}
	if nloops == 0 {
		r.Anchor(rule, "loop over TArg.Args() in snippet.T")
	}
}

// closureYields lists the yield arguments of the innermost iterator closure of f.
// iterEnv: when an iterator is not a closure of its constructor but a method of a small value built
// by it (`return Func(commentText(v).frag)`, `Func(goDirective{name: d, args: a}.frag)`), what the
// method's receiver stands for in the constructor: the converted argument, or the literal's fields.
type iterEnv struct {
	recv *types.Var // receiver of the iterator method
	expr ast.Expr   // the receiver value as written in the constructor: T(arg) or T{...}
}

// denotes: x (in the iterator) is the constructor's variable `want`, directly, through a conversion,
// or through the receiver of a method-object iterator.
func (env *iterEnv) denotes(info *types.Info, x ast.Expr, want *types.Var) bool {
	unconv := func(e ast.Expr) ast.Expr {
		for {
			e = ast.Unparen(e)
			c, ok := e.(*ast.CallExpr)
			if !ok || len(c.Args) != 1 {
				return e
			}
			if tv, ok := info.Types[c.Fun]; !ok || !tv.IsType() {
				return e
			}
			e = c.Args[0]
		}
	}
	if want == nil {
		return false
	}
	x = unconv(x)
	if core.VarOf(info, x) == want {
		return true
	}
	if env == nil || env.recv == nil {
		return false
	}
	if core.VarOf(info, x) == env.recv {
		return core.VarOf(info, unconv(env.expr)) == want
	}
	if sel, ok := x.(*ast.SelectorExpr); ok && core.VarOf(info, sel.X) == env.recv {
		if cl, ok := ast.Unparen(env.expr).(*ast.CompositeLit); ok {
			for _, el := range cl.Elts {
				if kv, ok := el.(*ast.KeyValueExpr); ok {
					if id, ok := kv.Key.(*ast.Ident); ok && id.Name == sel.Sel.Name {
						return core.VarOf(info, unconv(kv.Value)) == want
					}
				}
			}
		}
	}
	return false
}

// closureYieldsEnv: like closureYields, and when the constructor has no iterator closure, the
// method-object form: the returned expression mentions a method value E.m; m (or the method value
// it returns in turn) takes the yield function.
func closureYieldsEnv(p *core.Program, f *core.Func) (*core.Func, []*ast.CallExpr, *iterEnv) {
	if it, ys := closureYields(p, f); it != nil && len(ys) > 0 {
		return it, ys, nil
	}
	info := f.Info()
	var env *iterEnv
	var it *core.Func
	ast.Inspect(f.Body, func(n ast.Node) bool {
		sel, ok := n.(*ast.SelectorExpr)
		if !ok || it != nil {
			return true
		}
		s := info.Selections[sel]
		if s == nil || s.Kind() != types.MethodVal {
			return true
		}
		m := p.FuncOfObj(s.Obj().(*types.Func))
		if m == nil || m.Decl == nil || m.Decl.Recv == nil {
			return true
		}
		cur := m
		for depth := 0; depth < 3 && cur != nil; depth++ {
			if yieldParam(cur) != nil {
				it = cur
				break
			}
			// `return recv.next` : a method value on the same receiver
			ret := singleReturn(cur)
			if ret == nil {
				break
			}
			rs, ok := ast.Unparen(ret).(*ast.SelectorExpr)
			if !ok {
				break
			}
			rsel := cur.Info().Selections[rs]
			if rsel == nil || rsel.Kind() != types.MethodVal || core.VarOf(cur.Info(), rs.X) != recvVar(cur) {
				break
			}
			cur = p.FuncOfObj(rsel.Obj().(*types.Func))
		}
		if it != nil {
			env = &iterEnv{recv: recvVar(it), expr: sel.X}
		}
		return true
	})
	if it == nil {
		return nil, nil, nil
	}
	y := yieldParam(it)
	var calls []*ast.CallExpr
	for _, c := range core.Calls(it.Body, true) {
		if core.VarOf(it.Info(), c.Fun) == y {
			calls = append(calls, c)
		}
	}
	return it, calls, env
}

func closureYields(p *core.Program, f *core.Func) (*core.Func, []*ast.CallExpr) {
	var it *core.Func
	var walk func(x *core.Func)
	walk = func(x *core.Func) {
		if yieldParam(x) != nil && x.Lit != nil {
			it = x
		}
		for _, l := range x.Lits {
			walk(l)
		}
	}
	walk(f)
	if it == nil {
		return nil, nil
	}
	y := yieldParam(it)
	var calls []*ast.CallExpr
	for _, c := range core.Calls(it.Body, true) {
		if core.VarOf(it.Info(), c.Fun) == y {
			calls = append(calls, c)
		}
	}
	// a closure that only forwards: `return func(yield …) { h(ctx, s, yield) }` - the iterator's body is h
	for depth := 0; depth < 3 && len(calls) == 0 && len(it.Body.List) == 1; depth++ {
		es, ok := it.Body.List[0].(*ast.ExprStmt)
		if !ok {
			break
		}
		fc, ok := es.X.(*ast.CallExpr)
		if !ok {
			break
		}
		passes := false
		for _, a := range fc.Args {
			if core.VarOf(it.Info(), a) == y {
				passes = true
			}
		}
		h := p.FuncOfObj(core.CalleeFunc(it.Info(), fc))
		if !passes || h == nil || h.Body == nil || h.Pkg != it.Pkg || yieldParam(h) == nil {
			break
		}
		it, y = h, yieldParam(h)
		calls = nil
		for _, c := range core.Calls(it.Body, true) {
			if core.VarOf(it.Info(), c.Fun) == y {
				calls = append(calls, c)
			}
		}
	}
	return it, calls
}

func c09R7(p *core.Program, r *core.Report) {
	const rule = "R7"
	r.Floor(rule, 9)
	// IsNil is asked before Frag on every rendering path (template, Sprintf, Snippets, Render):
	// it must not consume what Frag is going to render. A receiver that is an iterator function
	// or a channel is single-use; ranging over it (or calling it) in IsNil eats its first parts.
	nIsNil := 0
	for _, f := range p.Funcs() {
		if core.RelPkg(f.Pkg.PkgPath) != "pkg/gengo/snippet" || f.Decl == nil || f.Decl.Recv == nil || f.Decl.Name.Name != "IsNil" {
			continue
		}
		nIsNil++
		finfo := f.Info()
		rt := finfo.TypeOf(f.Decl.Recv.List[0].Type)
		singleUse := false
		if rt != nil {
			switch rt.Underlying().(type) {
			case *types.Signature, *types.Chan:
				singleUse = true
			}
		}
		bad := ""
		if singleUse && len(f.Decl.Recv.List[0].Names) == 1 {
			rv, _ := finfo.ObjectOf(f.Decl.Recv.List[0].Names[0]).(*types.Var)
			ast.Inspect(f.Body, func(n ast.Node) bool {
				switch x := n.(type) {
				case *ast.RangeStmt:
					if rv != nil && core.Mentions(finfo, x.X, rv) {
						bad = "ranges over its single-use receiver"
					}
				case *ast.CallExpr:
					if rv != nil {
						if core.VarOf(finfo, x.Fun) == rv {
							bad = "calls its iterator receiver"
						}
						for _, a := range x.Args {
							if core.Mentions(finfo, a, rv) {
								bad = "hands its single-use receiver to `" + core.ExprStr(x.Fun) + "`"
							}
						}
					}
				case *ast.UnaryExpr:
					if x.Op == token.ARROW && rv != nil && core.Mentions(finfo, x.X, rv) {
						bad = "receives from its channel receiver"
					}
				}
				return true
			})
		}
		r.Check(bad == "", rule, f, "IsNil does not consume what Frag renders", f.Node().Pos(), "no iteration of a single-use receiver",
			"IsNil "+bad+": every rendering path asks IsNil before Frag, so the parts consumed by the probe are missing from the output of a one-shot sequence")
		// ... and answers true only for a snippet that holds nothing: it tests the receiver (or a field of it) against the
		// empty string / nil / length zero and computes nothing else - text that is "blank" or "looks empty" is still text
		ff := flatten(p, f)
		ffinfo := ff.Info()
		extra := ""
		for _, c := range core.Calls(ff.Body, true) {
			if name := core.CalleeName(ffinfo, c); name != "builtin.len" {
				if tv, isConv := ffinfo.Types[c.Fun]; isConv && tv.IsType() {
					continue
				}
				extra = core.ExprStr(c)
			}
		}
		r.Check(extra == "", rule, f, "IsNil is a plain emptiness test", f.Node().Pos(), "compares the receiver's text / value with empty, nil or length zero, calls nothing",
			"IsNil decides on `"+extra+"`: a snippet that holds text (blanks only, say a struct tag of one space) is dropped by every renderer that asks IsNil first, so not every character of it is preserved")
	}
	if nIsNil == 0 {
		r.Anchor(rule, "IsNil methods of pkg/gengo/snippet")
	}
	fragName := "(" + core.G("pkg/gengo/snippet.Snippet") + ").Frag"
	// rangeValueOver: v is the range key of a loop over a call named callee / over expr satisfying pred
	rangeOver := func(it *core.Func, e ast.Expr, pred func(x ast.Expr) bool) bool {
		v := core.VarOf(it.Info(), e)
		if v == nil {
			return false
		}
		d, ok := core.SingleDef(it.Info(), it.Body, v)
		return ok && (d.Kind == "range-key" || d.Kind == "range-value") && pred(d.Rhs)
	}

	// Comment
	if f := p.FuncByName("pkg/gengo/snippet", "Comment"); f == nil {
		r.Anchor(rule, "pkg/gengo/snippet.Comment")
	} else if it, ys, env := closureYieldsEnv(p, f); it == nil || len(ys) == 0 {
		r.Anchor(rule, "iterator closure of Comment")
	} else {
		info := it.Info()
		var param *types.Var
		if len(f.Decl.Type.Params.List) > 0 && len(f.Decl.Type.Params.List[0].Names) > 0 {
			param, _ = info.ObjectOf(f.Decl.Type.Params.List[0].Names[0]).(*types.Var)
		}
		lines := 0
		for _, y := range ys {
			a := ast.Unparen(y.Args[0])
			if constStrIs(info, a, "\n") {
				r.OK(rule, it, "Comment: line separator", y.Pos(), "constant newline between lines")
				continue
			}
			b, ok := a.(*ast.BinaryExpr)
			good := false
			if ok && b.Op == token.ADD {
				if k, isC := core.ConstString(info, b.X); isC && strings.HasPrefix(k, "//") {
					good = rangeOver(it, b.Y, func(x ast.Expr) bool {
						c := core.AsCall(info, x, "strings.Split")
						return c != nil && env.denotes(info, c.Args[0], param) && constStrIs(info, c.Args[1], "\n")
					})
				}
			}
			if good {
				lines++
			}
			r.Check(good, rule, it, "Comment: yield("+core.ExprStr(a)+")", y.Pos(), "a constant starting with // followed by one element of strings.Split(text, \"\\n\")",
				"Comment emits text that is not behind a `//` constant on each line of strings.Split(text, \"\\n\"): a line of the text could become code")
		}
		r.Check(lines >= 1, rule, it, "Comment: every line is emitted behind //", it.Node().Pos(), "line emit present", "no `\"// \" + line` emit in Comment")
	}

	// GoDirective
	if f := p.FuncByName("pkg/gengo/snippet", "GoDirective"); f == nil {
		r.Anchor(rule, "pkg/gengo/snippet.GoDirective")
	} else if it, ys, env := closureYieldsEnv(p, f); it == nil || len(ys) == 0 {
		r.Anchor(rule, "iterator closure of GoDirective")
	} else {
		info := it.Info()
		g := graph(it)
		params := f.Decl.Type.Params.List
		var dir, args *types.Var
		if len(params) == 2 {
			dir, _ = info.ObjectOf(params[0].Names[0]).(*types.Var)
			args, _ = info.ObjectOf(params[1].Names[0]).(*types.Var)
		}
		first := constStrIs(info, ys[0].Args[0], "//go:")
		for _, y := range ys[1:] {
			if !g.Dominates(g.PointOf(ys[0]), g.PointOf(y)) {
				first = false
			}
		}
		r.Check(first, rule, it, "GoDirective: starts with the constant //go:", ys[0].Pos(), "first yield is \"//go:\" and dominates all others", "the directive does not start with the constant `//go:`")
		dirOK, argOK := false, false
		for _, y := range ys[1:] {
			a := y.Args[0]
			switch {
			case env.denotes(info, a, dir):
				dirOK = true
			case constStrIs(info, a, " "):
			case rangeOver(it, a, func(x ast.Expr) bool { return env.denotes(info, x, args) }):
				bc := &boundsCtx{f: it, g: g, info: info}
				guarded := false
				for _, fct := range g.FactsAt(g.PointOf(y)) {
					if lb, ok := bc.lenLowerBound(fct, a); ok && lb == 1 {
						guarded = true
					}
				}
				argOK = guarded
				r.Check(guarded, rule, it, "GoDirective: arguments are emitted only when non-empty", y.Pos(), "guarded by len(arg) > 0", "an empty argument is emitted (a trailing space changes the directive)")
			default:
				r.Bad(rule, it, "GoDirective: yield("+core.ExprStr(a)+")", y.Pos(), "the directive emits something else than its name, a separator or one of its arguments")
			}
		}
		r.Check(dirOK && argOK, rule, it, "GoDirective: emits its name and its arguments", it.Node().Pos(), "name and arguments are emitted", "the directive's name or arguments are not emitted")
	}

	// Snippets.Frag, Fragments, fn.Frag: yield only the parts' own fragments, in order
	for _, name := range []string{"Snippets.Frag", "Fragments", "fn.Frag"} {
		f := p.FuncByName("pkg/gengo/snippet", name)
		if f == nil {
			r.Anchor(rule, "pkg/gengo/snippet."+name)
			continue
		}
		it, ys := closureYields(p, f)
		if it == nil || len(ys) == 0 {
			r.Anchor(rule, "iterator closure of "+name)
			continue
		}
		info := it.Info()
		for _, y := range ys {
			good := rangeOver(it, y.Args[0], func(x ast.Expr) bool {
				c, ok := ast.Unparen(x).(*ast.CallExpr)
				if !ok {
					return false
				}
				if core.CalleeName(info, c) == fragName || (name != "Fragments" && isFragSource(p, info, c)) {
					return true
				}
				// fn.Frag ranges over f(ctx): the receiver called as a function
				if name == "fn.Frag" {
					if v := core.VarOf(info, c.Fun); v != nil && f.Decl.Recv != nil && len(f.Decl.Recv.List[0].Names) == 1 {
						if info.ObjectOf(f.Decl.Recv.List[0].Names[0]) == v {
							return true
						}
						// the body was moved into another method of the same receiver type
						if rv := recvVar(it.Root()); rv != nil && rv == v && types.Identical(rv.Type(), info.TypeOf(f.Decl.Recv.List[0].Type)) {
							return true
						}
					}
				}
				return false
			})
			r.Check(good, rule, it, name+": yields the part's own fragments", y.Pos(), "yield of the range value over part.Frag(ctx)", name+" yields something else than the fragments of its parts")
		}
		// skipping: only under IsNil()
		g := graph(it)
		for _, y := range ys {
			for _, fct := range g.FactsAt(g.PointOf(y)) {
				c, ok := ast.Unparen(fct.Cond).(*ast.CallExpr)
				if !ok {
					continue // yield results of previous calls etc.
				}
				cn := core.CalleeName(info, c)
				if cn == "("+core.G("pkg/gengo/snippet.Snippet")+").IsNil" {
					r.Check(!fct.Val, rule, it, name+": a part is skipped only when IsNil", c.Pos(), "IsNil() false on the emitting path", name+" emits only parts whose IsNil() is true")
				} else if core.VarOf(info, c.Fun) != yieldParam(it) {
					r.Bad(rule, it, name+": extra condition on emitting a part: "+core.ExprStr(c), c.Pos(), "parts are filtered by something else than IsNil()")
				}
			}
		}
		// single nested range (order preserved): the part loop is not reversed/sorted
		for _, call := range core.Calls(f.Body, false) {
			cn := core.CalleeName(info, call)
			if strings.HasPrefix(cn, "slices.") || strings.HasPrefix(cn, "sort.") {
				r.Bad(rule, it, name+": parts are reordered by "+cn, call.Pos(), "fragments must be concatenated in order")
			}
		}
	}
	// Block yields its text verbatim
	if f := p.FuncByName("pkg/gengo/snippet", "Block.Frag"); f != nil {
		it, ys := closureYields(p, f)
		ok := it != nil && len(ys) == 1
		if ok {
			conv, isConv := ast.Unparen(ys[0].Args[0]).(*ast.CallExpr)
			ok = isConv && len(conv.Args) == 1 && f.Decl.Recv != nil && len(f.Decl.Recv.List[0].Names) == 1 &&
				it.Info().ObjectOf(f.Decl.Recv.List[0].Names[0]) == types.Object(core.VarOf(it.Info(), conv.Args[0]))
		}
		r.Check(ok, rule, f, "Block yields its own text once, verbatim", f.Node().Pos(), "yield(string(v))", "Block does not yield exactly its own text")
	}
}

// reachDispatch: from a definition of the cursor inside the name scan, is the
// start of the next outer iteration reachable without a new Next() and
// without passing the true edge of `c == '@'`?
func (sc *scanClosure) reachDispatch(d cfgx.Point, bodyEntry *cfgBlock, isAt func(cfgx.Fact) bool) (cfgx.Point, bool) {
	return sc.g.Reach(d, false, cfgx.Query{
		Target: func(q cfgx.Point) bool { return q.B == bodyEntry && q.I == 0 },
		Cut:    func(q cfgx.Point) bool { return sc.defsCursor(q.Node()) },
		CutEdge: func(b *cfgBlock, k int) bool {
			if len(b.Succs) != 2 || len(b.Nodes) == 0 {
				return false
			}
			e, ok := b.Nodes[len(b.Nodes)-1].(ast.Expr)
			if !ok {
				return false
			}
			for _, a := range cfgx.Atoms(e, k == 0) {
				if isAt(a) {
					return true
				}
			}
			return false
		},
	})
}

// isFragSource: the call produces the fragments of one snippet, verbatim and in order: `s.Frag(ctx)`, or a call of a
// forwarder — a function of the snippet package whose iterator yields nothing but the range values of
// `<its Snippet parameter>.Frag(ctx)` (snippet.Fragments is one; R7 decides on its own what a forwarder may skip).
func isFragSource(p *core.Program, info *types.Info, e ast.Expr) bool {
	c, ok := ast.Unparen(e).(*ast.CallExpr)
	if !ok {
		return false
	}
	fragName := "(" + core.G("pkg/gengo/snippet.Snippet") + ").Frag"
	if core.CalleeName(info, c) == fragName {
		return true
	}
	fn, _ := typeutil.Callee(info, c).(*types.Func)
	if fn == nil {
		return false
	}
	f := p.FuncOfObj(fn)
	if f == nil || f.Decl == nil || f.Decl.Recv != nil || core.RelPkg(f.Pkg.PkgPath) != "pkg/gengo/snippet" {
		return false
	}
	it, ys := closureYields(p, f)
	if it == nil || len(ys) == 0 {
		return false
	}
	finfo := it.Info()
	params := map[*types.Var]bool{}
	for _, fl := range f.Decl.Type.Params.List {
		for _, n := range fl.Names {
			if v, ok := finfo.ObjectOf(n).(*types.Var); ok && core.NamedTypeName(v.Type()) == core.G("pkg/gengo/snippet.Snippet") {
				params[v] = true
			}
		}
	}
	for _, y := range ys {
		v := core.VarOf(finfo, y.Args[0])
		if v == nil {
			return false
		}
		d, ok := core.SingleDef(finfo, it.Body, v)
		if !ok || (d.Kind != "range-key" && d.Kind != "range-value") {
			return false
		}
		fc, ok := ast.Unparen(d.Rhs).(*ast.CallExpr)
		if !ok || core.CalleeName(finfo, fc) != fragName || !params[core.VarOf(finfo, recvOf(fc))] {
			return false
		}
	}
	return true
}
