package rules

// Rules added after the eighth round of independently seeded changes (see DESIGN.md 6.2).

import (
	"go/ast"
	"go/parser"
	"go/token"
	"go/types"
	"strings"

	"gengoverif/checker/internal/cfgx"
	"gengoverif/checker/internal/core"
)

// constFormats: text that was rendered, read from a declaration or handed in by a caller is never a *format*: every
// format-taking fmt call of the named packages gets a compile-time constant, or forwards the enclosing function's own
// format parameter together with its variadic arguments (a logging wrapper). `Sprintf("[%d]"+elem, n)` interprets the
// `%` of a struct tag inside elem as a verb.
func constFormats(p *core.Program, r *core.Report, rule string, floor int, rels ...string) {
	r.Floor(rule, floor)
	in := map[string]bool{}
	for _, x := range rels {
		in[x] = true
	}
	at := map[string]int{"fmt.Sprintf": 0, "fmt.Errorf": 0, "fmt.Printf": 0, "fmt.Fprintf": 1, "fmt.Appendf": 1}
	for _, cs := range allCalls(p) {
		k, ok := at[cs.Name]
		if !ok || !in[core.RelPkg(cs.In.Pkg.PkgPath)] || k >= len(cs.Call.Args) {
			continue
		}
		info := cs.In.Info()
		fa := cs.Call.Args[k]
		if _, isC := core.ConstString(info, fa); isC {
			r.OK(rule, cs.In, "format of "+cs.Name+" is a constant", cs.Call.Pos(), "compile-time constant format")
			continue
		}
		if v := core.VarOf(info, fa); v != nil && (isParamOf(cs.In.Root(), v) || isParamOf(cs.In, v)) && cs.Call.Ellipsis.IsValid() {
			// a forwarding closure or unexported wrapper: every call of it must pass a constant
			if !cs.In.Root().Decl.Name.IsExported() || cs.In.Lit != nil {
				okAll, calls := true, 0
				k2 := paramIndex(cs.In, v)
				judge := func(ci *types.Info, call *ast.CallExpr) {
					calls++
					if k2 < 0 || k2 >= len(call.Args) {
						okAll = false
						return
					}
					if _, isC := core.ConstString(ci, call.Args[k2]); !isC {
						okAll = false
					}
				}
				if cs.In.Lit != nil {
					if lv := litVarOf(cs.In); lv != nil {
						// a closure bound to a local: its calls are in the function that made it; the variable must not escape
						ast.Inspect(cs.In.Root().Body, func(m ast.Node) bool {
							if id, isID := m.(*ast.Ident); isID && info.Uses[id] == types.Object(lv) {
								up := core.PathTo(cs.In.Root().Body, id)
								if len(up) >= 2 {
									if call, isCall := up[len(up)-2].(*ast.CallExpr); isCall && ast.Unparen(call.Fun) == ast.Expr(id) {
										judge(info, call)
										return true
									}
								}
								okAll = false
							}
							return true
						})
					}
				} else {
					for _, cc := range allCalls(p) {
						if core.CalleeFunc(cc.In.Info(), cc.Call) == cs.In.Root().Obj() {
							judge(cc.In.Info(), cc.Call)
						}
					}
				}
				if calls > 0 && okAll {
					r.OK(rule, cs.In, "format of "+cs.Name+" is a constant", cs.Call.Pos(), "the forwarding helper's format parameter; every call of the helper passes a constant")
					continue
				}
			}
		}
		if v := core.VarOf(info, fa); v != nil && isParamOf(cs.In.Root(), v) && cs.Call.Ellipsis.IsValid() && cs.In.Lit == nil {
			r.OK(rule, cs.In, "format of "+cs.Name+" is a constant", cs.Call.Pos(), "the wrapper's own format parameter, forwarded with its arguments")
			continue
		}
		r.Bad(rule, cs.In, "format of "+cs.Name+" is a constant", cs.Call.Pos(), "the format `"+core.ExprStr(fa)+"` is built at run time: a `%` in the text that was spliced in (a struct tag, a doc line, a name) is read as a verb and the output is not the text")
	}
}

// c02R10: "any error ... makes Execute return an error": a deferred closure of a function on the generation path does
// not clear the function's named error result (`finalErr = nil` under some classification of the error turns a failed
// package into a generated one; the sums are then saved for it).
func c02R10(p *core.Program, r *core.Report, pl *pipeline) {
	const rule = "R10"
	r.Floor(rule, 1)
	n := 0
	seen := map[*ast.FuncLit]bool{}
	for _, f := range pipelineFuncs(p, pl) {
		root := f.Root()
		if root.Body == nil || root.Decl == nil {
			continue
		}
		info := root.Info()
		ast.Inspect(root.Body, func(m ast.Node) bool {
			ds, ok := m.(*ast.DeferStmt)
			if !ok {
				return true
			}
			lit, ok := ast.Unparen(ds.Call.Fun).(*ast.FuncLit)
			if !ok || seen[lit] {
				return true
			}
			seen[lit] = true
			n++
			bad := ""
			ast.Inspect(lit.Body, func(k ast.Node) bool {
				as, ok := k.(*ast.AssignStmt)
				if !ok || as.Tok == token.DEFINE {
					return true
				}
				for i, l := range as.Lhs {
					v := core.VarOf(info, l)
					if v == nil || !isErrorType(v.Type()) || !isNamedResult(root, v) || i >= len(as.Rhs) || len(as.Lhs) != len(as.Rhs) {
						continue
					}
					if id, isNil := ast.Unparen(as.Rhs[i]).(*ast.Ident); isNil && id.Name == "nil" {
						// allowed only next to recover(): C02.R6 judges those
						hasRecover := false
						for _, c := range core.Calls(lit.Body, true) {
							if core.CalleeName(info, c) == "builtin.recover" {
								hasRecover = true
							}
						}
						if !hasRecover {
							bad = core.ExprStr(as)
						}
					}
				}
				return true
			})
			r.Check(bad == "", rule, root, "a deferred closure does not clear the error result", ds.Pos(), "no `<named error result> = nil` in the deferred closure",
				"the deferred closure executes `"+bad+"`: an error of a generator, a deferred callback or a write that matches its condition is dropped, "+root.QName()+" reports success, the run goes on and gengo.sum records the package as generated")
			return true
		})
	}
	if n == 0 {
		r.OK(rule, nil, "no deferred closure on the generation path", token.NoPos, "nothing can edit an error result after the return")
	}
}

// c03R20: the candidates for an import name are made of the path's own segments: the functions of pkg/namer that
// compute a candidate (string results reached from the tracker's naming loop) splice no non-empty string constant
// into it. A prefix such as "_" turns the empty candidate of a segment without letters into the blank identifier,
// which token.IsIdentifier accepts and no file can refer to.
func c03R20(p *core.Program, r *core.Report) {
	const rule = "R20"
	r.Floor(rule, 1)
	n := 0
	for _, f := range p.Funcs() {
		if f.Decl == nil || f.Decl.Recv != nil || core.RelPkg(f.Pkg.PkgPath) != "pkg/namer" || f.Obj() == nil {
			continue
		}
		sig := f.Obj().Type().(*types.Signature)
		if sig.Results().Len() != 1 || types.TypeString(sig.Results().At(0).Type(), nil) != "string" || f.Decl.Name.IsExported() {
			continue
		}
		n++
		info := f.Info()
		bad := ""
		ast.Inspect(f.Body, func(m ast.Node) bool {
			switch x := m.(type) {
			case *ast.BinaryExpr:
				if x.Op != token.ADD {
					return true
				}
				if t := info.TypeOf(x); t == nil || types.TypeString(t.Underlying(), nil) != "string" {
					return true
				}
				for _, side := range []ast.Expr{x.X, x.Y} {
					if s, isC := core.ConstString(info, side); isC && s != "" {
						if _, wholeConst := core.ConstString(info, x); !wholeConst {
							bad = core.ExprStr(x)
						}
					}
				}
			case *ast.CallExpr:
				switch core.CalleeName(info, x) {
				case "fmt.Sprintf", "fmt.Sprint", "strings.Repeat":
					bad = core.ExprStr(x)
				}
			}
			return true
		})
		r.Check(bad == "", rule, f, "a name candidate is made of the path's segments only", f.Node().Pos(), "no constant text is spliced into the candidate",
			"`"+bad+"` splices constant text into an import-name candidate: for a path segment that normalises to nothing the candidate is that text alone (`_` is an identifier and names nothing), and the check that follows accepts it")
	}
	if n == 0 {
		r.Anchor(rule, "the candidate functions of pkg/namer (unexported, one string result)")
	}
}

// c13R11: positions of the universe carry the file names the go command listed: a ParseFile hook of the loader's
// configuration hands its fset, filename and src parameters to go/parser.ParseFile unchanged. (SourceDir derives from
// the module's Dir as the go command reported it; LocateInPackage compares the two.)
func c13R11(p *core.Program, r *core.Report) {
	const rule = "R11"
	r.Floor(rule, 1)
	n := 0
	for _, f := range p.Funcs() {
		if core.RelPkg(f.Pkg.PkgPath) != "pkg/types" || f.Body == nil {
			continue
		}
		info := f.Info()
		ast.Inspect(f.Body, func(m ast.Node) bool {
			var val ast.Expr
			switch x := m.(type) {
			case *ast.KeyValueExpr:
				if id, ok := x.Key.(*ast.Ident); ok && id.Name == "ParseFile" {
					if fld, isF := info.ObjectOf(id).(*types.Var); isF && fld.IsField() && fld.Pkg() != nil && fld.Pkg().Path() == "golang.org/x/tools/go/packages" {
						val = x.Value
					}
				}
			case *ast.AssignStmt:
				for i, l := range x.Lhs {
					if fld := core.FieldOf(info, l); fld != nil && fld.Name() == "ParseFile" && fld.Pkg() != nil && fld.Pkg().Path() == "golang.org/x/tools/go/packages" && i < len(x.Rhs) {
						val = x.Rhs[i]
					}
				}
			}
			if val == nil {
				return true
			}
			n++
			lit, isLit := ast.Unparen(val).(*ast.FuncLit)
			if !isLit {
				var fn *types.Func
				switch v := ast.Unparen(val).(type) {
				case *ast.Ident:
					fn, _ = info.Uses[v].(*types.Func)
				case *ast.SelectorExpr:
					fn, _ = info.Uses[v.Sel].(*types.Func)
				}
				if fn != nil {
					if hf := p.FuncOfObj(fn); hf != nil && hf.Decl != nil {
						checkParseHook(r, rule, hf, hf.Decl.Type, hf.Body, hf.Info())
						return true
					}
				}
				r.Bad(rule, f, "the ParseFile hook hands its parameters on unchanged", val.Pos(), "the hook `"+core.ExprStr(val)+"` cannot be resolved to a function body")
				return true
			}
			checkParseHook(r, rule, f, lit.Type, lit.Body, info)
			return true
		})
	}
	if n == 0 {
		r.OK(rule, nil, "the loader sets no ParseFile hook", token.NoPos, "go/packages parses every file under the name the go command listed")
	}
}

func checkParseHook(r *core.Report, rule string, f *core.Func, ft *ast.FuncType, body *ast.BlockStmt, info *types.Info) {
	var params []*types.Var
	if ft.Params != nil {
		for _, fld := range ft.Params.List {
			for _, nm := range fld.Names {
				if v, ok := info.ObjectOf(nm).(*types.Var); ok {
					params = append(params, v)
				}
			}
		}
	}
	bad := ""
	if len(params) != 3 {
		bad = "the hook does not name its three parameters"
	}
	nparse := 0
	ast.Inspect(body, func(m ast.Node) bool {
		switch x := m.(type) {
		case *ast.AssignStmt:
			for _, l := range x.Lhs {
				for _, pv := range params {
					if core.VarOf(info, l) == pv {
						bad = "`" + core.ExprStr(x) + "` replaces the hook's parameter " + pv.Name()
					}
				}
			}
		case *ast.CallExpr:
			if core.CalleeName(info, x) == "go/parser.ParseFile" && len(x.Args) == 4 && len(params) == 3 {
				nparse++
				for i := 0; i < 3; i++ {
					if core.VarOf(info, x.Args[i]) != params[i] {
						bad = "go/parser.ParseFile gets `" + core.ExprStr(x.Args[i]) + "` instead of the hook's parameter " + params[i].Name()
					}
				}
			}
		}
		return true
	})
	if nparse == 0 && bad == "" {
		bad = "the hook does not call go/parser.ParseFile"
	}
	r.Check(bad == "", rule, f, "the ParseFile hook hands its parameters on unchanged", body.Pos(), "fset, filename and src reach go/parser.ParseFile as they came",
		bad+": positions then carry other file names than the module directories the go command reported - LocateInPackage and SourceDir disagree about where a file is")
}

// c14R16: what Eval evaluates is the formatter's text of the node: every return of the function that turns a node
// into source text is the content of a buffer that go/format.Node (or go/printer.Fprint) wrote the node parameter
// into. A display form (types.ExprString abbreviates composite and function literals) does not parse back, Eval fails
// and the alternative is reported without value and type.
func c14R16(p *core.Program, r *core.Report) {
	const rule = "R16"
	r.Floor(rule, 1)
	// the stringifier: the function of pkg/types that calls go/format.Node and returns a string
	var sf *core.Func
	for _, cs := range callersOf(p, "go/format.Node", "go/printer.Fprint") {
		root := cs.In.Root()
		if core.RelPkg(root.Pkg.PkgPath) != "pkg/types" || root.Obj() == nil {
			continue
		}
		sig := root.Obj().Type().(*types.Signature)
		if sig.Results().Len() == 1 && types.TypeString(sig.Results().At(0).Type(), nil) == "string" {
			sf = root
		}
	}
	if sf == nil {
		r.Anchor(rule, "the function of pkg/types that prints a node with go/format.Node and returns the text")
		return
	}
	info := sf.Info()
	// buffers written by the formatter with the node parameter
	bufs := map[*types.Var]bool{}
	for _, c := range core.Calls(sf.Body, true) {
		switch core.CalleeName(info, c) {
		case "go/format.Node", "go/printer.Fprint":
			if len(c.Args) == 3 {
				if nv := core.VarOf(info, c.Args[2]); nv != nil && isParamOf(sf, nv) {
					dst := ast.Unparen(c.Args[0])
					if u, ok := dst.(*ast.UnaryExpr); ok && u.Op == token.AND {
						dst = u.X
					}
					if bv := core.VarOf(info, dst); bv != nil {
						bufs[bv] = true
					}
				}
			}
		}
	}
	ast.Inspect(sf.Body, func(m ast.Node) bool {
		if _, isLit := m.(*ast.FuncLit); isLit {
			return false
		}
		ret, ok := m.(*ast.ReturnStmt)
		if !ok || len(ret.Results) != 1 {
			return true
		}
		good := false
		e, _ := core.Resolve(info, sf.Body, ret.Results[0])
		if c, isCall := ast.Unparen(e).(*ast.CallExpr); isCall {
			name := core.CalleeName(info, c)
			if strings.HasSuffix(name, ").String") && bufs[core.VarOf(info, recvOf(c))] {
				good = true
			}
			// string(buf.Bytes())
			if tv, isConv := info.Types[c.Fun]; isConv && tv.IsType() && len(c.Args) == 1 {
				if bc, isB := ast.Unparen(c.Args[0]).(*ast.CallExpr); isB && strings.HasSuffix(core.CalleeName(info, bc), ").Bytes") && bufs[core.VarOf(info, recvOf(bc))] {
					good = true
				}
			}
		}
		r.Check(good, rule, sf, "the text of a node is the formatter's: "+core.ExprStr(ret), ret.Pos(), "the buffer go/format.Node wrote the node into",
			"`"+core.ExprStr(ret)+"` returns something else than what go/format.Node printed: a display form (types.ExprString writes `T{…}` and `(func(...) literal)`) does not parse, Eval fails, and the alternative is reported without value and type")
		return true
	})
}

// c06R9: the generators a package is processed with are the ones the per-package function was given: its parameter is
// never assigned, and the generator loop ranges over that parameter (a fast path that empties the list for packages
// "without tags" skips enabled types - tags can be written with either marker, and come from Globals too).
func c06R9(p *core.Program, r *core.Report) {
	const rule = "R9"
	r.Floor(rule, 2)
	pl := findPipeline(p, r, rule)
	if pl == nil || pl.pkgExec == nil {
		return
	}
	f := pl.pkgExec
	info := f.Info()
	root := f
	if f.Origin != nil {
		root = f.Origin
	}
	var gens *types.Var
	ftype := f.Type // the view's signature: a parameter object is shown as its fields
	if ftype == nil && root.Decl != nil {
		ftype = root.Decl.Type
	}
	if ftype != nil && ftype.Params != nil {
		for _, fld := range ftype.Params.List {
			for _, nm := range fld.Names {
				if v, ok := info.ObjectOf(nm).(*types.Var); ok {
					if sl, isSl := v.Type().Underlying().(*types.Slice); isSl && core.NamedTypeName(sl.Elem()) == core.G("pkg/gengo.Generator") {
						gens = v
					}
				}
			}
		}
	}
	if gens == nil {
		r.Anchor(rule, "the []Generator parameter of the per-package function")
		return
	}
	bad := ""
	ast.Inspect(f.Body, func(m ast.Node) bool {
		switch x := m.(type) {
		case *ast.AssignStmt:
			if x.Tok == token.DEFINE && len(x.Lhs) == 1 {
				// the view's own `param := arg`
				return true
			}
			for _, l := range x.Lhs {
				if core.VarOf(info, l) == gens {
					bad = core.ExprStr(x)
				}
				if ix, ok := ast.Unparen(l).(*ast.IndexExpr); ok && core.VarOf(info, ix.X) == gens {
					bad = core.ExprStr(x)
				}
			}
		case *ast.IncDecStmt:
		}
		return true
	})
	r.Check(bad == "", rule, f, "the list of generators is not edited", f.Node().Pos(), "no assignment to the []Generator parameter",
		"`"+bad+"` replaces the generators the package was to be processed with: enabled types of the package are not handed to their generator, and the stale-output removal deletes what earlier runs generated for them")
	nloops := 0
	ast.Inspect(f.Body, func(m ast.Node) bool {
		rs, ok := m.(*ast.RangeStmt)
		if !ok {
			return true
		}
		if t := info.TypeOf(rs.X); t != nil {
			if sl, isSl := t.Underlying().(*types.Slice); isSl && core.NamedTypeName(sl.Elem()) == core.G("pkg/gengo.Generator") {
				nloops++
				r.Check(core.CanonVarOf(info, f.Body, rs.X) == gens, rule, f, "the generator loop ranges over the function's own parameter", rs.Pos(), "range over the []Generator parameter",
					"the generator loop ranges over `"+core.ExprStr(rs.X)+"`, not over the generators the function was given")
			}
		}
		return true
	})
	if nloops == 0 {
		r.Anchor(rule, "the loop over the generators in the per-package function")
	}
}

// c09R8: "%T / %v / %% ... panics on any other verb": the rune that is dispatched as the verb is the one read directly
// after '%'. From the Next() that reads it (the advance made where the cursor is known to be '%'), no further Next() is
// reachable before the cursor has been compared with a verb ('T', 'v', '%': a case of the verb switch, an equality
// test, or a lookup in a verb table keyed by the cursor). A loop that skips "flags" first makes `%#v` render instead of
// panic and swallows the flag characters.
func c09R8(r *core.Report, sc *scanClosure) {
	const rule = "R8"
	r.Floor(rule, 1)
	info := sc.f.Info()
	isVerbConst := func(e ast.Expr) bool {
		v, ok := core.ConstInt(info, e)
		return ok && (v == 'T' || v == 'v' || v == '%')
	}
	verbTest := func(n ast.Node) bool {
		e, ok := n.(ast.Expr)
		if !ok {
			return false
		}
		e = ast.Unparen(e)
		if isVerbConst(e) {
			return true // a case expression of a switch on the cursor
		}
		found := false
		ast.Inspect(e, func(m ast.Node) bool {
			if b, isB := m.(*ast.BinaryExpr); isB && (b.Op == token.EQL || b.Op == token.NEQ) {
				if (core.VarOf(info, b.X) == sc.cursor && isVerbConst(b.Y)) || (core.VarOf(info, b.Y) == sc.cursor && isVerbConst(b.X)) {
					found = true
				}
			}
			return true
		})
		return found
	}
	tableLookup := func(n ast.Node) bool {
		hit := false
		if n == nil {
			return false
		}
		ast.Inspect(n, func(m ast.Node) bool {
			if _, isLit := m.(*ast.FuncLit); isLit {
				return false
			}
			if ix, isIx := m.(*ast.IndexExpr); isIx && core.VarOf(info, ix.Index) == sc.cursor {
				if t := info.TypeOf(ix.X); t != nil {
					if _, isMap := t.Underlying().(*types.Map); isMap {
						hit = true
					}
				}
			}
			return true
		})
		return hit
	}
	n := 0
	for _, d := range sc.g.Points(func(nd ast.Node) bool { return sc.defsCursor(nd) }) {
		afterPercent := false
		for _, f := range sc.g.FactsAt(d) {
			if v, ok := varEqConst(info, f, sc.cursor, '%'); ok && v {
				afterPercent = true
			}
		}
		if !afterPercent {
			continue
		}
		n++
		tp, found := sc.g.Reach(d, false, cfgx.Query{
			Target: func(q cfgx.Point) bool { return q.Node() != nil && sc.defsCursor(q.Node()) },
			Cut: func(q cfgx.Point) bool {
				return q.Node() != nil && (verbTest(q.Node()) || tableLookup(q.Node()))
			},
		})
		if found {
			r.Bad(rule, sc.f, "the verb is the rune directly after '%'", d.Node().Pos(), "after the rune following '%' was read, the cursor is advanced again at "+r.Prog.Pos(tp.Node().Pos())+" (`"+core.ExprStr(tp.Node())+"`) before it was compared with a verb: characters between '%' and the verb are skipped, so `%#v` or `%+T` render instead of panicking and the skipped characters are lost")
		} else {
			r.OK(rule, sc.f, "the verb is the rune directly after '%'", d.Node().Pos(), "no Next() between the read of the verb and its comparison with 'T', 'v', '%'")
		}
	}
	if n == 0 {
		r.Anchor(rule, "the Next() that reads the verb after '%' in the Sprintf closure")
	}
}

// c10R17: "zero-valued struct fields may be omitted" - and only those: in the struct arm of the value printer the
// conditions a field has to pass before it is rendered come from a closed list: the field is exported
// (`ast.IsExported` / `token.IsExported` of the field's name, `PkgPath == ""`), and `reflectx.IsEmptyValue` of the
// field's own value answered false. Any other condition (an emptiness test of the package's own that follows
// pointers, a tag, a kind) leaves out a field whose value is not the zero value: a non-nil pointer to 0 is not nil.
func c10R17(p *core.Program, r *core.Report, f *core.Func, armOf map[string]*ast.CaseClause) {
	const rule = "R17"
	r.Floor(rule, 1)
	cc := armOf["struct"]
	if cc == nil {
		r.Anchor(rule, "struct arm of ValueLit")
		return
	}
	info := f.Info()
	g := graph(f)
	self := f.Obj()
	if f.Origin != nil {
		self = f.Origin.Obj()
	}
	n := 0
	for _, c := range core.Calls(cc, true) {
		if core.CalleeFunc(info, c) != self || self == nil {
			continue
		}
		// the innermost loop of the arm around the call
		var loop ast.Node
		path := core.PathTo(cc, c)
		for k := len(path) - 1; k >= 0; k-- {
			switch path[k].(type) {
			case *ast.ForStmt, *ast.RangeStmt:
				if loop == nil {
					loop = path[k]
				}
			}
		}
		if loop == nil {
			continue
		}
		n++
		bad := ""
		for _, fct := range g.FactsAt(g.PointOf(c)) {
			if fct.Cond == nil || fct.Cond.Pos() < loop.Pos() || fct.Cond.End() > loop.End() || fct.Tag != nil {
				continue
			}
			cond := ast.Unparen(fct.Cond)
			okAtom := false
			switch x := cond.(type) {
			case *ast.CallExpr:
				name := core.CalleeName(info, x)
				switch {
				case name == "go/ast.IsExported" || name == "go/token.IsExported":
					okAtom = fct.Val
				case strings.HasSuffix(name, "/reflect.IsEmptyValue") && strings.HasPrefix(name, "github.com/octohelm/x/"):
					if !fct.Val && len(x.Args) == 1 {
						a, _ := core.Resolve(info, f.Body, x.Args[0])
						if fc, isCall := ast.Unparen(a).(*ast.CallExpr); isCall && core.CalleeName(info, fc) == "(reflect.Value).Field" {
							okAtom = true
						}
					}
				case strings.HasSuffix(name, ").IsExported"):
					okAtom = fct.Val
				}
			case *ast.BinaryExpr:
				// ft.PkgPath == "" : exported
				if sel, isSel := ast.Unparen(x.X).(*ast.SelectorExpr); isSel && sel.Sel.Name == "PkgPath" && constStrIs(info, x.Y, "") && (x.Op == token.EQL) == fct.Val {
					okAtom = true
				}
				// loop bound
				if x.Op == token.LSS || x.Op == token.GTR || x.Op == token.LEQ || x.Op == token.GEQ {
					okAtom = true
				}
			}
			if !okAtom {
				bad = core.ExprStr(fct.Cond)
			}
		}
		r.Check(bad == "", rule, f, "a struct field is left out only when it is unexported or the zero value", c.Pos(), "the conditions before rendering a field: exported, and reflectx.IsEmptyValue(rv.Field(i)) is false",
			"the field is rendered only under `"+bad+"`, which is neither the export test nor reflectx.IsEmptyValue of the field's own value: a field whose value is not the zero value (a non-nil pointer to 0, false or \"\") can be left out, and the literal evaluates to a different value")
	}
	if n == 0 {
		r.Anchor(rule, "the recursive call for a field in the struct arm's loop")
	}
}

// litVarOf: the local variable a function literal is bound to (`w := func(...) {…}`), or nil.
func litVarOf(f *core.Func) *types.Var {
	if f.Lit == nil || f.Parent == nil {
		return nil
	}
	info := f.Info()
	var out *types.Var
	ast.Inspect(f.Root().Body, func(m ast.Node) bool {
		as, ok := m.(*ast.AssignStmt)
		if !ok || len(as.Lhs) != len(as.Rhs) {
			return true
		}
		for i, rh := range as.Rhs {
			if ast.Unparen(rh) == ast.Expr(f.Lit) {
				out = core.VarOf(info, as.Lhs[i])
			}
		}
		return true
	})
	return out
}

// ---- ninth round of seeded changes ----

// c13R12: "LocateInPackage(pos) returns the package whose source directory holds the file of pos": every package the
// function returns is returned under `filepath.Dir(<position of pos>.Filename) == <that package>.SourceDir()`. (A
// containment test on the syntax files - `f.Pos() <= pos && pos <= f.End()` - starts at the package keyword and ends
// with the last declaration: positions in a licence header, a build line or a trailing comment belong to no file.)
func c13R12(p *core.Program, r *core.Report) {
	const rule = "R12"
	r.Floor(rule, 1)
	var f *core.Func
	for _, cand := range p.Funcs() {
		if cand.Decl != nil && cand.Decl.Recv != nil && cand.Decl.Name.Name == "LocateInPackage" && core.RelPkg(cand.Pkg.PkgPath) == "pkg/types" {
			f = flatten(p, cand)
		}
	}
	if f == nil {
		r.Anchor(rule, "pkg/types.(*Universe).LocateInPackage")
		return
	}
	info := f.Info()
	g := graph(f)
	n := 0
	ast.Inspect(f.Body, func(m ast.Node) bool {
		ret, ok := m.(*ast.ReturnStmt)
		if !ok || len(ret.Results) != 1 {
			return true
		}
		if id, isID := ast.Unparen(ret.Results[0]).(*ast.Ident); isID && id.Name == "nil" {
			return true
		}
		n++
		retV := core.VarOf(info, ret.Results[0])
		good := false
		for _, fct := range g.FactsAt(g.PointOf(ret)) {
			b, isB := ast.Unparen(fct.Cond).(*ast.BinaryExpr)
			if !isB || !((b.Op == token.EQL) == fct.Val) || (b.Op != token.EQL && b.Op != token.NEQ) {
				continue
			}
			isDirOfPos := func(e ast.Expr) bool {
				e, _ = core.Resolve(info, f.Body, e)
				c, isCall := ast.Unparen(e).(*ast.CallExpr)
				if !isCall || (core.CalleeName(info, c) != "path/filepath.Dir" && core.CalleeName(info, c) != "path.Dir") || len(c.Args) != 1 {
					return false
				}
				sel, isSel := ast.Unparen(c.Args[0]).(*ast.SelectorExpr)
				if !isSel || sel.Sel.Name != "Filename" {
					return false
				}
				pe, _ := core.Resolve(info, f.Body, sel.X)
				pc, isPC := ast.Unparen(pe).(*ast.CallExpr)
				if !isPC || core.NamedTypeName(info.TypeOf(pc)) != "go/token.Position" || len(pc.Args) < 1 {
					return false
				}
				pv := core.VarOf(info, pc.Args[0])
				return pv != nil && isParamOf(f, pv)
			}
			isSourceDirOf := func(e ast.Expr) bool {
				e, _ = core.Resolve(info, f.Body, e)
				c, isCall := ast.Unparen(e).(*ast.CallExpr)
				if !isCall || !strings.HasSuffix(core.CalleeName(info, c), ").SourceDir") {
					return false
				}
				return retV != nil && core.VarOf(info, recvOf(c)) == retV
			}
			if (isDirOfPos(b.X) && isSourceDirOf(b.Y)) || (isDirOfPos(b.Y) && isSourceDirOf(b.X)) {
				good = true
			}
		}
		r.Check(good, rule, f, "a package is answered for a position only when the file's directory is its source directory", ret.Pos(), "return p under filepath.Dir(Position(pos).Filename) == p.SourceDir()",
			"`"+core.ExprStr(ret)+"` is not decided by comparing the directory of the position's file with the package's SourceDir(): positions outside the span another test looks at (before the package clause, after the last declaration) are answered nil although their file lies in the package's directory")
		return true
	})
	if n == 0 {
		r.Anchor(rule, "a return of a package in LocateInPackage")
	}
}

// c14R17: a call of a method of an instantiated generic type is not traced into the generic declaration: the resolver
// looks declarations up under the *types.Func the checker recorded for the call, never under its Origin() (inside the
// generic body results have the type parameter's type, which is not assignable to the caller's result type).
func c14R17(p *core.Program, r *core.Report, fs []*core.Func) {
	const rule = "R17"
	r.Floor(rule, 1)
	bad := 0
	seen := map[*ast.CallExpr]bool{}
	scan := func(f *core.Func) {
		if f == nil || f.Body == nil {
			return
		}
		info := f.Info()
		for _, c := range core.Calls(f.Body, true) {
			if seen[c] || core.CalleeName(info, c) != "(*go/types.Func).Origin" {
				continue
			}
			seen[c] = true
			bad++
			r.Bad(rule, f, "declarations are looked up under the function the checker recorded", c.Pos(), "`"+core.ExprStr(c)+"` replaces the method of an instantiated generic type by its generic declaration: the resolver then scans the generic body, whose results have the type parameter's type - not assignable to the result type of the caller that is being resolved")
		}
	}
	for _, f := range fs {
		scan(f)
	}
	// accessors of the package record the resolver reads its tables through
	for _, f := range p.Funcs() {
		if f.Decl == nil || f.Decl.Recv == nil || core.RelPkg(f.Pkg.PkgPath) != "pkg/types" || f.Obj() == nil {
			continue
		}
		sig := f.Obj().Type().(*types.Signature)
		for i := 0; i < sig.Params().Len(); i++ {
			if core.NamedTypeName(sig.Params().At(i).Type()) == "go/types.Func" {
				scan(f)
			}
		}
	}
	if bad == 0 {
		r.OK(rule, nil, "declarations are looked up under the function the checker recorded", token.NoPos, "no (*types.Func).Origin() in the resolver or the accessors it reads its tables through")
	}
}

// c14R18: "the alternatives at each position are exactly those values": the Value of an alternative is what Eval
// answered for the expression's text (the exact untyped constant), never the constant go/types recorded in place for
// the expression (that one is already converted - rounded - to the type of the position it stands in).
func c14R18(p *core.Program, r *core.Report, fs []*core.Func) {
	const rule = "R18"
	r.Floor(rule, 1)
	n := 0
	for _, f := range fs {
		if f.Body == nil {
			continue
		}
		info := f.Info()
		ast.Inspect(f.Body, func(m ast.Node) bool {
			if _, isLit := m.(*ast.FuncLit); isLit {
				return false
			}
			cl, ok := m.(*ast.CompositeLit)
			if !ok || core.NamedTypeName(info.TypeOf(cl)) != core.G("pkg/types.Result") {
				return true
			}
			for _, el := range cl.Elts {
				kv, isKV := el.(*ast.KeyValueExpr)
				if !isKV || identOf(kv.Key) == nil || identOf(kv.Key).Name != "Value" {
					continue
				}
				n++
				// <x>.Value with every definition of x the first result of an Eval call
				sel, isSel := ast.Unparen(kv.Value).(*ast.SelectorExpr)
				good, why := false, "the value is not the Value of what Eval answered"
				if isSel && sel.Sel.Name == "Value" {
					if xv := core.VarOf(info, sel.X); xv != nil && core.NamedTypeName(xv.Type()) == core.G("pkg/types.Result") {
						good = true // an alternative handed on as it was found
					} else if xv != nil {
						defs := core.DefsOf(info, f.Root().Body, xv)
						good = len(defs) > 0
						for _, d := range defs {
							c, isCall := ast.Unparen(d.Rhs).(*ast.CallExpr)
							name := ""
							if isCall {
								name = core.CalleeName(info, c)
							}
							if !isCall || !(strings.HasSuffix(name, ").Eval") || name == "go/types.Eval") {
								good = false
								if d.Rhs != nil {
									why = "`" + core.ExprStr(d.Rhs) + "` is not an Eval of the expression"
								}
							}
						}
					} else if c, isCall := ast.Unparen(sel.X).(*ast.CallExpr); isCall && strings.HasSuffix(core.CalleeName(info, c), ").Eval") {
						good = true
					}
				}
				r.Check(good, rule, f, "an alternative's constant is what Eval answered: "+core.ExprStr(kv.Value), kv.Pos(), "Value of the TypeAndValue Eval returned",
					why+": the constant the type checker records for an expression in place is already converted to the type of its position (0.1 in a float64 result is the nearest double, 16777217 in a float32 result is 16777216), so the alternative is not the value in the source")
			}
			return true
		})
	}
	if n == 0 {
		r.Anchor(rule, "Result literals with a Value in the resolver")
	}
}

// c11R14: "embedded fields": whatever the interface arm of the type printer returns as a constant is a type *name*
// (`any`, `error`) - an embedded field must be a type name, `interface{}` is the same type and does not parse there.
func c11R14(p *core.Program, r *core.Report, f *core.Func, cc *ast.CaseClause) {
	const rule = "R14"
	r.Floor(rule, 1)
	if cc == nil {
		r.Anchor(rule, "interface arm of TypeLit")
		return
	}
	info := f.Info()
	n := 0
	ast.Inspect(cc, func(m ast.Node) bool {
		ret, ok := m.(*ast.ReturnStmt)
		if !ok || len(ret.Results) != 1 {
			return true
		}
		s, isC := core.ConstString(info, ret.Results[0])
		if !isC {
			return true
		}
		n++
		r.Check(token.IsIdentifier(s), rule, f, "the interface arm answers a type name: "+s, ret.Pos(), "`"+s+"` is an identifier",
			"the interface arm renders `"+s+"`, which is not a type name: as the type of an embedded field (`struct{ any }`) the rendered literal does not parse")
		return true
	})
	if n == 0 {
		r.Anchor(rule, "constant results of the interface arm")
	}
}

// c16R15: the emitted helper `runtimeDoc(v, prefix, names...)` hands on what the embedded value's RuntimeDoc answered:
// the test that follows `doc, ok := c.RuntimeDoc(names...)` is `ok` alone (an existing field without doc lines answers
// `[]string{}, true`, and so must the struct that embeds its owner). R16: in the struct arm of the generator every
// emitted RuntimeDoc method looks at `names` (a struct never answers an unknown name with its own doc).
func c16R15(p *core.Program, r *core.Report) {
	const rule = "R15"
	r.Floor(rule, 1)
	n := 0
	for _, f := range p.Funcs() {
		if core.RelPkg(f.Pkg.PkgPath) != "devpkg/runtimedocgen" || f.Body == nil || f.Lit != nil {
			continue
		}
		info := f.Info()
		ast.Inspect(f.Body, func(m ast.Node) bool {
			lit, ok := m.(*ast.BasicLit)
			if !ok || lit.Kind != token.STRING {
				return true
			}
			s, isC := core.ConstString(info, lit)
			if !isC || !strings.Contains(s, "func runtimeDoc(") {
				return true
			}
			n++
			file, err := parser.ParseFile(token.NewFileSet(), "helper.go", "package p\n"+s, 0)
			if err != nil {
				r.Bad(rule, f, "the emitted helper hands on the embedded value's answer", lit.Pos(), "the helper text does not parse: "+err.Error())
				return true
			}
			good, found := true, 0
			var check func(list []ast.Stmt)
			isOK := func(e ast.Expr) bool { id, isID := ast.Unparen(e).(*ast.Ident); return isID && id.Name == "ok" }
			bindsFromRuntimeDoc := func(st ast.Stmt) bool {
				as, isAs := st.(*ast.AssignStmt)
				if !isAs || len(as.Rhs) != 1 || len(as.Lhs) != 2 {
					return false
				}
				c, isCall := as.Rhs[0].(*ast.CallExpr)
				if !isCall {
					return false
				}
				sel, isSel := c.Fun.(*ast.SelectorExpr)
				return isSel && sel.Sel.Name == "RuntimeDoc"
			}
			check = func(list []ast.Stmt) {
				for i, st := range list {
					switch x := st.(type) {
					case *ast.IfStmt:
						if x.Init != nil && bindsFromRuntimeDoc(x.Init) {
							found++
							if !isOK(x.Cond) {
								good = false
							}
						}
						if i > 0 && bindsFromRuntimeDoc(list[i-1]) {
							found++
							if !isOK(x.Cond) {
								good = false
							}
						}
						check(x.Body.List)
						if eb, isBlock := x.Else.(*ast.BlockStmt); isBlock {
							check(eb.List)
						}
					case *ast.BlockStmt:
						check(x.List)
					}
				}
			}
			for _, d := range file.Decls {
				if fd, isFD := d.(*ast.FuncDecl); isFD && fd.Name.Name == "runtimeDoc" && fd.Body != nil {
					check(fd.Body.List)
				}
			}
			r.Check(good && found >= 1, rule, f, "the emitted helper hands on the embedded value's answer", lit.Pos(), "`doc, ok := c.RuntimeDoc(names...)` is followed by `if ok`",
				"the emitted runtimeDoc helper does not decide on `ok` alone after asking the embedded value: a field of an embedded struct that exists but has no doc lines (`[]string{}, true`) is answered `nil, false` by the struct that embeds it")
			return true
		})
	}
	if n == 0 {
		r.Anchor(rule, "the text of the emitted runtimeDoc helper")
	}
	// R16
	const rule2 = "R16"
	r.Floor(rule2, 1)
	n2 := 0
	for _, s := range templateSites(p) {
		if core.RelPkg(s.F.Pkg.PkgPath) != "devpkg/runtimedocgen" || !s.IsConst || !strings.Contains(s.Format, "RuntimeDoc(names ...string)") {
			continue
		}
		// inside the *types.Struct arm of a type switch?
		inStruct := false
		for _, nd := range core.PathTo(s.F.Root().Body, s.Call) {
			if cc, isCC := nd.(*ast.CaseClause); isCC {
				for _, e := range cc.List {
					if t := s.F.Info().TypeOf(e); t != nil && strings.HasSuffix(types.TypeString(t, nil), "go/types.Struct") {
						inStruct = true
					}
				}
			}
		}
		if !inStruct {
			continue
		}
		n2++
		r.Check(strings.Contains(s.Format, "len(names)"), rule2, s.F, "a struct's RuntimeDoc looks at the names it is asked about", s.Call.Pos(), "the template tests len(names)",
			"a template of the struct arm emits a RuntimeDoc that ignores `names`: for such a struct every name - existing field or not - is answered with the type's own doc and true instead of nil, false")
	}
	if n2 == 0 {
		r.Anchor(rule2, "RuntimeDoc templates in the struct arm of the runtimedoc generator")
	}
}

// c17R19: the copy statements of the fields are rendered one after the other with nothing in between (templates lose
// their leading line breaks): every constant template the field helper returns ends in a line break, so that the next
// statement starts on a line of its own (a statement glued behind a `// comment` is swallowed by it).
func c17R19(p *core.Program, r *core.Report) {
	const rule = "R19"
	r.Floor(rule, 4)
	n := 0
	for _, s := range templateSites(p) {
		if core.RelPkg(s.F.Pkg.PkgPath) != "devpkg/deepcopygen/helper" || !s.IsConst || s.Kind != "T" {
			continue
		}
		if root := s.F.Root(); root.Decl == nil || root.Decl.Name.Name != "createFieldSnippet" {
			continue
		}
		n++
		r.Check(strings.HasSuffix(s.Format, "\n"), rule, s.F, "a field's copy statement ends its line", s.Call.Pos(), "the template ends in a line break",
			"the template `"+strings.TrimSpace(s.Format)+"` does not end in a line break: the copy statement of the next field is rendered on the same line (behind a `//` comment it is not executed at all - the field is zero in the copy)")
	}
	if n == 0 {
		r.Anchor(rule, "templates of createFieldSnippet")
	}
}

// c03R21: the printer asks the namer about the reference it was given: every return of (*Dumper).Name is the namer's
// answer for the function's own parameter (a path that is "cleaned up" on the way - a prefix cut off with a cutset that
// contains digits, say - registers another package than the one the text refers to).
func c03R21(p *core.Program, r *core.Report) {
	const rule = "R21"
	r.Floor(rule, 1)
	f := p.FuncByName("pkg/gengo/internal", "(*Dumper).Name")
	if f == nil {
		r.Anchor(rule, "pkg/gengo/internal.(*Dumper).Name")
		return
	}
	f = flatten(p, f)
	info := f.Info()
	n := 0
	ast.Inspect(f.Body, func(m ast.Node) bool {
		if _, isLit := m.(*ast.FuncLit); isLit {
			return false
		}
		ret, ok := m.(*ast.ReturnStmt)
		if !ok || len(ret.Results) != 1 {
			return true
		}
		n++
		e, _ := core.Resolve(info, f.Body, ret.Results[0])
		good := false
		if c, isCall := ast.Unparen(e).(*ast.CallExpr); isCall && len(c.Args) == 1 && strings.HasSuffix(core.CalleeName(info, c), ".Name") {
			if v := core.VarOf(info, c.Args[0]); v != nil && isParamOf(f, v) {
				if _, isNamer := info.TypeOf(recvOf(c)).Underlying().(*types.Interface); isNamer || recvOf(c) != nil {
					good = true
				}
			}
		}
		r.Check(good, rule, f, "the namer is asked about the reference as it was given: "+core.ExprStr(ret), ret.Pos(), "return <namer>.Name(<the parameter>)",
			"`"+core.ExprStr(ret)+"` is not the namer's answer for the reference the printer was given: the package that is registered (and imported) is then not the one the rendered text refers to")
		return true
	})
	if n == 0 {
		r.Anchor(rule, "returns of (*Dumper).Name")
	}
}

// c18R19: the origin the generated code names is the type name the declaration wrote: every value stored into the
// Origin of a PartialStruct is the object the checker recorded for the identifier of the written type
// (`ObjectOf(<ident>)`, narrowed by a type switch or assertion) - not something derived from it (the type an alias
// denotes may be unexported or internal: `DeepCopyAs() *origin.settings` does not compile).
func c18R19(p *core.Program, r *core.Report) {
	const rule = "R19"
	r.Floor(rule, 1)
	n := 0
	for _, f := range p.Funcs() {
		if core.RelPkg(f.Pkg.PkgPath) != "devpkg/partialstruct" || f.Body == nil || f.Lit != nil {
			continue
		}
		info := f.Info()
		fromObjectOf := func(e ast.Expr) bool {
			ta, ok := ast.Unparen(e).(*ast.TypeAssertExpr)
			if ok {
				e = ta.X
			}
			c, isCall := ast.Unparen(e).(*ast.CallExpr)
			return isCall && strings.HasSuffix(core.CalleeName(info, c), ".ObjectOf")
		}
		judge := func(val ast.Expr, at token.Pos) {
			n++
			good := false
			if id, isID := ast.Unparen(val).(*ast.Ident); isID {
				obj := info.Uses[id]
				// the symbolic variable of a type switch over ObjectOf(...)
				ast.Inspect(f.Body, func(m ast.Node) bool {
					ts, isTS := m.(*ast.TypeSwitchStmt)
					if !isTS {
						return true
					}
					as, isAs := ts.Assign.(*ast.AssignStmt)
					if !isAs || len(as.Rhs) != 1 || !fromObjectOf(as.Rhs[0]) {
						return true
					}
					for _, cl := range ts.Body.List {
						if info.Implicits[cl] == obj && obj != nil {
							good = true
						}
					}
					return true
				})
				if v, isVar := obj.(*types.Var); isVar && !good {
					if d, single := core.SingleDef(info, f.Body, v); single && d.Rhs != nil {
						if fromObjectOf(d.Rhs) {
							good = true
						} else {
							// narrowed from a variable every value of which is such a lookup
							src := ast.Unparen(d.Rhs)
							if ta, isTA := src.(*ast.TypeAssertExpr); isTA {
								src = ast.Unparen(ta.X)
							}
							if sv := core.VarOf(info, src); sv != nil && !sv.IsField() {
								defs := core.DefsOf(info, f.Body, sv)
								all := len(defs) > 0
								for _, sd := range defs {
									if sd.Rhs == nil {
										continue // `var origin types.Object`
									}
									if !fromObjectOf(sd.Rhs) {
										all = false
									}
								}
								good = all
							}
						}
					}
				}
			} else if fromObjectOf(val) {
				good = true
			}
			r.Check(good, rule, f, "the origin is the type name the declaration wrote: "+core.ExprStr(val), at, "the checker's object for the written identifier",
				"`"+core.ExprStr(val)+"` is stored as the origin, not the object of the identifier the declaration wrote: the generated DeepCopyAs names another type (the one an alias denotes, which may be unexported or in an internal package) and does not compile")
		}
		ast.Inspect(f.Body, func(m ast.Node) bool {
			switch x := m.(type) {
			case *ast.AssignStmt:
				for i, l := range x.Lhs {
					if fld := core.FieldOf(info, l); fld != nil && fld.Name() == "Origin" && i < len(x.Rhs) && len(x.Lhs) == len(x.Rhs) {
						judge(x.Rhs[i], x.Pos())
					}
				}
			case *ast.KeyValueExpr:
				if id, ok := x.Key.(*ast.Ident); ok && id.Name == "Origin" {
					if fld, isF := info.ObjectOf(id).(*types.Var); isF && fld.IsField() {
						judge(x.Value, x.Pos())
					}
				}
			}
			return true
		})
	}
	if n == 0 {
		r.Anchor(rule, "stores into PartialStruct.Origin")
	}
}
