package rules

import (
	"fmt"
	"go/ast"
	"go/constant"
	"go/token"
	"go/types"
	"reflect"
	"sort"
	"strings"

	"gengoverif/checker/internal/core"
)

func init() {
	register(Property{
		ID:          "C10",
		Explanation: "Decided statically on the kind-directed value printer (anchor: the switch over reflect.Type.Kind() in (*Dumper).ValueLit): R1 every kind of the stated domain (bool, all int/uint sizes, float32/64, string, pointer, slice, array, map, struct) has a dedicated arm and the default arm panics; R2 table agreement between the pointer arm and the scalar arms - the set of element kinds for which the pointer arm emits the address-of form `&(lit)` is disjoint from the kinds whose own arm renders a non-composite literal (an address of a non-composite literal does not compile); R3 every type name substituted into the pointer arm's closure form comes from the type-literal printer (named types and imports are kept), never from a reflect.Kind; R4 string data reaches the result only through strconv.Quote / QuoteRune; R5 floats are formatted with 'f', precision -1 and the bit size of their kind; R6 map entries are emitted from a key list that is sorted before use (collect-then-sort), struct fields and slice elements in index order; composite literals take their type prefix from the type-literal printer. R7 empty-result discipline: every recursive call of the value printer either tests its result against the empty string or switches the sub-value mode off (an all-zero struct renders as nothing, which would leave `&()` or `k:,`). R8 accessor/kind agreement - in every numeric arm the value is read with the reflect accessor of its own class (Int for signed, Uint for unsigned, Float for floats, also through helpers) and is not converted to a type of another class first; R9 the printers keep no mutable state on the Dumper (shared with C11.R7). R5 floats are formatted with precision -1 and the right bit size, and a float64 is written in 'f' format only below a magnitude bound (an integer literal of more than 512 bits does not compile); R10 the struct, map, slice and array arms render composite literals (`<type>{...}`), which is what the pointer arm takes the address of; R11 import names are valid identifiers (C03.R5). R12 the value snippet answers IsNil() true only for the untyped nil interface. R13 nested type arguments in the names of instantiated generic types are all rewritten (C15.R4). R14 only the printer's own renderings reach a buffer or a result (field-sensitive taint from calls on another Dumper); R15 struct literal keys are the struct's own fields (Field(i), no embedding-flattening reflect call) and the constant nil is returned only under IsNil(). NOT decided: that the rendered literal compiles and evaluates to a deeply equal value (value-level round trip); the type of a top-level named scalar. Round 8: R16 = C03.R12 (the text of every registering call ends up in the literal: the imports it registered are the ones it uses); R17 in the struct arm the conditions before a field is rendered come from a closed list - exported, and reflectx.IsEmptyValue of the field's own value is false. Round 9: R18 = C03.R2 (the import block declares the name a literal was rendered with), R19 = C11.R1.",
		Assumptions: commonAssumptions,
		Run:         runC10,
	})
}

func kindName(v int64) string { return reflect.Kind(v).String() }

// kindSwitch finds the switch over <x>.Kind() with the most cases in f.
func kindSwitch(f *core.Func, minCases int) *ast.SwitchStmt {
	info := f.Info()
	var best *ast.SwitchStmt
	bestN := 0
	ast.Inspect(f.Body, func(n ast.Node) bool {
		sw, ok := n.(*ast.SwitchStmt)
		if !ok || sw.Tag == nil {
			return true
		}
		c, ok := ast.Unparen(sw.Tag).(*ast.CallExpr)
		if !ok || !strings.HasSuffix(core.CalleeName(info, c), ").Kind") {
			return true
		}
		cnt := 0
		for _, cl := range sw.Body.List {
			cnt += len(cl.(*ast.CaseClause).List)
		}
		if cnt >= minCases && cnt > bestN {
			best, bestN = sw, cnt
		}
		return true
	})
	return best
}

func clauseKinds(info *types.Info, cc *ast.CaseClause) []string {
	var out []string
	for _, e := range cc.List {
		if tv, ok := info.Types[e]; ok && tv.Value != nil && tv.Value.Kind() == constant.Int {
			v, _ := constant.Int64Val(tv.Value)
			out = append(out, kindName(v))
		}
	}
	return out
}

func runC10(p *core.Program, r *core.Report) {
	f := p.FuncByName("pkg/gengo/internal", "(*Dumper).ValueLit")
	if f != nil {
		f = flatten(p, f) // arms moved into private helpers are seen in place
	}
	if f == nil {
		r.Anchor("R1", "pkg/gengo/internal.(*Dumper).ValueLit")
		return
	}
	info := f.Info()
	sw := kindSwitch(f, 10)
	if sw == nil {
		r.Anchor("R1", "switch over tpe.Kind() in ValueLit")
		return
	}
	r.Floor("R1", 2)
	armOf := map[string]*ast.CaseClause{}
	var def *ast.CaseClause
	for _, c := range sw.Body.List {
		cc := c.(*ast.CaseClause)
		if cc.List == nil {
			def = cc
		}
		for _, k := range clauseKinds(info, cc) {
			armOf[k] = cc
		}
	}
	domain := []string{"bool", "int", "int8", "int16", "int32", "int64", "uint", "uint8", "uint16", "uint32", "uint64", "float32", "float64", "string", "ptr", "slice", "array", "map", "struct"}
	var missing []string
	for _, k := range domain {
		if armOf[k] == nil {
			missing = append(missing, k)
		}
	}
	r.Check(len(missing) == 0, "R1", f, "every kind of the value domain has a dedicated arm", sw.Pos(), fmt.Sprintf("%d domain kinds covered", len(domain)),
		"kinds without an arm fall into the default (panic) or another kind's formatting: "+strings.Join(missing, ", "))
	r.Check(def != nil && endsInPanic(info, def.Body), "R1", f, "unsupported kinds panic", sw.Pos(), "default arm ends in panic", "the default arm does not panic: unsupported values are rendered as something")

	// composite arms: take their type prefix from the type-literal printer
	isTypeLitCall := func(c *ast.CallExpr) bool {
		switch core.CalleeName(info, c) {
		case core.GM("pkg/gengo/internal", "*Dumper", "ReflectTypeLit"), core.GM("pkg/gengo/internal", "*Dumper", "TypeLit"), core.GM("pkg/gengo/internal", "*Dumper", "TypesTypeLit"):
			return true
		}
		return false
	}
	composite := map[string]bool{}
	for k, cc := range armOf {
		for _, c := range core.Calls(cc, true) {
			if isTypeLitCall(c) {
				composite[k] = true
			}
		}
	}
	r.Floor("R6", 4)
	for _, k := range []string{"struct", "map", "slice", "array"} {
		if armOf[k] != nil {
			r.Check(composite[k], "R6", f, k+" literal takes its type prefix from the type-literal printer", armOf[k].Pos(), "ReflectTypeLit(tpe)", "the composite literal's type is not rendered by the type-literal printer: named types and imports are lost")
		}
	}

	// R2: S = non-composite arms, P = kinds for which the pointer arm emits &(
	r.Floor("R2", 1)
	ptr := armOf["ptr"]
	if ptr == nil {
		r.Anchor("R2", "pointer arm of ValueLit")
	} else {
		S := map[string]bool{}
		for k := range armOf {
			if k != "ptr" && !composite[k] {
				S[k] = true
			}
		}
		// string-building results of the pointer arm: fmt.Sprintf(const, ops...) or a concatenation
		type built struct {
			at   ast.Expr
			text string
			ops  []ast.Expr
		}
		var amp, closure []built
		ast.Inspect(ptr, func(n ast.Node) bool {
			ret, ok := n.(*ast.ReturnStmt)
			if !ok || len(ret.Results) != 1 {
				return true
			}
			text, ops, ok := stringBuild(info, ret.Results[0])
			if !ok {
				return true
			}
			b := built{ret.Results[0], text, ops}
			if strings.Contains(text, "&(") || strings.HasPrefix(strings.TrimSpace(text), "&") {
				amp = append(amp, b)
			}
			if strings.Contains(text, "func(") {
				closure = append(closure, b)
			}
			return true
		})
		allKinds := []string{}
		for k := reflect.Invalid; k <= reflect.UnsafePointer; k++ {
			allKinds = append(allKinds, k.String())
		}
		P := map[string]bool{}
		how := ""
		for _, c := range amp {
			ks, h := ampKinds(p, f, ptr, c.at, allKinds)
			how = h
			for _, k := range ks {
				P[k] = true
			}
		}
		if len(amp) == 0 {
			r.OK("R2", f, "pointer arm never emits the address-of form", ptr.Pos(), "no `&(` format in the pointer arm")
		} else {
			var clash []string
			for _, k := range domain {
				if S[k] && P[k] {
					clash = append(clash, k)
				}
			}
			sort.Strings(clash)
			r.Check(len(clash) == 0, "R2", f, "address-of form is used only for composite-literal kinds", amp[0].at.Pos(),
				"kinds reaching `&(lit)` ("+how+") are disjoint from the scalar arms",
				"a pointer to "+strings.Join(clash, "/")+" is rendered as `&(<non-composite literal>)`, which does not compile (e.g. *string -> &(\"x\")); "+how)
		}
		// R3
		r.Floor("R3", 1)
		if len(closure) == 0 {
			r.Bad("R3", f, "pointer-to-scalar closure form", ptr.Pos(), "no `func(v T) *T { return &v }(lit)` form in the pointer arm: pointers to scalars cannot be rendered")
		}
		for _, c := range closure {
			good := true
			var badOp string
			for _, a := range c.ops {
				t := info.TypeOf(a)
				if t != nil && core.NamedTypeName(t) == "reflect.Kind" {
					good, badOp = false, core.ExprStr(a)
					continue
				}
				e, _ := core.Resolve(info, f.Body, a)
				if cc, ok := ast.Unparen(e).(*ast.CallExpr); ok {
					if isTypeLitCall(cc) {
						continue
					}
					if core.CalleeName(info, cc) == core.GM("pkg/gengo/internal", "*Dumper", "ValueLit") {
						continue // the operand literal
					}
				}
				good, badOp = false, core.ExprStr(a)
			}
			r.Check(good, "R3", f, "type names in the closure form come from the type-literal printer", c.at.Pos(), "operands are ReflectTypeLit(...) and the element literal",
				"operand `"+badOp+"` of the closure form is not rendered by the type-literal printer (a reflect.Kind prints the underlying kind: *MyInt becomes func(v int) *int, the wrong type, and no import is registered)")
		}
	}

	// R4: string data only through strconv.Quote
	r.Floor("R4", 1)
	nstr := 0
	var stack []ast.Node
	ast.Inspect(f.Body, func(n ast.Node) bool {
		if n == nil {
			stack = stack[:len(stack)-1]
			return false
		}
		stack = append(stack, n)
		c, ok := n.(*ast.CallExpr)
		if !ok || core.CalleeName(info, c) != "(reflect.Value).String" {
			return true
		}
		nstr++
		quoted := false
		if len(stack) >= 2 {
			if pc, ok := stack[len(stack)-2].(*ast.CallExpr); ok {
				switch core.CalleeName(info, pc) {
				case "strconv.Quote", "strconv.QuoteToASCII", "strconv.QuoteToGraphic":
					quoted = true
				}
			}
		}
		r.Check(quoted, "R4", f, "string value is rendered through strconv.Quote", c.Pos(), "rv.String() is a direct operand of strconv.Quote",
			"raw string data is concatenated into the literal without strconv.Quote: quotes, backslashes, newlines or invalid UTF-8 in the value break or change the literal")
		return true
	})
	if sa := armOf["string"]; sa != nil && nstr == 0 {
		r.Bad("R4", f, "string arm renders through strconv.Quote", sa.Pos(), "the string arm does not read rv.String() under strconv.Quote")
	}
	if ia := armOf["int32"]; ia != nil {
		for _, c := range core.CallsTo(info, ia, true, "strconv.QuoteRune") {
			r.OK("R4", f, "rune literal rendered through strconv.QuoteRune", c.Pos(), "QuoteRune")
		}
	}

	// R5: floats
	r.Floor("R5", 2)
	for _, spec := range []struct {
		kind string
		bits int64
	}{{"float32", 32}, {"float64", 64}} {
		cc := armOf[spec.kind]
		if cc == nil {
			continue
		}
		calls := core.CallsTo(info, cc, true, "strconv.FormatFloat")
		ok := len(calls) >= 1
		why5 := ""
		g5 := graph(f)
		for _, c := range calls {
			if len(c.Args) != 4 || !constIs(info, c.Args[2], -1) || !constIs(info, c.Args[3], spec.bits) {
				ok, why5 = false, "not the shortest representation that reads back as the same "+spec.kind
				continue
			}
			switch {
			case constIs(info, c.Args[1], 'g'), constIs(info, c.Args[1], 'e'), constIs(info, c.Args[1], 'G'), constIs(info, c.Args[1], 'E'):
				// always a floating-point literal
			case constIs(info, c.Args[1], 'f'):
				// 'f' writes a float without fraction as an integer literal: as a constant it may have at most 512 bits
				// (about 1.3e154). Every float32 is below that; a float64 needs a magnitude guard on the way.
				if spec.bits == 32 {
					break
				}
				guarded := false
				for _, fct := range g5.FactsAt(g5.PointOf(c)) {
					b, isBin := ast.Unparen(fct.Cond).(*ast.BinaryExpr)
					if !isBin || fct.Tag != nil {
						continue
					}
					op := b.Op
					if !fct.Val {
						op = negate(op)
					}
					ac := core.AsCall(info, b.X, "math.Abs")
					if ac == nil || (op != token.LSS && op != token.LEQ) {
						continue
					}
					if tv, okc := info.Types[b.Y]; okc && tv.Value != nil {
						if k, _ := constant.Float64Val(constant.ToFloat(tv.Value)); k > 0 && k <= 1e154 {
							guarded = true
						}
					}
				}
				if !guarded {
					ok, why5 = false, "'f' format without a bound on the magnitude: a float64 of 2^512 or more (math.MaxFloat64) is written as an integer literal of more than 512 bits, which the compiler rejects (constant overflow)"
				}
			default:
				ok, why5 = false, "unknown format byte"
			}
		}
		if len(clauseKinds(info, cc)) != 1 {
			ok = false // a shared arm cannot use the right bit size for both
		}
		if why5 == "" {
			why5 = "the arm is shared between float kinds or has no FormatFloat call"
		}
		r.Check(ok, "R5", f, spec.kind+" is formatted as the shortest literal that reads back (precision -1, bit size "+itoa(spec.bits)+") and compiles for every magnitude", cc.Pos(), "strconv.FormatFloat(v, fmt, -1, "+itoa(spec.bits)+"), 'f' only below 2^512", spec.kind+" values are not rendered so that they read back as the same value: "+why5)
	}

	// R6: map keys sorted; index-order loops
	if ma := armOf["map"]; ma != nil {
		var src *ast.RangeStmt
		ast.Inspect(ma, func(n ast.Node) bool {
			rs, ok := n.(*ast.RangeStmt)
			if !ok {
				return true
			}
			if c, ok := ast.Unparen(rs.X).(*ast.CallExpr); ok {
				switch core.CalleeName(info, c) {
				case "(reflect.Value).MapKeys":
					src = rs
				}
			}
			if isMapType(info.TypeOf(rs.X)) {
				// ranging a Go map while writing to the buffer
				sh := rangeBodyShape(info, rs)
				if !sh.KeyedOnly {
					r.Bad("R6", f, "map literal entries are emitted in a fixed order", rs.Pos(), "entries are written while ranging over a Go map: the text depends on map-iteration order")
				}
			}
			return true
		})
		usesMapRange := len(core.CallsTo(info, ma, true, "(reflect.Value).MapRange")) > 0
		if src == nil || usesMapRange {
			r.Bad("R6", f, "map literal entries are emitted in a fixed order", ma.Pos(), "the map arm does not collect rv.MapKeys() into a key list that is sorted before emitting")
		} else {
			// every loop over the unordered key list only collects / stores by key
			ok, why := true, ""
			ast.Inspect(ma, func(n ast.Node) bool {
				rs, isR := n.(*ast.RangeStmt)
				if !isR {
					return true
				}
				if c, isCall := ast.Unparen(rs.X).(*ast.CallExpr); isCall && core.CalleeName(info, c) == "(reflect.Value).MapKeys" {
					if sh := rangeBodyShape(info, rs); !sh.KeyedOnly || len(sh.Collected) < 1 {
						ok, why = false, "the loop over rv.MapKeys() does more than collecting keys / keyed stores: "+strings.Join(sh.Other, "; ")
					}
				}
				return true
			})
			// the emitting loop - the one that writes the entries - ranges over a list of key literals that was
			// collected by a loop and put in its natural order before any other use (whatever order it was collected in)
			emit := false
			ast.Inspect(ma, func(n ast.Node) bool {
				rs, isR := n.(*ast.RangeStmt)
				if !isR || !ok {
					return true
				}
				writes := false
				for _, c := range core.Calls(rs.Body, true) {
					if _, _, isW := writeTemplate(info, c); isW {
						writes = true
					}
				}
				if !writes {
					return true
				}
				x := core.VarOf(info, rs.X)
				if x == nil {
					ok, why = false, "entries are written by a loop that does not range over a key list"
					return true
				}
				// the loop that collects x
				var coll *ast.RangeStmt
				ast.Inspect(ma, func(m ast.Node) bool {
					if cr, isCR := m.(*ast.RangeStmt); isCR && cr != rs {
						for _, cv := range rangeBodyShape(info, cr).Collected {
							if cv == x {
								coll = cr
							}
						}
					}
					return true
				})
				if coll == nil {
					ok, why = false, "the list the entries are emitted from is not collected by a loop of the map arm"
					return true
				}
				if good, w := sortedBeforeUse(f, coll, x); !good {
					ok, why = false, w
					return true
				}
				emit = true
				return true
			})
			if ok && !emit {
				ok, why = false, "entries are not emitted by ranging over the sorted key list"
			}
			r.Check(ok, "R6", f, "map literal entries are emitted in a fixed order", src.Pos(), "key literals are collected, put in their natural order, then emitted (collect-then-sort)", why)
		}
	}
	a5Check(r, "R6", f)
	c14R3forFunc(p, r, f)
	c10R7(p, r, f)
	c10R8(p, r, f, sw)
	// R9: the printers remember nothing between values (shared with C11.R7): a type prefix or
	// nested literal served from a cache keyed by anything but the type's identity belongs to another type
	dumperStatelessRule(p, r, "R9")
	c10R10(p, r, f, armOf)
	// R11: "compiled in a file with the imports it registered": the name a package is imported under is an identifier
	chainRules(p, r, "R11", "C03", []string{"C03.R5"}, "import names are valid non-keyword identifiers")
	c10R12(p, r)
	// R13: value literals of instantiated generic types carry the type's name with every nested type argument rewritten
	// to its import name (C15.R4: the walk over the arguments visits every node and handles each exactly once)
	chainRules(p, r, "R13", "C15", []string{"C15.R4"}, "nested type arguments are all visited and rewritten to their import names")
	// round 8: the imports a literal registered are the ones its text uses
	chainRules(p, r, "R16", "C03", []string{"C03.R12"}, "the text of every registering call ends up in the literal")
	// round 9: the name a literal uses for a package is the name the import block declares for it; the type heading a
	// composite literal is the printer's structural rendering of the value's type
	chainRules(p, r, "R18", "C03", []string{"C03.R2"}, "the import block declares, for every registered path, the name the literal was rendered with")
	chainRules(p, r, "R19", "C11", []string{"C11.R1"}, "array, slice and map types are rendered constructor first, element types through the printer")
	c10R14(p, r, f, armOf)
	c10R17(p, r, f, armOf)
}

// numClass: signed / unsigned / float class of a reflect kind name or a basic type.
func numClassOfKind(k string) string {
	switch {
	case strings.HasPrefix(k, "int"):
		return "signed"
	case strings.HasPrefix(k, "uint"):
		return "unsigned"
	case strings.HasPrefix(k, "float"):
		return "float"
	}
	return ""
}

func numClassOfType(t types.Type) string {
	b, ok := t.Underlying().(*types.Basic)
	if !ok {
		return ""
	}
	switch {
	case b.Info()&types.IsUnsigned != 0:
		return "unsigned"
	case b.Info()&types.IsInteger != 0:
		return "signed"
	case b.Info()&types.IsFloat != 0:
		return "float"
	}
	return ""
}

// reflectTypeOperand: the Go type a reflect.Type expression denotes, for
// reflect.TypeFor[T](), reflect.TypeOf(T(..)) and package-level variables initialised with one.
func reflectTypeOperand(p *core.Program, f *core.Func, e ast.Expr, depth int) types.Type {
	info := f.Info()
	e, _ = core.Resolve(info, f.Root().Body, e)
	e = ast.Unparen(e)
	if c, ok := e.(*ast.CallExpr); ok {
		switch core.CalleeName(info, c) {
		case "reflect.TypeFor":
			fun := ast.Unparen(c.Fun)
			if ix, ok := fun.(*ast.IndexExpr); ok {
				return info.TypeOf(ix.Index)
			}
		case "reflect.TypeOf":
			if len(c.Args) == 1 {
				return info.TypeOf(c.Args[0])
			}
		}
		return nil
	}
	if v := core.VarOf(info, e); v != nil && v.Pkg() != nil && v.Parent() == v.Pkg().Scope() && depth < 2 {
		for _, file := range f.Pkg.Syntax {
			for _, d := range file.Decls {
				gd, ok := d.(*ast.GenDecl)
				if !ok {
					continue
				}
				for _, sp := range gd.Specs {
					vs, ok := sp.(*ast.ValueSpec)
					if !ok {
						continue
					}
					for i, n := range vs.Names {
						if info.ObjectOf(n) == types.Object(v) && i < len(vs.Values) {
							return reflectTypeOperand(p, &core.Func{Pkg: f.Pkg, Name: "<pkginit>", Body: &ast.BlockStmt{}}, vs.Values[i], depth+1)
						}
					}
				}
			}
		}
	}
	return nil
}

// c10R8: accessor/kind agreement in the numeric arms. reflect's Int/Uint/Float
// accessors are only lossless for the kinds of their own class; a Convert to a
// type of another class (uint64 -> int64) wraps silently, so the printed number
// is not the value (and may not even fit the literal's type).
func c10R8(p *core.Program, r *core.Report, f *core.Func, sw *ast.SwitchStmt) {
	const rule = "R8"
	r.Floor(rule, 4)
	info := f.Info()
	accessorClass := map[string]string{"(reflect.Value).Int": "signed", "(reflect.Value).Uint": "unsigned", "(reflect.Value).Float": "float"}
	for _, c := range sw.Body.List {
		cc := c.(*ast.CaseClause)
		kinds := clauseKinds(info, cc)
		class := ""
		mixed := false
		for _, k := range kinds {
			kc := numClassOfKind(k)
			if kc == "" {
				class = "-"
				break
			}
			if class != "" && class != kc {
				mixed = true
			}
			class = kc
		}
		if class == "" || class == "-" {
			continue
		}
		construct := "numeric arm " + strings.Join(kinds, ",") + ": the value is read with the accessor of its own class"
		if mixed {
			r.Bad(rule, f, construct, cc.Pos(), "signed, unsigned or float kinds share one arm: no single reflect accessor (and no conversion to one common type) is lossless for all of them")
			continue
		}
		why := ""
		naccess := 0
		ast.Inspect(cc, func(n ast.Node) bool {
			if _, isLit := n.(*ast.FuncLit); isLit {
				return false
			}
			ret, ok := n.(*ast.ReturnStmt)
			if !ok {
				return true
			}
			for _, res := range ret.Results {
				o, _ := through(p, operand{f, res}, 0)
				oinfo := o.F.Info()
				ast.Inspect(o.E, func(m ast.Node) bool {
					call, ok := m.(*ast.CallExpr)
					if !ok {
						return true
					}
					name := core.CalleeName(oinfo, call)
					if ac, isAcc := accessorClass[name]; isAcc {
						naccess++
						if ac != class {
							why = "`" + core.ExprStr(call) + "` reads a " + class + " kind with the " + ac + " accessor"
						}
					}
					if name == "(reflect.Value).Convert" && len(call.Args) == 1 {
						t := reflectTypeOperand(p, o.F, call.Args[0], 0)
						switch {
						case t == nil:
							why = "`" + core.ExprStr(call) + "` converts the value to a type the checker cannot resolve"
						case numClassOfType(t) != class:
							why = "`" + core.ExprStr(call) + "` converts a " + class + " kind to " + t.String() + ": values outside that type's range wrap silently (an unsigned value >= 1<<63 prints as a negative number)"
						}
					}
					return true
				})
			}
			return true
		})
		r.Check(why == "", rule, f, construct, cc.Pos(), itoa(int64(naccess))+" accessor call(s), all of class "+class, why)
	}
}

// c10R7: empty-result discipline. ValueLit answers "" for a sub-value that has
// nothing to print (an all-zero struct in a struct field). A caller that uses
// the result unconditionally prints a hole (`P:&()`, `"a":,`). Every recursive
// call must either test the result against "" or switch the sub-value mode off.
func c10R7(p *core.Program, r *core.Report, f *core.Func) {
	const rule = "R7"
	info := f.Info()
	g := graph(f)
	returnsEmpty := false
	ast.Inspect(f.Body, func(n ast.Node) bool {
		if ret, ok := n.(*ast.ReturnStmt); ok && len(ret.Results) == 1 && constStrIs(info, ret.Results[0], "") {
			returnsEmpty = true
		}
		return true
	})
	if !returnsEmpty {
		r.OK(rule, f, "the printer never answers the empty string", f.Node().Pos(), "no `return \"\"`")
		return
	}
	r.Floor(rule, 4)
	subValueOff := func(c *ast.CallExpr) bool {
		for _, a := range c.Args[1:] {
			found := false
			ast.Inspect(a, func(n ast.Node) bool {
				if sc, ok := n.(*ast.CallExpr); ok && core.CalleeName(info, sc) == core.G("pkg/gengo/internal.SubValue") && len(sc.Args) == 1 {
					if tv := info.Types[sc.Args[0]]; tv.Value != nil && tv.Value.String() == "false" {
						found = true
					}
				}
				return true
			})
			if found {
				return true
			}
		}
		return false
	}
	for _, c := range core.Calls(f.Body, true) {
		if core.CalleeFunc(info, c) != f.Obj() {
			continue
		}
		construct := "result of the recursive call " + core.ExprStr(c) + " is never an unnoticed empty string"
		if subValueOff(c) {
			r.OK(rule, f, construct, c.Pos(), "the call switches the sub-value mode off (SubValue(false)): the callee cannot answer \"\"")
			continue
		}
		if len(c.Args) == 1 && !c.Ellipsis.IsValid() {
			r.OK(rule, f, construct, c.Pos(), "the call passes no options: the sub-value mode is off by default (zero option struct), the callee cannot answer \"\"")
			continue
		}
		// result assigned to a variable that is compared with ""
		tested := false
		if as, ok := g.PointOf(c).Node().(*ast.AssignStmt); ok && len(as.Rhs) == 1 && as.Rhs[0] == ast.Expr(c) {
			if v := core.VarOf(info, as.Lhs[0]); v != nil {
				for _, br := range g.Branches() {
					if b, ok := ast.Unparen(br.Cond).(*ast.BinaryExpr); ok && (b.Op == token.EQL || b.Op == token.NEQ) {
						if (core.VarOf(info, b.X) == v && constStrIs(info, b.Y, "")) || (core.VarOf(info, b.Y) == v && constStrIs(info, b.X, "")) {
							tested = true
						}
					}
				}
			}
		}
		r.Check(tested, rule, f, construct, c.Pos(), "the result is compared with \"\" before it is used",
			"the callee can answer \"\" (empty sub-struct under SubValue(true), which is inherited through the option list) but this call neither tests the result nor passes SubValue(false): a pointer to / map entry of a zero-valued struct inside a struct field is rendered as `&()` / `\"k\":,`, which does not compile (the struct arm tests the same result - contradiction)")
	}
}

// ampKinds determines the element kinds for which the address-of format call
// is reached inside the pointer arm.
func ampKinds(p *core.Program, f *core.Func, ptr *ast.CaseClause, amp ast.Expr, all []string) ([]string, string) {
	info := f.Info()
	// (a) nested in a case clause of a switch over <elem>.Kind()
	path := core.PathTo(ptr, amp)
	for k := len(path) - 1; k >= 0; k-- {
		cc, ok := path[k].(*ast.CaseClause)
		if !ok || k == 0 {
			continue
		}
		if cc == ptr {
			break
		}
		if cc.List == nil {
			// default arm of an inner kind switch: complement of the listed kinds
			if body, ok := path[k-1].(*ast.BlockStmt); ok {
				listed := map[string]bool{}
				for _, c := range body.List {
					for _, kk := range clauseKinds(info, c.(*ast.CaseClause)) {
						listed[kk] = true
					}
				}
				var out []string
				for _, a := range all {
					if !listed[a] {
						out = append(out, a)
					}
				}
				return out, "default arm of an inner kind switch"
			}
		}
		return clauseKinds(info, cc), "explicit case list of an inner kind switch: " + strings.Join(clauseKinds(info, cc), ",")
	}
	g := graph(f)
	facts := g.FactsAt(g.PointOf(amp))
	// (b) reached after an inner kind switch whose listed arms all return: complement
	for _, s := range ptr.Body {
		sw, ok := s.(*ast.SwitchStmt)
		if !ok || sw.End() > amp.Pos() || sw.Tag == nil {
			continue
		}
		if c, ok := ast.Unparen(sw.Tag).(*ast.CallExpr); !ok || !strings.HasSuffix(core.CalleeName(info, c), ").Kind") {
			continue
		}
		listed := map[string]bool{}
		through := map[string]bool{}
		hasDefault, defaultThrough := false, false
		for _, c := range sw.Body.List {
			cc := c.(*ast.CaseClause)
			_, isRet := lastStmt(cc.Body).(*ast.ReturnStmt)
			leaves := isRet || endsInPanic(info, cc.Body)
			if cc.List == nil {
				hasDefault, defaultThrough = true, !leaves
				continue
			}
			for _, kk := range clauseKinds(info, cc) {
				listed[kk] = true
				if !leaves {
					through[kk] = true
				}
			}
		}
		var out []string
		for _, a := range all {
			if through[a] || (!listed[a] && (!hasDefault || defaultThrough)) {
				out = append(out, a)
			}
		}
		return out, "kinds that leave the preceding inner kind switch without returning: " + strings.Join(out, ",")
	}
	// (c) guarded by a lookup in a kind table: `_, ok := table[kind]` false
	for _, fct := range facts {
		v := core.VarOf(info, fct.Cond)
		if v == nil {
			continue
		}
		d, ok := core.SingleDef(info, f.Body, v)
		if !ok || d.Index != 1 {
			continue
		}
		ix, ok := ast.Unparen(d.Rhs).(*ast.IndexExpr)
		if !ok {
			continue
		}
		tbl := core.VarOf(info, ix.X)
		if tbl == nil {
			continue
		}
		keys := kindTableKeys(p, tbl)
		if keys == nil {
			continue
		}
		var out []string
		for _, a := range all {
			if keys[a] == fct.Val {
				out = append(out, a)
			}
		}
		return out, "kinds " + map[bool]string{true: "in", false: "not in"}[fct.Val] + " the kind table " + tbl.Name()
	}
	// (d) guarded by comparisons of the element kind with kind constants: `k == Struct || k == Map || …` (k the result of
	// a Kind() call, or the call itself)
	for _, fct := range facts {
		if fct.Tag != nil {
			continue
		}
		var kinds []string
		isKind := true
		var split func(e ast.Expr)
		split = func(e ast.Expr) {
			e = ast.Unparen(e)
			b, isBin := e.(*ast.BinaryExpr)
			if isBin && b.Op == token.LOR {
				split(b.X)
				split(b.Y)
				return
			}
			if !isBin || b.Op != token.EQL {
				isKind = false
				return
			}
			x, k := b.X, b.Y
			tv, isC := info.Types[k]
			if !isC || tv.Value == nil {
				x, k = k, x
				tv, isC = info.Types[k]
			}
			if !isC || tv.Value == nil || core.NamedTypeName(tv.Type) != "reflect.Kind" {
				isKind = false
				return
			}
			src, _ := core.Resolve(info, f.Body, x)
			if c, isCall := ast.Unparen(src).(*ast.CallExpr); !isCall || !strings.HasSuffix(core.CalleeName(info, c), ").Kind") {
				isKind = false
				return
			}
			if v, exact := constant.Int64Val(tv.Value); exact {
				kinds = append(kinds, kindName(v))
			}
		}
		split(fct.Cond)
		if !isKind || len(kinds) == 0 {
			continue
		}
		listed := map[string]bool{}
		for _, k := range kinds {
			listed[k] = true
		}
		var out []string
		for _, a := range all {
			if listed[a] == fct.Val {
				out = append(out, a)
			}
		}
		return out, "kinds for which `" + core.ExprStr(fct.Cond) + "` is " + map[bool]string{true: "true", false: "false"}[fct.Val]
	}
	return all, "unguarded: every element kind"
}

// kindTableKeys reads the constant keys of a package-level map[reflect.Kind]T literal.
func kindTableKeys(p *core.Program, tbl *types.Var) map[string]bool {
	for _, pkg := range p.InScope() {
		for _, file := range pkg.Syntax {
			for _, d := range file.Decls {
				gd, ok := d.(*ast.GenDecl)
				if !ok || gd.Tok != token.VAR {
					continue
				}
				for _, s := range gd.Specs {
					vs := s.(*ast.ValueSpec)
					for i, n := range vs.Names {
						if pkg.TypesInfo.ObjectOf(n) != types.Object(tbl) || i >= len(vs.Values) {
							continue
						}
						cl, ok := vs.Values[i].(*ast.CompositeLit)
						if !ok {
							return nil
						}
						out := map[string]bool{}
						for _, el := range cl.Elts {
							kv, ok := el.(*ast.KeyValueExpr)
							if !ok {
								return nil
							}
							if tv, ok := pkg.TypesInfo.Types[kv.Key]; ok && tv.Value != nil {
								v, _ := constant.Int64Val(tv.Value)
								out[kindName(v)] = true
							}
						}
						// the table must not be written elsewhere
						for _, f := range p.Funcs() {
							for _, w := range globalWrites(f) {
								if core.Mentions(f.Info(), w, tbl) {
									return nil
								}
							}
						}
						return out
					}
				}
			}
		}
	}
	return nil
}

// c14R3forFunc applies the index/bound pairing rule to one function (the
// reflect value/type pair of the struct arm).
func c14R3forFunc(p *core.Program, r *core.Report, f *core.Func) {
	sub := core.NewReport(r.Prog, "C14")
	c14R3(p, sub)
	for _, o := range sub.Obls {
		if o.Func == f.QName() {
			if o.Status == core.Violated || o.Status == core.Undecided {
				r.Bad("R6", f, o.Construct, token.NoPos, o.How)
			} else {
				r.OK("R6", f, o.Construct, token.NoPos, o.How)
			}
		}
	}
}

// stringBuild decomposes a string-building expression into its constant text
// (operands marked by \x00) and operands: fmt.Sprintf(const, ops...) or a
// concatenation of constants and operands.
func stringBuild(info *types.Info, e ast.Expr) (string, []ast.Expr, bool) {
	e = ast.Unparen(e)
	if c := core.AsCall(info, e, "fmt.Sprintf"); c != nil && len(c.Args) >= 1 {
		if s, ok := core.ConstString(info, c.Args[0]); ok {
			return s, c.Args[1:], true
		}
		return "", nil, false
	}
	if s, ok := core.ConstString(info, e); ok {
		return s, nil, true
	}
	if b, ok := e.(*ast.BinaryExpr); ok && b.Op == token.ADD {
		lt, lo, lok := stringBuild(info, b.X)
		rt, ro, rok := stringBuild(info, b.Y)
		if !lok {
			lt, lo = "\x00", []ast.Expr{b.X}
		}
		if !rok {
			rt, ro = "\x00", []ast.Expr{b.Y}
		}
		if !lok && !rok {
			// no constant part at all: not a template
			if _, isBin := ast.Unparen(b.X).(*ast.BinaryExpr); !isBin {
				if _, isBin2 := ast.Unparen(b.Y).(*ast.BinaryExpr); !isBin2 {
					return "", nil, false
				}
			}
		}
		return lt + rt, append(lo, ro...), true
	}
	return "", nil, false
}

// c10R10 (sibling agreement): the pointer arm takes the address of what the struct, map, slice and array arms render
// (`&(<literal>)`), which only compiles for a composite literal. Every non-empty result of these arms therefore has the
// shape `<type literal>{ ... }`: the text that starts the result is the type literal followed by an opening brace.
func c10R10(p *core.Program, r *core.Report, f *core.Func, armOf map[string]*ast.CaseClause) {
	const rule = "R10"
	r.Floor(rule, 3)
	info := f.Info()
	// leading text of a builder: what it is created with plus its first two writes, operands as \x00
	leadOfBuilder := func(v *types.Var, scope ast.Node) (string, bool) {
		d, ok := core.SingleDef(info, f.Body, v)
		if !ok {
			return "", false
		}
		lead := ""
		if c, isCall := ast.Unparen(d.Rhs).(*ast.CallExpr); isCall && core.CalleeName(info, c) == "bytes.NewBufferString" && len(c.Args) == 1 {
			t, okT := exprTemplate(info, c.Args[0])
			if !okT {
				return "", false
			}
			lead = t.Text
		}
		writes := 0
		ast.Inspect(scope, func(n ast.Node) bool {
			c, isCall := n.(*ast.CallExpr)
			if !isCall || writes >= 2 || c.Pos() < d.Stmt.Pos() {
				return true
			}
			dest, t, okW := writeTemplate(info, c)
			if okW && core.VarOf(info, dest) == v {
				lead += t.Text
				writes++
			}
			return true
		})
		return lead, true
	}
	var leadOf func(e ast.Expr, scope ast.Node) (string, bool)
	leadOf = func(e ast.Expr, scope ast.Node) (string, bool) {
		e = ast.Unparen(e)
		if b, ok := e.(*ast.BinaryExpr); ok && b.Op == token.ADD {
			l, ok1 := leadOf(b.X, scope)
			rr, ok2 := leadOf(b.Y, scope)
			return l + rr, ok1 && ok2
		}
		if c, ok := e.(*ast.CallExpr); ok {
			if sel, isSel := ast.Unparen(c.Fun).(*ast.SelectorExpr); isSel && sel.Sel.Name == "String" && len(c.Args) == 0 {
				if v := core.VarOf(info, sel.X); v != nil {
					return leadOfBuilder(v, scope)
				}
			}
		}
		t, ok := exprTemplate(info, e)
		if !ok {
			return "", false
		}
		return t.Text, true
	}
	for _, kind := range []string{"struct", "map", "slice", "array"} {
		cc := armOf[kind]
		if cc == nil {
			continue
		}
		seen := map[*ast.CaseClause]bool{}
		if seen[cc] {
			continue
		}
		seen[cc] = true
		ast.Inspect(cc, func(n ast.Node) bool {
			if _, isLit := n.(*ast.FuncLit); isLit {
				return false
			}
			ret, ok := n.(*ast.ReturnStmt)
			if !ok || len(ret.Results) != 1 {
				return true
			}
			if constStrIs(info, ret.Results[0], "") {
				return true // the omitted empty sub-struct: nothing to take the address of
			}
			lead, okL := leadOf(ret.Results[0], cc)
			good := okL && strings.HasPrefix(lead, "\x00{")
			r.Check(good, rule, f, "the "+kind+" arm renders a composite literal: "+core.ExprStr(ret), ret.Pos(), "the result starts with the type literal followed by `{`",
				"a result of the "+kind+" arm is not of the form `<type>{...}`: the pointer arm writes `&(<literal>)` for this kind, and the address of anything but a composite literal (a conversion `T(\"...\")`, a call) does not compile")
			return true
		})
	}
}

// c10R12: "nil pointers, maps and slices" are values like any other: the value snippet must render them (`nil`,
// `[]T{}`, `map[K]V{}`), not vanish. A snippet that answers IsNil() == true is skipped by Render, T and Fragments, so the
// value snippet may answer true only when it holds no value at all - the untyped nil interface. Decided on the IsNil
// method of the type whose Frag calls Dumper.ValueLit: every return is `<held> == nil` itself, the constant false, or
// true under a dominating `<held> == nil`; nothing else (no reflection on the held value) decides it.
func c10R12(p *core.Program, r *core.Report) {
	const rule = "R12"
	r.Floor(rule, 1)
	// the value snippet: the type of pkg/gengo/snippet whose Frag hands its field to ValueLit
	var frag *core.Func
	for _, cs := range callersOf(p, "("+core.G("pkg/gengo/internal.Dumper")+").ValueLit", "(*"+core.G("pkg/gengo/internal.Dumper")+").ValueLit") {
		if core.RelPkg(cs.In.Pkg.PkgPath) == "pkg/gengo/snippet" && cs.In.Root().Decl != nil && cs.In.Root().Decl.Recv != nil && cs.In.Root().Decl.Name.Name == "Frag" {
			frag = cs.In.Root()
		}
	}
	if frag == nil {
		r.Anchor(rule, "the Frag method of pkg/gengo/snippet that calls Dumper.ValueLit")
		return
	}
	rt := frag.Info().TypeOf(frag.Decl.Recv.List[0].Type)
	var isNil *core.Func
	for _, f := range p.Funcs() {
		if f.Decl != nil && f.Decl.Recv != nil && f.Decl.Name.Name == "IsNil" && f.Pkg == frag.Pkg && types.Identical(f.Info().TypeOf(f.Decl.Recv.List[0].Type), rt) {
			isNil = f
		}
	}
	if isNil == nil {
		r.Anchor(rule, "IsNil of the value snippet")
		return
	}
	isNil = flatten(p, isNil)
	info := isNil.Info()
	g := graph(isNil)
	recv := recvVar(isNil)
	isHeld := func(e ast.Expr) bool {
		// a field of interface type of the receiver
		sel, ok := ast.Unparen(e).(*ast.SelectorExpr)
		if !ok || core.VarOf(info, sel.X) != recv || recv == nil {
			return false
		}
		_, isIface := info.TypeOf(sel).Underlying().(*types.Interface)
		return isIface
	}
	isHeldNil := func(e ast.Expr) (bool, bool) { // (is the comparison, is ==)
		b, ok := ast.Unparen(e).(*ast.BinaryExpr)
		if !ok || (b.Op != token.EQL && b.Op != token.NEQ) {
			return false, false
		}
		if (isHeld(b.X) && constNil(info, b.Y)) || (isHeld(b.Y) && constNil(info, b.X)) {
			return true, b.Op == token.EQL
		}
		return false, false
	}
	ast.Inspect(isNil.Body, func(n ast.Node) bool {
		if _, ok := n.(*ast.FuncLit); ok {
			return false
		}
		ret, ok := n.(*ast.ReturnStmt)
		if !ok || len(ret.Results) != 1 {
			return true
		}
		res, _ := core.Resolve(info, isNil.Body, ret.Results[0])
		good := false
		if is, eq := isHeldNil(res); is && eq {
			good = true
		}
		if tv, has := info.Types[res]; has && tv.Value != nil {
			if tv.Value.String() == "false" {
				good = true
			} else {
				for _, fct := range g.FactsAt(g.PointOf(ret)) {
					if is, eq := isHeldNil(fct.Cond); is && eq == fct.Val {
						good = true
					}
				}
			}
		}
		r.Check(good, rule, isNil, "the value snippet is nil only when it holds no value: return "+core.ExprStr(ret.Results[0]), ret.Pos(), "`v.v == nil`, false, or true under v.v == nil",
			"the value snippet can answer IsNil() == true for a value that is there (a typed nil pointer, slice or map): Render, T and Fragments skip it, and `var S []string = @s` is written without its right-hand side (does not parse) instead of `[]string{}` / `nil`")
		return true
	})
}
