package rules

import (
	"go/ast"
	"go/token"
	"go/types"
	"strings"

	"gengoverif/checker/internal/cfgx"
	"gengoverif/checker/internal/core"
)

// A5: panic-site obligations. Every index / slice expression on a slice,
// string or array inside the given function is an obligation that must be
// discharged by a dominating length guard, a loop bound on the same base, or a
// property-specific tactic supplied by the caller.

type a5Tactic func(bc *boundsCtx, e ast.Expr, base ast.Expr, need needLen) (how string, ok bool)

// needLen: the obligation is len(base) >= Min (Min counted in elements), or,
// when Idx != nil, 0 <= Idx(+Off) < len(base) (+1 for slice bounds).
type needLen struct {
	Min    int64    // constant requirement len(base) >= Min
	Idx    ast.Expr // variable part of the index, nil when constant
	Off    int64    // constant offset added to Idx
	Slice  bool     // slice bound: Idx+Off <= len(base) suffices
	LenRel bool     // index is len(base)-k: requirement is len(base) >= k (k = Min)
}

type boundsCtx struct {
	f     *core.Func
	g     *cfgx.G
	info  *types.Info
	r     *core.Report
	rule  string
	extra []a5Tactic
	// readAt is where the element is read: the expression itself, or the statement
	// that took a snapshot of it (cur := acc[i])
	readAt ast.Node
	// at is the point of the obligation being decided: expressions are put in linear form as evaluated there
	at cfgx.Point
}

func a5Check(r *core.Report, rule string, f *core.Func, extra ...a5Tactic) int {
	bc := &boundsCtx{f: f, g: graph(f), info: f.Info(), r: r, rule: rule, extra: extra}
	n := 0
	ast.Inspect(f.Body, func(node ast.Node) bool {
		if lit, ok := node.(*ast.FuncLit); ok && lit != f.Lit {
			return false // literals are separate functions
		}
		switch x := node.(type) {
		case *ast.IndexExpr:
			if bc.basicKindTable(x) {
				return true // go/types.Typ[<BasicKind constant>]: the table has one entry per kind by construction
			}
			if bc.indexable(x.X) {
				n++
				bc.obligation(x, x.X, bc.needOfIndex(x.X, x.Index, false))
			}
		case *ast.CallExpr:
			// size arguments that panic when negative
			if idx, ok := sizeArgCallees[core.CalleeName(bc.info, x)]; ok && idx < len(x.Args) {
				n++
				bc.sizeObligation(x, x.Args[idx])
			}
			// utf8.EncodeRune(p, r) panics when p is shorter than the encoding of r
			if core.CalleeName(bc.info, x) == "unicode/utf8.EncodeRune" && len(x.Args) == 2 {
				n++
				bc.encodeObligation(x)
			}
			if core.CalleeName(bc.info, x) == "builtin.make" {
				for _, a := range x.Args[1:] {
					if _, isC := core.ConstInt(bc.info, a); isC {
						continue
					}
					n++
					bc.sizeObligation(x, a)
				}
			}
		case *ast.SliceExpr:
			if bc.indexable(x.X) {
				for _, b := range []ast.Expr{x.Low, x.High, x.Max} {
					if b == nil {
						continue
					}
					if v, ok := core.ConstInt(bc.info, b); ok && v == 0 {
						continue
					}
					n++
					bc.obligation(x, x.X, bc.needOfIndex(x.X, b, true))
				}
			}
		}
		return true
	})
	return n
}

func (bc *boundsCtx) indexable(x ast.Expr) bool {
	t := bc.info.TypeOf(x)
	if t == nil {
		return false
	}
	switch u := t.Underlying().(type) {
	case *types.Slice, *types.Array:
		return true
	case *types.Basic:
		return u.Info()&types.IsString != 0
	case *types.Pointer:
		_, ok := u.Elem().Underlying().(*types.Array)
		return ok
	}
	return false
}

// basicKindTable: go/types.Typ indexed by a constant of type types.BasicKind.
func (bc *boundsCtx) basicKindTable(x *ast.IndexExpr) bool {
	sel, ok := ast.Unparen(x.X).(*ast.SelectorExpr)
	if !ok {
		return false
	}
	v, ok := bc.info.ObjectOf(sel.Sel).(*types.Var)
	if !ok || v.Pkg() == nil || v.Pkg().Path() != "go/types" || v.Name() != "Typ" {
		return false
	}
	tv, ok := bc.info.Types[x.Index]
	return ok && tv.Value != nil && core.NamedTypeName(tv.Type) == "go/types.BasicKind"
}

func (bc *boundsCtx) isLenOf(e ast.Expr, base ast.Expr) bool {
	call, ok := ast.Unparen(e).(*ast.CallExpr)
	if !ok || len(call.Args) != 1 || core.CalleeName(bc.info, call) != "builtin.len" {
		return false
	}
	return core.SameRef(bc.info, call.Args[0], base)
}

func (bc *boundsCtx) needOfIndex(base, idx ast.Expr, slice bool) needLen {
	idx = ast.Unparen(idx)
	at := bc.g.PointOf(idx)
	l, ok := bc.linOf(idx, at)
	if !ok {
		return needLen{Idx: idx, Slice: slice}
	}
	switch {
	case len(l.Atoms) == 0:
		if slice {
			return needLen{Min: l.C, Slice: true}
		}
		return needLen{Min: l.C + 1}
	case len(l.Atoms) == 1 && l.Coef[0] == 1 && l.Atoms[0].LenOf != nil && core.SameRef(bc.info, l.Atoms[0].LenOf, base):
		// x[len(x)-k]: in range iff k >= 1 (k >= 0 for a slice bound) and len(x) >= k
		if k := -l.C; k >= 1 || (slice && k == 0) {
			return needLen{Min: k, LenRel: true, Slice: slice}
		}
	case len(l.Atoms) == 1 && l.Coef[0] == 1 && l.Atoms[0].Var != nil:
		return needLen{Idx: l.Atoms[0].Id, Off: l.C, Slice: slice}
	}
	return needLen{Idx: idx, Slice: slice}
}

func (bc *boundsCtx) obligation(e ast.Expr, base ast.Expr, need needLen) {
	construct := "bounds of " + core.ExprStr(e)
	if need.Slice {
		construct = "slice bounds of " + core.ExprStr(e)
	}
	p := bc.g.PointOf(e)
	if !p.Valid() {
		bc.r.Unknown(bc.rule, bc.f, construct, e.Pos(), "expression not found in the control-flow graph")
		return
	}
	bc.at = p
	facts := bc.g.FactsAt(p)
	// facts from short-circuit evaluation inside the same condition
	if node := p.Node(); node != nil {
		facts = append(facts, shortCircuitFacts(node, e)...)
	}
	if how, ok := bc.byGuard(facts, base, need); ok {
		bc.r.OK(bc.rule, bc.f, construct, e.Pos(), how)
		return
	}
	// the base may be a snapshot of an element: cur := runes[i]
	bc.readAt = e
	if ab, def := bc.aliasOf(base); ab != nil {
		need2 := need
		if need.LenRel || need.Idx == nil {
			// len(cur) == len(runes[i]) at the snapshot: re-express the requirement on the element
			if how, ok := bc.byGuard(bc.g.FactsAt(bc.g.PointOf(def)), ab, need2); ok {
				bc.r.OK(bc.rule, bc.f, construct, e.Pos(), how+" (through the snapshot "+core.ExprStr(base)+" := "+core.ExprStr(ab)+")")
				return
			}
		}
		base = ab
		bc.readAt = def
	}
	if how, ok := bc.byLoop(e, base, need, facts); ok {
		bc.r.OK(bc.rule, bc.f, construct, e.Pos(), how)
		return
	}
	if how, ok := bc.bySearchResult(base, need, facts); ok {
		bc.r.OK(bc.rule, bc.f, construct, e.Pos(), how)
		return
	}
	if how, ok := bc.byDecodeWidth(base, need); ok {
		bc.r.OK(bc.rule, bc.f, construct, e.Pos(), how)
		return
	}
	for _, t := range bc.extra {
		if how, ok := t(bc, e, base, need); ok {
			bc.r.ReviewedOK(bc.rule, bc.f, construct, e.Pos(), how)
			return
		}
	}
	bc.r.Bad(bc.rule, bc.f, construct, e.Pos(), "no dominating length guard, loop bound on the same base or reviewed invariant bounds this access: it can panic (index/slice out of range) for some input")
}

// shortCircuitFacts returns the facts implied by && / || evaluation order for a sub-expression target of a CFG
// node (a condition, or a statement whose operands contain the condition: assignment, return, composite
// literal field, call argument ...): every `A && <..target..>` on the way down gives A, every `A || <..target..>` gives !A.
func shortCircuitFacts(root ast.Node, target ast.Node) []cfgx.Fact {
	var out []cfgx.Fact
	path := core.PathTo(root, target)
	for i, n := range path {
		switch x := n.(type) {
		case *ast.FuncLit:
			out = nil // the body runs later: what held when the closure was made need not hold then
		case *ast.BinaryExpr:
			if (x.Op == token.LAND || x.Op == token.LOR) && i+1 < len(path) && path[i+1] == ast.Node(x.Y) {
				out = append(out, cfgx.Atoms(x.X, x.Op == token.LAND)...)
			}
		}
	}
	return out
}

// lenLowerBound extracts from one fact a lower bound for len(base): the fact in linear form is
// ±len(base) + d op 0 (`len(x) > 2`, `0 != len(x)`, and `last >= 0` for last := len(x) - 1).
func (bc *boundsCtx) lenLowerBound(f cfgx.Fact, base ast.Expr) (int64, bool) {
	d, op, ok := bc.cmpLin(f, bc.at)
	if !ok || len(d.Atoms) != 1 || d.Atoms[0].LenOf == nil || !core.SameRef(bc.info, d.Atoms[0].LenOf, base) {
		return 0, false
	}
	switch d.Coef[0] {
	case 1:
	case -1:
		d, op = d.neg(), flipCmp(op)
	default:
		return 0, false
	}
	// len(base) + d.C op 0
	switch op {
	case token.EQL, token.GEQ:
		return -d.C, true
	case token.GTR:
		return -d.C + 1, true
	case token.NEQ:
		if d.C == 0 {
			return 1, true
		}
	}
	return 0, false
}

func (bc *boundsCtx) byGuard(facts []cfgx.Fact, base ast.Expr, need needLen) (string, bool) {
	if need.Idx != nil {
		return "", false
	}
	if need.Min <= 0 {
		return "constant bound 0", true
	}
	for _, f := range facts {
		if lb, ok := bc.lenLowerBound(f, base); ok && lb >= need.Min {
			return "T1 dominating guard " + core.ExprStr(f.Cond) + " (" + boolStr(f.Val) + ") gives len >= " + itoa(lb), true
		}
	}
	return "", false
}

func boolStr(b bool) string {
	if b {
		return "true"
	}
	return "false"
}

func itoa(v int64) string {
	neg := v < 0
	if neg {
		v = -v
	}
	s := ""
	if v == 0 {
		s = "0"
	}
	for v > 0 {
		s = string(rune('0'+v%10)) + s
		v /= 10
	}
	if neg {
		s = "-" + s
	}
	return s
}

// byLoop: index variable bounded by a loop over the same base.
func (bc *boundsCtx) byLoop(e ast.Expr, base ast.Expr, need needLen, facts []cfgx.Fact) (string, bool) {
	if need.Idx == nil {
		return "", false
	}
	iv := core.VarOf(bc.info, need.Idx)
	if iv == nil {
		return "", false
	}
	// (a) for i := range base / for i := range len(base)
	path := core.PathTo(bc.f.Body, e)
	for k := len(path) - 1; k >= 0; k-- {
		rs, ok := path[k].(*ast.RangeStmt)
		if !ok || core.VarOf(bc.info, rs.Key) != iv {
			continue
		}
		if need.Off == 0 && (core.SameRef(bc.info, rs.X, base) || bc.isLenOf(rs.X, base)) {
			if !bc.baseShrinksIn(rs.Body, base) {
				return "T2 range index over the same base", true
			}
		}
		// base = make([]T, len(X)) and the index ranges over X
		if need.Off == 0 && bc.madeWithLenOf(base, rs.X) && !bc.baseShrinksIn(rs.Body, base) {
			return "T2 range index over X, base allocated as make(_, len(X))", true
		}
		// the index ranges over X under a dominating len(base) == len(X)
		if need.Off == 0 && !bc.baseShrinksIn(rs.Body, base) && !bc.baseShrinksIn(rs.Body, rs.X) {
			for _, f := range facts {
				d, op, ok := bc.cmpLin(f, bc.at)
				if !ok || op != token.EQL || d.C != 0 || len(d.Atoms) != 2 || d.Coef[0]+d.Coef[1] != 0 || (d.Coef[0] != 1 && d.Coef[0] != -1) {
					continue
				}
				a0, a1 := d.Atoms[0].LenOf, d.Atoms[1].LenOf
				if a0 == nil || a1 == nil {
					continue
				}
				if (core.SameRef(bc.info, a0, base) && core.SameRef(bc.info, a1, rs.X)) || (core.SameRef(bc.info, a1, base) && core.SameRef(bc.info, a0, rs.X)) {
					return "T2 range index over X under the dominating guard " + core.ExprStr(f.Cond) + " (equal lengths)", true
				}
			}
		}
	}
	// T9 the base is allocated once as make(_, E) and the index runs below the same count E (a getter call such as
	// rets.Len() whose receiver is not assigned in the function): `x := make(T, r.Len()); for i := 0; i < r.Len(); i++ { x[i] }`
	if need.Off == 0 {
		if cnt := bc.madeWithCount(base); cnt != nil {
			if lo, hasLo := bc.minStart(iv); hasLo && lo >= 0 {
				for _, f := range facts {
					b, ok := ast.Unparen(f.Cond).(*ast.BinaryExpr)
					if !ok || !f.Val || f.Tag != nil || b.Op != token.LSS || core.VarOf(bc.info, b.X) != iv {
						continue
					}
					if bc.sameCount(b.Y, cnt) && !bc.baseShrinksInFunc(base) {
						return "T9 index below " + core.ExprStr(b.Y) + ", base allocated once as make(_, " + core.ExprStr(cnt) + ")", true
					}
				}
			}
		}
	}
	// `for i := range E` (E an integer expression): inside the body i < E holds like a loop condition
	for k := len(path) - 1; k >= 0; k-- {
		rs, ok := path[k].(*ast.RangeStmt)
		if !ok || core.VarOf(bc.info, rs.Key) != iv || rs.Value != nil {
			continue
		}
		if t := bc.info.TypeOf(rs.X); t != nil {
			if bt, isBasic := t.Underlying().(*types.Basic); isBasic && bt.Info()&types.IsInteger != 0 && !bc.baseShrinksIn(rs.Body, base) {
				facts = append(facts, cfgx.Fact{Cond: &ast.BinaryExpr{X: rs.Key, OpPos: rs.X.Pos(), Op: token.LSS, Y: rs.X}, Val: true})
			}
		}
	}
	// (b) i >= c0 by construction (set to constants, only incremented), c0 + Off >= 0, and a dominating fact that
	// reads i + a < len(base) (or <=) in linear form
	lo, hasLo := bc.minStart(iv)
	if !hasLo {
		// a dominating guard on the index itself: `if i < 0 || i >= len(x) { return }`
		for _, f := range facts {
			d, op, ok := bc.cmpLin(f, bc.at)
			if !ok || len(d.Atoms) != 1 || d.coefOfVar(iv) != 1 {
				continue
			}
			// i + d.C op 0
			switch op {
			case token.GEQ:
				lo, hasLo = -d.C, true
			case token.GTR:
				lo, hasLo = -d.C+1, true
			}
		}
	}
	if !hasLo || lo+need.Off < 0 {
		return "", false
	}
	for _, f := range facts {
		d, op, ok := bc.cmpLin(f, bc.at)
		if !ok || len(d.Atoms) != 2 {
			continue
		}
		ci, cl := d.coefOfVar(iv), bc.coefOfLen(d, base)
		if ci == -1 && cl == 1 {
			d, op = d.neg(), flipCmp(op)
			ci, cl = 1, -1
		}
		if ci != 1 || cl != -1 {
			continue
		}
		// i + d.C - len op 0
		limit := d.C // i + a < len  =>  i + Off < len iff Off <= a
		if op == token.LEQ {
			limit = d.C - 1
		} else if op != token.LSS {
			continue
		}
		if need.Slice {
			limit++ // i + Off <= len suffices
		}
		if need.Off <= limit {
			return "T2 loop/guard bound " + core.ExprStr(f.Cond) + " on the same base, index starts at a constant >= " + itoa(-need.Off) + " and only increases", true
		}
	}
	return "", false
}

// nonNegative: the variable is initialised with a constant >= 0 and otherwise
// only incremented.
// sizeArgCallees: standard-library calls that panic for a negative count (argument index).
var sizeArgCallees = map[string]int{
	"(*strings.Builder).Grow": 0, "(*bytes.Buffer).Grow": 0, "strings.Repeat": 1, "bytes.Repeat": 1, "slices.Grow": 1, "slices.Repeat": 1,
}

// nonNegExpr: e is >= 0 on every path to `at`: constants, len/cap, unsigned values, sums and
// products of such, non-negative locals, and `len(x) - c` under a dominating guard len(x) >= c.
func (bc *boundsCtx) nonNegExpr(e ast.Expr, facts []cfgx.Fact) bool {
	e = ast.Unparen(e)
	if c, ok := core.ConstInt(bc.info, e); ok {
		return c >= 0
	}
	if t := bc.info.TypeOf(e); t != nil {
		if b, ok := t.Underlying().(*types.Basic); ok && b.Info()&types.IsUnsigned != 0 {
			return true
		}
	}
	switch x := e.(type) {
	case *ast.CallExpr:
		switch core.CalleeName(bc.info, x) {
		case "builtin.len", "builtin.cap", "builtin.min", "builtin.max":
			if n := core.CalleeName(bc.info, x); n == "builtin.len" || n == "builtin.cap" {
				return true
			}
			if core.CalleeName(bc.info, x) == "builtin.max" {
				for _, a := range x.Args {
					if bc.nonNegExpr(a, facts) {
						return true
					}
				}
				return false
			}
			for _, a := range x.Args {
				if !bc.nonNegExpr(a, facts) {
					return false
				}
			}
			return true
		}
		if strings.HasSuffix(core.CalleeName(bc.info, x), ").Len") || strings.HasSuffix(core.CalleeName(bc.info, x), "utf8.RuneCountInString") {
			return true
		}
		// conversion int(x)
		if tv, ok := bc.info.Types[x.Fun]; ok && tv.IsType() && len(x.Args) == 1 {
			return bc.nonNegExpr(x.Args[0], facts)
		}
	case *ast.BinaryExpr:
		switch x.Op {
		case token.ADD, token.MUL:
			return bc.nonNegExpr(x.X, facts) && bc.nonNegExpr(x.Y, facts)
		case token.SUB:
			// len(base) - c under len(base) >= c
			if c, ok := core.ConstInt(bc.info, x.Y); ok && c >= 0 {
				if lc, isCall := ast.Unparen(x.X).(*ast.CallExpr); isCall && core.CalleeName(bc.info, lc) == "builtin.len" && len(lc.Args) == 1 {
					for _, f := range facts {
						if lb, ok := bc.lenLowerBound(f, lc.Args[0]); ok && lb >= c {
							return true
						}
					}
				}
			}
			return false
		case token.QUO, token.REM, token.SHR:
			return bc.nonNegExpr(x.X, facts) && bc.nonNegExpr(x.Y, facts)
		}
	case *ast.Ident:
		if v := core.VarOf(bc.info, x); v != nil {
			if bc.nonNegative(v) {
				return true
			}
			if bc.clampedNonNeg(v, x) {
				return true
			}
			if d, ok := core.SingleDef(bc.info, bc.f.Root().Body, v); ok && d.Index < 0 {
				return bc.nonNegExpr(d.Rhs, bc.g.FactsAt(bc.g.PointOf(d.Stmt)))
			}
		}
	}
	return false
}

func (bc *boundsCtx) sizeObligation(call *ast.CallExpr, arg ast.Expr) {
	construct := "count argument " + core.ExprStr(arg) + " of " + core.ExprStr(call.Fun) + " is never negative"
	bc.at = bc.g.PointOf(call)
	facts := bc.g.FactsAt(bc.at)
	if bc.nonNegExpr(arg, facts) {
		bc.r.OK(bc.rule, bc.f, construct, call.Pos(), "T6 non-negative by construction (lengths, constants, sums/products, guarded differences)")
		return
	}
	bc.r.Bad(bc.rule, bc.f, construct, call.Pos(), "the count can be negative for some input (e.g. a difference of lengths for an empty input): the call panics")
}

func (bc *boundsCtx) nonNegative(v *types.Var) bool {
	defs := core.DefsOf(bc.info, bc.f.Root().Body, v)
	if len(defs) == 0 {
		return false
	}
	for _, d := range defs {
		switch d.Kind {
		case "define", "var", "assign":
			c, ok := core.ConstInt(bc.info, d.Rhs)
			if d.Rhs == nil || !ok || c < 0 {
				return false
			}
		case "incdec":
			if d.Stmt.(*ast.IncDecStmt).Tok != token.INC {
				return false
			}
		case "opassign":
			// n += <non-negative>
			as, ok := d.Stmt.(*ast.AssignStmt)
			if !ok || as.Tok != token.ADD_ASSIGN || d.Rhs == nil || mentionsVar(bc.info, d.Rhs, v) || !bc.nonNegExpr(d.Rhs, nil) {
				return false
			}
		case "range-key":
			// integer range key is non-negative
		default:
			return false
		}
	}
	return true
}

// baseShrinksIn: is base re-assigned inside n?
func (bc *boundsCtx) baseShrinksIn(n ast.Node, base ast.Expr) bool {
	shrinks := false
	ast.Inspect(n, func(m ast.Node) bool {
		if as, ok := m.(*ast.AssignStmt); ok {
			for _, l := range as.Lhs {
				if core.SameRef(bc.info, l, base) {
					shrinks = true
				}
			}
		}
		return true
	})
	return shrinks
}

// madeWithLenOf: base (a local variable or a field) has as its only
// definition in the function `make(T, len(x))`.
func (bc *boundsCtx) madeWithLenOf(base ast.Expr, x ast.Expr) bool {
	var rhs []ast.Expr
	if v := core.VarOf(bc.info, base); v != nil {
		for _, d := range core.DefsOf(bc.info, bc.f.Root().Body, v) {
			rhs = append(rhs, d.Rhs)
		}
	} else {
		ast.Inspect(bc.f.Root().Body, func(n ast.Node) bool {
			if as, ok := n.(*ast.AssignStmt); ok && len(as.Lhs) == len(as.Rhs) {
				for i, l := range as.Lhs {
					if core.SameRef(bc.info, l, base) {
						rhs = append(rhs, as.Rhs[i])
					}
				}
			}
			return true
		})
	}
	if len(rhs) != 1 || rhs[0] == nil {
		return false
	}
	c, ok := ast.Unparen(rhs[0]).(*ast.CallExpr)
	if !ok || core.CalleeName(bc.info, c) != "builtin.make" || len(c.Args) != 2 {
		return false
	}
	return bc.isLenOf(c.Args[1], x)
}

// aliasOf: base is a local variable whose only definition is a snapshot of an
// indexed element (`cur := acc[i]`, also in a tuple define); it returns the
// element expression and the defining statement. The LenRel form of the
// obligation (x[len(x)-1]) carries over because a snapshot has the element's length.
func (bc *boundsCtx) aliasOf(base ast.Expr) (ast.Expr, ast.Node) {
	v := core.VarOf(bc.info, base)
	if v == nil {
		return nil, nil
	}
	d, ok := core.SingleDef(bc.info, bc.f.Root().Body, v)
	if !ok || d.Index >= 0 || (d.Kind != "define" && d.Kind != "var") {
		return nil, nil
	}
	if ix, isIx := ast.Unparen(d.Rhs).(*ast.IndexExpr); isIx && bc.indexable(ix.X) {
		return ix, d.Stmt
	}
	return nil, nil
}

// clampedNonNeg: the use is preceded by the clamp `if v < 0 { v = C }` (C >= 0) with no assignment of v in between.
func (bc *boundsCtx) clampedNonNeg(v *types.Var, use ast.Node) bool {
	var clamp *ast.IfStmt
	ast.Inspect(bc.f.Root().Body, func(n ast.Node) bool {
		ifs, ok := n.(*ast.IfStmt)
		if !ok || ifs.Else != nil || ifs.Init != nil || len(ifs.Body.List) != 1 || ifs.End() > use.Pos() {
			return true
		}
		x, op, c, isCmp := cmpConst(bc.info, ifs.Cond)
		if !isCmp || core.VarOf(bc.info, x) != v || !((op == token.LSS && c == 0) || (op == token.LEQ && c == -1)) {
			return true
		}
		as, isAs := ifs.Body.List[0].(*ast.AssignStmt)
		if !isAs || as.Tok != token.ASSIGN || len(as.Lhs) != 1 || len(as.Rhs) != 1 || core.VarOf(bc.info, as.Lhs[0]) != v {
			return true
		}
		if k, isC := core.ConstInt(bc.info, as.Rhs[0]); isC && k >= 0 {
			clamp = ifs
		}
		return true
	})
	if clamp == nil {
		return false
	}
	if !bc.g.Dominates(bc.g.PointOf(clamp.Cond), bc.g.PointOf(use)) {
		return false
	}
	for _, d := range core.DefsOf(bc.info, bc.f.Root().Body, v) {
		if d.Stmt.Pos() > clamp.End() && d.Stmt.Pos() < use.Pos() {
			return false
		}
		// an assignment later in an enclosing loop can reach the use without passing the clamp again only if the clamp
		// does not dominate the use, which was checked
	}
	return true
}

func mentionsVar(info *types.Info, e ast.Expr, v *types.Var) bool {
	found := false
	ast.Inspect(e, func(n ast.Node) bool {
		if id, ok := n.(*ast.Ident); ok && info.ObjectOf(id) == types.Object(v) {
			found = true
		}
		return !found
	})
	return found
}

// madeWithCount: base is a local whose only definition is make(_, E); it returns E.
func (bc *boundsCtx) madeWithCount(base ast.Expr) ast.Expr {
	v := core.VarOf(bc.info, base)
	if v == nil || v.IsField() {
		return nil
	}
	defs := core.DefsOf(bc.info, bc.f.Root().Body, v)
	if len(defs) != 1 || defs[0].Rhs == nil {
		return nil
	}
	c, ok := ast.Unparen(defs[0].Rhs).(*ast.CallExpr)
	if !ok || core.CalleeName(bc.info, c) != "builtin.make" || len(c.Args) != 2 {
		return nil
	}
	return c.Args[1]
}

// baseShrinksInFunc: the base variable itself is assigned anywhere besides its definition.
func (bc *boundsCtx) baseShrinksInFunc(base ast.Expr) bool {
	v := core.VarOf(bc.info, base)
	return v == nil || len(core.DefsOf(bc.info, bc.f.Root().Body, v)) != 1
}

// sameCount: two count expressions denote the same number: the same chain of argument-less getter calls (go/types
// accessors, or methods of the module that are such a chain themselves) on the same variable, which is assigned nowhere
// in the function.
func (bc *boundsCtx) sameCount(a, b ast.Expr) bool {
	ka, oka := bc.countKey(a, 0)
	kb, okb := bc.countKey(b, 0)
	return oka && okb && ka == kb
}

// countKey: a canonical spelling of a count expression: single-definition locals replaced by their definition, one-line
// getters of the package by what they return, the rest a chain of argument-less go/types accessors and field selections
// on a variable that is assigned nowhere in the function. Equal keys denote the same number.
func (bc *boundsCtx) countKey(e ast.Expr, depth int) (string, bool) {
	if depth > 6 {
		return "", false
	}
	switch x := ast.Unparen(e).(type) {
	case *ast.Ident:
		v := core.VarOf(bc.info, x)
		if v == nil {
			return "", false
		}
		defs := core.DefsOf(bc.info, bc.f.Root().Body, v)
		if len(defs) == 0 {
			return x.Name + "#" + itoa(int64(v.Pos())), true // parameter / receiver
		}
		if len(defs) == 1 && defs[0].Rhs != nil && defs[0].Index < 0 && (defs[0].Kind == "define" || defs[0].Kind == "var") && !isParamOf(bc.f.Root(), v) {
			return bc.countKey(defs[0].Rhs, depth+1)
		}
		return "", false
	case *ast.SelectorExpr:
		k, ok := bc.countKey(x.X, depth+1)
		return k + "." + x.Sel.Name, ok
	case *ast.CallExpr:
		if len(x.Args) != 0 {
			return "", false
		}
		sel, ok := ast.Unparen(x.Fun).(*ast.SelectorExpr)
		if !ok {
			return "", false
		}
		fn := core.CalleeFunc(bc.info, x)
		if fn == nil || fn.Pkg() == nil {
			return "", false
		}
		rk, ok := bc.countKey(sel.X, depth+1)
		if !ok {
			return "", false
		}
		if fn.Pkg().Path() == "go/types" {
			return rk + "." + fn.Name() + "()", true
		}
		if chain, isGetter := bc.getterChain(fn); isGetter {
			return rk + chain, true
		}
	}
	return "", false
}

// getterChain: for a method of the function's own package whose body is `return <recv>.<chain of argument-less
// go/types accessors and field selections>` (such as `func (r *T) Len() int { return r.sig.Results().Len() }`), the
// chain as text (".sig.Results().Len()").
func (bc *boundsCtx) getterChain(fn *types.Func) (string, bool) {
	if fn.Pkg() != bc.f.Pkg.Types {
		return "", false
	}
	for _, file := range bc.f.Pkg.Syntax {
		for _, d := range file.Decls {
			fd, ok := d.(*ast.FuncDecl)
			if !ok || fd.Body == nil || bc.info.ObjectOf(fd.Name) != types.Object(fn) || len(fd.Body.List) != 1 {
				continue
			}
			ret, ok := fd.Body.List[0].(*ast.ReturnStmt)
			if !ok || len(ret.Results) != 1 {
				return "", false
			}
			e := ast.Unparen(ret.Results[0])
			chain := ""
			for {
				switch x := e.(type) {
				case *ast.CallExpr:
					callee := core.CalleeFunc(bc.info, x)
					sel, isSel := ast.Unparen(x.Fun).(*ast.SelectorExpr)
					if len(x.Args) != 0 || !isSel || callee == nil || callee.Pkg() == nil || callee.Pkg().Path() != "go/types" {
						return "", false
					}
					chain = "." + callee.Name() + "()" + chain
					e = ast.Unparen(sel.X)
					continue
				case *ast.SelectorExpr:
					chain = "." + x.Sel.Name + chain
					e = ast.Unparen(x.X)
					continue
				case *ast.Ident:
					if fd.Recv != nil && len(fd.Recv.List) == 1 && len(fd.Recv.List[0].Names) == 1 && bc.info.ObjectOf(x) == bc.info.ObjectOf(fd.Recv.List[0].Names[0]) {
						return chain, true
					}
					return "", false
				}
				return "", false
			}
		}
	}
	return "", false
}

// encodeObligation: the destination of utf8.EncodeRune holds the encoding of the rune: it is known to have at least
// utf8.UTFMax (4) bytes - an array of that size sliced whole, `make([]byte, k)` with constant k >= 4 - or the rune is a
// constant whose encoding fits a destination of constant length. A destination cut to the width of ANOTHER rune
// (`b[:n]` with n the width of what was decoded) fits only if both runes have the same width, which case mappings do
// not guarantee.
func (bc *boundsCtx) encodeObligation(call *ast.CallExpr) {
	construct := "destination of " + core.ExprStr(call.Fun) + " holds the rune: " + core.ExprStr(call.Args[0])
	dst, _ := core.Resolve(bc.info, bc.f.Root().Body, call.Args[0])
	dst = ast.Unparen(dst)
	atLeast := int64(-1)
	switch x := dst.(type) {
	case *ast.CallExpr:
		if core.CalleeName(bc.info, x) == "builtin.make" && len(x.Args) >= 2 {
			if k, ok := core.ConstInt(bc.info, x.Args[1]); ok {
				atLeast = k
			}
		}
	case *ast.SliceExpr:
		if x.Low == nil && x.High == nil {
			if t := bc.info.TypeOf(x.X); t != nil {
				if a, ok := t.Underlying().(*types.Array); ok {
					atLeast = a.Len()
				}
				if pt, ok := t.Underlying().(*types.Pointer); ok {
					if a, ok := pt.Elem().Underlying().(*types.Array); ok {
						atLeast = a.Len()
					}
				}
			}
		}
	}
	need := int64(4)
	if tv, ok := bc.info.Types[call.Args[1]]; ok && tv.Value != nil {
		if r, isInt := core.ConstInt(bc.info, call.Args[1]); isInt {
			switch {
			case r < 0x80:
				need = 1
			case r < 0x800:
				need = 2
			case r < 0x10000:
				need = 3
			}
		}
	}
	if atLeast >= need {
		bc.r.OK(bc.rule, bc.f, construct, call.Pos(), "the destination has at least "+itoa(atLeast)+" bytes by construction")
		return
	}
	bc.r.Bad(bc.rule, bc.f, construct, call.Pos(), "the destination is not known to have room for the encoded rune (utf8.UTFMax bytes): EncodeRune panics when the rune written is wider than the space cut out for it (for instance the title-case form of a letter whose lower-case form is narrower)")
}
