package rules

import (
	"fmt"
	"go/ast"
	"go/parser"
	"go/token"
	"go/types"
	"strings"

	"gengoverif/checker/internal/core"
)

// A3: extraction of constant templates and their bindings.

type binding struct {
	Name  string
	Ctor  string // ID, Value, Sprintf, Snippets, Func, Comment, GoDirective, Block, T, PkgExpose, StructFieldsCopy, other
	Expr  ast.Expr
	Const bool // name is a compile-time constant
	// Alts: every value the binding can have when it is a local that is assigned on several branches
	// (`if replaced { t = ID(a) } else { t = ID(b) }`); Expr is the first of them
	Alts []ast.Expr
}

type templateSite struct {
	F        *core.Func
	Call     *ast.CallExpr
	Kind     string // "T", "RenderT", "Sprintf", "Block"
	Format   string
	IsConst  bool
	Bindings []binding
	NArgs    int  // Sprintf operands
	OpenArgs bool // bindings could not be enumerated (non-literal Args)
}

func snippetFn(name string) string { return core.G("pkg/gengo/snippet." + name) }

// ctorOf classifies a snippet-valued expression by its constructor.
func ctorOf(info *types.Info, e ast.Expr) string {
	e = ast.Unparen(e)
	if u, ok := e.(*ast.UnaryExpr); ok && u.Op == token.AND {
		if cl, ok := ast.Unparen(u.X).(*ast.CompositeLit); ok {
			if strings.HasSuffix(core.NamedTypeName(info.TypeOf(cl)), ".StructFieldsCopy") {
				return "StructFieldsCopy"
			}
		}
		return "other"
	}
	c, ok := e.(*ast.CallExpr)
	if !ok {
		return "other"
	}
	// conversions: snippet.Block(x), snippet.Snippets(x)
	if tv, ok := info.Types[c.Fun]; ok && tv.IsType() {
		switch core.NamedTypeName(tv.Type) {
		case snippetFn("Block"):
			return "Block"
		case snippetFn("Snippets"):
			return "Snippets"
		}
		return "other"
	}
	name := core.CalleeName(info, c)
	for _, k := range []string{"ID", "Value", "Sprintf", "Func", "Comment", "GoDirective", "T", "PkgExpose", "PkgExposeOf", "PkgExposeFor", "Fragments"} {
		if name == snippetFn(k) {
			if strings.HasPrefix(k, "PkgExpose") {
				return "PkgExpose"
			}
			return k
		}
	}
	return "other"
}

func templateSites(p *core.Program) []templateSite {
	var out []templateSite
	renderT := []string{"(" + core.G("pkg/gengo.Context") + ").RenderT", core.GM("pkg/gengo", "*"+ctxTypeName(p), "RenderT")}
	for _, f := range p.Funcs() {
		info := f.Info()
		ast.Inspect(f.Body, func(n ast.Node) bool {
			if lit, ok := n.(*ast.FuncLit); ok && lit != f.Lit {
				return false
			}
			c, ok := n.(*ast.CallExpr)
			if !ok {
				return true
			}
			// conversion snippet.Block(const)
			if tv, ok := info.Types[c.Fun]; ok && tv.IsType() {
				if core.NamedTypeName(tv.Type) == snippetFn("Block") && len(c.Args) == 1 {
					s, isC := core.ConstString(info, c.Args[0])
					out = append(out, templateSite{F: f, Call: c, Kind: "Block", Format: s, IsConst: isC})
				}
				return true
			}
			name := core.CalleeName(info, c)
			kind := ""
			switch {
			case name == snippetFn("T"):
				kind = "T"
			case name == renderT[0] || name == renderT[1]:
				kind = "RenderT"
			case name == snippetFn("Sprintf"):
				kind = "Sprintf"
			}
			if kind == "" || len(c.Args) == 0 {
				return true
			}
			// the forwarding wrapper (*gengoCtx).RenderT -> snippet.T(template, args...) is not a site
			if v := core.VarOf(info, c.Args[0]); v != nil && isParamOf(f.Root(), v) && core.RelPkg(f.Pkg.PkgPath) == "pkg/gengo" {
				return true
			}
			s, isC := core.ConstString(info, c.Args[0])
			site := templateSite{F: f, Call: c, Kind: kind, Format: s, IsConst: isC}
			if kind == "Sprintf" {
				site.NArgs = len(c.Args) - 1
				if c.Ellipsis.IsValid() {
					site.OpenArgs = true
				}
			} else {
				for _, a := range c.Args[1:] {
					site.addArg(info, a)
				}
				if c.Ellipsis.IsValid() {
					site.OpenArgs = true
				}
			}
			out = append(out, site)
			return true
		})
	}
	return out
}

func (s *templateSite) addArg(info *types.Info, a ast.Expr) {
	a = ast.Unparen(a)
	// a binding's value may be held in a local that is defined once (`typeID := snippet.ID(obj)` used in several templates)
	resolve := func(e ast.Expr) ast.Expr {
		if s.F != nil && s.F.Root().Body != nil {
			if re, idx := core.Resolve(info, s.F.Root().Body, e); idx < 0 && re != nil {
				return re
			}
		}
		return e
	}
	// the bindings may be put into a local map one by one (`args := snippet.Args{}; args["Type"] = …; c.RenderT(t, args)`):
	// stores with a constant key that every path to the call passes are entries of the literal; any other use of the
	// map (handed to another function, deleted from, stored into under a computed key or on a branch) leaves the
	// bindings open
	var stored []ast.Expr
	if id, isID := a.(*ast.Ident); isID && s.F != nil && s.F.Root().Body != nil && s.Call != nil {
		if v, isVar := info.Uses[id].(*types.Var); isVar && !v.IsField() && core.NamedTypeName(v.Type()) == snippetFn("Args") {
			body := s.F.Root().Body
			callPath := core.PathTo(body, s.Call)
			onPath := map[ast.Node]bool{}
			for _, n := range callPath {
				onPath[n] = true
			}
			open := false
			ast.Inspect(body, func(n ast.Node) bool {
				uid, ok := n.(*ast.Ident)
				if !ok || info.Uses[uid] != types.Object(v) || uid == id {
					return true
				}
				// the use must be the map operand of an unconditional store before the call
				up := core.PathTo(body, uid)
				okUse := false
				if len(up) >= 3 {
					if ix, isIx := up[len(up)-2].(*ast.IndexExpr); isIx && ix.X == ast.Expr(uid) {
						if as, isAs := up[len(up)-3].(*ast.AssignStmt); isAs && len(as.Lhs) == 1 && len(as.Rhs) == 1 && as.Lhs[0] == ast.Expr(ix) && as.Tok == token.ASSIGN && as.End() <= s.Call.Pos() && len(up) >= 4 {
							if blk, isBlk := up[len(up)-4].(*ast.BlockStmt); isBlk && onPath[blk] {
								if _, isC := core.ConstString(info, ix.Index); isC {
									stored = append(stored, &ast.KeyValueExpr{Key: ix.Index, Colon: as.TokPos, Value: as.Rhs[0]})
									okUse = true
								}
							} else if cc, isCC := up[len(up)-4].(*ast.CaseClause); isCC && onPath[cc] {
								if _, isC := core.ConstString(info, ix.Index); isC {
									stored = append(stored, &ast.KeyValueExpr{Key: ix.Index, Colon: as.TokPos, Value: as.Rhs[0]})
									okUse = true
								}
							}
						}
					}
				}
				if !okUse {
					open = true
				}
				return true
			})
			if open {
				stored = nil
				s.OpenArgs = true
			}
		}
	}
	a = ast.Unparen(resolve(a))
	if cl, ok := a.(*ast.CompositeLit); ok && core.NamedTypeName(info.TypeOf(cl)) == snippetFn("Args") {
		elts := cl.Elts
		if len(stored) > 0 {
			elts = append(append([]ast.Expr(nil), cl.Elts...), stored...)
		}
		for _, el := range elts {
			kv, ok := el.(*ast.KeyValueExpr)
			if !ok {
				s.OpenArgs = true
				continue
			}
			name, isC := core.ConstString(info, kv.Key)
			bnd := binding{Name: name, Ctor: ctorOf(info, resolve(kv.Value)), Expr: resolve(kv.Value), Const: isC, Alts: []ast.Expr{resolve(kv.Value)}}
			// a local assigned on several branches: one constructor kind for all of them, or "other"
			if v := core.VarOf(info, kv.Value); v != nil && s.F != nil && s.F.Root().Body != nil && !v.IsField() {
				if defs := core.DefsOf(info, s.F.Root().Body, v); len(defs) > 1 {
					bnd.Alts = nil
					ctor := ""
					for _, d := range defs {
						if d.Rhs == nil {
							continue // `var t Snippet`
						}
						if d.Index >= 0 {
							ctor = "other"
							continue
						}
						bnd.Alts = append(bnd.Alts, d.Rhs)
						if c := ctorOf(info, d.Rhs); ctor == "" {
							ctor = c
						} else if ctor != c {
							ctor = "other"
						}
					}
					if ctor != "" && len(bnd.Alts) > 0 {
						bnd.Ctor, bnd.Expr = ctor, bnd.Alts[0]
					}
				}
			}
			s.Bindings = append(s.Bindings, bnd)
			if !isC {
				s.OpenArgs = true
			}
		}
		return
	}
	if c, ok := a.(*ast.CallExpr); ok {
		switch core.CalleeName(info, c) {
		case snippetFn("Arg"):
			name, isC := core.ConstString(info, c.Args[0])
			s.Bindings = append(s.Bindings, binding{Name: name, Ctor: ctorOf(info, resolve(c.Args[1])), Expr: resolve(c.Args[1]), Const: isC})
			if !isC {
				s.OpenArgs = true
			}
			return
		case snippetFn("IDArg"):
			name, isC := core.ConstString(info, c.Args[0])
			s.Bindings = append(s.Bindings, binding{Name: name, Ctor: "ID", Expr: c.Args[1], Const: isC})
			if !isC {
				s.OpenArgs = true
			}
			return
		case snippetFn("ValueArg"):
			name, isC := core.ConstString(info, c.Args[0])
			s.Bindings = append(s.Bindings, binding{Name: name, Ctor: "Value", Expr: c.Args[1], Const: isC})
			if !isC {
				s.OpenArgs = true
			}
			return
		}
	}
	s.OpenArgs = true
}

// placeholder is one @name occurrence of a format (independent
// re-implementation of the template grammar: '@' [A-Za-z0-9_]+ '\”?).
type placeholder struct {
	Name       string
	Start, End int // byte offsets of "@name" plus the optional apostrophe
}

func isNameRune(c rune) bool {
	return (c >= 'A' && c <= 'Z') || (c >= 'a' && c <= 'z') || (c >= '0' && c <= '9') || c == '_'
}

func placeholders(format string) []placeholder {
	var out []placeholder
	rs := []rune(format)
	// byte offsets
	off := make([]int, len(rs)+1)
	b := 0
	for i, r := range rs {
		off[i] = b
		b += len(string(r))
	}
	off[len(rs)] = b
	for i := 0; i < len(rs); i++ {
		if rs[i] != '@' {
			continue
		}
		j := i + 1
		for j < len(rs) && isNameRune(rs[j]) {
			j++
		}
		if j == i+1 {
			continue
		}
		end := j
		if end < len(rs) && rs[end] == '\'' {
			end++
		}
		out = append(out, placeholder{Name: string(rs[i+1 : j]), Start: off[i], End: off[end]})
		i = j - 1
	}
	return out
}

// sprintfVerbs returns the verbs of a Sprintf-style snippet format.
func sprintfVerbs(format string) (verbs []rune, bad []string) {
	rs := []rune(format)
	for i := 0; i < len(rs); i++ {
		if rs[i] != '%' {
			continue
		}
		if i+1 >= len(rs) {
			bad = append(bad, "trailing %")
			break
		}
		switch rs[i+1] {
		case 'v', 'T':
			verbs = append(verbs, rs[i+1])
		case '%':
		default:
			bad = append(bad, "%"+string(rs[i+1]))
		}
		i++
	}
	return
}

func stubFor(ctor string) string {
	switch ctor {
	case "ID", "PkgExpose":
		return "X"
	case "Value", "Sprintf":
		// a string literal is an expression and also fits a struct-tag position
		return `""`
	}
	return ""
}

// skeleton substitutes the placeholders of a format by stubs.
func skeleton(s templateSite) string {
	by := map[string]string{}
	for _, b := range s.Bindings {
		by[b.Name] = stubFor(b.Ctor)
	}
	var sb strings.Builder
	last := 0
	for _, ph := range placeholders(s.Format) {
		sb.WriteString(s.Format[last:ph.Start])
		sb.WriteString(by[ph.Name])
		last = ph.End
	}
	sb.WriteString(s.Format[last:])
	return sb.String()
}

var skeletonContexts = []struct{ name, pre, post string }{
	{"declarations", "package p\n", "\n"},
	{"statements", "package p\nfunc _() {\n", "\n}\n"},
	{"struct fields", "package p\ntype _ struct {\n", "\n}\n"},
	{"case clauses", "package p\nfunc _() {\nswitch nil {\n", "\n}\n}\n"},
}

// parseSkeleton tries the four syntactic contexts; it returns the parsed file
// and the context name.
func parseSkeleton(text string) (*ast.File, string, error) {
	var firstErr error
	for _, c := range skeletonContexts {
		fset := token.NewFileSet()
		f, err := parser.ParseFile(fset, "skeleton.go", c.pre+text+c.post, parser.SkipObjectResolution)
		if err == nil {
			return f, c.name, nil
		}
		if firstErr == nil {
			firstErr = err
		}
	}
	return nil, "", firstErr
}

// templateRules applies T1 and T2 to the sites of the given packages and
// returns the sites.
func templateRules(p *core.Program, r *core.Report, rels ...string) []templateSite {
	var mine []templateSite
	for _, s := range templateSites(p) {
		rel := core.RelPkg(s.F.Pkg.PkgPath)
		ok := false
		for _, w := range rels {
			if rel == w {
				ok = true
			}
		}
		if !ok {
			continue
		}
		mine = append(mine, s)
		what := fmt.Sprintf("%s template `%s`", s.Kind, firstLine(s.Format))
		if !s.IsConst {
			if s.Kind == "Block" {
				continue // dynamic raw text: subject of T3
			}
			if s.Kind == "Sprintf" {
				r.Unknown("T1", s.F, "Sprintf format is not a constant", s.Call.Pos(), "cannot enumerate its verbs")
				continue
			}
			r.Unknown("T1", s.F, s.Kind+" format is not a constant", s.Call.Pos(), "cannot enumerate its placeholders")
			continue
		}
		switch s.Kind {
		case "Sprintf":
			verbs, bad := sprintfVerbs(s.Format)
			ok := len(bad) == 0 && (s.OpenArgs || len(verbs) <= s.NArgs)
			r.Check(ok, "T1", s.F, what+": verbs are %v/%T/%% with enough operands", s.Call.Pos(), fmt.Sprintf("%d verb(s), %d operand(s)", len(verbs), s.NArgs),
				fmt.Sprintf("the format has %d %%v/%%T verb(s) for %d operand(s) and unsupported verbs %v: rendering panics (missing arg / unsupported verb)", len(verbs), s.NArgs, bad))
		case "Block":
			_, ctx, err := parseSkeleton(s.Format)
			r.Check(err == nil, "T2", s.F, what+" parses as Go", s.Call.Pos(), "parses as "+ctx, "the constant block does not parse in any syntactic context: "+errStr(err))
		default:
			bound := map[string]bool{}
			for _, b := range s.Bindings {
				bound[b.Name] = true
			}
			var missing []string
			seen := map[string]bool{}
			for _, ph := range placeholders(s.Format) {
				if !bound[ph.Name] && !seen[ph.Name] {
					missing = append(missing, "@"+ph.Name)
					seen[ph.Name] = true
				}
			}
			okT1 := len(missing) == 0 || s.OpenArgs
			r.Check(okT1, "T1", s.F, what+": every placeholder is bound", s.Call.Pos(), fmt.Sprintf("%d placeholder(s), %d binding(s)", len(placeholders(s.Format)), len(s.Bindings)),
				"placeholder(s) "+strings.Join(missing, ", ")+" have no binding: the first time this generator arm runs, rendering panics with `missing named arg`")
			if s.OpenArgs {
				r.Note("%s: bindings of %s are not a literal; T1 only partially decided", s.F.QName(), what)
			}
			sk := skeleton(s)
			_, ctx, err := parseSkeleton(sk)
			r.Check(err == nil, "T2", s.F, what+": skeleton parses as Go", s.Call.Pos(), "with stubs for the placeholders it parses as "+ctx,
				"with every placeholder replaced by a stub of its binding's kind the template does not parse in any syntactic context (declarations, statements, struct fields, case clauses): the generated code cannot compile: "+errStr(err))
		}
	}
	return mine
}

func errStr(err error) string {
	if err == nil {
		return ""
	}
	s := err.Error()
	if len(s) > 160 {
		s = s[:160]
	}
	return s
}

func firstLine(s string) string {
	for _, l := range strings.Split(s, "\n") {
		l = strings.TrimSpace(l)
		if l != "" {
			if len(l) > 48 {
				l = l[:48] + "..."
			}
			return l
		}
	}
	return ""
}

// ---- T3: raw-text rule ----

// propagateTaint marks the local variables of root (and its literals) whose
// value derives from a source call or from an already tainted variable. It
// reports whether the map grew.
func propagateTaint(root *core.Func, tainted map[*types.Var]string, isSource func(info *types.Info, e ast.Expr) (idx int, ok bool)) bool {
	info := root.Info()
	grew := false
	mentionsTaint := func(e ast.Node) string { return taintOf(info, e, tainted, isSource) }
	changed := true
	for changed {
		changed = false
		mark := func(v *types.Var, why string) {
			if v != nil && why != "" {
				if _, ok := tainted[v]; !ok {
					tainted[v] = why
					changed, grew = true, true
				}
			}
		}
		ast.Inspect(root.Body, func(n ast.Node) bool {
			switch x := n.(type) {
			case *ast.AssignStmt:
				if len(x.Rhs) == 1 && len(x.Lhs) > 1 {
					if idx, ok := isSource(info, x.Rhs[0]); ok && idx < len(x.Lhs) {
						mark(core.VarOf(info, x.Lhs[idx]), core.ExprStr(x.Rhs[0]))
					}
					return true
				}
				for i, l := range x.Lhs {
					if i < len(x.Rhs) {
						mark(core.VarOf(info, l), mentionsTaint(x.Rhs[i]))
					}
				}
			case *ast.RangeStmt:
				if w := mentionsTaint(x.X); w != "" && x.Value != nil {
					mark(core.VarOf(info, x.Value), w)
				}
			case *ast.ValueSpec:
				for i, nm := range x.Names {
					if i < len(x.Values) {
						v, _ := info.ObjectOf(nm).(*types.Var)
						mark(v, mentionsTaint(x.Values[i]))
					}
				}
			}
			return true
		})
	}
	return grew
}

// field-level taint of parameter objects (a small struct passed by value and built as a literal at the call)
var (
	fieldSensitive = map[*types.Var]bool{}
	fieldTaint     = map[*types.Var]map[string]string{}
)

// taintOf: does e mention a tainted variable or a single-valued source call?
func taintOf(info *types.Info, e ast.Node, tainted map[*types.Var]string, isSource func(info *types.Info, e ast.Expr) (idx int, ok bool)) string {
	why := ""
	if e == nil {
		return ""
	}
	ast.Inspect(e, func(n ast.Node) bool {
		// a parameter object whose fields were bound one by one at the call: only the field that received free text is tainted
		if sel, ok := n.(*ast.SelectorExpr); ok {
			if v := core.VarOf(info, sel.X); v != nil && fieldSensitive[v] {
				if w := fieldTaint[v][sel.Sel.Name]; w != "" {
					why = w
				}
				return false
			}
		}
		if id, ok := n.(*ast.Ident); ok {
			if v, ok := info.ObjectOf(id).(*types.Var); ok {
				if w, t := tainted[v]; t {
					why = w
				}
			}
		}
		if c, ok := n.(*ast.CallExpr); ok {
			if _, isSrc := isSource(info, c); isSrc {
				if _, isTuple := info.TypeOf(c).(*types.Tuple); !isTuple {
					why = core.ExprStr(c)
				}
			}
		}
		return why == ""
	})
	return why
}

// t3Report: doc text and struct-tag text may reach generated code only as a
// quoted literal (Value/ValueArg/%v), behind Comment, or - tags only - through
// Block between backquotes.
func t3Report(p *core.Program, r *core.Report, sites []templateSite, rels ...string) {
	inRel := func(f *core.Func) bool {
		rel := core.RelPkg(f.Pkg.PkgPath)
		for _, w := range rels {
			if rel == w {
				return true
			}
		}
		return false
	}
	tainted := map[*types.Var]string{}
	var roots []*core.Func
	for _, f := range p.Funcs() {
		if f.Decl != nil && inRel(f) {
			roots = append(roots, f)
		}
	}
	for round := 0; round < 6; round++ {
		grew := false
		for _, f := range roots {
			if propagateTaint(f, tainted, docOrTagSource) {
				grew = true
			}
		}
		// parameters bound to tainted arguments
		for _, cs := range allCalls(p) {
			if !inRel(cs.In) {
				continue
			}
			callee := p.FuncOfObj(core.CalleeFunc(cs.In.Info(), cs.Call))
			if callee == nil || !inRel(callee) {
				continue
			}
			i := 0
			for _, fld := range callee.Type.Params.List {
				for _, nm := range fld.Names {
					if i < len(cs.Call.Args) {
						// a struct literal as the argument: its fields are bound one by one
						if cl, isLit := ast.Unparen(cs.Call.Args[i]).(*ast.CompositeLit); isLit {
							if st, _ := cs.In.Info().TypeOf(cl).Underlying().(*types.Struct); st != nil {
								if v, _ := callee.Info().ObjectOf(nm).(*types.Var); v != nil {
									if !fieldSensitive[v] {
										fieldSensitive[v] = true
										fieldTaint[v] = map[string]string{}
									}
									for k, el := range cl.Elts {
										name, val := "", el
										if kv, isKV := el.(*ast.KeyValueExpr); isKV {
											if id, isID := kv.Key.(*ast.Ident); isID {
												name = id.Name
											}
											val = kv.Value
										} else if k < st.NumFields() {
											name = st.Field(k).Name()
										}
										if w := taintOf(cs.In.Info(), val, tainted, docOrTagSource); w != "" && name != "" && fieldTaint[v][name] == "" {
											fieldTaint[v][name] = w
											grew = true
										}
									}
								}
								i++
								continue
							}
						}
						if w := taintOf(cs.In.Info(), cs.Call.Args[i], tainted, docOrTagSource); w != "" {
							if v, _ := callee.Info().ObjectOf(nm).(*types.Var); v != nil {
								if _, ok := tainted[v]; !ok {
									tainted[v] = w
									grew = true
								}
							}
						}
					}
					i++
				}
			}
		}
		if !grew {
			break
		}
	}
	// placeholder context of a binding expression
	betweenBackquotes := func(e ast.Expr) bool {
		for _, s := range sites {
			for _, b := range s.Bindings {
				if b.Expr != e || !s.IsConst {
					continue
				}
				ok := false
				for _, ph := range placeholders(s.Format) {
					if ph.Name != b.Name {
						continue
					}
					if ph.Start > 0 && s.Format[ph.Start-1] == '`' && ph.End < len(s.Format) && s.Format[ph.End] == '`' {
						ok = true
					} else {
						return false
					}
				}
				return ok
			}
		}
		return false
	}
	n := 0
	for _, f := range p.Funcs() {
		if !inRel(f) {
			continue
		}
		info := f.Info()
		ast.Inspect(f.Body, func(nd ast.Node) bool {
			if lit, ok := nd.(*ast.FuncLit); ok && lit != f.Lit {
				return false
			}
			c, ok := nd.(*ast.CallExpr)
			if !ok || len(c.Args) == 0 {
				return true
			}
			sink := ""
			if tv, ok := info.Types[c.Fun]; ok && tv.IsType() {
				if core.NamedTypeName(tv.Type) == snippetFn("Block") {
					sink = "Block"
				}
			} else {
				switch core.CalleeName(info, c) {
				case snippetFn("ID"), snippetFn("IDArg"):
					sink = "ID"
				case snippetFn("T"), snippetFn("Sprintf"), "(" + core.G("pkg/gengo.Context") + ").RenderT":
					sink = "format"
				case snippetFn("PkgExpose"):
					sink = "ID"
				}
			}
			if sink == "" {
				return true
			}
			arg := c.Args[0]
			if core.CalleeName(info, c) == snippetFn("IDArg") && len(c.Args) == 2 {
				arg = c.Args[1]
			}
			w := taintOf(info, arg, tainted, docOrTagSource)
			if w == "" {
				return true
			}
			n++
			isTag := strings.Contains(w, ".Tag(")
			construct := "raw text from " + w + " reaches snippet." + sink + "(" + core.ExprStr(arg) + ")"
			switch {
			case sink == "Block" && isTag && betweenBackquotes(c):
				r.OK("T3", f, construct, c.Pos(), "struct-tag text is emitted verbatim between the template's backquotes (tags are backquote-free)")
			case sink == "ID":
				r.Bad("T3", f, construct, c.Pos(), "snippet.ID parses its string argument as a `pkg/path.Name` reference: free text containing a '.' is split, rewritten and a bogus import is registered - the text is not reproduced verbatim")
			case sink == "Block":
				r.Bad("T3", f, construct, c.Pos(), "free text is emitted as raw Go source outside a quoted literal, a comment or a backquoted tag")
			default:
				r.Bad("T3", f, construct, c.Pos(), "free text is used as a template format: '@' and '%' in it are interpreted as template syntax")
			}
			return true
		})
	}
	if n == 0 {
		r.OK("T3", nil, "no doc/tag text reaches ID, Block or a format position", token.NoPos, fmt.Sprintf("%d tainted variables tracked", len(tainted)))
	}
}

// docOrTagSource: result 1 of Context.Doc (doc lines) and (*types.Struct).Tag.
func docOrTagSource(info *types.Info, e ast.Expr) (int, bool) {
	c, ok := ast.Unparen(e).(*ast.CallExpr)
	if !ok {
		return 0, false
	}
	switch core.CalleeName(info, c) {
	case "(" + core.G("pkg/gengo.Context") + ").Doc":
		return 1, true
	case "(*go/types.Struct).Tag":
		return 0, true
	}
	return 0, false
}
