package rules

import (
	"go/ast"
	"go/types"
	"strings"

	"gengoverif/checker/internal/core"
)

// CallSite is a resolved call in scope.
type CallSite struct {
	In   *core.Func
	Call *ast.CallExpr
	Name string // callee full name
}

var callSiteCache = map[*core.Program][]CallSite{}

// allCalls lists every call in scope with a resolvable callee.
func allCalls(p *core.Program) []CallSite {
	if cs, ok := callSiteCache[p]; ok {
		return cs
	}
	var out []CallSite
	for _, f := range p.Funcs() {
		ast.Inspect(f.Body, func(n ast.Node) bool {
			if lit, ok := n.(*ast.FuncLit); ok && lit != f.Lit {
				return false
			}
			if c, ok := n.(*ast.CallExpr); ok {
				if name := core.CalleeName(f.Info(), c); name != "" {
					out = append(out, CallSite{In: f, Call: c, Name: name})
				}
			}
			return true
		})
	}
	// calls in package-level initialisers (outside any function body)
	for _, pkg := range p.InScope() {
		for _, file := range pkg.Syntax {
			for _, d := range file.Decls {
				gd, ok := d.(*ast.GenDecl)
				if !ok {
					continue
				}
				ast.Inspect(gd, func(n ast.Node) bool {
					if _, ok := n.(*ast.FuncLit); ok {
						return false
					}
					if c, ok := n.(*ast.CallExpr); ok {
						if name := core.CalleeName(pkg.TypesInfo, c); name != "" {
							out = append(out, CallSite{In: &core.Func{Pkg: pkg, Name: "<pkginit>"}, Call: c, Name: name})
						}
					}
					return true
				})
			}
		}
	}
	callSiteCache[p] = out
	return out
}

func callersOf(p *core.Program, names ...string) []CallSite {
	var out []CallSite
	for _, cs := range allCalls(p) {
		for _, n := range names {
			if cs.Name == n {
				out = append(out, cs)
			}
		}
	}
	return out
}

// funcValueUses lists places where a declared function is used as a value
// (not called): such uses escape the who-may-call analysis.
func funcValueUses(p *core.Program, obj *types.Func) []ast.Node {
	var out []ast.Node
	for _, pkg := range p.InScope() {
		for _, file := range pkg.Syntax {
			var stack []ast.Node
			ast.Inspect(file, func(n ast.Node) bool {
				if n == nil {
					stack = stack[:len(stack)-1]
					return false
				}
				stack = append(stack, n)
				id, ok := n.(*ast.Ident)
				if !ok {
					return true
				}
				if f, ok := pkg.TypesInfo.Uses[id].(*types.Func); !ok || f.Origin() != obj {
					return true
				}
				// is it the Fun of a call?
				var cur ast.Node = id
				for k := len(stack) - 2; k >= 0; k-- {
					switch x := stack[k].(type) {
					case *ast.SelectorExpr:
						if x.Sel == id {
							cur = x
							continue
						}
					case *ast.ParenExpr:
						cur = x
						continue
					case *ast.CallExpr:
						if x.Fun == cur {
							return true
						}
					}
					break
				}
				out = append(out, id)
				return true
			})
		}
	}
	return out
}

// opaqueHelpers: private helpers that a rule treats as one step and therefore
// wants to keep seeing as a call in flattened views (one line of reason each).
var opaqueHelpers = map[string]string{
	"pkg/types.newPkg": "the package-record constructor is a unit of C12/C13 (comment indexes, tables) and of the C13.R3 ordering rule (construction after registration)",
}

// pipelineStage: h (transitively, through static calls) invokes user code through the
// Generator / AliasGenerator interfaces, or consults the recorded directory sums. Such functions are stages of the run pipeline
// (the per-package function, the dispatch loop, the dispatchers): the rules reason about
// their returns (error edges) and call sites as units, so they are never inlined in the
// general form, whatever they are called. Helpers extracted *from* them still are.
var stageCache = map[*core.Func]bool{}

func pipelineStage(p *core.Program, h *core.Func) bool {
	if v, ok := stageCache[h]; ok {
		return v
	}
	genType := "(" + core.G("pkg/gengo.Generator") + ").GenerateType"
	genAlias := "(" + core.G("pkg/gengo.AliasGenerator") + ").GenerateAliasType"
	res := false
	for f := range reachableFrom(p, h) {
		if f.Body == nil {
			continue
		}
		for _, c := range core.Calls(f.Body, true) {
			// ... or consults the recorded sums (the cache decision, C08.R1)
			if n := core.CalleeName(f.Info(), c); n == genType || n == genAlias || n == core.GM("pkg/sumfile", "*File", "Sum") {
				res = true
			}
		}
	}
	stageCache[h] = res
	return res
}

func flatten(p *core.Program, f *core.Func) *core.Func {
	if p.Opaque == nil {
		p.Opaque = func(h *core.Func) bool {
			if _, ok := opaqueHelpers[h.QName()]; ok {
				return true
			}
			// the import printer (by role): C01.R4/C04 treat the import block as one write step of the file
			// writer; its body is checked on its own (C03.R2: one line per registered path, sorted)
			if h == importPrinter(p) {
				return true
			}
			// the argument rewriter of the namer (by role: the pkg/namer function that parses a name with ParseTypeRef) is
			// one step of the namer: C11.R6 / C03.R9 require every name to pass it, C15.R4 checks its body
			return h == namerRewriter(p)
		}
		p.OpaqueGeneral = func(h *core.Func) bool { return pipelineStage(p, h) }
	}
	return p.Flatten(f)
}

var ctxTypeCache = map[*core.Program]string{}

// ctxTypeName: the (unexported) context type of pkg/gengo, found as the receiver of its Execute method.
func ctxTypeName(p *core.Program) string {
	if s, ok := ctxTypeCache[p]; ok {
		return s
	}
	name := ""
	for _, f := range p.Funcs() {
		if f.Decl != nil && f.Decl.Recv != nil && core.RelPkg(f.Pkg.PkgPath) == "pkg/gengo" && f.Decl.Name.Name == "Execute" {
			if i := strings.Index(f.Name, ")."); i > 2 {
				name = f.Name[2:i]
			}
		}
	}
	ctxTypeCache[p] = name
	return name
}

// ctxMethod: a method of the context type by its (exported, interface) name.
func ctxMethod(p *core.Program, method string) *core.Func {
	return p.FuncByName("pkg/gengo", "(*"+ctxTypeName(p)+")."+method)
}

// ctxG: qualified name of the context type.
func ctxG(p *core.Program) string { return core.G("pkg/gengo." + ctxTypeName(p)) }

// unitRoot climbs from a function to the declared function whose flattened
// view contains it: a private helper (unexported, one static call site in the
// program, never used as a value, same package) that core.Flatten inlines into
// its caller belongs to the caller's unit.
func unitRoot(p *core.Program, f *core.Func) *core.Func {
	f = f.Root()
	for i := 0; i < 4; i++ {
		obj := f.Obj()
		if obj == nil || obj.Exported() || f.Decl == nil {
			return f
		}
		var sites []CallSite
		for _, cs := range allCalls(p) {
			if cs.In.Body != nil && core.CalleeFunc(cs.In.Info(), cs.Call) == obj {
				sites = append(sites, cs)
			}
		}
		if len(sites) != 1 || len(funcValueUses(p, obj)) > 0 {
			return f
		}
		caller := sites[0].In.Root()
		if caller.Pkg != f.Pkg || caller.Decl == nil || caller == f {
			return f
		}
		if fl := flatten(p, caller); fl == caller || !fl.Members[f] {
			return f
		}
		f = caller
	}
	return f
}

// unit: the flattened view of the unit a function belongs to.
func unit(p *core.Program, f *core.Func) *core.Func {
	return flatten(p, unitRoot(p, f))
}

// pkgUnits lists the functions of a package as flattened units: every declared
// function that is not itself inlined into a caller, flattened, with its
// literals. Literals in package-level initialisers are kept as they are.
func pkgUnits(p *core.Program, rel string) []*core.Func {
	var out []*core.Func
	for _, f := range p.Funcs() {
		if core.RelPkg(f.Pkg.PkgPath) != rel || f.Parent != nil {
			continue
		}
		if f.Decl == nil {
			out = append(out, f.AllFuncs()...)
			continue
		}
		if unitRoot(p, f) != f {
			continue
		}
		out = append(out, flatten(p, f).AllFuncs()...)
	}
	return out
}

// isInitFunc: a package init function.
func isInitFunc(f *core.Func) bool {
	return f != nil && f.Decl != nil && f.Decl.Recv == nil && f.Decl.Name.Name == "init"
}

// initOnly computes the declared functions in scope that are only ever called
// (transitively) from init functions or package-level initialisers and never
// used as values.
func initOnly(p *core.Program) map[*types.Func]bool {
	res := map[*types.Func]bool{}
	callers := map[*types.Func][]*core.Func{}
	for _, cs := range allCalls(p) {
		if fn := core.CalleeFunc(cs.In.Info(), cs.Call); fn != nil {
			callers[fn] = append(callers[fn], cs.In)
		}
	}
	changed := true
	for changed {
		changed = false
		for _, f := range p.Funcs() {
			obj := f.Obj()
			if obj == nil || res[obj] || isInitFunc(f) {
				continue
			}
			cs := callers[obj]
			if len(cs) == 0 {
				continue
			}
			ok := true
			for _, c := range cs {
				root := c.Root()
				if root.Name == "<pkginit>" && root.Body == nil {
					continue
				}
				if c.Lit != nil && c.Parent == nil {
					ok = false // literal in a package-level initialiser: runs whenever called
					break
				}
				if isInitFunc(root) && c == root {
					continue
				}
				if ro := root.Obj(); ro != nil && res[ro] && c == root {
					continue
				}
				ok = false
				break
			}
			if ok && len(funcValueUses(p, obj)) == 0 {
				res[obj] = true
				changed = true
			}
		}
	}
	return res
}

// reachableFrom computes the functions (declarations and the literals nested
// in them) reachable from the given roots through static calls in scope.
func reachableFrom(p *core.Program, roots ...*core.Func) map[*core.Func]bool {
	seen := map[*core.Func]bool{}
	var visit func(f *core.Func)
	visit = func(f *core.Func) {
		if f == nil || seen[f] {
			return
		}
		seen[f] = true
		for _, l := range f.Lits {
			visit(l)
		}
		if f.Body == nil {
			return
		}
		for _, c := range core.Calls(f.Body, true) {
			if fn := core.CalleeFunc(f.Info(), c); fn != nil {
				visit(p.FuncOfObj(fn))
			}
		}
		// function values referenced
		ast.Inspect(f.Body, func(n ast.Node) bool {
			if id, ok := n.(*ast.Ident); ok {
				if fn, ok := f.Info().Uses[id].(*types.Func); ok {
					visit(p.FuncOfObj(fn.Origin()))
				}
			}
			return true
		})
	}
	for _, r := range roots {
		visit(r)
	}
	return seen
}
