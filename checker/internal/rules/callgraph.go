package rules

import (
	"go/ast"
	"go/types"

	"gengoverif/checker/internal/core"
)

// CallSite is a resolved call in scope.
type CallSite struct {
	In   *core.Func
	Call *ast.CallExpr
	Name string // callee full name
}

var callSiteCache = map[*core.Program][]CallSite{}

// allCalls lists every call in scope with a resolvable callee.
func allCalls(p *core.Program) []CallSite {
	if cs, ok := callSiteCache[p]; ok {
		return cs
	}
	var out []CallSite
	for _, f := range p.Funcs() {
		ast.Inspect(f.Body, func(n ast.Node) bool {
			if lit, ok := n.(*ast.FuncLit); ok && lit != f.Lit {
				return false
			}
			if c, ok := n.(*ast.CallExpr); ok {
				if name := core.CalleeName(f.Info(), c); name != "" {
					out = append(out, CallSite{In: f, Call: c, Name: name})
				}
			}
			return true
		})
	}
	// calls in package-level initialisers (outside any function body)
	for _, pkg := range p.InScope() {
		for _, file := range pkg.Syntax {
			for _, d := range file.Decls {
				gd, ok := d.(*ast.GenDecl)
				if !ok {
					continue
				}
				ast.Inspect(gd, func(n ast.Node) bool {
					if _, ok := n.(*ast.FuncLit); ok {
						return false
					}
					if c, ok := n.(*ast.CallExpr); ok {
						if name := core.CalleeName(pkg.TypesInfo, c); name != "" {
							out = append(out, CallSite{In: &core.Func{Pkg: pkg, Name: "<pkginit>"}, Call: c, Name: name})
						}
					}
					return true
				})
			}
		}
	}
	callSiteCache[p] = out
	return out
}

func callersOf(p *core.Program, names ...string) []CallSite {
	var out []CallSite
	for _, cs := range allCalls(p) {
		for _, n := range names {
			if cs.Name == n {
				out = append(out, cs)
			}
		}
	}
	return out
}

// funcValueUses lists places where a declared function is used as a value
// (not called): such uses escape the who-may-call analysis.
func funcValueUses(p *core.Program, obj *types.Func) []ast.Node {
	var out []ast.Node
	for _, pkg := range p.InScope() {
		for _, file := range pkg.Syntax {
			var stack []ast.Node
			ast.Inspect(file, func(n ast.Node) bool {
				if n == nil {
					stack = stack[:len(stack)-1]
					return false
				}
				stack = append(stack, n)
				id, ok := n.(*ast.Ident)
				if !ok {
					return true
				}
				if f, ok := pkg.TypesInfo.Uses[id].(*types.Func); !ok || f.Origin() != obj {
					return true
				}
				// is it the Fun of a call?
				var cur ast.Node = id
				for k := len(stack) - 2; k >= 0; k-- {
					switch x := stack[k].(type) {
					case *ast.SelectorExpr:
						if x.Sel == id {
							cur = x
							continue
						}
					case *ast.ParenExpr:
						cur = x
						continue
					case *ast.CallExpr:
						if x.Fun == cur {
							return true
						}
					}
					break
				}
				out = append(out, id)
				return true
			})
		}
	}
	return out
}

// isInitFunc: a package init function.
func isInitFunc(f *core.Func) bool {
	return f != nil && f.Decl != nil && f.Decl.Recv == nil && f.Decl.Name.Name == "init"
}

// initOnly computes the declared functions in scope that are only ever called
// (transitively) from init functions or package-level initialisers and never
// used as values.
func initOnly(p *core.Program) map[*types.Func]bool {
	res := map[*types.Func]bool{}
	callers := map[*types.Func][]*core.Func{}
	for _, cs := range allCalls(p) {
		if fn := core.CalleeFunc(cs.In.Info(), cs.Call); fn != nil {
			callers[fn] = append(callers[fn], cs.In)
		}
	}
	changed := true
	for changed {
		changed = false
		for _, f := range p.Funcs() {
			obj := f.Obj()
			if obj == nil || res[obj] || isInitFunc(f) {
				continue
			}
			cs := callers[obj]
			if len(cs) == 0 {
				continue
			}
			ok := true
			for _, c := range cs {
				root := c.Root()
				if root.Name == "<pkginit>" && root.Body == nil {
					continue
				}
				if c.Lit != nil && c.Parent == nil {
					ok = false // literal in a package-level initialiser: runs whenever called
					break
				}
				if isInitFunc(root) && c == root {
					continue
				}
				if ro := root.Obj(); ro != nil && res[ro] && c == root {
					continue
				}
				ok = false
				break
			}
			if ok && len(funcValueUses(p, obj)) == 0 {
				res[obj] = true
				changed = true
			}
		}
	}
	return res
}

// reachableFrom computes the functions (declarations and the literals nested
// in them) reachable from the given roots through static calls in scope.
func reachableFrom(p *core.Program, roots ...*core.Func) map[*core.Func]bool {
	seen := map[*core.Func]bool{}
	var visit func(f *core.Func)
	visit = func(f *core.Func) {
		if f == nil || seen[f] {
			return
		}
		seen[f] = true
		for _, l := range f.Lits {
			visit(l)
		}
		if f.Body == nil {
			return
		}
		for _, c := range core.Calls(f.Body, true) {
			if fn := core.CalleeFunc(f.Info(), c); fn != nil {
				visit(p.FuncOfObj(fn))
			}
		}
		// function values referenced
		ast.Inspect(f.Body, func(n ast.Node) bool {
			if id, ok := n.(*ast.Ident); ok {
				if fn, ok := f.Info().Uses[id].(*types.Func); ok {
					visit(p.FuncOfObj(fn.Origin()))
				}
			}
			return true
		})
	}
	for _, r := range roots {
		visit(r)
	}
	return seen
}
