package rules

import (
	"go/ast"
	"go/types"
	"strings"

	"gengoverif/checker/internal/core"
)

// treeFormatters: what may touch the parsed tree between go/parser.ParseFile and go/format.Node. All three only
// re-arrange or re-space what was parsed; none removes or adds a declaration.
var treeFormatters = map[string]bool{
	"go/ast.SortImports":           true,
	"mvdan.cc/gofumpt/format.File": true,
	"go/format.Node":               true,
	"go/printer.Fprint":            true, // judged by R1 (it is not the canonical printer), not a change of the tree
	"(*go/printer.Config).Fprint":  true,
	"go/ast.Print":                 true, "go/ast.Fprint": true, // debugging output
}

// c01R9: "contains the declarations the generator rendered, in order and altered only by formatting": the tree that
// go/parser.ParseFile returns is handed to the formatters and the printer and to nothing else - no function of the
// module receives it, none of its fields is assigned, it is not replaced.
func c01R9(p *core.Program, r *core.Report, w *core.Func, parse *ast.CallExpr, fileV *types.Var) {
	const rule = "R9"
	r.Floor(rule, 2) // gofumpt and the printer
	if fileV == nil {
		r.Anchor(rule, "the variable that receives the tree of ParseFile")
		return
	}
	info := w.Info()
	isTree := func(e ast.Expr) bool {
		v := core.VarOf(info, e)
		return v != nil && !v.IsField() && aliasRep(w, v) == aliasRep(w, fileV)
	}
	ast.Inspect(w.Body, func(n ast.Node) bool {
		switch x := n.(type) {
		case *ast.AssignStmt:
			for i, l := range x.Lhs {
				l = ast.Unparen(l)
				// a store into the tree: file.Decls = …, file.Comments[i] = …, *file = …
				root := l
				for {
					switch y := root.(type) {
					case *ast.SelectorExpr:
						root = ast.Unparen(y.X)
						continue
					case *ast.IndexExpr:
						root = ast.Unparen(y.X)
						continue
					case *ast.StarExpr:
						root = ast.Unparen(y.X)
						continue
					}
					break
				}
				if root != l && isTree(root) {
					r.Bad(rule, w, "the parsed tree is not modified: "+core.ExprStr(l), x.Pos(), "the file writer assigns into the tree it parsed: declarations or comments the generator rendered can be dropped, replaced or reordered before the file is printed")
				}
				// the tree variable is re-assigned from something else than the parse (or a holder of the tree)
				if isTree(l) && root == l {
					var rhs ast.Expr
					if len(x.Rhs) == len(x.Lhs) {
						rhs = x.Rhs[i]
					} else if len(x.Rhs) == 1 {
						rhs = x.Rhs[0]
					}
					if rhs != nil && !isTree(rhs) && ast.Unparen(rhs) != ast.Expr(parse) {
						r.Bad(rule, w, "the printed tree is the parsed one: "+core.ExprStr(l)+" = "+core.ExprStr(rhs), x.Pos(), "the variable holding the parsed file is given another value before printing")
					}
				}
			}
		case *ast.CallExpr:
			name := core.CalleeName(info, x)
			args := append([]ast.Expr{}, x.Args...)
			if rcv := recvOf(x); rcv != nil {
				args = append(args, rcv)
			}
			for _, a := range args {
				// the tree itself, or a part of it (file.Decls), as an operand
				root := ast.Unparen(a)
				for {
					if sel, ok := root.(*ast.SelectorExpr); ok {
						root = ast.Unparen(sel.X)
						continue
					}
					if u, ok := root.(*ast.UnaryExpr); ok {
						root = ast.Unparen(u.X)
						continue
					}
					break
				}
				if !isTree(root) {
					continue
				}
				construct := "the parsed tree is handed to formatters only: " + name
				if treeFormatters[name] {
					r.OK(rule, w, construct, x.Pos(), "a formatter / the printer")
				} else if strings.HasPrefix(name, "len") || name == "" && isBuiltinCall(info, x) {
					continue
				} else {
					r.Bad(rule, w, construct, x.Pos(), "the tree returned by ParseFile is handed to "+name+", which is not one of the formatters: what is printed need not be what the generator rendered (declarations dropped, merged, reordered)")
				}
			}
		}
		return true
	})
}

func isBuiltinCall(info *types.Info, c *ast.CallExpr) bool {
	id, ok := ast.Unparen(c.Fun).(*ast.Ident)
	if !ok {
		return false
	}
	_, isB := info.ObjectOf(id).(*types.Builtin)
	return isB
}

// bodyShrinkers: methods of a byte buffer that remove or consume bytes.
var bodyShrinkers = map[string]bool{
	"Truncate": true, "Reset": true, "Next": true, "Read": true, "ReadByte": true, "ReadBytes": true, "ReadRune": true,
	"ReadString": true, "UnreadByte": true, "UnreadRune": true, "WriteTo": true,
}

// c01R10: "contains the declarations the generator rendered": the body buffer of a file only grows. Between its
// construction and the one place that consumes it (the file writer copies it into the source it parses) nothing removes
// bytes from it: no Truncate / Reset / read, no replacement of the buffer, and it is handed to no function but the
// snippet writer's constructor, writers (as destination) and - in the file writer - io.Copy as the source.
func c01R10(p *core.Program, r *core.Report, w *core.Func) {
	const rule = "R10"
	r.Floor(rule, 3)
	n := 0
	for _, f := range p.Funcs() {
		if f.Body == nil || core.RelPkg(f.Pkg.PkgPath) != "pkg/gengo" {
			continue
		}
		info := f.Info()
		// holders: the field itself and locals that were given its value
		holders := map[*types.Var]bool{}
		isBody := func(e ast.Expr) bool {
			e = ast.Unparen(e)
			if u, ok := e.(*ast.UnaryExpr); ok {
				e = ast.Unparen(u.X) // &ff.body of a value buffer
			}
			if roleValue(p, info, e, "file.body") {
				return true
			}
			v := core.VarOf(info, e)
			return v != nil && holders[v]
		}
		ast.Inspect(f.Body, func(m ast.Node) bool {
			if as, ok := m.(*ast.AssignStmt); ok && len(as.Lhs) == len(as.Rhs) {
				for i := range as.Lhs {
					if v := core.VarOf(info, as.Lhs[i]); v != nil && !v.IsField() && isBody(as.Rhs[i]) {
						holders[v] = true
					}
				}
			}
			return true
		})
		inWriter := w.Has(f)
		ast.Inspect(f.Body, func(m ast.Node) bool {
			switch x := m.(type) {
			case *ast.AssignStmt:
				for i, l := range x.Lhs {
					if isRole(p, core.FieldOf(info, l), "file.body") {
						n++
						// the buffer is put in place once, when the file is made (a literal is not an assignment; an
						// assignment is accepted in a function that constructs the file)
						fresh := false
						if len(x.Rhs) == len(x.Lhs) {
							rhs, _ := core.Resolve(info, f.Body, x.Rhs[i])
							if c, ok := ast.Unparen(rhs).(*ast.CallExpr); ok {
								switch core.CalleeName(info, c) {
								case "bytes.NewBuffer", "bytes.NewBufferString", "new":
									fresh = true
								}
							}
							if u, ok := ast.Unparen(rhs).(*ast.UnaryExpr); ok {
								if _, isLit := ast.Unparen(u.X).(*ast.CompositeLit); isLit {
									fresh = true
								}
							}
						}
						r.Check(fresh && constructsFile(p, f), rule, f, "the body buffer is put in place only when the file is made: "+core.ExprStr(x), x.Pos(), "a fresh buffer in a function that constructs the file",
							"the body buffer of a file is replaced after the file was made: what a generator rendered before is lost from the written file")
					}
				}
			case *ast.CallExpr:
				name := core.CalleeName(info, x)
				if rcv := recvOf(x); rcv != nil && isBody(rcv) {
					n++
					sel := ast.Unparen(x.Fun).(*ast.SelectorExpr)
					if sel.Sel.Name == "WriteTo" && inWriter {
						// body.WriteTo(dst) in the file writer is io.Copy(dst, body): the one consumer
						r.OK(rule, f, "the body buffer is consumed by the file writer only: "+core.ExprStr(x.Fun), x.Pos(), "WriteTo in the writer is the final read")
						return true
					}
					r.Check(!bodyShrinkers[sel.Sel.Name], rule, f, "the body buffer only grows: "+core.ExprStr(x.Fun), x.Pos(), "not a method that removes or consumes bytes",
						"`"+core.ExprStr(x)+"` removes bytes from the body of the file: declarations a generator rendered do not reach the written file although Execute succeeds")
					return true
				}
				for k, a := range x.Args {
					if !isBody(a) {
						continue
					}
					n++
					good := false
					switch {
					case name == "io.Copy" && k == 1:
						good = inWriter // the one consumer
					case (name == "io.Copy" || name == "io.WriteString" || strings.HasPrefix(name, "fmt.Fprint")) && k == 0:
						good = true // written into
					case name == "len" || name == "cap":
						good = true
					default:
						// the snippet writer's constructor: the function of the package that returns the writer built on it
						if fn := core.CalleeFunc(info, x); fn != nil && fn.Pkg() != nil && core.RelPkg(fn.Pkg().Path()) == "pkg/gengo" {
							if sig, _ := fn.Type().(*types.Signature); sig != nil && sig.Results().Len() == 1 && strings.HasSuffix(types.TypeString(sig.Results().At(0).Type(), nil), "SnippetWriter") {
								good = true
							}
						}
					}
					r.Check(good, rule, f, "the body buffer is handed on only to be written into: "+name, x.Pos(), "the snippet writer's constructor, a writer call with the body as destination, or the file writer's io.Copy",
						"the body buffer of a file is handed to "+name+", which can consume or shorten it: rendered declarations can be lost from the written file")
				}
			}
			return true
		})
	}
	if n == 0 {
		r.Anchor(rule, "uses of the body buffer of the generated file")
	}
}

// constructsFile: the function returns a new value of the file type (it contains a composite literal of the type that
// owns the body field).
func constructsFile(p *core.Program, f *core.Func) bool {
	info := f.Info()
	found := false
	ast.Inspect(f.Body, func(n ast.Node) bool {
		cl, ok := n.(*ast.CompositeLit)
		if !ok {
			return true
		}
		if st, _ := info.TypeOf(cl).Underlying().(*types.Struct); st != nil {
			for i := 0; i < st.NumFields(); i++ {
				if isRole(p, st.Field(i), "file.body") {
					found = true
				}
			}
		}
		return true
	})
	return found
}
