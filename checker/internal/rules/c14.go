package rules

import (
	"fmt"
	"go/ast"
	"go/token"
	"go/types"
	"sort"
	"strings"

	"gengoverif/checker/internal/core"
)

func init() {
	register(Property{
		ID:          "C14",
		Explanation: "Decided statically: R1 cycle cover - every recursion cycle of the result resolver's call graph passes the guarded entry (resultsFromAstAt), whose recursive continuations are only created on the not-yet-visited edge of the visited test for (function type, result index); the one other cycle descends structurally (the expression list handed down is a literal of the range variable over the call's arguments); R2 mark-on-miss - every return of the visited helper that can answer 'not visited' is dominated by a store of the mark for (t, at); R3 index/bound pairing - in every counted loop of the library, an element accessor X.At(i)/Field(i)/Method(i)/Index(i) is applied to the same base whose Len/NumFields/... bounds the loop (simple getters and single-definition locals are looked through); R4 length summary - every return of Results is a list built by make(FuncResults, n) with a loop 0..n that makes every slot non-empty, or is returned under n == 0; R5 the resolver has no schedule-dependent order source, writes no shared state (the visited set is allocated per call) and the package's unused result cache stays unused. R6 index/bound pairing across calls - an accessor indexed by a parameter is followed to every static call site (receiver and parameters translated) until a counted loop over the same sequence bounds it; R7 in newPkg every declaration store into the signature table precedes every call-site store (or is unconditional), so a call seen before its callee's declaration cannot occupy the slot. R8 nothing reached by the resolver keeps state on the loaded package (universe write scan); R9 the list of visited marks has one slot per result (NumFields() or a counter adding len(field.Names), 1 or max(len(field.Names),1) per field). R10 the package record of a followed function comes from the universe (the unchecked assertion to *pkgInfo is applied to Universe.Package only); R11 the ast.Inspect callback that collects return statements answers false only for function literals, the nil node, a return statement or a consumer that stopped. A5 every index/slice/count expression of the resolver is in bounds (guards, loop bounds, T9 make(_, E) with index below the same count E, equal-length ranges, counts built by += non-negative; reviewed: an int parameter used as index whose every call chain formed it under a dominating v < count). R12 code that consults Signature.Variadic to type an argument also reads the call's Ellipsis (no instance today). R13 the object whose assignments are traced is never nil at a call of the tracing function (unconditional ObjectOf of the identifier at hand, or under != nil). R14 every loop over an iterator function in the resolver runs to the end or leaves only behind its own yield having answered false (the ast.Inspect-driven iterator cannot be stopped); R15 the Type of every Result literal is the checker's answer, never a type made up in the resolver. NOT decided: that each alternative is assignable to the declared result type, exactness for literal-only functions, and the absence of every other panic over all real functions (semantic precision over arbitrary programs). Round 8: R16 the text Eval evaluates is what go/format.Node printed for the node (every return of the stringifier is the formatter's buffer); R13 judges every function that takes a types.Object to trace, forwarded targets at the outer call. Round 9: R17 no (*types.Func).Origin() lookups in the resolver or its accessors; R18 an alternative's constant is what Eval answered, not the converted constant recorded in place.",
		Assumptions: append([]string{"go/ast invariant: FuncDecl.Type and FuncLit.Type are never nil"}, commonAssumptions...),
		Run:         runC14,
	})
}

// resolverFuncs: the functions of pkg/types reachable from ResultsOf (with their literals),
// wherever they are declared.
func resolverFuncs(p *core.Program) []*core.Func {
	var out []*core.Func
	entry := p.FuncByName("pkg/types", "(*pkgInfo).ResultsOf")
	if entry == nil {
		return nil
	}
	reach := reachableFrom(p, entry)
	for _, f := range p.Funcs() {
		if reach[f] && core.RelPkg(f.Pkg.PkgPath) == "pkg/types" {
			out = append(out, f)
		}
	}
	return out
}

func runC14(p *core.Program, r *core.Report) {
	fs := resolverFuncs(p)
	if len(fs) < 10 {
		r.Anchor("R1", "result resolver functions in pkg/types (function_result_resolver.go)")
		return
	}
	c14R1(p, r, fs)
	c14R2(p, r)
	c14R3(p, r)
	c14R4(p, r)
	c14R5(p, r, fs)
	c14R6(p, r)
	c14R7(p, r)
	c14R16(p, r)
	c14R17(p, r, fs)
	c14R18(p, r, fs)
	// R8: "the answer is the same on every call": nothing reached by the resolver keeps state on the loaded package
	r.Floor("R8", 1)
	universeWriteScan(p, r, "R8", nil)
	c14R9(p, r)
	c14R10(p, r, fs)
	c14R11(p, r, fs)
	// A5: "no panic": every index and slice expression of the resolver is in bounds
	c14R12(p, r, fs)
	c14R13(p, r, fs)
	c14R14(p, r, fs)
	c14R15(p, r, fs)
	r.Floor("A5", 10)
	for _, f := range fs {
		a5Check(r, "A5", f, resultIndexTactic(p))
	}
}

func c14R1(p *core.Program, r *core.Report, fs []*core.Func) {
	const rule = "R1"
	r.Floor(rule, 4)
	// call graph between root declarations
	roots := map[*core.Func]bool{}
	for _, f := range fs {
		roots[f.Root()] = true
	}
	edges := map[*core.Func]map[*core.Func][]*ast.CallExpr{}
	callIn := map[*ast.CallExpr]*core.Func{}
	for _, f := range fs {
		for _, c := range core.Calls(f.Body, true) {
			callee := p.FuncOfObj(core.CalleeFunc(f.Info(), c))
			if callee == nil || !roots[callee] {
				continue
			}
			from := f.Root()
			if edges[from] == nil {
				edges[from] = map[*core.Func][]*ast.CallExpr{}
			}
			edges[from][callee] = append(edges[from][callee], c)
			callIn[c] = f
		}
	}
	entry := p.FuncByName("pkg/types", "(*funcResultsResolver).resultsFromAstAt")
	if entry == nil {
		r.Anchor(rule, "pkg/types.(*funcResultsResolver).resultsFromAstAt (the guarded entry)")
		return
	}
	// cycles that avoid the guarded entry
	var cycles [][]*core.Func
	var stack []*core.Func
	onStack := map[*core.Func]bool{}
	seenCycle := map[string]bool{}
	var dfs func(f *core.Func)
	dfs = func(f *core.Func) {
		if f == entry {
			return
		}
		stack = append(stack, f)
		onStack[f] = true
		var tos []*core.Func
		for to := range edges[f] {
			tos = append(tos, to)
		}
		sort.Slice(tos, func(i, j int) bool { return tos[i].Name < tos[j].Name })
		for _, to := range tos {
			if onStack[to] {
				var cyc []*core.Func
				for k := len(stack) - 1; k >= 0; k-- {
					cyc = append([]*core.Func{stack[k]}, cyc...)
					if stack[k] == to {
						break
					}
				}
				names := []string{}
				for _, c := range cyc {
					names = append(names, c.Name)
				}
				sort.Strings(names)
				if key := strings.Join(names, ","); !seenCycle[key] {
					seenCycle[key] = true
					cycles = append(cycles, cyc)
				}
				continue
			}
			if len(stack) < 12 {
				dfs(to)
			}
		}
		onStack[f] = false
		stack = stack[:len(stack)-1]
	}
	var rootList []*core.Func
	for f := range roots {
		rootList = append(rootList, f)
	}
	sort.Slice(rootList, func(i, j int) bool { return rootList[i].Name < rootList[j].Name })
	for _, f := range rootList {
		dfs(f)
	}
	for _, cyc := range cycles {
		names := []string{}
		for _, c := range cyc {
			names = append(names, strings.TrimPrefix(c.Name, "(*funcResultsResolver)."))
		}
		sorted := append([]string(nil), names...)
		sort.Strings(sorted)
		construct := "recursion cycle avoiding the visited guard: " + strings.Join(sorted, " <-> ")
		// accepted: a cycle one of whose edges hands down a strict sub-term of a call expression at every
		// call site (the expression list is a literal of the range variable over <call>.Args): each round
		// of the cycle works on a strictly smaller expression
		descends := false
		var via *core.Func
		for i, from := range cyc {
			to := cyc[(i+1)%len(cyc)]
			calls := edges[from][to]
			all := len(calls) > 0
			for _, c := range calls {
				if !structuralDescent(callIn[c], c) {
					all = false
				}
			}
			if all {
				descends, via = true, from
			}
		}
		if descends {
			r.OK(rule, via, construct, cyc[0].Node().Pos(), "side condition: the expression list passed down is a literal of the range variable over <call expression>.Args (strict sub-term)")
			continue
		}
		r.Bad(rule, cyc[0], construct, cyc[0].Node().Pos(), "a recursion cycle of the resolver does not pass the visited-guarded entry: directly or mutually recursive functions can recurse without bound (fatal stack overflow)")
	}
	// inside the guarded entry: every continuation into the resolver is created on the not-visited edge
	info := entry.Info()
	g := graph(entry)
	params := map[string]*types.Var{}
	for _, fld := range entry.Decl.Type.Params.List {
		for _, n := range fld.Names {
			params[n.Name], _ = info.ObjectOf(n).(*types.Var)
		}
	}
	// callees from which the entry is reachable again
	leadsBack := map[*core.Func]bool{}
	var canReach func(f *core.Func, seen map[*core.Func]bool) bool
	canReach = func(f *core.Func, seen map[*core.Func]bool) bool {
		if f == entry {
			return true
		}
		if seen[f] {
			return false
		}
		seen[f] = true
		for to := range edges[f] {
			if canReach(to, seen) {
				return true
			}
		}
		return false
	}
	for to := range edges[entry] {
		leadsBack[to] = canReach(to, map[*core.Func]bool{})
	}
	n := 0
	for to, calls := range edges[entry] {
		if !leadsBack[to] {
			continue
		}
		for _, c := range calls {
			n++
			// the creation point in the declaration's own CFG
			at := g.PointOf(c)
			if !at.Valid() {
				r.Unknown(rule, entry, "continuation "+core.ExprStr(c), c.Pos(), "call not found in the CFG")
				continue
			}
			ok := false
			for _, fct := range g.FactsAt(at) {
				if fct.Val {
					continue
				}
				e, _ := core.Resolve(info, entry.Body, fct.Cond)
				vc := core.AsCall(info, e, core.GM("pkg/types", "visits", "visited"))
				if vc == nil || len(vc.Args) != 2 {
					continue
				}
				a0, a1 := core.VarOf(info, vc.Args[0]), core.VarOf(info, vc.Args[1])
				if a0 != nil && a1 != nil && isParamOf(entry, a0) && isParamOf(entry, a1) &&
					core.NamedTypeName(a0.Type()) == "go/ast.FuncType" {
					ok = true
				}
			}
			r.Check(ok, rule, entry, "continuation into the resolver happens only on the not-visited edge: "+core.ExprStr(c.Fun), c.Pos(),
				"the closure containing the call is created after `visited(funcType, at)` answered false", "a recursive continuation is reachable without the visited(funcType, at) test having answered false")
		}
	}
	if n == 0 {
		r.Anchor(rule, "calls from resultsFromAstAt back into the resolver")
	}
	r.OK(rule, entry, "all other recursion cycles pass the guarded entry", entry.Node().Pos(), fmt.Sprintf("%d root functions, %d cycles avoiding the entry examined", len(roots), len(cycles)))
}

// structuralDescent: call c (inside function in, nested in root) passes as its
// expression-list argument a composite literal whose only element is the
// range variable of a loop over <param>.Args.
func structuralDescent(in *core.Func, c *ast.CallExpr) bool {
	info := in.Info()
	root := in.Root()
	for _, a := range c.Args {
		cl, ok := ast.Unparen(a).(*ast.CompositeLit)
		if !ok {
			continue
		}
		if len(cl.Elts) != 1 {
			return false
		}
		v := core.VarOf(info, cl.Elts[0])
		if v == nil {
			return false
		}
		d, ok := core.SingleDef(info, root.Body, v)
		if !ok || d.Kind != "range-value" {
			return false
		}
		sel, ok := ast.Unparen(d.Rhs).(*ast.SelectorExpr)
		if !ok || sel.Sel.Name != "Args" {
			return false
		}
		pv := core.VarOf(info, sel.X)
		return pv != nil && isParamOf(root, pv) && core.NamedTypeName(pv.Type()) == "go/ast.CallExpr"
	}
	return false
}

func c14R2(p *core.Program, r *core.Report) {
	const rule = "R2"
	r.Floor(rule, 2)
	f := p.FuncByName("pkg/types", "visits.visited")
	if f == nil {
		r.Anchor(rule, "pkg/types.visits.visited")
		return
	}
	info := f.Info()
	g := graph(f)
	var at *types.Var
	{
		var ps []*types.Var
		for _, fld := range f.Decl.Type.Params.List {
			for _, n := range fld.Names {
				v, _ := info.ObjectOf(n).(*types.Var)
				ps = append(ps, v)
			}
		}
		if len(ps) == 2 {
			at = ps[1]
		}
	}
	isMark := func(n ast.Node) bool {
		as, ok := n.(*ast.AssignStmt)
		if !ok || len(as.Lhs) != 1 || len(as.Rhs) != 1 {
			return false
		}
		ix, ok := ast.Unparen(as.Lhs[0]).(*ast.IndexExpr)
		if !ok || core.VarOf(info, ix.Index) != at || at == nil {
			return false
		}
		tv, ok := info.Types[as.Rhs[0]]
		return ok && tv.Value != nil && tv.Value.String() == "true"
	}
	nret := 0
	for _, rp := range g.Points(func(n ast.Node) bool { _, ok := n.(*ast.ReturnStmt); return ok }) {
		ret := rp.Node().(*ast.ReturnStmt)
		if len(ret.Results) != 1 {
			continue
		}
		nret++
		tv := info.Types[ret.Results[0]]
		if tv.Value != nil && tv.Value.String() == "true" {
			r.OK(rule, f, "return true (already visited)", ret.Pos(), "answers 'visited': the caller cuts the recursion")
			continue
		}
		marked := g.DominatedBySome(rp, func(q cfgxPoint) bool { return isMark(q.Node()) })
		r.Check(marked, rule, f, "return "+core.ExprStr(ret.Results[0])+" (may answer 'not visited') is preceded by marking (t, at)", ret.Pos(),
			"dominated by `<marks>[at] = true`", "this return can answer 'not visited' without having marked (t, at): the same (function, result) pair is entered again and again - a function reaching itself through another result index recurses until the stack overflows")
	}
	if nret == 0 {
		r.Anchor(rule, "return statements of visited")
	}
}

// countedLoop recognises `for i := ..; i < B; ..` / `i <= B` and the range-over-int form
// `for i := range B` (B an integer expression): index variable, bound expression, body.
func countedLoop(info *types.Info, n ast.Node) (iv *types.Var, bound ast.Expr, body *ast.BlockStmt, op token.Token, ok bool) {
	switch x := n.(type) {
	case *ast.ForStmt:
		if x.Cond == nil {
			return
		}
		b, isBin := ast.Unparen(x.Cond).(*ast.BinaryExpr)
		if !isBin || (b.Op != token.LSS && b.Op != token.LEQ) {
			return
		}
		iv = core.VarOf(info, b.X)
		return iv, b.Y, x.Body, b.Op, iv != nil
	case *ast.RangeStmt:
		if x.Key == nil || x.Value != nil {
			return
		}
		t := info.TypeOf(x.X)
		if t == nil {
			return
		}
		if bt, isBasic := t.Underlying().(*types.Basic); !isBasic || bt.Info()&types.IsInteger == 0 {
			return
		}
		iv = core.VarOf(info, x.Key)
		return iv, x.X, x.Body, token.LSS, iv != nil
	}
	return
}

var boundAccessors = map[string][]string{
	"Len":                {"At", "Index"},
	"NumFields":          {"Field", "Tag"},
	"NumField":           {"Field"},
	"NumMethods":         {"Method"},
	"NumExplicitMethods": {"ExplicitMethod"},
	"NumEmbeddeds":       {"EmbeddedType"},
	"NumIn":              {"In"},
	"NumOut":             {"Out"},
}

// canonBase renders the receiver of a bound/accessor call after looking
// through single-definition locals and simple getters.
func canonBase(p *core.Program, f *core.Func, e ast.Expr, depth int) string {
	info := f.Info()
	if depth > 24 {
		return types.ExprString(e)
	}
	e, _ = core.Resolve(info, f.Root().Body, e)
	e = ast.Unparen(e)
	switch x := e.(type) {
	case *ast.CallExpr:
		if depth < 3 {
			if callee := p.FuncOfObj(core.CalleeFunc(info, x)); callee != nil && len(x.Args) == 0 && callee.Decl != nil && callee.Decl.Recv != nil && len(callee.Body.List) == 1 {
				if ret, ok := callee.Body.List[0].(*ast.ReturnStmt); ok && len(ret.Results) == 1 && len(callee.Decl.Recv.List[0].Names) == 1 {
					// substitute the receiver textually
					inner := canonBase(p, callee, ret.Results[0], depth+1)
					rid := callee.Decl.Recv.List[0].Names[0]
					rn := rid.Name
					if ro := callee.Info().ObjectOf(rid); ro != nil {
						rn = fmt.Sprintf("%s#%d", rid.Name, ro.Pos())
					}
					outer := canonBase(p, f, recvOf(x), depth+1)
					if strings.HasPrefix(inner, rn+".") {
						return outer + inner[len(rn):]
					}
				}
			}
		}
		if sel, ok := ast.Unparen(x.Fun).(*ast.SelectorExpr); ok {
			args := []string{}
			for _, a := range x.Args {
				args = append(args, canonBase(p, f, a, depth+1))
			}
			return canonBase(p, f, sel.X, depth+1) + "." + sel.Sel.Name + "(" + strings.Join(args, ",") + ")"
		}
	case *ast.SelectorExpr:
		return canonBase(p, f, x.X, depth+1) + "." + x.Sel.Name
	case *ast.Ident:
		if o := info.ObjectOf(x); o != nil {
			return fmt.Sprintf("%s#%d", x.Name, o.Pos())
		}
		return x.Name
	}
	return types.ExprString(e)
}

func c14R3(p *core.Program, r *core.Report) {
	const rule = "R3"
	r.Floor(rule, 10)
	// over flattened units: a loop moved into a private helper keeps the definitions of its bounds
	var units []*core.Func
	for _, pkg := range p.InScope() {
		units = append(units, pkgUnits(p, core.RelPkg(pkg.PkgPath))...)
	}
	for _, f := range units {
		if f.Body == nil {
			continue
		}
		info := f.Info()
		ast.Inspect(f.Body, func(n ast.Node) bool {
			if lit, ok := n.(*ast.FuncLit); ok && lit != f.Lit {
				return false
			}
			iv, boundE, loopBody, loopOp, isLoop := countedLoop(info, n)
			if !isLoop {
				return true
			}
			fs := struct {
				Body *ast.BlockStmt
				Cond ast.Expr
			}{loopBody, boundE}
			b := struct {
				Op token.Token
				Y  ast.Expr
			}{loopOp, boundE}
			bound, ok := ast.Unparen(boundE).(*ast.CallExpr)
			if iv == nil || !ok {
				return true
			}
			bsel, ok := ast.Unparen(bound.Fun).(*ast.SelectorExpr)
			if !ok {
				return true
			}
			// getter inlining: r.Len() -> r.sig.Results().Len()
			boundCanon := canonBase(p, f, bound, 0)
			accs := boundAccessors[bsel.Sel.Name]
			mname := bsel.Sel.Name
			if i := strings.LastIndex(boundCanon, "."); i > 0 {
				mname = strings.TrimSuffix(boundCanon[i+1:], "()")
				if a, ok := boundAccessors[mname]; ok {
					accs = a
				}
				boundCanon = boundCanon[:i]
			}
			if accs == nil {
				return true
			}
			if b.Op == token.LEQ {
				r.Bad(rule, f, "loop bound "+core.ExprStr(fs.Cond), n.Pos(), "`<=` against a length: the last index is out of range")
				return true
			}
			found := 0
			ast.Inspect(fs.Body, func(m ast.Node) bool {
				c, ok := m.(*ast.CallExpr)
				if !ok || len(c.Args) != 1 || core.VarOf(info, c.Args[0]) != iv {
					return true
				}
				sel, ok := ast.Unparen(c.Fun).(*ast.SelectorExpr)
				if !ok {
					return true
				}
				isAcc := false
				for _, a := range []string{"At", "Index", "Field", "Tag", "Method", "ExplicitMethod", "EmbeddedType", "In", "Out"} {
					if sel.Sel.Name == a {
						isAcc = true
					}
				}
				if !isAcc {
					return true
				}
				// only accessors of go/types, reflect and the octohelm type view
				recvT := info.TypeOf(sel.X)
				if recvT == nil {
					return true
				}
				found++
				base := canonBase(p, f, sel.X, 0)
				same := base == boundCanon
				how := "accessor base equals the loop bound's base " + core.ExprStr(bsel.X)
				if !same {
					// reflect pair: bound rv.NumField()/rv.Len(), accessor tpe.Field(i) with tpe = rv.Type()
					if base == boundCanon+".Type()" {
						same, how = true, "accessor base is <bound base>.Type() (reflect value/type pair have the same arity)"
					}
				}
				if !same {
					// a dominating i < Y.Len() guard inside the loop
					g := graph(f)
					for _, fct := range g.FactsAt(g.PointOf(c)) {
						bb, ok := ast.Unparen(fct.Cond).(*ast.BinaryExpr)
						if !ok || !fct.Val || bb.Op != token.LSS || core.VarOf(info, bb.X) != iv {
							continue
						}
						if gc, ok := ast.Unparen(bb.Y).(*ast.CallExpr); ok {
							gcanon := canonBase(p, f, gc, 0)
							if i := strings.LastIndex(gcanon, "."); i > 0 && gcanon[:i] == base {
								same, how = true, "guarded by "+core.ExprStr(fct.Cond)
							}
						}
					}
				}
				r.Check(same, rule, f, core.ExprStr(c)+" inside the loop bounded by "+core.ExprStr(b.Y), c.Pos(), how,
					"the index is bounded by the length of `"+core.ExprStr(bsel.X)+"` but applied to `"+core.ExprStr(sel.X)+"`, a different sequence: when it is shorter the access panics (index out of range)")
				return true
			})
			return true
		})
	}
}

// ---- R4: length summaries ----

type lenSummary struct {
	ok  bool
	why string
}

func c14R4(p *core.Program, r *core.Report) {
	const rule = "R4"
	r.Floor(rule, 5)
	res := p.FuncByName("pkg/types", "(*funcResultsResolver).Results")
	if res == nil {
		r.Anchor(rule, "pkg/types.(*funcResultsResolver).Results")
		return
	}
	info := res.Info()
	g := graph(res)
	// retN variable: defined from ...Results().Len()
	isZeroArity := func(at cfgxPoint) bool {
		for _, fct := range g.FactsAt(at) {
			x, op, c, ok := cmpConst(info, fct.Cond)
			if !ok || c != 0 {
				continue
			}
			if !((op == token.EQL && fct.Val) || (op == token.NEQ && !fct.Val)) {
				continue
			}
			e, _ := core.Resolve(info, res.Body, x)
			if strings.HasSuffix(canonBase(p, res, e, 0), ".sig.Results().Len()") {
				return true
			}
		}
		return false
	}
	memo := map[*core.Func]*lenSummary{}
	nret := 0
	for _, rp := range g.Points(func(n ast.Node) bool { _, ok := n.(*ast.ReturnStmt); return ok }) {
		ret := rp.Node().(*ast.ReturnStmt)
		nret++
		construct := "Results: " + core.ExprStr(ret)
		if isZeroArity(rp) {
			r.OK(rule, res, construct+" (under n == 0)", ret.Pos(), "no results declared: the empty list is correct")
			continue
		}
		if len(ret.Results) == 0 {
			// bare return of the named result: must have been assigned a LenN value on every path - not supported: named result never assigned
			named := namedResultVar(res)
			if named != nil && len(core.DefsOf(info, res.Body, named)) == 0 {
				r.Bad(rule, res, construct+" (bare return)", ret.Pos(), "returns the never-assigned named result (nil) although n > 0: ResultsOf yields 0 lists instead of n non-empty ones")
			} else {
				r.Unknown(rule, res, construct+" (bare return)", ret.Pos(), "cannot summarise the named result")
			}
			continue
		}
		s := summarizeExpr(p, res, ret.Results[0], memo, 0)
		r.Check(s.ok, rule, res, construct, ret.Pos(), s.why, "the returned list is not guaranteed to have one non-empty alternatives list per declared result: "+s.why)
	}
	if nret == 0 {
		r.Anchor(rule, "return statements of Results")
	}
}

func namedResultVar(f *core.Func) *types.Var {
	if f.Type.Results == nil || len(f.Type.Results.List) != 1 || len(f.Type.Results.List[0].Names) != 1 {
		return nil
	}
	v, _ := f.Info().ObjectOf(f.Type.Results.List[0].Names[0]).(*types.Var)
	return v
}

// summarizeExpr: is e a FuncResults value with one non-empty list per result?
func summarizeExpr(p *core.Program, f *core.Func, e ast.Expr, memo map[*core.Func]*lenSummary, depth int) lenSummary {
	info := f.Info()
	if depth > 6 {
		return lenSummary{false, "summary depth exceeded"}
	}
	e = ast.Unparen(e)
	if id, ok := e.(*ast.Ident); ok {
		if id.Name == "nil" && info.ObjectOf(id) == types.Universe.Lookup("nil") {
			return lenSummary{false, "returns nil"}
		}
		v, _ := info.ObjectOf(id).(*types.Var)
		if v == nil {
			return lenSummary{false, "not a variable"}
		}
		if nr := namedResultVar(f); nr == v && len(core.DefsOf(info, f.Body, v)) == 0 {
			return lenSummary{false, "named result " + id.Name + " is never assigned (nil)"}
		}
		if isParamOf(f, v) && namedResultVar(f) != v {
			return lenSummary{false, "parameter " + id.Name}
		}
		if f.Decl != nil && f.Decl.Recv != nil && len(f.Decl.Recv.List[0].Names) == 1 && info.ObjectOf(f.Decl.Recv.List[0].Names[0]) == types.Object(v) {
			return lenSummary{true, "RECEIVER"}
		}
		defs := core.DefsOf(info, f.Body, v)
		if len(defs) == 0 {
			return lenSummary{false, "variable " + id.Name + " is never assigned (nil)"}
		}
		if len(defs) == 1 && defs[0].Rhs != nil {
			if mk, ok := ast.Unparen(defs[0].Rhs).(*ast.CallExpr); ok && core.CalleeName(info, mk) == "builtin.make" && len(mk.Args) == 2 {
				return filledByLoop(p, f, v, mk.Args[1])
			}
			return summarizeExpr(p, f, defs[0].Rhs, memo, depth+1)
		}
		return lenSummary{false, "variable " + id.Name + " has several definitions"}
	}
	call, ok := e.(*ast.CallExpr)
	if !ok {
		return lenSummary{false, "unsupported expression " + core.ExprStr(e)}
	}
	// local closure call: summarise the closure's returns... only when every return is LenN
	if v := core.VarOf(info, call.Fun); v != nil {
		return lenSummary{false, "result of a local closure (not summarised)"}
	}
	callee := p.FuncOfObj(core.CalleeFunc(info, call))
	if callee == nil {
		return lenSummary{false, "callee of " + core.ExprStr(call) + " not in scope"}
	}
	s := summarizeFunc(p, callee, memo, depth+1)
	if s.ok && s.why == "RECEIVER" {
		// passthrough of the receiver: summarise the receiver expression at the call site
		rs := summarizeExpr(p, f, recvOf(call), memo, depth+1)
		if rs.ok {
			return lenSummary{true, callee.Name + " returns its receiver, which is: " + rs.why}
		}
		return lenSummary{false, callee.Name + " returns its receiver, which is not summarised as complete: " + rs.why}
	}
	if s.ok {
		return lenSummary{true, callee.Name + ": " + s.why}
	}
	return lenSummary{false, callee.Name + ": " + s.why}
}

func summarizeFunc(p *core.Program, f *core.Func, memo map[*core.Func]*lenSummary, depth int) lenSummary {
	if s, ok := memo[f]; ok {
		if s == nil {
			return lenSummary{false, "recursive summary"}
		}
		return *s
	}
	memo[f] = nil
	info := f.Info()
	g := graph(f)
	out := lenSummary{true, ""}
	var whys []string
	n := 0
	for _, rp := range g.Points(func(n ast.Node) bool { _, ok := n.(*ast.ReturnStmt); return ok }) {
		ret := rp.Node().(*ast.ReturnStmt)
		n++
		var s lenSummary
		if len(ret.Results) == 0 {
			named := namedResultVar(f)
			if named == nil {
				s = lenSummary{false, "bare return"}
			} else {
				s = summarizeExpr(p, f, identFor(info, f, named), memo, depth+1)
			}
		} else {
			// reviewed: `return nil` under `<FuncType param> == nil`
			if id, ok := ast.Unparen(ret.Results[0]).(*ast.Ident); ok && id.Name == "nil" {
				guarded := false
				for _, fct := range g.FactsAt(rp) {
					b, ok := ast.Unparen(fct.Cond).(*ast.BinaryExpr)
					if !ok || b.Op != token.EQL || !fct.Val {
						continue
					}
					if v := core.VarOf(info, b.X); v != nil && isParamOf(f, v) && core.NamedTypeName(v.Type()) == "go/ast.FuncType" {
						guarded = true
					}
				}
				if guarded {
					s = lenSummary{true, "(`return nil` only for a nil *ast.FuncType, which FuncDecl/FuncLit never have)"}
				} else {
					s = lenSummary{false, "returns nil"}
				}
			} else {
				s = summarizeExpr(p, f, ret.Results[0], memo, depth+1)
			}
		}
		if !s.ok {
			out.ok = false
			whys = append(whys, fmt.Sprintf("`%s` %s", core.ExprStr(ret), s.why))
		} else if s.why != "" {
			whys = append(whys, s.why)
		}
	}
	if n == 0 {
		out = lenSummary{false, "no return statement"}
	}
	if out.ok {
		// all returns are the receiver?
		all := true
		for _, w := range whys {
			if w != "RECEIVER" {
				all = false
			}
		}
		if all && len(whys) > 0 {
			out.why = "RECEIVER"
		} else {
			out.why = strings.Join(whys, "; ")
		}
	} else {
		out.why = strings.Join(whys, "; ")
	}
	memo[f] = &out
	return out
}

// filledByLoop: v = make(T, L); a counted loop 0..L assigns every slot an
// append, unconditionally or under the `len(v[i]) == 0` fallback.
func filledByLoop(p *core.Program, f *core.Func, v *types.Var, length ast.Expr) lenSummary {
	info := f.Info()
	want := canonBase(p, f, length, 0)
	result := lenSummary{false, "no loop 0.." + core.ExprStr(length) + " fills every slot of " + v.Name()}
	ast.Inspect(f.Body, func(n ast.Node) bool {
		iv, lbound, lbody, lop, ok := countedLoop(info, n)
		if !ok || lop != token.LSS {
			return true
		}
		fs := struct{ Body *ast.BlockStmt }{lbody}
		b := struct{ Y ast.Expr }{lbound}
		if iv == nil || canonBase(p, f, b.Y, 0) != want {
			if iv != nil {
				// a loop over this slice with another bound
				ast.Inspect(fs.Body, func(m ast.Node) bool {
					if as, ok := m.(*ast.AssignStmt); ok && len(as.Lhs) == 1 {
						if ix, ok := ast.Unparen(as.Lhs[0]).(*ast.IndexExpr); ok && core.VarOf(info, ix.X) == v {
							result = lenSummary{false, "the filling loop is bounded by `" + core.ExprStr(b.Y) + "`, not by the allocated length `" + core.ExprStr(length) + "`"}
						}
					}
					return true
				})
			}
			return true
		}
		// starts at 0 and steps by one: the range-over-int form does by definition
		if ff, isFor := n.(*ast.ForStmt); isFor {
			init, ok := ff.Init.(*ast.AssignStmt)
			if !ok || len(init.Rhs) != 1 || !constIs(info, init.Rhs[0], 0) {
				return true
			}
			if post, ok := ff.Post.(*ast.IncDecStmt); !ok || post.Tok != token.INC {
				return true
			}
		}
		// top-level statements of the loop body
		isSlotAppend := func(s ast.Stmt) bool {
			as, ok := s.(*ast.AssignStmt)
			if !ok || len(as.Lhs) != 1 || len(as.Rhs) != 1 {
				return false
			}
			ix, ok := ast.Unparen(as.Lhs[0]).(*ast.IndexExpr)
			if !ok || core.VarOf(info, ix.X) != v || core.VarOf(info, ix.Index) != iv {
				return false
			}
			c, ok := as.Rhs[0].(*ast.CallExpr)
			return ok && core.CalleeName(info, c) == "builtin.append" && len(c.Args) >= 2 && core.SameRef(info, c.Args[0], as.Lhs[0])
		}
		for _, s := range fs.Body.List {
			if isSlotAppend(s) {
				result = lenSummary{true, "make(_, n) with a loop 0..n appending to every slot"}
				return false
			}
			if ifs, ok := s.(*ast.IfStmt); ok && ifs.Else == nil {
				x, op, c, okc := cmpConst(info, ifs.Cond)
				if okc && op == token.EQL && c == 0 {
					if lc, ok := ast.Unparen(x).(*ast.CallExpr); ok && core.CalleeName(info, lc) == "builtin.len" {
						if ix, ok := ast.Unparen(lc.Args[0]).(*ast.IndexExpr); ok && core.VarOf(info, ix.X) == v && core.VarOf(info, ix.Index) == iv {
							for _, bs := range ifs.Body.List {
								if isSlotAppend(bs) {
									result = lenSummary{true, "make(_, n) with a loop 0..n whose `len(slot) == 0` fallback appends the declared type"}
									return false
								}
							}
						}
					}
				}
			}
		}
		result = lenSummary{false, "the loop over " + v.Name() + " does not make every slot non-empty (no unconditional append and no `len(slot) == 0` fallback)"}
		return true
	})
	return result
}

func c14R5(p *core.Program, r *core.Report, fs []*core.Func) {
	const rule = "R5"
	r.Floor(rule, 3)
	n := 0
	for _, f := range fs {
		for _, os := range orderSources(f) {
			n++
			r.Bad(rule, f, "order source in the resolver: "+os.What, os.Pos, "the answer of ResultsOf would depend on iteration/scheduling order")
		}
		for _, w := range nonLocalWrites(f) {
			// writes into per-call values (the visited set, the list being concatenated) are fine
			perCall := false
			var lhs []ast.Expr
			switch x := w.(type) {
			case *ast.AssignStmt:
				lhs = x.Lhs
			case *ast.IncDecStmt:
				lhs = []ast.Expr{x.X}
			}
			if len(lhs) > 0 {
				perCall = true
				for _, l := range lhs {
					if id, isID := l.(*ast.Ident); isID && id.Name == "_" {
						continue
					}
					if !perCallValue(f, l, 0) {
						perCall = false
					}
				}
			}
			if !perCall {
				n++
				r.Bad(rule, f, "shared-state write in the resolver: "+core.ExprStr(w), w.Pos(), "ResultsOf must give the same answer on every call; a write to shared memory lets earlier calls influence later ones")
			}
		}
	}
	if n == 0 {
		r.OK(rule, nil, "resolver has no order source and writes only per-call values", token.NoPos, fmt.Sprintf("%d function bodies scanned", len(fs)))
	}
	// the visited set is allocated per call
	ro := p.FuncByName("pkg/types", "(*pkgInfo).ResultsOf")
	if ro == nil {
		r.Anchor(rule, "pkg/types.(*pkgInfo).ResultsOf")
	} else {
		fresh := false
		for _, c := range core.CallsTo(ro.Info(), ro.Body, false, core.GM("pkg/types", "*funcResultsResolver", "Results")) {
			if len(c.Args) == 1 {
				if cl, ok := ast.Unparen(c.Args[0]).(*ast.CompositeLit); ok && len(cl.Elts) == 0 {
					fresh = true
				}
			}
		}
		r.Check(fresh, rule, ro, "visited set is allocated per ResultsOf call", ro.Node().Pos(), "Results(visits{})", "the visited set is not a fresh `visits{}` per call: marks of an earlier call cut a later one short")
	}
	// the unused cache field stays unused; no package-level map of results
	uses := 0
	pkg := p.Pkg("pkg/types")
	for _, file := range pkg.Syntax {
		ast.Inspect(file, func(nd ast.Node) bool {
			if sel, ok := nd.(*ast.SelectorExpr); ok {
				if fld := core.FieldOf(pkg.TypesInfo, sel); fld != nil && fld.Name() == "funcResults" {
					uses++
				}
			}
			return true
		})
	}
	r.Check(uses == 0, rule, nil, "pkgInfo.funcResults cache is not used", token.NoPos, "no selector refers to the field", "the result cache field is read or written: answers may come from an earlier (differently cut) resolution")
}

// perCallValue: the memory written through e belongs to this call: a value of
// the per-call types (visits, FuncResults), a fresh local, or a local all of
// whose definitions are such values (aliases like `marks, ok := v[t]`).
func perCallValue(f *core.Func, e ast.Expr, depth int) bool {
	info := f.Info()
	// assigning a local variable itself (no memory reached through it) is always local
	if v := core.VarOf(info, e); v != nil && depth == 0 {
		encl := f.Root()
		if core.DeclaredIn(encl.Info(), encl.Body, v) {
			return true
		}
	}
	root := e
	for {
		switch x := ast.Unparen(root).(type) {
		case *ast.IndexExpr:
			root = x.X
			continue
		case *ast.SelectorExpr:
			root = x.X
			continue
		case *ast.StarExpr:
			root = x.X
			continue
		}
		break
	}
	switch x := ast.Unparen(root).(type) {
	case *ast.CompositeLit:
		return true
	case *ast.CallExpr:
		switch core.CalleeName(info, x) {
		case "builtin.make", "builtin.new", "builtin.append":
			return true
		}
		return false
	}
	v := core.VarOf(info, root)
	if v == nil || depth > 4 {
		return false
	}
	tn := core.NamedTypeName(v.Type())
	if tn == core.G("pkg/types.visits") || tn == core.G("pkg/types.FuncResults") {
		return true
	}
	encl := f.Root()
	if !core.DeclaredIn(encl.Info(), encl.Body, v) {
		return false // parameter, receiver or package-level
	}
	defs := core.DefsOf(info, encl.Body, v)
	if len(defs) == 0 {
		return true // zero-valued local
	}
	for _, d := range defs {
		switch d.Kind {
		case "incdec", "opassign":
			continue
		}
		if d.Rhs == nil {
			continue
		}
		if d.Index > 0 && d.Kind != "range-value" {
			continue // the ok of a comma-ok
		}
		if _, isBasic := v.Type().Underlying().(*types.Basic); isBasic {
			continue // scalars are copies
		}
		if !perCallValue(f, d.Rhs, depth+1) {
			return false
		}
	}
	return true
}

// ---- R6: index/bound pairing across calls ----
//
// An element accessor B.At(i) / Field(i) / ... whose index is a parameter of the
// enclosing function (not a loop variable, not guarded by i < B.Len()) is only
// safe if every caller passes an index that is bounded by the length of the very
// same sequence. The obligation follows the parameter to every static call site
// (receiver and parameters of the callee are translated into the caller's
// expressions) until it meets a counted loop; the loop's bound base must then be
// the translated accessor base.

var accessorNames = func() map[string]bool {
	m := map[string]bool{}
	for _, accs := range boundAccessors {
		for _, a := range accs {
			m[a] = true
		}
	}
	return m
}()

// relCanon renders e relative to f: the receiver as <recv>, parameters as <param k>.
func relCanon(p *core.Program, f *core.Func, e ast.Expr) string {
	s := canonBase(p, f, e, 0)
	root := f.Root()
	info := f.Info()
	if root.Decl != nil && root.Decl.Recv != nil && len(root.Decl.Recv.List) == 1 && len(root.Decl.Recv.List[0].Names) == 1 {
		id := root.Decl.Recv.List[0].Names[0]
		if o := info.ObjectOf(id); o != nil {
			s = strings.ReplaceAll(s, fmt.Sprintf("%s#%d", id.Name, o.Pos()), "<recv>")
		}
	}
	if root.Type != nil && root.Type.Params != nil {
		k := 0
		for _, fld := range root.Type.Params.List {
			for _, id := range fld.Names {
				if o := info.ObjectOf(id); o != nil {
					s = strings.ReplaceAll(s, fmt.Sprintf("%s#%d", id.Name, o.Pos()), fmt.Sprintf("<param %d>", k))
				}
				k++
			}
			if len(fld.Names) == 0 {
				k++
			}
		}
	}
	return s
}

// translate a callee-relative canon into the caller's terms at a call site.
func translateCanon(p *core.Program, caller *core.Func, call *ast.CallExpr, rel string) string {
	if strings.Contains(rel, "<recv>") {
		rel = strings.ReplaceAll(rel, "<recv>", "\x00R")
	}
	for k, a := range call.Args {
		tok := fmt.Sprintf("<param %d>", k)
		if strings.Contains(rel, tok) {
			rel = strings.ReplaceAll(rel, tok, relCanon(p, caller, a))
		}
	}
	if strings.Contains(rel, "\x00R") {
		rel = strings.ReplaceAll(rel, "\x00R", relCanon(p, caller, recvOf(call)))
	}
	return rel
}

// indexBoundedFor: in function f, is index expression idx (at node `at`) bounded by the length of relBase?
func indexBoundedFor(p *core.Program, f *core.Func, at ast.Node, idx ast.Expr, relBase string, depth int) (bool, string) {
	info := f.Info()
	if depth > 4 {
		return false, "call chain too deep"
	}
	if c, ok := core.ConstInt(info, idx); ok {
		_ = c
		return false, "constant index " + core.ExprStr(idx) + " is not bounded by a length test"
	}
	iv := core.VarOf(info, idx)
	if iv == nil {
		return false, "index `" + core.ExprStr(idx) + "` is not a variable"
	}
	lenOf := func(e ast.Expr) string {
		c, ok := ast.Unparen(e).(*ast.CallExpr)
		if !ok {
			return ""
		}
		canon := relCanon(p, f, c)
		i := strings.LastIndex(canon, ".")
		if i <= 0 {
			return ""
		}
		m := strings.TrimSuffix(canon[i+1:], "()")
		if _, ok := boundAccessors[m]; !ok {
			return ""
		}
		return canon[:i]
	}
	// enclosing counted loop over iv
	path := core.PathTo(f.Root().Body, at)
	for k := len(path) - 1; k >= 0; k-- {
		liv, lbound, _, lop, ok := countedLoop(info, path[k])
		if !ok {
			continue
		}
		b := struct{ Y ast.Expr }{lbound}
		if lop == token.LSS && liv == iv {
			if lb := lenOf(b.Y); lb != "" {
				if lb == relBase {
					return true, "loop bounded by the same sequence in " + f.Root().Name
				}
				return false, "the index comes from a loop in " + f.Root().Name + " bounded by the length of `" + core.ExprStr(b.Y) + "`, a different sequence"
			}
		}
	}
	// dominating guard iv < B.Len()
	g := graph(f)
	for _, fct := range g.FactsAt(g.PointOf(at)) {
		bb, ok := ast.Unparen(fct.Cond).(*ast.BinaryExpr)
		if ok && fct.Val && bb.Op == token.LSS && core.VarOf(info, bb.X) == iv && lenOf(bb.Y) == relBase {
			return true, "guarded by " + core.ExprStr(fct.Cond)
		}
		if ok && !fct.Val && bb.Op == token.GEQ && core.VarOf(info, bb.X) == iv && lenOf(bb.Y) == relBase {
			return true, "guarded by !(" + core.ExprStr(fct.Cond) + ")"
		}
	}
	// a parameter: every static call site must pass a bounded index
	root := f.Root()
	if isParamOf(root, iv) && root.Obj() != nil {
		k := paramIndex(root, iv)
		sites := 0
		for _, cs := range allCalls(p) {
			if cs.In.Body == nil || core.CalleeFunc(cs.In.Info(), cs.Call) != root.Obj() || k >= len(cs.Call.Args) {
				continue
			}
			sites++
			tr := translateCanon(p, cs.In, cs.Call, relBase)
			if ok, why := indexBoundedFor(p, cs.In, cs.Call, cs.Call.Args[k], tr, depth+1); !ok {
				return false, "call `" + core.ExprStr(cs.Call) + "` in " + cs.In.QName() + ": " + why
			}
		}
		if len(funcValueUses(p, root.Obj())) > 0 || sites == 0 {
			return false, root.Name + " escapes as a value or has no static caller: its index parameter is unconstrained"
		}
		return true, fmt.Sprintf("all %d call site(s) of %s pass an index bounded by the same sequence", sites, root.Name)
	}
	return false, "index `" + core.ExprStr(idx) + "` is neither a bounded loop variable, guarded, nor a parameter"
}

func c14R6(p *core.Program, r *core.Report) {
	const rule = "R6"
	n := 0
	for _, f := range p.Funcs() {
		if core.RelPkg(f.Pkg.PkgPath) != "pkg/types" {
			continue
		}
		info := f.Info()
		ast.Inspect(f.Body, func(nd ast.Node) bool {
			if lit, ok := nd.(*ast.FuncLit); ok && lit != f.Lit {
				return false
			}
			c, ok := nd.(*ast.CallExpr)
			if !ok || len(c.Args) != 1 {
				return true
			}
			sel, ok := ast.Unparen(c.Fun).(*ast.SelectorExpr)
			if !ok || !accessorNames[sel.Sel.Name] {
				return true
			}
			// only go/types style accessors (a method with an int parameter on a value with a matching length method)
			fn := core.CalleeFunc(info, c)
			if fn == nil || fn.Pkg() == nil || (fn.Pkg().Path() != "go/types" && fn.Pkg().Path() != "reflect") {
				return true
			}
			iv := core.VarOf(info, c.Args[0])
			if iv == nil || !isParamOf(f.Root(), iv) {
				return true // loop variables and locals are R3's business
			}
			n++
			base := relCanon(p, f, sel.X)
			ok2, why := indexBoundedFor(p, f, c, c.Args[0], base, 0)
			r.Check(ok2, rule, f, core.ExprStr(c)+": the index parameter is bounded by the same sequence at every call site", c.Pos(), why,
				"`"+core.ExprStr(c)+"` indexes `"+core.ExprStr(sel.X)+"` with a parameter that some caller does not bound by that sequence's length ("+why+"): the access panics (index out of range) when the caller's sequence is longer")
			return true
		})
	}
	if n == 0 {
		r.OK(rule, nil, "no element accessor in pkg/types is indexed by an unguarded parameter", token.NoPos, "every X.At(i)/Field(i)/... takes a loop variable or guarded index (R3)")
	}
}

// ---- R7: declarations win in the signature table ----
//
// The table signature -> syntax node is filled from declarations (FuncDecl /
// FuncLit, which carry a body to scan) and from call sites (an identifier, used
// only as a fallback for functions without a body in the package). A declaration
// is stored only when the slot is free, so every declaration store has to happen
// before any call-site store can run: a call seen before its callee's declaration
// would otherwise occupy the slot and the declaration's returns are never scanned
// (a literal-only function then answers with its declared type instead of its values).
func c14R7(p *core.Program, r *core.Report) {
	const rule = "R7"
	r.Floor(rule, 2)
	np := p.FuncByName("pkg/types", "newPkg")
	if np == nil {
		r.Anchor(rule, "pkg/types.newPkg")
		return
	}
	info := np.Info()
	g := graph(np)
	type store struct {
		f     *core.Func
		as    *ast.AssignStmt
		decl  bool
		at    ast.Node   // the call in newPkg's code through which the store happens (nil: the store itself)
		top   *core.Func // the literal directly nested in newPkg that contains the store (nil: newPkg itself)
		guard bool       // stored only when the slot is free
	}
	var stores []store
	for _, f := range p.Funcs() {
		if f.Root() != np {
			continue
		}
		fg := graph(f)
		ast.Inspect(f.Body, func(nd ast.Node) bool {
			if lit, ok := nd.(*ast.FuncLit); ok && lit != f.Lit {
				return false
			}
			as, ok := nd.(*ast.AssignStmt)
			if !ok || len(as.Lhs) != 1 || len(as.Rhs) != 1 {
				return true
			}
			ix, ok := ast.Unparen(as.Lhs[0]).(*ast.IndexExpr)
			if !ok {
				return true
			}
			if fld := core.FieldOf(info, ix.X); fld == nil || fld.Name() != "signatures" {
				return true
			}
			st := store{f: f, as: as}
			switch core.NamedTypeName(info.TypeOf(as.Rhs[0])) {
			case "go/ast.FuncDecl", "go/ast.FuncLit":
				st.decl = true
			}
			for x := f; x != nil && x != np; x = x.Parent {
				if x.Parent == np {
					st.top = x
				}
			}
			for _, fct := range fg.FactsAt(fg.PointOf(as)) {
				v := core.VarOf(info, fct.Cond)
				if v == nil || fct.Val {
					continue
				}
				if d, isDef := core.SingleDef(info, f.Body, v); isDef && d.Index == 1 {
					if dix, isIx := ast.Unparen(d.Rhs).(*ast.IndexExpr); isIx {
						if fld := core.FieldOf(info, dix.X); fld != nil && fld.Name() == "signatures" {
							st.guard = true
						}
					}
				}
			}
			stores = append(stores, st)
			return true
		})
		// an arm moved into a function of the package (`p.recordFuncDecl(x)`): its stores happen at the call
		for _, c := range core.Calls(f.Body, false) {
			h := p.FuncOfObj(core.CalleeFunc(info, c))
			if h == nil || h.Pkg != np.Pkg || h.Decl == nil || h.Body == nil || h == np {
				continue
			}
			hinfo := h.Info()
			hg := graph(h)
			ast.Inspect(h.Body, func(nd ast.Node) bool {
				if _, isLit := nd.(*ast.FuncLit); isLit {
					return false
				}
				as, ok := nd.(*ast.AssignStmt)
				if !ok || len(as.Lhs) != 1 || len(as.Rhs) != 1 {
					return true
				}
				ix, ok := ast.Unparen(as.Lhs[0]).(*ast.IndexExpr)
				if !ok {
					return true
				}
				if fld := core.FieldOf(hinfo, ix.X); fld == nil || fld.Name() != "signatures" {
					return true
				}
				st := store{f: f, as: as, at: c}
				switch core.NamedTypeName(hinfo.TypeOf(as.Rhs[0])) {
				case "go/ast.FuncDecl", "go/ast.FuncLit":
					st.decl = true
				}
				for x := f; x != nil && x != np; x = x.Parent {
					if x.Parent == np {
						st.top = x
					}
				}
				for _, fct := range hg.FactsAt(hg.PointOf(as)) {
					v := core.VarOf(hinfo, fct.Cond)
					if v == nil || fct.Val {
						continue
					}
					if d, isDef := core.SingleDef(hinfo, h.Body, v); isDef && d.Index == 1 {
						if dix, isIx := ast.Unparen(d.Rhs).(*ast.IndexExpr); isIx {
							if fld := core.FieldOf(hinfo, dix.X); fld != nil && fld.Name() == "signatures" {
								st.guard = true
							}
						}
					}
				}
				stores = append(stores, st)
				return true
			})
		}
	}
	pointOf := func(st store) cfgxPoint {
		if st.top == nil {
			if st.at != nil {
				return g.PointOf(st.at)
			}
			return g.PointOf(st.as)
		}
		return g.PointOf(st.top.Lit)
	}
	nd, nc := 0, 0
	for _, d := range stores {
		if !d.decl {
			nc++
			continue
		}
		nd++
		why := ""
		for _, c := range stores {
			if c.decl || !d.guard {
				continue
			}
			if c.top != nil && c.top == d.top {
				why = "a call-site store (`" + core.ExprStr(c.as) + "`) runs in the same traversal as this declaration store"
			} else if g.CanReach(pointOf(c), pointOf(d)) {
				why = "a call-site store (`" + core.ExprStr(c.as) + "`) can run before this declaration store"
			}
		}
		r.Check(why == "", rule, d.f, "declaration store "+core.ExprStr(d.as)+" cannot be pre-empted by a call-site entry", d.as.Pos(), "all declaration stores precede every call-site store (or are unconditional)",
			why+", and the declaration is only stored when the slot is free: a function called above its declaration keeps the call-site identifier in the table, its body is never scanned and its results degrade to the declared types")
	}
	if nd == 0 || nc == 0 {
		r.Anchor(rule, "declaration and call-site stores into the signature table in newPkg")
	}
}

// c14R9: the visited marks of a function type are indexed by result position; the list of marks must have one slot
// per result, i.e. per name of every result field (`(w, h int)` is one field and two results) - not one per field.
func c14R9(p *core.Program, r *core.Report) {
	const rule = "R9"
	r.Floor(rule, 1)
	f := p.FuncByName("pkg/types", "visits.visited")
	if f == nil {
		r.Anchor(rule, "pkg/types.visits.visited")
		return
	}
	info := f.Info()
	found := false
	for _, c := range core.Calls(f.Body, true) {
		if core.CalleeName(info, c) != "builtin.make" || len(c.Args) < 2 {
			continue
		}
		sl, ok := info.TypeOf(c.Args[0]).Underlying().(*types.Slice)
		if !ok || !isBasicKind(sl.Elem(), types.Bool) {
			continue
		}
		found = true
		size := ast.Unparen(c.Args[1])
		if rs, _ := core.Resolve(info, f.Body, size); rs != nil {
			if _, isCall := ast.Unparen(rs).(*ast.CallExpr); isCall {
				size = ast.Unparen(rs) // n := t.Results.NumFields(); make([]bool, n)
			}
		}
		good, how := false, ""
		if nc, ok := size.(*ast.CallExpr); ok && core.CalleeName(info, nc) == "(*go/ast.FieldList).NumFields" {
			good, how = true, "FieldList.NumFields() counts the names of every field"
		} else if v := core.VarOf(info, size); v != nil {
			// a counter: starts at 0 and grows by len(field.Names) (or 1 for an unnamed field) per result field
			perName, other := false, false
			for _, d := range core.DefsOf(info, f.Body, v) {
				switch d.Kind {
				case "define", "var", "assign":
					if k, isC := core.ConstInt(info, d.Rhs); d.Rhs == nil || !isC || k != 0 {
						other = true
					}
				case "opassign":
					as := d.Stmt.(*ast.AssignStmt)
					if as.Tok != token.ADD_ASSIGN {
						other = true
						break
					}
					rhs := ast.Unparen(d.Rhs)
					if k, isC := core.ConstInt(info, rhs); isC && k == 1 {
						break
					}
					lenNames := func(e ast.Expr) bool {
						lc, ok := ast.Unparen(e).(*ast.CallExpr)
						if !ok || core.CalleeName(info, lc) != "builtin.len" || len(lc.Args) != 1 {
							return false
						}
						fld := core.FieldOf(info, lc.Args[0])
						return fld != nil && fld.Name() == "Names"
					}
					if lenNames(rhs) {
						perName = true
						break
					}
					// max(len(field.Names), 1): an unnamed result field is one result
					if mc, ok := rhs.(*ast.CallExpr); ok && core.CalleeName(info, mc) == "builtin.max" && len(mc.Args) == 2 {
						k0, c0 := core.ConstInt(info, mc.Args[0])
						k1, c1 := core.ConstInt(info, mc.Args[1])
						if (lenNames(mc.Args[0]) && c1 && k1 == 1) || (lenNames(mc.Args[1]) && c0 && k0 == 1) {
							perName = true
							break
						}
					}
					other = true
				case "incdec":
					if d.Stmt.(*ast.IncDecStmt).Tok != token.INC {
						other = true
					}
				default:
					other = true
				}
			}
			good, how = perName && !other, "counter that adds len(field.Names) (or 1) per result field"
		}
		r.Check(good, rule, f, "the list of marks has one slot per result", c.Pos(), how,
			"the list of visited marks is sized by `"+core.ExprStr(size)+"`, which is not the number of results (names of every result field): for a result list that groups names - `(w, h int)` - a result position lies outside the list and ResultsOf panics with index out of range")
	}
	if !found {
		r.Anchor(rule, "make([]bool, n) of the visited marks")
	}
}

// c14R10: "no panic": a single-value assertion to the package record panics when its operand is nil. The resolver takes
// the package of a function it follows from the UNIVERSE, which holds the whole dependency closure - never from the
// table of the current package's direct imports, which lacks the packages reached through a selector on a value of a
// transitive dependency (`resp.Body.Close()`).
func c14R10(p *core.Program, r *core.Report, fs []*core.Func) {
	const rule = "R10"
	r.Floor(rule, 2)
	n := 0
	for _, f := range fs {
		if f.Body == nil {
			continue
		}
		info := f.Info()
		commaOK := map[*ast.TypeAssertExpr]bool{}
		ast.Inspect(f.Body, func(m ast.Node) bool {
			switch x := m.(type) {
			case *ast.AssignStmt:
				if len(x.Lhs) == 2 && len(x.Rhs) == 1 {
					if ta, ok := ast.Unparen(x.Rhs[0]).(*ast.TypeAssertExpr); ok {
						commaOK[ta] = true
					}
				}
			case *ast.ValueSpec:
				if len(x.Names) == 2 && len(x.Values) == 1 {
					if ta, ok := ast.Unparen(x.Values[0]).(*ast.TypeAssertExpr); ok {
						commaOK[ta] = true
					}
				}
			}
			return true
		})
		ast.Inspect(f.Body, func(m ast.Node) bool {
			if lit, ok := m.(*ast.FuncLit); ok && lit != f.Lit {
				return false
			}
			ta, ok := m.(*ast.TypeAssertExpr)
			if !ok || ta.Type == nil || commaOK[ta] {
				return true
			}
			pt, isPtr := info.TypeOf(ta.Type).(*types.Pointer)
			if !isPtr || core.NamedTypeName(pt.Elem()) != core.G("pkg/types.pkgInfo") {
				return true
			}
			n++
			op, _ := core.Resolve(info, f.Root().Body, ta.X)
			fromUniverse := core.AsCall(info, op, core.GM("pkg/types", "*Universe", "Package")) != nil
			r.Check(fromUniverse, rule, f, "the package record of a followed function comes from the universe: "+core.ExprStr(ta), ta.Pos(), "operand is Universe.Package(path)",
				"the unchecked assertion `"+core.ExprStr(ta)+"` is applied to something else than a lookup in the universe: a function reached through a selector can be declared in a package that is only a transitive dependency - a table of direct imports answers nil for it and the assertion panics")
			return true
		})
	}
	if n == 0 {
		r.Anchor(rule, "assertions to *pkgInfo in the result resolver")
	}
}

// c14R11: "exactly those values in source order": the scan for the return statements of a body visits every statement.
// The callback handed to ast.Inspect answers false - do not descend - only for function literals (their returns belong
// to another function), for the nil node, for a return statement itself, and when the consumer stopped.
func c14R11(p *core.Program, r *core.Report, fs []*core.Func) {
	const rule = "R11"
	r.Floor(rule, 1)
	n := 0
	for _, f := range fs {
		if f.Lit == nil || f.Parent == nil {
			continue
		}
		// the callback of an ast.Inspect call that has a clause for *ast.ReturnStmt
		isInspectArg := false
		for _, c := range core.Calls(f.Parent.Body, true) {
			if core.CalleeName(f.Parent.Info(), c) == "go/ast.Inspect" && len(c.Args) == 2 && ast.Unparen(c.Args[1]) == ast.Expr(f.Lit) {
				isInspectArg = true
			}
		}
		if !isInspectArg {
			continue
		}
		info := f.Info()
		hasReturnClause := false
		ast.Inspect(f.Body, func(m ast.Node) bool {
			if cc, ok := m.(*ast.CaseClause); ok {
				for _, e := range cc.List {
					if core.NamedTypeName(info.TypeOf(e)) == "go/ast.ReturnStmt" {
						hasReturnClause = true
					}
				}
			}
			return true
		})
		if !hasReturnClause {
			continue
		}
		n++
		g := graph(f)
		bad := ""
		for _, rp := range g.Points(func(m ast.Node) bool { _, ok := m.(*ast.ReturnStmt); return ok }) {
			ret := rp.Node().(*ast.ReturnStmt)
			if len(ret.Results) != 1 {
				continue
			}
			tv := info.Types[ret.Results[0]]
			if tv.Value == nil || tv.Value.String() != "false" {
				continue
			}
			okStop := false
			for _, tf := range typeFactsAt(f, ret) {
				switch core.NamedTypeName(tf.Type) {
				case "go/ast.FuncLit", "go/ast.ReturnStmt":
					okStop = true
				}
			}
			for _, fct := range g.FactsAt(rp) {
				c := ast.Unparen(fct.Cond)
				// node == nil
				if b, isBin := c.(*ast.BinaryExpr); isBin && b.Op == token.EQL && fct.Val {
					if id, isNil := ast.Unparen(b.Y).(*ast.Ident); isNil && id.Name == "nil" {
						okStop = true
					}
				}
				// the consumer (a function value: yield, or a local wrapper of it) answered false
				if call, isCall := c.(*ast.CallExpr); isCall && !fct.Val {
					if v := core.VarOf(info, call.Fun); v != nil {
						okStop = true
					}
				}
			}
			if !okStop {
				bad = core.ExprStr(ret) + " at " + p.Pos(ret.Pos())
			}
		}
		r.Check(bad == "", rule, f, "the scan for return statements descends into every statement", f.Node().Pos(), "`return false` only for function literals, the nil node, a return statement, or a consumer that stopped",
			"the callback of the return-statement scan can answer false for other nodes ("+bad+"): the statements below such a node (a labelled statement ...) are not visited, their return statements are missing from the alternatives")
	}
	if n == 0 {
		r.Anchor(rule, "the ast.Inspect callback that collects *ast.ReturnStmt in the result resolver")
	}
}

// boundedIndexParam: the k-th parameter of f (an int used as an index) is below a count at every call: the argument is
// (1) a variable with a dominating `v < <count>` (a loop bound or guard; <count> a Len()/len() expression), possibly
// through a dominating `u == v` with `u < <count>`, or (2) the caller's own parameter, never assigned, for which the same
// holds at the caller's calls. It says that the index is checked against *a* count where the pair (function type,
// index) is formed; that this count is the number of results of that very function type is the reviewed part.
func boundedIndexParam(p *core.Program, f *core.Func, k int, depth int, seen map[*core.Func]bool) (bool, string) {
	if depth > 5 || f.Obj() == nil {
		return false, "call chain too deep"
	}
	if seen[f] {
		return true, ""
	}
	seen[f] = true
	sites := 0
	var curIn *core.Func // the function whose call site is being judged
	isCount := func(info *types.Info, e ast.Expr) bool {
		// the count itself, or a local it was read into (`n := r.Len()`)
		if id, isID := ast.Unparen(e).(*ast.Ident); isID {
			if v := core.VarOf(info, id); v != nil && !v.IsField() {
				if curIn != nil {
					if d, single := core.SingleDef(info, curIn.Root().Body, v); single && d.Rhs != nil && d.Index < 0 {
						e = d.Rhs
					}
				}
			}
		}
		c, ok := ast.Unparen(e).(*ast.CallExpr)
		if !ok {
			return false
		}
		name := core.CalleeName(info, c)
		return name == "builtin.len" || strings.HasSuffix(name, ").Len") || strings.HasSuffix(name, ").NumFields")
	}
	for _, cs := range allCalls(p) {
		if cs.In.Body == nil || core.CalleeFunc(cs.In.Info(), cs.Call) != f.Obj() {
			continue
		}
		sites++
		if k >= len(cs.Call.Args) {
			return false, "call at " + p.Pos(cs.Call.Pos()) + " has no such argument"
		}
		in := cs.In
		curIn = in
		info := in.Info()
		v := core.VarOf(info, cs.Call.Args[k])
		if v == nil {
			if c, isC := core.ConstInt(info, cs.Call.Args[k]); isC && c == 0 {
				// index 0 of a list that is known to have one element is the caller's business: not accepted here
			}
			return false, "the index passed at " + p.Pos(cs.Call.Pos()) + " is not a variable"
		}
		g := graph(in)
		below := func(x *types.Var, facts []cfgxFact) bool {
			// `for x := range <count>`
			if ds := core.DefsOf(info, in.Root().Body, x); len(ds) == 1 && ds[0].Kind == "range-key" && ds[0].Rhs != nil && isCount(info, ds[0].Rhs) {
				if t := info.TypeOf(ds[0].Rhs); t != nil {
					if bt, isBasic := t.Underlying().(*types.Basic); isBasic && bt.Info()&types.IsInteger != 0 {
						return true
					}
				}
			}
			for _, fct := range facts {
				b, ok := ast.Unparen(fct.Cond).(*ast.BinaryExpr)
				if !ok || fct.Tag != nil || !fct.Val {
					continue
				}
				if b.Op == token.LSS && core.VarOf(info, b.X) == x && isCount(info, b.Y) {
					return true
				}
				if b.Op == token.GTR && core.VarOf(info, b.Y) == x && isCount(info, b.X) {
					return true
				}
			}
			return false
		}
		facts := g.FactsAt(g.PointOf(cs.Call))
		// facts of the enclosing bodies hold in a literal that is made and run under them only when it is an iterator
		// body ranged over at once; the resolver's literals are returned, so only the literal's own facts are used
		ok := below(v, facts)
		if !ok {
			for _, fct := range facts {
				b, isB := ast.Unparen(fct.Cond).(*ast.BinaryExpr)
				if !isB || b.Op != token.EQL || !fct.Val {
					continue
				}
				var u *types.Var
				if core.VarOf(info, b.X) == v {
					u = core.VarOf(info, b.Y)
				} else if core.VarOf(info, b.Y) == v {
					u = core.VarOf(info, b.X)
				}
				if u != nil && below(u, facts) {
					ok = true
				}
			}
		}
		if !ok {
			// (2) the caller's own parameter, forwarded unchanged
			root := in.Root()
			if isParamOf(root, v) && len(core.DefsOf(info, root.Body, v)) == 0 {
				if pi := paramIndex(root, v); pi >= 0 {
					if good, why := boundedIndexParam(p, root, pi, depth+1, seen); good {
						continue
					} else if why != "" {
						return false, why
					}
				}
			}
			return false, "the index " + v.Name() + " passed at " + p.Pos(cs.Call.Pos()) + " is not known to be below a count there"
		}
	}
	if sites == 0 {
		return false, "no call of " + f.Name
	}
	return true, ""
}

// resultIndexTactic (A5, reviewed): inside the resolver an index that is an int parameter of the function, forwarded
// from callers that each formed it below a count, is a result index of the function type it travels with.
func resultIndexTactic(p *core.Program) a5Tactic {
	return func(bc *boundsCtx, e ast.Expr, base ast.Expr, need needLen) (string, bool) {
		if need.Idx == nil || need.Off != 0 {
			return "", false
		}
		v := core.VarOf(bc.info, need.Idx)
		root := bc.f.Root()
		if v == nil || !isParamOf(root, v) || len(core.DefsOf(bc.info, root.Body, v)) != 0 {
			return "", false
		}
		k := paramIndex(root, v)
		if k < 0 {
			return "", false
		}
		if ok, why := boundedIndexParam(p, root, k, 0, map[*core.Func]bool{}); !ok {
			_ = why
			return "", false
		}
		return "reviewed: " + v.Name() + " is a result index of the function type it is passed with - every call chain into " + root.Name + " forms it under a dominating `" + v.Name() + " < <count of results>` (loop bound or `retAt == at` under `retAt < rets.Len()`) [side condition checked at every call site]; the list indexed here has one entry per result of that type", true
	}
}

// c14R12: "every alternative is assignable to the declared result type". The resolver follows an argument of a call as
// an alternative for an `error` result when the parameter that receives it has type error. Matching arguments to
// parameters has one trap: for a variadic function the trailing arguments are received by the ELEMENT type of the last
// parameter - unless the call spreads a slice (`f(xs...)`), in which case the one argument IS the slice. Code that
// consults (*types.Signature).Variadic (or takes Elem() of the last parameter) to type an argument must therefore also
// consult the call's Ellipsis. Decided as a protocol rule over the resolver: every function that calls Variadic() reads
// `Ellipsis` of a call expression itself, or each of its callers in the resolver does.
func c14R12(p *core.Program, r *core.Report, fs []*core.Func) {
	const rule = "R12"
	inFs := map[*core.Func]bool{}
	for _, f := range fs {
		inFs[f.Root()] = true
	}
	readsEllipsis := func(f *core.Func) bool {
		found := false
		info := f.Info()
		ast.Inspect(f.Root().Body, func(n ast.Node) bool {
			if sel, ok := n.(*ast.SelectorExpr); ok && sel.Sel.Name == "Ellipsis" && core.NamedTypeName(info.TypeOf(sel.X)) == "go/ast.CallExpr" {
				found = true
			}
			return !found
		})
		return found
	}
	n := 0
	for _, cs := range callersOf(p, "(*go/types.Signature).Variadic") {
		root := cs.In.Root()
		if core.RelPkg(root.Pkg.PkgPath) != "pkg/types" || root.Body == nil {
			continue
		}
		// only code the resolver reaches
		reached := inFs[root]
		var callers []*core.Func
		if root.Obj() != nil {
			for _, c2 := range allCalls(p) {
				if c2.In.Body != nil && core.CalleeFunc(c2.In.Info(), c2.Call) == root.Obj() {
					callers = append(callers, c2.In.Root())
					if inFs[c2.In.Root()] {
						reached = true
					}
				}
			}
		}
		if !reached {
			continue
		}
		n++
		ok := readsEllipsis(root)
		if !ok && len(callers) > 0 {
			ok = true
			for _, c := range callers {
				if !readsEllipsis(c) {
					ok = false
				}
			}
		}
		r.Check(ok, rule, root, "arguments are matched to a variadic parameter only with the call's Ellipsis in view", cs.Call.Pos(), "the function (or each caller) reads CallExpr.Ellipsis",
			"the resolver types an argument by the element type of a variadic parameter without looking at the call's `...`: for `f(xs...)` the slice itself is taken for one of the elements and is reported as an alternative of a result it is not assignable to ([]error for error)")
	}
	if n == 0 {
		r.OK(rule, &core.Func{Pkg: p.Pkg("pkg/types"), Name: "<package>"}, "the resolver does not match arguments to variadic parameters", 0, "no call of (*types.Signature).Variadic in the resolver: nothing to decide (a variadic parameter has a slice type, so a test of the parameter's own type against the result's type never follows it)")
	}
}

// c14R13: "each alternative is assignable to the declared result type": the resolver follows the assignments to ONE
// object. The tracing function compares `ObjectOf(lhs) == target`; ObjectOf of the blank identifier is nil, so a nil
// target makes every `_ = f()` / `_, err := f()` count as an assignment to the returned value. At every call of the
// tracing function the target is therefore known to be an object: the result of an ObjectOf / Selections lookup taken
// unconditionally for the very identifier at hand, or a value under a dominating `target != nil`.
func c14R13(p *core.Program, r *core.Report, fs []*core.Func) {
	const rule = "R13"
	r.Floor(rule, 2)
	// the tracing functions: the resolver methods with a types.Object parameter (the one that follows the assignments,
	// and helpers it hands its target on to)
	tracers := map[*types.Func]int{}
	for _, f := range fs {
		root := f.Root()
		if root.Decl == nil || root.Decl.Type.Params == nil || root.Obj() == nil {
			continue
		}
		i := 0
		for _, fld := range root.Decl.Type.Params.List {
			for range fld.Names {
				if core.NamedTypeName(root.Info().TypeOf(fld.Type)) == "go/types.Object" {
					tracers[root.Obj()] = i
				}
				i++
			}
		}
	}
	if len(tracers) == 0 {
		r.Anchor(rule, "the resolver function that follows the assignments to a types.Object")
		return
	}
	n := 0
	for _, cs := range allCalls(p) {
		if cs.In.Body == nil {
			continue
		}
		tk, isTracer := tracers[core.CalleeFunc(cs.In.Info(), cs.Call)]
		if !isTracer || tk >= len(cs.Call.Args) {
			continue
		}
		// a tracer that hands its own target on: decided where the outer tracer is called
		if ro := cs.In.Root().Obj(); ro != nil {
			if ok, has := tracers[ro]; has {
				if pv := core.VarOf(cs.In.Info(), cs.Call.Args[tk]); pv != nil && isParamOf(cs.In.Root(), pv) && paramIndex(cs.In.Root(), pv) == ok {
					continue
				}
			}
		}
		n++
		in := cs.In
		info := in.Info()
		arg := cs.Call.Args[tk]
		good, how := false, ""
		v := core.VarOf(info, arg)
		if v != nil {
			for _, fct := range graph(in).FactsAt(graph(in).PointOf(cs.Call)) {
				if b, isB := ast.Unparen(fct.Cond).(*ast.BinaryExpr); isB && fct.Tag == nil && (b.Op == token.NEQ) == fct.Val && (b.Op == token.NEQ || b.Op == token.EQL) {
					if (core.VarOf(info, b.X) == v && constNil(info, b.Y)) || (core.VarOf(info, b.Y) == v && constNil(info, b.X)) {
						good, how = true, "dominated by "+v.Name()+" != nil"
					}
				}
			}
			if !good {
				if d, single := core.SingleDef(info, in.Root().Body, v); single && d.Rhs != nil && d.Index < 0 && (d.Kind == "define" || d.Kind == "var") {
					if c, isCall := ast.Unparen(d.Rhs).(*ast.CallExpr); isCall && strings.HasSuffix(core.CalleeName(info, c), ").ObjectOf") {
						good, how = true, "the object of the identifier at hand ("+core.ExprStr(d.Rhs)+"), taken unconditionally"
					}
				}
			}
		}
		r.Check(good, rule, in, "the traced target is an object, never nil: "+core.ExprStr(arg), cs.Call.Pos(), how,
			"the object whose assignments are followed can be nil here (assigned on one branch only, or looked up in a table that has no entry for qualified identifiers): nil equals ObjectOf of the blank identifier, so the right-hand side of the last `_ = …` before the return is reported as an alternative of the result - with whatever type it has")
	}
	if n == 0 {
		r.Anchor(rule, "calls of the tracing function")
	}
}
