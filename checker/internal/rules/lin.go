package rules

import (
	"go/ast"
	"go/token"
	"go/types"

	"gengoverif/checker/internal/cfgx"
	"gengoverif/checker/internal/core"
)

// A lin is an integer expression in linear form: C + Σ Coef[i]·Atoms[i]. An atom is the length of an
// indexable expression or a local variable. Locals that are defined once are replaced by their definition when
// nothing the definition mentions can change between the definition and the point of use, so that
//
//	runes[len(runes)-1]      and      last := len(runes) - 1; runes[last]
//	for i := 0; i < len(x)-1; i++ { x[i+1] }      and      for next := 1; next < len(x); next++ { cur := next - 1; x[next] }
//
// state the same obligation and are discharged by the same facts.
type linAtom struct {
	LenOf ast.Expr   // len(LenOf) ...
	Var   *types.Var // ... or a variable
	Id    ast.Expr   // an identifier denoting Var
}

type lin struct {
	C     int64
	Atoms []linAtom
	Coef  []int64
}

func (bc *boundsCtx) sameAtom(a, b linAtom) bool {
	if a.Var != nil || b.Var != nil {
		return a.Var == b.Var
	}
	return core.SameRef(bc.info, a.LenOf, b.LenOf)
}

func (bc *boundsCtx) linAdd(a, b lin, sign int64) lin {
	out := lin{C: a.C + sign*b.C}
	out.Atoms = append(out.Atoms, a.Atoms...)
	out.Coef = append(out.Coef, a.Coef...)
	for i, at := range b.Atoms {
		found := false
		for j := range out.Atoms {
			if bc.sameAtom(out.Atoms[j], at) {
				out.Coef[j] += sign * b.Coef[i]
				found = true
				break
			}
		}
		if !found {
			out.Atoms = append(out.Atoms, at)
			out.Coef = append(out.Coef, sign*b.Coef[i])
		}
	}
	// drop zero terms
	n := 0
	for i := range out.Atoms {
		if out.Coef[i] != 0 {
			out.Atoms[n], out.Coef[n] = out.Atoms[i], out.Coef[i]
			n++
		}
	}
	out.Atoms, out.Coef = out.Atoms[:n], out.Coef[:n]
	return out
}

// coefOfLen / coefOfVar: the coefficient of one atom (0 when absent).
func (bc *boundsCtx) coefOfLen(l lin, base ast.Expr) int64 {
	for i, a := range l.Atoms {
		if a.LenOf != nil && core.SameRef(bc.info, a.LenOf, base) {
			return l.Coef[i]
		}
	}
	return 0
}

func (l lin) coefOfVar(v *types.Var) int64 {
	for i, a := range l.Atoms {
		if a.Var != nil && a.Var == v {
			return l.Coef[i]
		}
	}
	return 0
}

// linOf puts e in linear form, as evaluated at point `at` (an invalid point disables the replacement of locals).
func (bc *boundsCtx) linOf(e ast.Expr, at cfgx.Point) (lin, bool) { return bc.linOfD(e, at, 0) }

func (bc *boundsCtx) linOfD(e ast.Expr, at cfgx.Point, depth int) (lin, bool) {
	if depth > 12 || e == nil {
		return lin{}, false
	}
	e = ast.Unparen(e)
	if c, ok := core.ConstInt(bc.info, e); ok {
		return lin{C: c}, true
	}
	switch x := e.(type) {
	case *ast.CallExpr:
		if core.CalleeName(bc.info, x) == "builtin.len" && len(x.Args) == 1 {
			return lin{Atoms: []linAtom{{LenOf: x.Args[0]}}, Coef: []int64{1}}, true
		}
	case *ast.Ident:
		v := core.VarOf(bc.info, x)
		if v == nil || v.IsField() {
			return lin{}, false
		}
		if b, ok := v.Type().Underlying().(*types.Basic); !ok || b.Info()&types.IsInteger == 0 {
			return lin{}, false
		}
		if at.Valid() {
			if d, ok := core.SingleDef(bc.info, bc.f.Root().Body, v); ok && d.Index < 0 && (d.Kind == "define" || d.Kind == "var") && bc.stableBetween(d.Stmt, at, d.Rhs) {
				if l, ok := bc.linOfD(d.Rhs, at, depth+1); ok {
					return l, true
				}
			}
		}
		return lin{Atoms: []linAtom{{Var: v, Id: x}}, Coef: []int64{1}}, true
	case *ast.BinaryExpr:
		switch x.Op {
		case token.ADD, token.SUB:
			a, ok1 := bc.linOfD(x.X, at, depth+1)
			b, ok2 := bc.linOfD(x.Y, at, depth+1)
			if !ok1 || !ok2 {
				return lin{}, false
			}
			sign := int64(1)
			if x.Op == token.SUB {
				sign = -1
			}
			return bc.linAdd(a, b, sign), true
		case token.MUL:
			a, ok1 := bc.linOfD(x.X, at, depth+1)
			b, ok2 := bc.linOfD(x.Y, at, depth+1)
			if !ok1 || !ok2 {
				return lin{}, false
			}
			if len(a.Atoms) != 0 {
				a, b = b, a
			}
			if len(a.Atoms) != 0 {
				return lin{}, false
			}
			out := lin{C: a.C * b.C}
			if a.C != 0 {
				for i := range b.Atoms {
					out.Atoms = append(out.Atoms, b.Atoms[i])
					out.Coef = append(out.Coef, a.C*b.Coef[i])
				}
			}
			return out, true
		}
	}
	return lin{}, false
}

// stableBetween: the value of rhs, taken at the statement def, is still its value at `at`: rhs mentions only
// local variables, lengths and constants, and on no path from def to `at` (that does not run def again) is one of
// these variables - or anything reached through it - assigned.
func (bc *boundsCtx) stableBetween(def ast.Node, at cfgx.Point, rhs ast.Expr) bool {
	objs := map[types.Object]bool{}
	simple, noCalls := true, false
	var visit func(n ast.Node) bool
	visit = func(n ast.Node) bool {
		switch x := n.(type) {
		case *ast.SelectorExpr:
			if _, isField := bc.info.ObjectOf(x.Sel).(*types.Var); isField {
				noCalls = true // state behind a pointer: any call on the way may write it
				ast.Inspect(x.X, visit)
				return false
			}
			simple = false
		case *ast.CallExpr:
			if core.CalleeName(bc.info, x) != "builtin.len" {
				if tv, ok := bc.info.Types[x.Fun]; !ok || !tv.IsType() {
					simple = false
				}
			}
		case *ast.StarExpr:
			noCalls = true
		case *ast.FuncLit:
			simple = false
		case *ast.UnaryExpr:
			if x.Op == token.ARROW || x.Op == token.AND {
				simple = false
			}
		case *ast.Ident:
			if v, ok := bc.info.ObjectOf(x).(*types.Var); ok {
				if v.IsField() || v.Parent() == nil || (v.Pkg() != nil && v.Parent() == v.Pkg().Scope()) {
					simple = false // package-level state can change behind any call
				}
				objs[v] = true
			}
		}
		return simple
	}
	ast.Inspect(rhs, visit)
	if !simple {
		return false
	}
	// a captured variable may be written by a closure at any call
	for o := range objs {
		if bc.writtenInLit(o) {
			return false
		}
	}
	dp := bc.g.PointOf(def)
	if !dp.Valid() {
		return false
	}
	same := func(a, b cfgx.Point) bool { return a.B == b.B && a.I == b.I }
	writes := bc.g.Points(func(n ast.Node) bool { return bc.writesRooted(n, objs) || (noCalls && bc.hasCall(n)) })
	for _, w := range writes {
		if same(w, dp) {
			continue
		}
		_, fromDef := bc.g.Reach(dp, false, cfgx.Query{
			Target: func(q cfgx.Point) bool { return same(q, w) },
			Cut:    func(q cfgx.Point) bool { return same(q, dp) || same(q, at) },
		})
		if !fromDef {
			continue
		}
		_, toUse := bc.g.Reach(w, false, cfgx.Query{
			Target: func(q cfgx.Point) bool { return same(q, at) },
			Cut:    func(q cfgx.Point) bool { return same(q, dp) },
		})
		if toUse {
			return false
		}
	}
	return true
}

// writesRooted: the CFG node assigns one of the variables, or an element / part reached through it.
func (bc *boundsCtx) writesRooted(n ast.Node, objs map[types.Object]bool) bool {
	for o := range objs {
		if bc.g.Assigns(n, o) {
			return true
		}
	}
	root := func(e ast.Expr) types.Object {
		for {
			switch x := ast.Unparen(e).(type) {
			case *ast.IndexExpr:
				e = x.X
			case *ast.SliceExpr:
				e = x.X
			case *ast.StarExpr:
				e = x.X
			case *ast.SelectorExpr:
				e = x.X
			case *ast.Ident:
				return bc.info.ObjectOf(x)
			default:
				return nil
			}
		}
	}
	switch x := n.(type) {
	case *ast.AssignStmt:
		for _, l := range x.Lhs {
			if o := root(l); o != nil && objs[o] {
				return true
			}
		}
	case *ast.IncDecStmt:
		if o := root(x.X); o != nil && objs[o] {
			return true
		}
	}
	return false
}

// writtenInLit: some function literal of the enclosing declaration assigns the variable.
func (bc *boundsCtx) writtenInLit(o types.Object) bool {
	hit := false
	ast.Inspect(bc.f.Root().Body, func(n ast.Node) bool {
		lit, ok := n.(*ast.FuncLit)
		if !ok || lit == bc.f.Lit {
			return !hit
		}
		ast.Inspect(lit.Body, func(m ast.Node) bool {
			switch x := m.(type) {
			case *ast.AssignStmt:
				for _, l := range x.Lhs {
					if id, ok := ast.Unparen(l).(*ast.Ident); ok && bc.info.ObjectOf(id) == o && x.Tok != token.DEFINE {
						hit = true
					}
				}
			case *ast.IncDecStmt:
				if id, ok := ast.Unparen(x.X).(*ast.Ident); ok && bc.info.ObjectOf(id) == o {
					hit = true
				}
			case *ast.UnaryExpr:
				if id, ok := ast.Unparen(x.X).(*ast.Ident); ok && x.Op == token.AND && bc.info.ObjectOf(id) == o {
					hit = true
				}
			}
			return !hit
		})
		return false
	})
	return hit
}

// cmpLin reads a fact as `D op 0`, D linear (both sides of the comparison in linear form at `at`).
func (bc *boundsCtx) cmpLin(f cfgx.Fact, at cfgx.Point) (lin, token.Token, bool) {
	if f.Tag != nil {
		return lin{}, 0, false
	}
	b, ok := ast.Unparen(f.Cond).(*ast.BinaryExpr)
	if !ok {
		return lin{}, 0, false
	}
	switch b.Op {
	case token.LSS, token.LEQ, token.GTR, token.GEQ, token.EQL, token.NEQ:
	default:
		return lin{}, 0, false
	}
	l, ok1 := bc.linOf(b.X, at)
	r, ok2 := bc.linOf(b.Y, at)
	if !ok1 || !ok2 {
		return lin{}, 0, false
	}
	op := b.Op
	if !f.Val {
		op = negate(op)
	}
	return bc.linAdd(l, r, -1), op, true
}

func flipCmp(op token.Token) token.Token {
	switch op {
	case token.LSS:
		return token.GTR
	case token.LEQ:
		return token.GEQ
	case token.GTR:
		return token.LSS
	case token.GEQ:
		return token.LEQ
	}
	return op
}

func (l lin) neg() lin {
	out := lin{C: -l.C, Atoms: l.Atoms}
	for _, c := range l.Coef {
		out.Coef = append(out.Coef, -c)
	}
	return out
}

// minStart: the variable is only ever set to constants and incremented (or is an integer range key): a lower
// bound of every value it takes.
func (bc *boundsCtx) minStart(v *types.Var) (int64, bool) {
	defs := core.DefsOf(bc.info, bc.f.Root().Body, v)
	if len(defs) == 0 {
		return 0, false
	}
	first := true
	var lo int64
	take := func(c int64) {
		if first || c < lo {
			lo = c
		}
		first = false
	}
	for _, d := range defs {
		switch d.Kind {
		case "define", "var", "assign":
			c, ok := core.ConstInt(bc.info, d.Rhs)
			if d.Rhs == nil || !ok {
				return 0, false
			}
			take(c)
		case "incdec":
			if d.Stmt.(*ast.IncDecStmt).Tok != token.INC {
				return 0, false
			}
		case "range-key":
			take(0)
		default:
			return 0, false
		}
	}
	if first {
		return 0, false
	}
	return lo, true
}

// hasCall: the CFG node calls something (other than len/cap and conversions).
func (bc *boundsCtx) hasCall(n ast.Node) bool {
	hit := false
	ast.Inspect(n, func(m ast.Node) bool {
		if _, ok := m.(*ast.FuncLit); ok {
			return false
		}
		if c, ok := m.(*ast.CallExpr); ok {
			name := core.CalleeName(bc.info, c)
			if tv, isT := bc.info.Types[c.Fun]; (isT && tv.IsType()) || name == "builtin.len" || name == "builtin.cap" {
				return true
			}
			hit = true
		}
		return !hit
	})
	return hit
}

// searchResultCallees: standard searches that return -1 or a valid index of their first argument.
var searchResultCallees = map[string]bool{
	"slices.Index": true, "slices.IndexFunc": true,
	"strings.IndexByte": true, "strings.IndexRune": true, "strings.IndexFunc": true, "strings.IndexAny": true,
	"strings.LastIndexByte": true, "strings.LastIndexFunc": true, "strings.LastIndexAny": true,
	"bytes.IndexByte": true, "bytes.IndexRune": true, "bytes.IndexFunc": true, "bytes.IndexAny": true,
	"bytes.LastIndexByte": true, "bytes.LastIndexFunc": true, "bytes.LastIndexAny": true,
}

// bySearchResult (T7): the index is the result of a search in the same base (slices.IndexFunc(base, ..) and the
// like: -1 or a valid index), the base is unchanged since, and a dominating fact excludes -1.
func (bc *boundsCtx) bySearchResult(base ast.Expr, need needLen, facts []cfgx.Fact) (string, bool) {
	if need.Idx == nil || need.Off < 0 || need.Off > 1 || (need.Off == 1 && !need.Slice) {
		return "", false
	}
	iv := core.VarOf(bc.info, need.Idx)
	if iv == nil {
		return "", false
	}
	d, ok := core.SingleDef(bc.info, bc.f.Root().Body, iv)
	if !ok || d.Index >= 0 || (d.Kind != "define" && d.Kind != "var") {
		return "", false
	}
	call, ok := ast.Unparen(d.Rhs).(*ast.CallExpr)
	if !ok || !searchResultCallees[core.CalleeName(bc.info, call)] || len(call.Args) < 1 || !core.SameRef(bc.info, call.Args[0], base) {
		return "", false
	}
	if !bc.stableBetween(d.Stmt, bc.at, base) {
		return "", false
	}
	for _, f := range facts {
		dl, op, ok := bc.cmpLin(f, cfgx.Point{})
		if !ok || len(dl.Atoms) != 1 || dl.Atoms[0].Var != iv {
			continue
		}
		switch dl.Coef[0] {
		case 1:
		case -1:
			dl, op = dl.neg(), flipCmp(op)
		default:
			continue
		}
		// iv + C op 0
		nonNeg := (op == token.GEQ && dl.C <= 0) || (op == token.GTR && dl.C <= 1) || (op == token.NEQ && dl.C == 1) || (op == token.EQL && dl.C <= 0)
		if nonNeg {
			return "T7 the index is the result of " + core.ExprStr(call.Fun) + " on the same base (-1 or a valid index), -1 is excluded by " + core.ExprStr(f.Cond) + " (" + boolStr(f.Val) + "), the base is not written in between", true
		}
	}
	return "", false
}

// byDecodeWidth (T10): a slice bound that is the width answered by utf8.DecodeRune[InString] / DecodeLastRune[InString]
// for the same, unchanged base is within 0..len(base) (the package's contract: the width of the decoded rune, 0 only for
// an empty input, never more than what is there).
func (bc *boundsCtx) byDecodeWidth(base ast.Expr, need needLen) (string, bool) {
	if need.Idx == nil || need.Off != 0 || !need.Slice {
		return "", false
	}
	iv := core.VarOf(bc.info, need.Idx)
	if iv == nil {
		return "", false
	}
	defs := core.DefsOf(bc.info, bc.f.Root().Body, iv)
	if len(defs) != 1 || defs[0].Index != 1 || defs[0].Rhs == nil {
		return "", false
	}
	call, ok := ast.Unparen(defs[0].Rhs).(*ast.CallExpr)
	if !ok || len(call.Args) != 1 || !core.SameRef(bc.info, call.Args[0], base) {
		return "", false
	}
	switch core.CalleeName(bc.info, call) {
	case "unicode/utf8.DecodeRuneInString", "unicode/utf8.DecodeRune":
	default:
		return "", false
	}
	st, _ := defs[0].Stmt.(ast.Stmt)
	if st == nil || !bc.stableBetween(st, bc.at, base) {
		return "", false
	}
	return "T10 the bound is the width " + core.ExprStr(call.Fun) + " answered for the same base, which is not written in between", true
}
