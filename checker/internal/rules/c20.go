package rules

import (
	"fmt"
	"go/ast"
	"go/token"
	"go/types"
	"regexp"
	"regexp/syntax"
	"strings"

	"gengoverif/checker/internal/core"
)

func init() {
	register(Property{
		ID:          "C20",
		Explanation: "Decided statically: A5 every index/slice expression in the inflection function is bounded (length guard on the submatch slice; the irregular replacement is read through a comma-ok map lookup; non-emptiness of the matched word and of every replacement follows from the checked shape of the irregular pattern and of the constant rule tables, R3); R1 the rebuilt word is made of the match's own captures and the table value, never of a fixed offset of the whole input; R2 functions reachable from Pluralize/Singularize write no shared state except through sync.Map/sync.OnceValue, and the rule tables are only written by functions called (transitively) from init; determinism: no schedule-dependent order source in pkg/inflector. R3 pattern shape: two capture groups, first `.*`, a word boundary between them, second anchored at end of text, case-insensitive; every IrregularItem has a non-empty lower-case ASCII Word and a Replacement starting with the same letter. R4 the irregular attempt precedes the uninflected test (their word lists overlap, so the other order makes a word inflect differently on its own than behind a prefix); R3 also demands the dot-all flag, so a line break in the prefix is kept. R5 pass-through wrappers - every function between Pluralize/Singularize and the rule application returns its input, the next function's result or the cached thunk's result unchanged (no post-processing that looks at the whole input). R3 reads the irregular pattern as a template (Sprintf or concatenation); R6 every write into a rule's memo goes through the method's own receiver, is keyed by the method's own argument and stores the receiver's own computation on it; A5 accepts the result of slices.IndexFunc on the same unchanged base once -1 is excluded. R7 a rewriting rule anchored on a whole word is backed by an irregular entry for that word in the same rule set. R5 also: every wrapper hands its own parameter, unchanged, to the next function of the chain. R6 also: the memoised computation never re-enters the method that fills the memo. NOT decided: linguistic correctness of the tables; that the irregular word is inflected exactly as on its own for every input (value level).",
		Assumptions: append([]string{"*regexp.Regexp and sync.Map/sync.OnceValue are safe for concurrent use (documented)"}, commonAssumptions...),
		Run:         runC20,
	})
}

func runC20(p *core.Program, r *core.Report) {
	infl := p.FuncByName("pkg/inflector/internal", "(*Rule).inflected")
	if infl == nil {
		infl = inflectionWorker(p) // by role: what the memoised thunk computes
	}
	if infl == nil {
		r.Anchor("A5", "pkg/inflector/internal.(*Rule).inflected")
		return
	}
	r3ok := c20R3(p, r)
	r.Floor("A5", 3)
	for _, f := range p.Funcs() {
		if core.RelPkg(f.Pkg.PkgPath) != "pkg/inflector/internal" && core.RelPkg(f.Pkg.PkgPath) != "pkg/inflector" {
			continue
		}
		a5Check(r, "A5", f, func(bc *boundsCtx, e ast.Expr, base ast.Expr, need needLen) (string, bool) {
			if !r3ok {
				return "", false
			}
			return c20Tactic(bc, e, base, need)
		})
	}
	c20R1(p, r, infl)
	c20R4(p, r, infl)
	c20R2(p, r)
	c20R5(p, r, infl)
	c20R6(p, r)
	c20R7(p, r)
	// determinism: no order source in the inflector packages
	n := 0
	for _, f := range p.Funcs() {
		rel := core.RelPkg(f.Pkg.PkgPath)
		if rel != "pkg/inflector/internal" && rel != "pkg/inflector" {
			continue
		}
		for _, os := range orderSources(f) {
			n++
			r.Bad("R2", f, "schedule-dependent order source: "+os.What, os.Pos, "inflection must be a deterministic function of its input; "+os.What+" introduces a schedule-dependent order")
		}
	}
	if n == 0 {
		r.OK("R2", nil, "no map range / select / go / time / rand in pkg/inflector", token.NoPos, "order-source scan")
	}
}

// c20Tactic: non-emptiness facts that follow from the irregular tables.
func c20Tactic(bc *boundsCtx, e ast.Expr, base ast.Expr, need needLen) (string, bool) {
	if need.Idx != nil || need.Min > 1 || need.LenRel {
		return "", false
	}
	info := bc.info
	body := bc.f.Body
	// (a) base is the value of a comma-ok lookup in field irregularMap, under ok == true
	if v := core.VarOf(info, base); v != nil {
		d, ok := core.SingleDef(info, body, v)
		if ok && d.Index == 0 {
			if ix, isIx := ast.Unparen(d.Rhs).(*ast.IndexExpr); isIx {
				if f := core.FieldOf(info, ix.X); f != nil && f.Name() == "irregularMap" {
					// the ok variable
					var okVar *types.Var
					if as, isAs := d.Stmt.(*ast.AssignStmt); isAs && len(as.Lhs) == 2 {
						okVar = core.VarOf(info, as.Lhs[1])
					}
					facts := bc.g.FactsAt(bc.g.PointOf(e))
					if okVar != nil && factHolds(facts, true, func(f cfgxFact) bool { return core.VarOf(info, f.Cond) == okVar }) {
						return "T5 value of a comma-ok lookup in irregularMap under ok; every stored Replacement is a non-empty constant (R3)", true
					}
				}
			}
		}
	}
	// (b) base is res[2] where res is the submatch of the irregular pattern
	if ix, ok := ast.Unparen(base).(*ast.IndexExpr); ok {
		if c, isC := core.ConstInt(info, ix.Index); isC && c == 2 {
			if v := core.VarOf(info, ix.X); v != nil {
				if d, ok := core.SingleDef(info, body, v); ok {
					if call := core.AsCall(info, d.Rhs, "(*regexp.Regexp).FindStringSubmatch"); call != nil {
						if f := core.FieldOf(info, recvOf(call)); f != nil && f.Name() == "compiledIrregular" {
							return "T5 capture group 2 of the irregular pattern matches one of the non-empty words (R3)", true
						}
					}
				}
			}
		}
	}
	return "", false
}

func c20R1(p *core.Program, r *core.Report, infl *core.Func) {
	const rule = "R1"
	r.Floor(rule, 2)
	info := infl.Info()
	var s *types.Var
	// the text: the string parameter (the only parameter of the method; next to the rule after a method -> function change)
	for _, fld := range infl.Decl.Type.Params.List {
		for _, nme := range fld.Names {
			if v, _ := info.ObjectOf(nme).(*types.Var); v != nil && isBasicKind(v.Type(), types.String) {
				s = v
			}
		}
	}
	// the irregular arm: if whose init assigns from FindStringSubmatch
	var arm *ast.IfStmt
	var res *types.Var
	ast.Inspect(infl.Body, func(n ast.Node) bool {
		ifs, ok := n.(*ast.IfStmt)
		if !ok || arm != nil {
			return arm == nil
		}
		if as, ok := ifs.Init.(*ast.AssignStmt); ok && len(as.Rhs) == 1 {
			if core.AsCall(info, as.Rhs[0], "(*regexp.Regexp).FindStringSubmatch") != nil {
				arm, res = ifs, core.VarOf(info, as.Lhs[0])
			}
		}
		return true
	})
	if arm == nil {
		// the match taken in a statement of its own: `res := <irregular>.FindStringSubmatch(s); if len(res) >= 3 {…}`
		ast.Inspect(infl.Body, func(n ast.Node) bool {
			as, ok := n.(*ast.AssignStmt)
			if !ok || res != nil || len(as.Rhs) != 1 || core.AsCall(info, as.Rhs[0], "(*regexp.Regexp).FindStringSubmatch") == nil {
				return true
			}
			if fld := core.FieldOf(info, recvOf(ast.Unparen(as.Rhs[0]).(*ast.CallExpr))); fld == nil || fld.Name() != "compiledIrregular" {
				return true
			}
			res = core.VarOf(info, as.Lhs[0])
			return true
		})
		if res != nil {
			ast.Inspect(infl.Body, func(n ast.Node) bool {
				ifs, ok := n.(*ast.IfStmt)
				if !ok || arm != nil {
					return arm == nil
				}
				mentions := false
				ast.Inspect(ifs.Cond, func(m ast.Node) bool {
					if id, isID := m.(*ast.Ident); isID && info.ObjectOf(id) == types.Object(res) {
						mentions = true
					}
					return true
				})
				if mentions {
					arm = ifs
				}
				return true
			})
		}
	}
	if arm == nil || s == nil {
		r.Anchor(rule, "`if res := <irregular>.FindStringSubmatch(s); ...` in (*Rule).inflected")
		return
	}
	// guard on len(res)
	bc := &boundsCtx{f: infl, g: graph(infl), info: info}
	guard := false
	for _, a := range cfgxAtoms(arm.Cond, true) {
		if lb, ok := bc.lenLowerBound(a, ast.NewIdent("_")); ok {
			_ = lb
		}
		x, op, c, ok := cmpConst(info, a.Cond)
		if ok && a.Val && ((op == token.GEQ && c >= 3) || (op == token.GTR && c >= 2) || (op == token.EQL && c >= 3)) {
			if call, isCall := ast.Unparen(x).(*ast.CallExpr); isCall && core.CalleeName(info, call) == "builtin.len" && core.VarOf(info, call.Args[0]) == res {
				guard = true
			}
		}
	}
	r.Check(guard, rule, infl, "irregular arm guarded by len(res) >= 3", arm.Pos(), "guard present", "the irregular arm is not guarded by len(res) >= 3")
	// every write into the result of the arm must not mention the whole input
	writes := 0
	for _, call := range core.Calls(arm.Body, true) {
		cn := core.CalleeName(info, call)
		if !strings.HasPrefix(cn, "(*strings.Builder).Write") && !strings.HasPrefix(cn, "(*bytes.Buffer).Write") {
			continue
		}
		writes++
		for _, a := range call.Args {
			r.Check(!core.Mentions(info, a, s), rule, infl, "irregular arm writes "+argShape(info, a, s, res), call.Pos(),
				"operand is built from the match's captures / the replacement table",
				"the rebuilt word takes `"+core.ExprStr(a)+"` from a fixed offset of the whole input instead of the matched word: with a prefix (\"old-person\") or a multi-byte first rune the result is corrupted")
		}
	}
	// returns inside the arm that concatenate
	ast.Inspect(arm.Body, func(n ast.Node) bool {
		if _, ok := n.(*ast.FuncLit); ok {
			return false
		}
		ret, ok := n.(*ast.ReturnStmt)
		if !ok {
			return true
		}
		for _, e := range ret.Results {
			if core.Mentions(info, e, s) {
				writes++
				r.Bad(rule, infl, "irregular arm returns an expression over the whole input", ret.Pos(), "`"+core.ExprStr(e)+"` uses the whole input instead of the captures")
			}
		}
		return true
	})
	// a returned concatenation: its leaves (through single-definition locals) are the parts
	ast.Inspect(arm.Body, func(n ast.Node) bool {
		if _, ok := n.(*ast.FuncLit); ok {
			return false
		}
		ret, ok := n.(*ast.ReturnStmt)
		if !ok || len(ret.Results) != 1 {
			return true
		}
		var leaves func(e ast.Expr) []ast.Expr
		leaves = func(e ast.Expr) []ast.Expr {
			e, _ = core.Resolve(info, infl.Body, e)
			if b, isBin := ast.Unparen(e).(*ast.BinaryExpr); isBin && b.Op == token.ADD {
				return append(leaves(b.X), leaves(b.Y)...)
			}
			return []ast.Expr{e}
		}
		ls := leaves(ret.Results[0])
		if len(ls) < 2 {
			return true
		}
		for _, a := range ls {
			writes++
			r.Check(!core.Mentions(info, a, s), rule, infl, "irregular arm writes "+argShape(info, a, s, res), ret.Pos(),
				"operand is built from the match's captures / the replacement table",
				"the rebuilt word takes `"+core.ExprStr(a)+"` from a fixed offset of the whole input instead of the matched word")
		}
		return true
	})
	if writes == 0 {
		r.Unknown(rule, infl, "irregular arm result construction", arm.Pos(), "no builder writes or returned concatenation found in the irregular arm")
	}
}

func argShape(info *types.Info, a ast.Expr, s, res *types.Var) string {
	switch {
	case core.Mentions(info, a, s):
		return "an expression over the whole input"
	case core.Mentions(info, a, res):
		return "a capture: " + core.ExprStr(a)
	}
	return "a table value: " + core.ExprStr(a)
}

// nonLocalWrites lists statements of f that write memory reachable from a
// pointer receiver/parameter/captured variable or a package-level variable.
func nonLocalWrites(f *core.Func) []ast.Node {
	info := f.Info()
	var out []ast.Node
	localFresh := func(v *types.Var) bool {
		// declared inside this function body (not a parameter, not captured)
		return core.DeclaredIn(info, f.Body, v)
	}
	escapes := func(e ast.Expr) bool {
		sawDeref := false
		for {
			e = ast.Unparen(e)
			switch x := e.(type) {
			case *ast.SelectorExpr:
				if _, isPkg := info.ObjectOf(identOf(x.X)).(*types.PkgName); isPkg {
					v, ok := info.ObjectOf(x.Sel).(*types.Var)
					return ok && !v.IsField()
				}
				if t := info.TypeOf(x.X); t != nil {
					if _, isPtr := t.Underlying().(*types.Pointer); isPtr {
						sawDeref = true
					}
				}
				e = x.X
			case *ast.IndexExpr:
				if t := info.TypeOf(x.X); t != nil {
					switch t.Underlying().(type) {
					case *types.Map, *types.Slice, *types.Pointer:
						sawDeref = true
					}
				}
				e = x.X
			case *ast.StarExpr:
				sawDeref = true
				e = x.X
			case *ast.Ident:
				v, ok := info.ObjectOf(x).(*types.Var)
				if !ok {
					return false
				}
				if v.Pkg() != nil && v.Parent() == v.Pkg().Scope() {
					return true
				}
				if !sawDeref {
					// plain local variable assignment; captured variables of an
					// enclosing function are shared state of the closure
					return !localFresh(v) && f.Lit != nil && !isParamOf(f, v)
				}
				if localFresh(v) {
					// local pointer/map: fresh when defined from a literal/make/new
					if d, ok := core.SingleDef(info, f.Body, v); ok {
						switch y := ast.Unparen(d.Rhs).(type) {
						case *ast.CompositeLit:
							return false
						case *ast.UnaryExpr:
							if _, isLit := ast.Unparen(y.X).(*ast.CompositeLit); isLit && y.Op == token.AND {
								return false
							}
						case *ast.CallExpr:
							switch core.CalleeName(info, y) {
							case "builtin.make", "builtin.new", "bytes.NewBuffer", "bytes.NewBufferString":
								return false
							}
						}
					}
					if _, isStruct := v.Type().Underlying().(*types.Struct); isStruct {
						return false
					}
					if len(core.DefsOf(info, f.Body, v)) == 0 {
						// var x T (zero value, e.g. strings.Builder)
						return false
					}
				}
				return true
			default:
				return sawDeref
			}
		}
	}
	ast.Inspect(f.Body, func(n ast.Node) bool {
		if lit, ok := n.(*ast.FuncLit); ok && lit != f.Lit {
			return false
		}
		switch x := n.(type) {
		case *ast.AssignStmt:
			if x.Tok == token.DEFINE {
				return true
			}
			for _, l := range x.Lhs {
				if id, ok := l.(*ast.Ident); ok && id.Name == "_" {
					continue
				}
				if escapes(l) {
					out = append(out, x)
					break
				}
			}
		case *ast.IncDecStmt:
			if escapes(x.X) {
				out = append(out, x)
			}
		case *ast.CallExpr:
			if core.CalleeName(info, x) == "builtin.delete" && len(x.Args) > 0 && escapes(&ast.IndexExpr{X: x.Args[0], Index: x.Args[0]}) {
				out = append(out, x)
			}
		}
		return true
	})
	return out
}

// isParamOf: v is a parameter or named result of f (not the receiver).
func isParamOf(f *core.Func, v *types.Var) bool {
	if f.Type == nil || v == nil {
		return false
	}
	in := func(fl *ast.FieldList) bool { return fl != nil && v.Pos() >= fl.Pos() && v.Pos() < fl.End() }
	return in(f.Type.Params) || in(f.Type.Results)
}

func c20R2(p *core.Program, r *core.Report) {
	const rule = "R2"
	r.Floor(rule, 4)
	roots := []*core.Func{p.FuncByName("pkg/inflector", "Pluralize"), p.FuncByName("pkg/inflector", "Singularize")}
	for i, f := range roots {
		if f == nil {
			r.Anchor(rule, []string{"pkg/inflector.Pluralize", "pkg/inflector.Singularize"}[i])
			return
		}
	}
	reach := reachableFrom(p, roots...)
	n := 0
	for f := range reach {
		if f.Body == nil {
			continue
		}
		n++
		for _, w := range nonLocalWrites(f) {
			r.Bad(rule, f, "shared-state write on the inflection path: "+core.ExprStr(w), w.Pos(), "a function reachable from Pluralize/Singularize writes shared memory outside sync.Map/sync.OnceValue: concurrent callers race and results may depend on earlier calls")
		}
	}
	r.OK(rule, nil, "functions reachable from Pluralize/Singularize perform no unsynchronised shared write", token.NoPos, fmt.Sprintf("%d function bodies scanned", n))
	// the memo
	inflected := p.FuncByName("pkg/inflector/internal", "(*Rule).Inflected")
	if inflected == nil {
		r.Anchor(rule, "pkg/inflector/internal.(*Rule).Inflected")
	} else {
		info := inflected.Info()
		los := core.CallsTo(info, inflected.Body, true, "(*sync.Map).LoadOrStore")
		once := core.CallsTo(info, inflected.Body, true, "sync.OnceValue")
		// ... or in a one-line method of the same type that makes the thunk
		for _, hc := range core.Calls(inflected.Body, true) {
			if h := p.FuncOfObj(core.CalleeFunc(info, hc)); h != nil && h != inflected && h.Body != nil && len(h.Body.List) == 1 && h.Pkg == inflected.Pkg && h.Decl != nil && !h.Decl.Name.IsExported() {
				once = append(once, core.CallsTo(h.Info(), h.Body.List[0], true, "sync.OnceValue")...)
			}
		}
		plain := false
		ast.Inspect(inflected.Body, func(n ast.Node) bool {
			if ix, ok := n.(*ast.IndexExpr); ok {
				if t := info.TypeOf(ix.X); t != nil {
					if _, isMap := t.Underlying().(*types.Map); isMap {
						plain = true
					}
				}
			}
			return true
		})
		if len(los) == 0 && len(once) == 0 && !plain {
			r.OK(rule, inflected, "no memoisation (stateless)", inflected.Node().Pos(), "nothing cached")
		} else {
			r.Check(len(los) == 1 && len(once) == 1 && !plain, rule, inflected, "memoisation is sync.Map.LoadOrStore of a sync.OnceValue closure", inflected.Node().Pos(),
				"race-free, computed once per key", "the memo is not the race-free sync.Map.LoadOrStore(s, sync.OnceValue(...)) form")
		}
	}
	// the tables are written only at init
	io := initOnly(p)
	for _, name := range []string{"(*Inflector).Register", "(*Inflector).MustRegister", "(*Rule).Init"} {
		f := p.FuncByName("pkg/inflector/internal", name)
		if f == nil {
			continue // a function that does not exist cannot be called late
		}
		r.Check(io[f.Obj()], rule, f, "table writer is only called (transitively) from init", f.Node().Pos(),
			"all call sites in scope are in init functions; not used as a value", "a function that rewrites the rule tables can run after initialisation (called outside init or used as a value): Inflected would race with it")
	}
	// field writes of Rule/Inflector only in init-only functions
	for _, f := range p.Funcs() {
		if core.RelPkg(f.Pkg.PkgPath) != "pkg/inflector/internal" || reach[f] {
			continue
		}
		root := f.Root()
		if isInitFunc(root) || (root.Obj() != nil && io[root.Obj()]) {
			continue
		}
		for _, w := range nonLocalWrites(f) {
			r.Bad(rule, f, "rule-table write outside initialisation: "+core.ExprStr(w), w.Pos(), "shared inflector state is written by a function that is not confined to init")
		}
	}
}

func c20R3(p *core.Program, r *core.Report) bool {
	const rule = "R3"
	r.Floor(rule, 3)
	ok := true
	// the function that compiles the irregular pattern (Init or a helper of it)
	var initf *core.Func
	for _, f := range p.Funcs() {
		if core.RelPkg(f.Pkg.PkgPath) != "pkg/inflector/internal" || f.Decl == nil {
			continue
		}
		ast.Inspect(f.Body, func(n ast.Node) bool {
			if as, isAs := n.(*ast.AssignStmt); isAs && len(as.Lhs) == 1 {
				if fld := core.FieldOf(f.Info(), as.Lhs[0]); fld != nil && fld.Name() == "compiledIrregular" {
					initf = f
				}
			}
			return true
		})
	}
	if initf == nil {
		r.Anchor(rule, "assignment of Rule.compiledIrregular in pkg/inflector/internal")
		return false
	}
	info := initf.Info()
	// the pattern assigned (through a local) to field compiledIrregular
	var format string // the pattern's constant text, \x00 where the word alternation goes
	var nops int
	var fpos token.Pos
	found := false
	ast.Inspect(initf.Body, func(n ast.Node) bool {
		as, isAs := n.(*ast.AssignStmt)
		if !isAs || len(as.Lhs) != 1 || len(as.Rhs) != 1 {
			return true
		}
		if f := core.FieldOf(info, as.Lhs[0]); f == nil || f.Name() != "compiledIrregular" {
			return true
		}
		call := core.AsCall(info, as.Rhs[0], "regexp.MustCompile", "regexp.Compile")
		if call == nil {
			return true
		}
		// argument: the pattern text itself, or a local holding it (its last assignment before this statement);
		// Sprintf with a constant format and `+` concatenation are the same template
		arg := call.Args[0]
		src := arg
		if v := core.VarOf(info, arg); v != nil {
			src = nil
			for _, d := range core.DefsOf(info, initf.Body, v) {
				if d.Stmt.Pos() < as.Pos() && d.Rhs != nil && d.Index < 0 {
					src = d.Rhs
				}
			}
		}
		if src != nil {
			if t, isT := exprTemplate(info, src); isT && len(t.Ops) >= 1 {
				format, nops, fpos, found = t.Text, len(t.Ops), src.Pos(), true
			}
		}
		return true
	})
	if !found {
		r.Anchor(rule, "constant text of the irregular pattern compiled into Rule.compiledIrregular")
		return false
	}
	pat := strings.Replace(format, "\x00", "worda|wordb", 1)
	format = strings.ReplaceAll(format, "\x00", "<words>")
	shapeOK, why := irregularShape(pat)
	if !r.Check(shapeOK && nops == 1, rule, initf, "shape of the irregular pattern", fpos,
		"two capture groups, first `.*`, word boundary, alternation of words, end anchor, case-insensitive", "irregular pattern `"+format+"`: "+why) {
		ok = false
	}
	// tables
	pkg := p.Pkg("pkg/inflector/internal")
	items, bad := 0, 0
	for _, file := range pkg.Syntax {
		ast.Inspect(file, func(n ast.Node) bool {
			cl, isCl := n.(*ast.CompositeLit)
			if !isCl {
				return true
			}
			t := pkg.TypesInfo.TypeOf(cl)
			if core.NamedTypeName(t) != core.G("pkg/inflector/internal.IrregularItem") {
				return true
			}
			items++
			var word, repl string
			wok, rok := false, false
			for i, el := range cl.Elts {
				val := el
				key := ""
				if kv, isKV := el.(*ast.KeyValueExpr); isKV {
					val = kv.Value
					key = kv.Key.(*ast.Ident).Name
				} else if i == 0 {
					key = "Word"
				} else if i == 1 {
					key = "Replacement"
				}
				s, isC := core.ConstString(pkg.TypesInfo, val)
				switch key {
				case "Word":
					word, wok = s, isC
				case "Replacement":
					repl, rok = s, isC
				}
			}
			// U+212A KELVIN SIGN is the only non-ASCII rune that strings.ToLower maps to an
			// ASCII letter; a word starting with k would make res[2][0:1] cut it in half
			good := wok && rok && len(word) > 0 && len(repl) > 0 && isLowerASCII(word) && word[0] == repl[0] && word[0] != 'k'
			if !good {
				bad++
				ok = false
				r.Bad(rule, nil, "irregular item {"+word+", "+repl+"}", cl.Pos(), "Word must be a non-empty lower-case ASCII constant and Replacement a non-empty constant starting with the same letter (the code keeps the input's first letter and appends Replacement[1:])")
			}
			return true
		})
	}
	if items == 0 {
		r.Anchor(rule, "IrregularItem literals")
		return false
	}
	if bad == 0 {
		r.OK(rule, nil, "irregular tables", token.NoPos, fmt.Sprintf("%d IrregularItem literals: non-empty lower-case ASCII word, non-empty replacement with the same first letter", items))
	}
	// irregularMap is filled from exactly these fields
	stores := 0
	var storeBodies []ast.Node
	for _, f := range p.Funcs() {
		if core.RelPkg(f.Pkg.PkgPath) == "pkg/inflector/internal" && f.Decl != nil {
			storeBodies = append(storeBodies, f.Body)
		}
	}
	for _, sb := range storeBodies {
		ast.Inspect(sb, func(n ast.Node) bool {
			as, isAs := n.(*ast.AssignStmt)
			if !isAs || len(as.Lhs) != 1 {
				return true
			}
			ix, isIx := as.Lhs[0].(*ast.IndexExpr)
			if !isIx {
				return true
			}
			if f := core.FieldOf(info, ix.X); f == nil || f.Name() != "irregularMap" {
				return true
			}
			stores++
			kf, vf := core.FieldOf(info, ix.Index), core.FieldOf(info, as.Rhs[0])
			good := kf != nil && vf != nil && kf.Name() == "Word" && vf.Name() == "Replacement"
			if !r.Check(good, rule, initf, "irregularMap[item.Word] = item.Replacement", as.Pos(), "map is keyed by Word with the Replacement as value", "irregularMap is not filled as Word -> Replacement") {
				ok = false
			}
			return true
		})
	}
	if stores == 0 {
		r.Anchor(rule, "store into Rule.irregularMap in Init")
		return false
	}
	// no other store into irregularMap anywhere (outside functions confined to initialisation)
	ioSet := initOnly(p)
	for _, f := range p.Funcs() {
		if f == initf || (f.Root().Obj() != nil && ioSet[f.Root().Obj()]) {
			continue
		}
		ast.Inspect(f.Body, func(n ast.Node) bool {
			if as, isAs := n.(*ast.AssignStmt); isAs {
				for _, l := range as.Lhs {
					if ix, isIx := ast.Unparen(l).(*ast.IndexExpr); isIx {
						if fl := core.FieldOf(f.Info(), ix.X); fl != nil && fl.Name() == "irregularMap" {
							ok = false
							r.Bad(rule, f, "store into irregularMap outside Init", as.Pos(), "the non-emptiness of replacements is only established for the constant tables")
						}
					}
				}
			}
			return true
		})
	}
	return ok
}

func isLowerASCII(s string) bool {
	for _, c := range s {
		if c < 'a' || c > 'z' {
			return false
		}
	}
	return true
}

// irregularShape evaluates the constant pattern with regexp/syntax.
func irregularShape(pat string) (bool, string) {
	re, err := syntax.Parse(pat, syntax.Perl)
	if err != nil {
		return false, "does not parse: " + err.Error()
	}
	if re.MaxCap() != 2 {
		return false, fmt.Sprintf("%d capture groups, want 2 (prefix, word)", re.MaxCap())
	}
	if re.Op != syntax.OpConcat || len(re.Sub) < 4 {
		return false, "not a concatenation prefix-group, boundary, word-group, end anchor"
	}
	subs := re.Sub
	g1 := subs[0]
	if g1.Op != syntax.OpCapture || g1.Cap != 1 || len(g1.Sub) != 1 || g1.Sub[0].Op != syntax.OpStar || (g1.Sub[0].Sub[0].Op != syntax.OpAnyCharNotNL && g1.Sub[0].Sub[0].Op != syntax.OpAnyChar) {
		return false, "first group is not (.*)"
	}
	if g1.Sub[0].Sub[0].Op == syntax.OpAnyCharNotNL {
		return false, "the prefix group `.*` does not match newlines (no `s` flag) and the pattern is not anchored at the start: for an input with a line break before the irregular word the match starts after the last newline and everything before it is dropped (Pluralize(\"foo\\nperson\") = \"people\")"
	}
	if g1.Sub[0].Flags&syntax.NonGreedy != 0 {
		return false, "the prefix group is not greedy"
	}
	if subs[1].Op != syntax.OpWordBoundary {
		return false, "no \\b word boundary between the prefix and the word: `person` would match inside `superperson` and everything before it is no longer preserved word-wise"
	}
	g2 := subs[2]
	if g2.Op != syntax.OpCapture || g2.Cap != 2 {
		return false, "second element is not the word capture group"
	}
	last := subs[len(subs)-1]
	if last.Op != syntax.OpEndText {
		return false, "word group is not anchored at the end of the text"
	}
	if len(subs) != 4 {
		return false, "unexpected extra elements in the pattern"
	}
	// case-insensitive: the literal words carry FoldCase
	fold := false
	var walk func(r *syntax.Regexp)
	walk = func(r *syntax.Regexp) {
		if r.Op == syntax.OpLiteral && r.Flags&syntax.FoldCase != 0 {
			fold = true
		}
		for _, s := range r.Sub {
			walk(s)
		}
	}
	walk(g2)
	if !fold {
		return false, "the word group is not case-insensitive"
	}
	return true, ""
}

// c20R4: the irregular attempt comes first. The irregular pattern matches the
// last word, the uninflected pattern the whole input; their word lists overlap
// (graffiti, testes), so testing "uninflected" first makes a word inflect
// differently on its own than behind a prefix.
func c20R4(p *core.Program, r *core.Report, infl *core.Func) {
	const rule = "R4"
	r.Floor(rule, 1)
	info := infl.Info()
	g := graph(infl)
	var irr cfgxPoint
	for _, c := range core.CallsTo(info, infl.Body, true, "(*regexp.Regexp).FindStringSubmatch") {
		if f := core.FieldOf(info, recvOf(c)); f != nil && f.Name() == "compiledIrregular" {
			irr = g.PointOf(c)
		}
	}
	if !irr.Valid() {
		r.Anchor(rule, "irregular submatch in (*Rule).inflected")
		return
	}
	ok := true
	why := ""
	for _, c := range core.Calls(infl.Body, true) {
		name := core.CalleeName(info, c)
		if !strings.HasPrefix(name, "(*regexp.Regexp).") || g.PointOf(c) == irr {
			continue
		}
		if !g.Dominates(irr, g.PointOf(c)) {
			ok, why = false, core.ExprStr(c)
		}
	}
	// no return before the irregular attempt
	for _, rp := range g.Points(func(n ast.Node) bool { _, isRet := n.(*ast.ReturnStmt); return isRet }) {
		if !g.Dominates(irr, rp) {
			ok, why = false, core.ExprStr(rp.Node())
		}
	}
	r.Check(ok, rule, infl, "the irregular last-word match is attempted before any other rule", irr.Node().Pos(), "the irregular FindStringSubmatch dominates every other regexp test and every return",
		"`"+why+"` can run before the irregular match: a word that is both irregular and in the uninflected list (testes, graffiti) is then inflected differently on its own than when it follows a prefix")
}

// c20R5: pass-through wrappers. Only the rule application ((*Rule).inflected)
// looks at the text, and it only rewrites the last word. Every function between
// the exported API and it must hand the result on unchanged: a return is the
// string parameter itself, the result of the next function of the chain, or the
// call of a parameterless thunk (the cached sync.OnceValue). A wrapper that
// post-processes the result decides on the whole input (its prefix included), so
// a word is no longer inflected behind a prefix exactly as on its own.
func c20R5(p *core.Program, r *core.Report, infl *core.Func) {
	const rule = "R5"
	r.Floor(rule, 3)
	chain := map[*core.Func]bool{infl: true}
	// climb the static callers inside the inflector packages
	for changed := true; changed; {
		changed = false
		for _, cs := range allCalls(p) {
			rel := core.RelPkg(cs.In.Pkg.PkgPath)
			if rel != "pkg/inflector/internal" && rel != "pkg/inflector" || cs.In.Body == nil {
				continue
			}
			callee := p.FuncOfObj(core.CalleeFunc(cs.In.Info(), cs.Call))
			if callee != nil && chain[callee] && !chain[cs.In.Root()] {
				chain[cs.In.Root()] = true
				changed = true
			}
		}
	}
	n := 0
	for w := range chain {
		if w == infl {
			continue
		}
		n++
		w0 := w
		// ... and hands its input on unchanged: the text given to the next function of the chain is the wrapper's own
		// parameter (a normalised, trimmed or re-cased copy changes the prefix that must come back byte for byte)
		for _, f := range w.AllFuncs() {
			finfo := f.Info()
			for _, c := range core.Calls(f.Body, false) {
				callee := p.FuncOfObj(core.CalleeFunc(finfo, c))
				if callee == nil || !chain[callee] {
					continue
				}
				for _, a := range c.Args {
					if t := finfo.TypeOf(a); t == nil || !isBasicKind(t, types.String) {
						continue
					}
					e, _ := core.Resolve(finfo, w.Body, a)
					v := core.VarOf(finfo, e)
					// the wrapper's own parameter, or the parameter of the literal it sits in (a cached thunk's key)
					good := v != nil && (isParamOf(w0, v) || isParamOf(f, v)) && len(core.DefsOf(finfo, w.Body, v)) == 0
					r.Check(good, rule, w, "hands its input on unchanged: "+core.ExprStr(c.Fun)+"("+core.ExprStr(a)+")", c.Pos(), "the argument is the wrapper's own parameter",
						"this wrapper gives `"+core.ExprStr(e)+"` to the next function instead of its input: the text is altered before it is inflected (normalised, trimmed, re-cased), so the prefix in front of the last word does not come back unchanged")
				}
			}
		}
		for _, f := range w.AllFuncs() {
			info := f.Info()
			ast.Inspect(f.Body, func(nd ast.Node) bool {
				if lit, ok := nd.(*ast.FuncLit); ok && lit != f.Lit {
					return false
				}
				ret, ok := nd.(*ast.ReturnStmt)
				if !ok || len(ret.Results) != 1 {
					return true
				}
				if b, isB := info.TypeOf(ret.Results[0]).Underlying().(*types.Basic); !isB || b.Kind() != types.String {
					return true
				}
				var judge func(x ast.Expr, depth int) (bool, string)
				judge = func(x ast.Expr, depth int) (bool, string) {
					x, _ = core.Resolve(info, w.Body, x)
					x = ast.Unparen(x)
					if v := core.VarOf(info, x); v != nil && isParamOf(w0, v) {
						return true, "the input itself"
					}
					if c, isCall := x.(*ast.CallExpr); isCall {
						if callee := p.FuncOfObj(core.CalleeFunc(info, c)); callee != nil && chain[callee] {
							return true, "result of " + callee.Name
						} else if core.CalleeFunc(info, c) == nil && len(c.Args) == 0 {
							if _, isConv := info.Types[c.Fun]; isConv && !info.Types[c.Fun].IsType() {
								return true, "call of the cached thunk"
							}
						}
					}
					// a result variable assigned on several branches: every value it can have
					if v := core.VarOf(info, x); v != nil && !v.IsField() && depth < 3 {
						defs := core.DefsOf(info, w.Body, v)
						if len(defs) >= 2 {
							for _, d := range defs {
								if d.Rhs == nil || d.Index >= 0 {
									return false, ""
								}
								if ok, _ := judge(d.Rhs, depth+1); !ok {
									return false, ""
								}
							}
							return true, "a result variable that holds one of these on every branch"
						}
					}
					return false, ""
				}
				e, _ := core.Resolve(info, w.Body, ret.Results[0])
				e = ast.Unparen(e)
				good, how := judge(ret.Results[0], 0)
				r.Check(good, rule, w, "returns the rule's result unchanged: "+core.ExprStr(ret.Results[0]), ret.Pos(), how,
					"this wrapper returns `"+core.ExprStr(e)+"`, which is neither its input, the next function's result nor the cached thunk: the inflected text is post-processed with knowledge of the whole input (e.g. re-cased when the input is upper case), so the last word is not inflected exactly as on its own")
				return true
			})
		}
	}
	if n == 0 {
		r.Anchor(rule, "wrappers between Pluralize/Singularize and (*Rule).inflected")
	}
}

// c20R6: the memo of a rule maps an input to what this rule computes for this input. Every write into a rule's
// sync.Map goes through the method's own receiver, is keyed by the method's own argument, and stores (a thunk of) a
// call of a method of the same receiver on the same argument - never a value worked out elsewhere, for another key or
// for another rule (such an entry makes the answer depend on which calls came before).
func c20R6(p *core.Program, r *core.Report) {
	const rule = "R6"
	r.Floor(rule, 1)
	n := 0
	for _, f := range p.Funcs() {
		rel := core.RelPkg(f.Pkg.PkgPath)
		if rel != "pkg/inflector/internal" && rel != "pkg/inflector" {
			continue
		}
		info := f.Info()
		root := f.Root()
		for _, c := range core.Calls(f.Body, true) {
			if !mutatingSyncMethods[core.CalleeName(info, c)] || !strings.HasPrefix(core.CalleeName(info, c), "(*sync.Map)") {
				continue
			}
			n++
			construct := "write into a memo: " + core.ExprStr(c.Fun)
			if root.Decl == nil || root.Decl.Recv == nil || len(root.Decl.Recv.List[0].Names) != 1 {
				r.Bad(rule, f, construct, c.Pos(), "a memo is written outside a method of its owner")
				continue
			}
			recv, _ := info.ObjectOf(root.Decl.Recv.List[0].Names[0]).(*types.Var)
			// (1) the map is a field of the receiver itself
			sel, ok := ast.Unparen(recvOf(c)).(*ast.SelectorExpr)
			own := ok && core.VarOf(info, sel.X) == recv
			// (2) the key is a parameter of the method
			var key *types.Var
			if len(c.Args) >= 1 {
				if v := core.VarOf(info, c.Args[0]); v != nil && isParamOf(root, v) {
					key = v
				}
			}
			// (3) the value is (sync.OnceValue of) a function literal returning a call of a method of the receiver on the key
			computed := false
			// thunkOf: val is (sync.OnceValue of) a function literal returning a call of a method of rcv on k
			thunkOf := func(ti *types.Info, val ast.Expr, rcv, k *types.Var) bool {
				if oc := core.AsCall(ti, val, "sync.OnceValue"); oc != nil && len(oc.Args) == 1 {
					val = oc.Args[0]
				}
				if lit, isLit := ast.Unparen(val).(*ast.FuncLit); isLit && len(lit.Body.List) == 1 {
					if ret, isRet := lit.Body.List[0].(*ast.ReturnStmt); isRet && len(ret.Results) == 1 {
						if mc, isCall := ast.Unparen(ret.Results[0]).(*ast.CallExpr); isCall && len(mc.Args) == 1 && core.VarOf(ti, mc.Args[0]) == k && core.VarOf(ti, recvOf(mc)) == rcv && rcv != nil && k != nil {
							return true
						}
						// the computation as a function of the package that takes the rule first: inflect(r, s)
						if mc, isCall := ast.Unparen(ret.Results[0]).(*ast.CallExpr); isCall && len(mc.Args) == 2 && rcv != nil && k != nil && core.VarOf(ti, mc.Args[0]) == rcv && core.VarOf(ti, mc.Args[1]) == k {
							if fn := core.CalleeFunc(ti, mc); fn != nil && fn.Pkg() == rcv.Pkg() {
								return true
							}
						}
					}
				}
				return false
			}
			if len(c.Args) >= 2 && key != nil {
				val, _ := core.Resolve(info, root.Body, c.Args[1])
				computed = thunkOf(info, val, recv, key)
				// ... or the thunk is made by a one-line method of the same receiver from the same key:
				// `r.cache.LoadOrStore(s, r.once(s))` with `func (r *Rule) once(s string) func() string { return sync.OnceValue(func() string { return r.inflected(s) }) }`
				if hc, isCall := ast.Unparen(val).(*ast.CallExpr); !computed && isCall && len(hc.Args) == 1 && core.VarOf(info, hc.Args[0]) == key && core.VarOf(info, recvOf(hc)) == recv {
					if h := p.FuncOfObj(core.CalleeFunc(info, hc)); h != nil && h.Body != nil && len(h.Body.List) == 1 && h.Decl != nil && h.Decl.Type.Params != nil && len(h.Decl.Type.Params.List) == 1 && len(h.Decl.Type.Params.List[0].Names) == 1 {
						if ret, isRet := h.Body.List[0].(*ast.ReturnStmt); isRet && len(ret.Results) == 1 {
							hk, _ := h.Info().ObjectOf(h.Decl.Type.Params.List[0].Names[0]).(*types.Var)
							computed = thunkOf(h.Info(), ret.Results[0], recvVar(h), hk)
						}
					}
				}
			}
			why := ""
			switch {
			case !own:
				why = "the memo written is not a field of the method's own receiver: a rule fills another rule's memo"
			case key == nil:
				why = "the entry is not keyed by the method's own argument"
			case !computed:
				why = "the stored value is not (a thunk of) the receiver's own computation on the key"
			}
			r.Check(why == "", rule, f, construct, c.Pos(), "own memo, keyed by the argument, value computed by the same rule from the key",
				why+": what the memo answers for an input then depends on earlier calls (an entry planted for Singularize(\"Men\") by Pluralize(\"MAN\") answers \"MAN\")")
			// (4) the computation does not come back to the memo: a sync.OnceValue entered from inside its own function never returns
			if w := inflectionWorker(p); w != nil && computed {
				back := ""
				for g := range reachableFrom(p, w) {
					if g.Root() == root && back == "" {
						back = "the memoised computation " + w.QName() + " reaches " + root.QName() + " again"
					}
				}
				r.Check(back == "", rule, f, "the memoised computation does not re-enter the memo", c.Pos(), "nothing reachable from the computation calls the method that fills the memo",
					back+": for an input whose inner call has the same key the sync.OnceValue is entered from inside its own function and never returns (every later caller with that input blocks too)")
			}
		}
	}
	if n == 0 {
		r.OK(rule, nil, "no memo is written in pkg/inflector", token.NoPos, "no mutating sync.Map call")
	}
}

// c20R7: a rewriting rule whose pattern is anchored at the start of the text and spells a whole word (`(?i)^(ox)$`,
// `(?i)^(ox)en`) only fires when that word is the whole input. "The word is inflected exactly as it is on its own"
// then needs the word in the irregular table of the same rule set, which is what inflects a last word behind a prefix.
var wholeWordRule = regexp.MustCompile(`^(?:\(\?[a-z]+\))?\^\(([A-Za-z]+)\)([A-Za-z]*)\$?$`)

func c20R7(p *core.Program, r *core.Report) {
	const rule = "R7"
	r.Floor(rule, 2)
	pkg := p.Pkg("pkg/inflector/internal")
	if pkg == nil {
		r.Anchor(rule, "pkg/inflector/internal")
		return
	}
	info := pkg.TypesInfo
	strs := func(cl *ast.CompositeLit) []string {
		var out []string
		for _, el := range cl.Elts {
			if kv, ok := el.(*ast.KeyValueExpr); ok {
				el = kv.Value
			}
			if s, isC := core.ConstString(info, el); isC {
				out = append(out, s)
			}
		}
		return out
	}
	n := 0
	for _, file := range pkg.Syntax {
		ast.Inspect(file, func(m ast.Node) bool {
			cl, ok := m.(*ast.CompositeLit)
			if !ok || core.NamedTypeName(info.TypeOf(cl)) != core.G("pkg/inflector/internal.Rule") {
				return true
			}
			var rules, irregular *ast.CompositeLit
			for _, el := range cl.Elts {
				kv, isKV := el.(*ast.KeyValueExpr)
				if !isKV {
					continue
				}
				id, _ := kv.Key.(*ast.Ident)
				v, _ := ast.Unparen(kv.Value).(*ast.CompositeLit)
				if id == nil || v == nil {
					continue
				}
				switch id.Name {
				case "Rules":
					rules = v
				case "Irregular":
					irregular = v
				}
			}
			if rules == nil {
				return true
			}
			words := map[string]bool{}
			if irregular != nil {
				for _, el := range irregular.Elts {
					if item, isLit := ast.Unparen(el).(*ast.CompositeLit); isLit {
						if ss := strs(item); len(ss) >= 1 {
							words[strings.ToLower(ss[0])] = true
						}
					} else if u, isU := ast.Unparen(el).(*ast.UnaryExpr); isU {
						if item, isLit := ast.Unparen(u.X).(*ast.CompositeLit); isLit {
							if ss := strs(item); len(ss) >= 1 {
								words[strings.ToLower(ss[0])] = true
							}
						}
					}
				}
			}
			for _, el := range rules.Elts {
				item, isLit := ast.Unparen(el).(*ast.CompositeLit)
				if !isLit {
					if u, isU := ast.Unparen(el).(*ast.UnaryExpr); isU {
						item, isLit = ast.Unparen(u.X).(*ast.CompositeLit)
					}
				}
				if !isLit {
					continue
				}
				ss := strs(item)
				if len(ss) < 1 {
					continue
				}
				mm := wholeWordRule.FindStringSubmatch(ss[0])
				if mm == nil {
					continue
				}
				n++
				w := strings.ToLower(mm[1] + mm[2])
				r.Check(words[w], rule, nil, "the whole-word rule "+strconvQuote(ss[0])+" is backed by an irregular entry for `"+w+"`", item.Pos(), "`"+w+"` is in the Irregular table of the same rule set",
					"the rule "+strconvQuote(ss[0])+" only fires when `"+w+"` is the whole input, and `"+w+"` is not in the irregular table of its rule set: behind a prefix (\"red "+w+"\") the word falls to the general rules and is not inflected as it is on its own")
			}
			return true
		})
	}
	if n == 0 {
		r.OK(rule, nil, "no rule is anchored on a whole word", token.NoPos, "every rule is anchored at the end only")
	}
}

// inflectionWorker: the function of pkg/inflector/internal that computes the inflection of one input for one rule: the
// module function called from inside the literal handed to sync.OnceValue (a method of the rule today; a plain function
// taking the rule after a refactoring).
func inflectionWorker(p *core.Program) *core.Func {
	for _, cs := range callersOf(p, "sync.OnceValue") {
		if core.RelPkg(cs.In.Pkg.PkgPath) != "pkg/inflector/internal" || len(cs.Call.Args) != 1 {
			continue
		}
		lit, ok := ast.Unparen(cs.Call.Args[0]).(*ast.FuncLit)
		if !ok {
			continue
		}
		for _, c := range core.Calls(lit.Body, false) {
			if h := p.FuncOfObj(core.CalleeFunc(cs.In.Info(), c)); h != nil && h.Pkg == cs.In.Pkg && h.Body != nil {
				return h
			}
		}
	}
	return nil
}
