package rules

import (
	"fmt"
	"go/ast"
	"go/token"
	"go/types"
	"strings"

	"gengoverif/checker/internal/cfgx"
	"gengoverif/checker/internal/core"
)

func init() {
	register(Property{
		ID:          "C02",
		Explanation: "Decided statically over every path (= every fault point): R1 every open/create of the destination is dominated by the success edge of go/parser.ParseFile on the assembled source and by the non-empty edge of the body test (an unparseable or empty rendering never opens/truncates the file); R2 in the per-package function no file effect, no call that reaches one and no registration of a file for writing is reachable from the error edge of any failing step, and no path leads from a write or removal back to a generator or deferred-callback invocation (all generation precedes all writing); R3 generator and deferred-callback errors are returned as fmt.Errorf with %w carrying the generator's Name(), the package path and the error; R4 error discipline on the pipeline - every error result is tested and, on its non-nil edge, every return carries a value derived from it, unless the path passed errors.Is(err, ErrSkip/ErrIgnore) (the only swallowed sentinels) or a reviewed classifier (os.IsNotExist before the create-retry; a missing gengo.sum means regenerate); and 'success implies written': the file writer has no path that returns a nil error after the non-empty test without passing the write; R5 gengo.sum: Save is a plain call in Execute, outside the package loop, unreachable from the per-package error edge, dominated by the loop's exit, and the package iterator stops early only when its consumer does. R6 no recover() on the generation path unless the recovering closure stores a non-nil error in a named result of the function it is deferred in. A5 every index and count in the file writer and its unexported helpers is bounded - the context lines of a syntax error are indexed below the parser's 1-based line number of the very source that was split (reviewed fact T8), so the failure path returns its error instead of panicking. R1 covers every effect of the writer that can change what is on disk (Remove, Rename, Truncate, Chmod next to open/create). R7 iterator protocol (A11): for every call of a push iterator's yield in the library, no call of the same yield is reachable from an edge on which it answered false (or from the call when the answer is dropped) - a violation makes range-over-func panic while Execute's loop is being left with the error. R8 the dispatchers treat only the sentinels as success and return every other generator error (C07.R5). R9 = C06.R5: every callback handed to Defer is kept and run. NOT decided: byte-identity of the previous file (decided as 'no file effect reachable on the failure path'); a process killed inside format.Node after O_TRUNC leaves a short file (documented gap: the property's crash clause only demands that gengo.sum stays untouched, which R5 decides). Round 8: R10 no deferred closure of a function on the generation path clears the function's named error result. Round 9: R11 = C08.R1 (a package is skipped only when its recorded and current sums are equal).",
		Assumptions: commonAssumptions,
		Run:         runC02,
	})
}

func runC02(p *core.Program, r *core.Report) {
	pl := findPipeline(p, r, "R1")
	if pl == nil {
		return
	}
	c02R1(p, r, pl)
	c02R2R3(p, r, pl)
	c02R4(p, r, pl)
	c02R5(p, r, pl)
	c02R6(p, r, pl)
	c02R10(p, r, pl)
	// R11 (round 9): work is marked done only by equal sums - the skip decision of a package compares the recorded with the
	// current sum and nothing else (a "visited" mark set before generation succeeded skips a failed package on a retry)
	chainRules(p, r, "R11", "C08", []string{"C08.R1"}, "a package is skipped only when its recorded and current sums are equal")
	// R7: Execute returns the error of a failed generator from inside its loops over iterators (the local packages, the
	// types of a package): an iterator that goes on after the loop was left panics instead
	iteratorProtocol(p, r, "R7", 40)
	// R8: a generator's error is an error of the run unless it IS one of the two sentinels: both dispatchers return nil
	// for ErrSkip / ErrIgnore and the error itself for everything else, decided on the error at hand (C07.R5)
	chainRules(p, r, "R8", "C07", []string{"C07.R5"}, "the dispatchers treat only the sentinels as success and return every other generator error")
	// R9: "any error returned by ... a deferred callback makes Execute return an error": every callback handed to Defer is
	// kept and run (C06.R5: Defer appends what it is given, the drain loop runs every entry)
	chainRules(p, r, "R9", "C06", []string{"C06.R5"}, "every deferred callback is kept and run")
	c02A5(p, r, pl)
}

// errBranch describes `err != nil` style tests of an error variable.
type errBranch struct {
	br     cfgx.Branch
	v      *types.Var
	nonNil int // successor index taken when v != nil
}

func errBranches(f *core.Func) []errBranch {
	info := f.Info()
	g := graph(f)
	var out []errBranch
	for _, br := range g.Branches() {
		if br.Tag != nil {
			continue
		}
		b, ok := ast.Unparen(br.Cond).(*ast.BinaryExpr)
		if !ok || (b.Op != token.NEQ && b.Op != token.EQL) {
			continue
		}
		var v *types.Var
		if id, isNil := ast.Unparen(b.Y).(*ast.Ident); isNil && id.Name == "nil" {
			v = core.VarOf(info, b.X)
		} else if id, isNil := ast.Unparen(b.X).(*ast.Ident); isNil && id.Name == "nil" {
			v = core.VarOf(info, b.Y)
		}
		if v == nil || !isErrorType(v.Type()) {
			continue
		}
		k := 0
		if b.Op == token.EQL {
			k = 1
		}
		out = append(out, errBranch{br, v, k})
	}
	return out
}

func isErrorType(t types.Type) bool {
	return t != nil && types.Identical(t, types.Universe.Lookup("error").Type())
}

func c02R1(p *core.Program, r *core.Report, pl *pipeline) {
	const rule = "R1"
	r.Floor(rule, 2)
	w := pl.write
	info := w.Info()
	g := graph(w)
	parse := core.CallsTo(info, w.Body, true, "go/parser.ParseFile")
	if len(parse) != 1 {
		r.Anchor(rule, "single go/parser.ParseFile call in the file writer")
		return
	}
	// the error variable of ParseFile
	var perr *types.Var
	if as, ok := g.PointOf(parse[0]).Node().(*ast.AssignStmt); ok && len(as.Lhs) == 2 {
		perr = core.VarOf(info, as.Lhs[1])
	}
	// every effect of the writer that can change or remove what is on disk (the previous output must stay byte-identical
	// when the rendered source does not parse)
	opens := core.CallsTo(info, w.Body, true, "os.OpenFile", "os.Create", "os.WriteFile", "os.CreateTemp",
		"os.Remove", "os.RemoveAll", "os.Rename", "os.Truncate", "os.Chmod", "os.Link", "os.Symlink")
	if len(opens) == 0 {
		r.Anchor(rule, "open/create of the destination in the file writer")
		return
	}
	pp := g.PointOf(parse[0])
	for _, o := range opens {
		at := g.PointOf(o)
		// (a) ParseFile executed and its error was nil
		parsedOK := false
		if perr != nil && g.Dominates(pp, at) {
			// every path from the parse to the open passes the nil edge of a test of perr, with no redefinition before the test
			_, bad := g.Reach(pp, false, cfgx.Query{
				Target: func(q cfgx.Point) bool { return q == at },
				CutEdge: func(b *cfgBlock, k int) bool {
					for _, eb := range errBranches(w) {
						if eb.br.B == b && eb.v == perr && k == eb.nonNil {
							// only if perr still holds ParseFile's error here
							defs, _ := reachingDefs(g, perr, cfgx.Point{B: b, I: len(b.Nodes) - 1})
							if len(defs) == 1 && defs[0] == pp {
								return true
							}
						}
					}
					return false
				},
				Cut: func(q cfgx.Point) bool {
					// reaching the open through the non-nil edge is cut above; passing the nil edge is what we want:
					// stop at the nil edge successors by marking them as fine
					return false
				},
			})
			// bad == true means the open is reachable even when the non-nil edges are removed: that is expected
			// (through the nil edge). We need the converse: is the open reachable WITHOUT passing any test of perr?
			_, untested := g.Reach(pp, false, cfgx.Query{
				Target: func(q cfgx.Point) bool { return q == at },
				Cut: func(q cfgx.Point) bool {
					// cut at the deciding test of perr
					if q.I == len(q.B.Nodes)-1 {
						for _, eb := range errBranches(w) {
							if eb.br.B == q.B && eb.v == perr {
								return true
							}
						}
					}
					return false
				},
			})
			// and reachable through the non-nil edge?
			_, viaErr := g.Reach(pp, false, cfgx.Query{
				Target: func(q cfgx.Point) bool { return q == at },
				CutEdge: func(b *cfgBlock, k int) bool {
					for _, eb := range errBranches(w) {
						if eb.br.B == b && eb.v == perr && k != eb.nonNil {
							return true // remove the nil edges: only error edges remain
						}
					}
					return false
				},
			})
			_ = bad
			parsedOK = !untested && !viaErr
		}
		r.Check(parsedOK, rule, w, core.CalleeName(info, o)+" happens only after the assembled source parsed", o.Pos(), "dominated by ParseFile and the nil edge of its error test",
			"the destination is opened (truncated) on a path where go/parser.ParseFile has not succeeded: an unparseable rendering destroys the previously generated file")
		// (b) non-empty body
		nonEmpty := false
		for _, fct := range g.FactsAt(at) {
			x, op, c, ok := cmpConst(info, fct.Cond)
			if !ok || c != 0 {
				continue
			}
			if call, isCall := ast.Unparen(x).(*ast.CallExpr); isCall && core.CalleeName(info, call) == "(*bytes.Buffer).Len" {
				if fld := core.FieldOf(info, recvOf(call)); isRole(p, fld, "file.body") {
					if (op == token.EQL && !fct.Val) || (op == token.NEQ && fct.Val) || (op == token.GTR && fct.Val) {
						nonEmpty = true
					}
				}
			}
		}
		r.Check(nonEmpty, rule, w, core.CalleeName(info, o)+" happens only for a non-empty rendering", o.Pos(), "dominated by body.Len() != 0",
			"the destination is opened although the generator rendered nothing: an empty rendering creates or truncates a file")
	}
	// the parsed bytes are the assembled source
	src, _ := core.Resolve(info, w.Body, parse[0].Args[2])
	okSrc := false
	if c, ok := ast.Unparen(src).(*ast.CallExpr); ok && (core.CalleeName(info, c) == "(*bytes.Buffer).Bytes" || core.CalleeName(info, c) == "(*bytes.Buffer).String") { // the buffer's content, as bytes or as a string: go/parser takes either
		okSrc = true
	}
	r.Check(okSrc, rule, w, "what is parsed is the assembled source buffer", parse[0].Pos(), "ParseFile(_, _, src.Bytes(), _)", "ParseFile does not receive the bytes of the assembled source buffer")
}

// effectful: declared functions that (transitively) reach an A1 site.
func effectfulFuncs(p *core.Program) map[*types.Func]bool {
	res := map[*types.Func]bool{}
	for _, e := range fileEffects(p) {
		if o := e.In.Root().Obj(); o != nil {
			res[o] = true
		}
	}
	changed := true
	for changed {
		changed = false
		for _, cs := range allCalls(p) {
			callee := core.CalleeFunc(cs.In.Info(), cs.Call)
			if callee == nil || !res[callee] {
				continue
			}
			if o := cs.In.Root().Obj(); o != nil && !res[o] {
				res[o] = true
				changed = true
			}
		}
	}
	return res
}

func c02R2R3(p *core.Program, r *core.Report, pl *pipeline) {
	f := pl.pkgExec
	info := f.Info()
	g := graph(f)
	r.Floor("R2", 6)
	r.Floor("R3", 2)
	eff := effectfulFuncs(p)
	isEffect := func(n ast.Node) string {
		if n == nil {
			return ""
		}
		for _, c := range core.Calls(n, true) {
			name := core.CalleeName(info, c)
			if _, ok := effectCallees[name]; ok {
				return name
			}
			if fn := core.CalleeFunc(info, c); fn != nil && eff[fn] {
				return fn.Name()
			}
			if name == "(*sync.Map).Store" || name == "(*sync.Map).LoadOrStore" || name == "(*sync.Map).Swap" {
				return name + " (registers a file for writing)"
			}
		}
		return ""
	}
	// generator / callback invocations
	doGen := pl.dispatch
	isGenCall := func(n ast.Node) string {
		if n == nil {
			return ""
		}
		for _, c := range core.Calls(n, true) {
			if doGen != nil && core.CalleeFunc(info, c) == doGen.Obj() {
				return "doGenerate"
			}
			// fn(ctx): call of a func value taking a Context
			if v := core.VarOf(info, c.Fun); v != nil {
				if sig, ok := v.Type().Underlying().(*types.Signature); ok && sig.Params().Len() == 1 && core.NamedTypeName(sig.Params().At(0).Type()) == core.G("pkg/gengo.Context") {
					return "deferred callback"
				}
			}
		}
		return ""
	}
	n := 0
	for _, eb := range errBranches(f) {
		defs, _ := reachingDefs(g, eb.v, cfgx.Point{B: eb.br.B, I: len(eb.br.B.Nodes) - 1})
		what := "error test " + core.ExprStr(eb.br.Cond)
		var src ast.Node
		if len(defs) == 1 {
			src = defs[0].Node()
			if as, ok := src.(*ast.AssignStmt); ok && len(as.Rhs) == 1 {
				what = "failure of " + core.ExprStr(as.Rhs[0])
			}
		}
		// the named result tested in the deferred logger is not a step
		if isNamedResult(f, eb.v) {
			continue
		}
		n++
		start := cfgx.Point{B: eb.br.B.Succs[eb.nonNil], I: 0}
		tp, found := g.Reach(start, true, cfgx.Query{Target: func(q cfgx.Point) bool { return isEffect(q.Node()) != "" }, CutEdge: nonNilCut(g, info, f.Body, eb.v, start)})
		why := ""
		if found {
			why = "after the " + what + " the function can still reach `" + core.ExprStr(tp.Node()) + "` (" + isEffect(tp.Node()) + "): a failed generation damages or rewrites output"
		}
		r.Check(!found, "R2", f, "no file effect after the "+what, eb.br.Cond.Pos(), "the error edge leads to return without any write, removal or registration", why)
		// R3 wrapping for generator / callback failures
		if src != nil {
			if kind := isGenCall(src); kind != "" {
				okWrap := true
				nret := 0
				g.Reach(start, true, cfgx.Query{Target: func(q cfgx.Point) bool {
					ret, ok := q.Node().(*ast.ReturnStmt)
					if !ok {
						return false
					}
					nret++
					if len(ret.Results) != 1 || !wrapsWithNameAndPath(p, f, ret.Results[0], eb.v) {
						okWrap = false
					}
					return false
				}})
				r.Check(okWrap && nret > 0, "R3", f, kind+" error is wrapped with generator name and package path", eb.br.Cond.Pos(), "fmt.Errorf(\"...%w\", g.Name(), pkg.Pkg().Path(), err)",
					"the error returned for a failing "+kind+" does not wrap the original error (%w) together with the generator's Name() and the package path: Execute's error no longer names the generator and package")
			}
		}
	}
	if n == 0 {
		r.Anchor("R2", "error tests in the per-package function")
	}
	// generation strictly precedes writing
	var gens, effs []cfgx.Point
	for _, q := range g.Points(func(n ast.Node) bool { return isGenCall(n) != "" }) {
		gens = append(gens, q)
	}
	for _, q := range g.Points(func(n ast.Node) bool {
		e := isEffect(n)
		return e != "" && !strings.Contains(e, "sync.Map")
	}) {
		effs = append(effs, q)
	}
	if len(gens) < 2 || len(effs) < 2 {
		r.Anchor("R2", fmt.Sprintf("generator/callback invocations (%d) and file effects (%d) in the per-package function", len(gens), len(effs)))
		return
	}
	for _, e := range effs {
		back := false
		for _, gp := range gens {
			if g.CanReach(e, gp) {
				back = true
			}
		}
		r.Check(!back, "R2", f, "no generator or callback runs after `"+core.ExprStr(e.Node())+"`", e.Node().Pos(), "no path from the effect back to a generator/callback invocation",
			"a generator or deferred callback can run after files were already written or removed: its failure would leave the package half-written")
	}
}

// wrapsWithNameAndPath: e is fmt.Errorf(K, ...) with %w in K and operands
// containing <gen>.Name(), a package path and the error variable.
func wrapsWithNameAndPath(p *core.Program, f *core.Func, e ast.Expr, errv *types.Var) bool {
	info := f.Info()
	c := core.AsCall(info, e, "fmt.Errorf")
	if c == nil {
		return false
	}
	k, ok := core.ConstString(info, c.Args[0])
	if !ok || !strings.Contains(k, "%w") {
		return false
	}
	name, path, wrapped := false, false, false
	for _, a := range c.Args[1:] {
		s := canonBase(p, f, a, 0)
		switch {
		case core.VarOf(info, a) == errv:
			wrapped = true
		case strings.HasSuffix(s, ".Name()"):
			if cc, isCall := ast.Unparen(a).(*ast.CallExpr); isCall {
				if t := info.TypeOf(recvOf(cc)); t != nil && core.NamedTypeName(t) == core.G("pkg/gengo.Generator") {
					name = true
				}
			}
		case strings.HasSuffix(s, ".Pkg().Path()") || strings.HasSuffix(s, ".PkgPath"):
			path = true
		default:
			if v := core.VarOf(info, a); v != nil && isParamOf(f, v) && v.Name() == "pkg" {
				path = true // the package path parameter itself
			}
		}
	}
	return name && path && wrapped
}

// ---- R4: error discipline ----

// pipelineFuncs: the flattened units of pkg/gengo that are reachable from Execute (with their
// literals), plus the sum-file writer. Which file a function lives in does not matter.
func pipelineFuncs(p *core.Program, pl *pipeline) []*core.Func {
	var out []*core.Func
	seen := map[*core.Func]bool{}
	root := pl.execute
	if root.Origin != nil {
		root = root.Origin
	}
	reach := reachableFrom(p, root)
	for _, f := range p.Funcs() {
		if f.Parent != nil || f.Decl == nil || !reach[f] || core.RelPkg(f.Pkg.PkgPath) != "pkg/gengo" {
			continue
		}
		u := unitRoot(p, f)
		if seen[u] {
			continue
		}
		seen[u] = true
		out = append(out, flatten(p, u).AllFuncs()...)
	}
	if pl.save != nil {
		out = append(out, pl.save.AllFuncs()...)
	}
	return out
}

// a6Exceptions: callee (in function) -> reason. One symbol each.
var a6Exceptions = map[string]string{
	"<execute>|" + core.ModulePath + "/pkg/sumfile.Load": "a missing or unreadable gengo.sum means 'nothing is cached' (C08.R3): the error is deliberately dropped and the nil *File makes every package regenerate",
	"*|(*os.File).Close": "deferred Close of the output file (reported by errcheck; not part of the property statement)",
	"*|fmt.Println":      "diagnostic output of the syntax error position on stdout",
	"*|fmt.Printf":       "diagnostic output of the syntax error position on stdout",
}

func returnsError(info *types.Info, c *ast.CallExpr) bool {
	t := info.TypeOf(c)
	switch x := t.(type) {
	case *types.Tuple:
		return x.Len() > 0 && isErrorType(x.At(x.Len()-1).Type())
	default:
		return isErrorType(t)
	}
}

func c02R4(p *core.Program, r *core.Report, pl *pipeline) {
	const rule = "R4"
	r.Floor(rule, 14)
	sentinels := map[string]bool{"ErrSkip": true, "ErrIgnore": true}
	for _, f := range pipelineFuncs(p, pl) {
		info := f.Info()
		g := graph(f)
		var stack []ast.Node
		ast.Inspect(f.Body, func(n ast.Node) bool {
			if n == nil {
				stack = stack[:len(stack)-1]
				return false
			}
			if lit, ok := n.(*ast.FuncLit); ok && lit != f.Lit {
				return false
			}
			stack = append(stack, n)
			c, ok := n.(*ast.CallExpr)
			if !ok || !returnsError(info, c) {
				return true
			}
			name := core.CalleeName(info, c)
			if name == "" {
				name = core.ExprStr(c.Fun)
			}
			if name == "fmt.Errorf" || name == "errors.New" {
				return true
			}
			construct := "error of " + shortName(name) + " is handled"
			exc := func() (string, bool) {
				if why, ok := writeCannotFail(info, c, name, f.Root().Body); ok {
					return why, true
				}
				// an io.Writer parameter that is an in-memory buffer at every call site
				if (name == "fmt.Fprintf" || name == "fmt.Fprint" || name == "fmt.Fprintln" || name == "io.WriteString") && len(c.Args) >= 1 {
					rootV := flatten(p, f.Root()) // parameters as the view shows them (a parameter object's fields, no receiver)
					root := f.Root()
					if root.Origin != nil {
						root = root.Origin
					}
					if v := core.CanonVarOf(info, rootV.Body, c.Args[0]); v != nil && isParamOf(rootV, v) && paramIndex(rootV, v) >= 0 && root.Obj() != nil {
						k, sites, all := paramIndex(rootV, v), 0, true
						for _, cs := range allCalls(p) {
							if cs.In.Body == nil || core.CalleeFunc(cs.In.Info(), cs.Call) != root.Obj() {
								continue
							}
							// the call as the caller's view shows it (same argument positions as the callee's view)
							call := callInView(flatten(p, cs.In.Root()), cs.Call)
							sites++
							if k >= len(call.Args) {
								all = false
								continue
							}
							ts := ""
							if t := cs.In.Info().TypeOf(call.Args[k]); t != nil {
								ts = t.String()
							}
							if ts != "*bytes.Buffer" && ts != "*strings.Builder" {
								all = false
							}
						}
						if sites > 0 && all && len(funcValueUses(p, root.Obj())) == 0 {
							return "the writer parameter is an in-memory buffer at every call site of " + root.Name, true
						}
					}
				}
				if pl.execute.Has(f.Root()) {
					if why, ok := a6Exceptions["<execute>|"+name]; ok {
						return why, true
					}
				}
				// fmt.Fprint*(os.Stdout, …) is what fmt.Print* is defined as
				if (name == "fmt.Fprintf" || name == "fmt.Fprint" || name == "fmt.Fprintln") && len(c.Args) >= 1 && isStdStream(info, c.Args[0]) {
					return a6Exceptions["*|fmt.Println"], true
				}
				why, ok := a6Exceptions["*|"+name]
				return why, ok
			}
			parent := stack[len(stack)-2]
			switch px := parent.(type) {
			case *ast.ReturnStmt:
				r.OK(rule, f, construct, c.Pos(), "tail call: the error is returned as is")
				return true
			case *ast.ExprStmt:
				if why, ok := exc(); ok {
					r.ReviewedOK(rule, f, construct, c.Pos(), why)
				} else {
					r.Bad(rule, f, construct, c.Pos(), "the error result of `"+core.ExprStr(c)+"` is discarded")
				}
				return true
			case *ast.DeferStmt, *ast.GoStmt:
				if why, ok := exc(); ok {
					r.ReviewedOK(rule, f, construct, c.Pos(), why)
				} else {
					r.Bad(rule, f, construct, c.Pos(), "the error result of the deferred `"+core.ExprStr(c)+"` is discarded")
				}
				return true
			case *ast.AssignStmt:
				// which variable receives the error?
				var ev *types.Var
				blank := false
				if len(px.Rhs) == 1 && px.Rhs[0] == ast.Expr(c) {
					last := px.Lhs[len(px.Lhs)-1]
					if id, ok := last.(*ast.Ident); ok && id.Name == "_" {
						blank = true
					} else {
						ev = core.VarOf(info, last)
					}
				}
				if blank {
					if why, ok := exc(); ok {
						r.ReviewedOK(rule, f, construct, c.Pos(), why)
					} else {
						r.Bad(rule, f, construct, c.Pos(), "the error result of `"+core.ExprStr(c)+"` is assigned to the blank identifier")
					}
					return true
				}
				if ev == nil {
					r.Unknown(rule, f, construct, c.Pos(), "cannot find the variable receiving the error")
					return true
				}
				ok, why := a6Discharged(p, f, g, g.PointOf(px), ev, sentinels)
				r.Check(ok, rule, f, construct, c.Pos(), "tested; every return on the non-nil edge derives from it (or the path passed an allowed sentinel test)", why)
				return true
			default:
				// used as an operand (e.g. if err := f(); ...) handled through AssignStmt in Init; anything else:
				if why, ok := exc(); ok {
					r.ReviewedOK(rule, f, construct, c.Pos(), why)
					return true
				}
				r.Unknown(rule, f, construct, c.Pos(), "error-returning call in an unsupported position")
			}
			return true
		})
	}
	// success implies written
	w := pl.write
	info := w.Info()
	g := graph(w)
	isWrite := func(n ast.Node) bool {
		return n != nil && len(core.CallsTo(info, n, true, "go/format.Node", "(*os.File).Write", "go/printer.Fprint", "(*go/printer.Config).Fprint", "os.WriteFile", "io.Copy")) > 0 && mentionsFile(info, n)
	}
	found := false
	for _, eb := range errBranches(w) {
		nilEdge := 1 - eb.nonNil
		start := cfgx.Point{B: eb.br.B.Succs[nilEdge], I: 0}
		tp, bad := g.Reach(start, true, cfgx.Query{
			Target: func(q cfgx.Point) bool {
				ret, ok := q.Node().(*ast.ReturnStmt)
				return ok && len(ret.Results) == 1 && core.VarOf(info, ret.Results[0]) == eb.v
			},
			Cut: func(q cfgx.Point) bool {
				n := q.Node()
				if n == nil {
					return false
				}
				if _, isRet := n.(*ast.ReturnStmt); isRet {
					return false
				}
				return g.Assigns(n, eb.v) || isWrite(n)
			},
		})
		// only relevant after the destination is being opened (past the non-empty test)
		if bad {
			found = true
			r.Bad(rule, w, "success implies written", tp.Node().Pos(), "`"+core.ExprStr(tp.Node())+"` is reached on the nil edge of `"+core.ExprStr(eb.br.Cond)+"` without a write in between: the function reports success although nothing was written to the file")
		}
	}
	if !found {
		r.OK(rule, w, "success implies written", w.Node().Pos(), "no return of an error variable on its nil edge before the write")
	}
}

func mentionsFile(info *types.Info, n ast.Node) bool {
	found := false
	ast.Inspect(n, func(m ast.Node) bool {
		if e, ok := m.(ast.Expr); ok && isOSFile(info.TypeOf(e)) {
			found = true
		}
		return !found
	})
	return found
}

func shortName(full string) string {
	s := strings.ReplaceAll(full, core.ModulePath+"/", "")
	return s
}

// a6Discharged: the error stored in ev at def is tested, and on the non-nil
// edge every return derives from it unless an allowed classifier was passed.
func a6Discharged(p *core.Program, f *core.Func, g *cfgx.G, def cfgx.Point, ev *types.Var, sentinels map[string]bool) (bool, string) {
	info := f.Info()
	// find the test reached from def without redefinition
	var tests []errBranch
	for _, eb := range errBranches(f) {
		if eb.v != ev {
			continue
		}
		bp := cfgx.Point{B: eb.br.B, I: len(eb.br.B.Nodes) - 1}
		if _, ok := g.Reach(def, false, cfgx.Query{
			Target: func(q cfgx.Point) bool { return q == bp },
			Cut:    func(q cfgx.Point) bool { return q != bp && q.Node() != nil && g.Assigns(q.Node(), ev) },
		}); ok {
			tests = append(tests, eb)
		}
	}
	if len(tests) == 0 {
		// returned directly? `x, err := f(); return x, err`
		_, returned := g.Reach(def, false, cfgx.Query{
			Target: func(q cfgx.Point) bool {
				ret, ok := q.Node().(*ast.ReturnStmt)
				return ok && core.Mentions(info, ret, ev)
			},
			Cut: func(q cfgx.Point) bool { return q.Node() != nil && g.Assigns(q.Node(), ev) },
		})
		if returned {
			return true, ""
		}
		return false, "the error is never tested or returned"
	}
	// every path from def to an exit must pass a test (or a return mentioning ev)
	_, untested := g.Reach(def, false, cfgx.Query{
		Target: func(q cfgx.Point) bool {
			if !g.IsExit(q) {
				return false
			}
			if ret, ok := q.Node().(*ast.ReturnStmt); ok && core.Mentions(info, ret, ev) {
				return false
			}
			return true
		},
		Cut: func(q cfgx.Point) bool {
			if q.Node() != nil && g.Assigns(q.Node(), ev) && q != def {
				return true
			}
			for _, t := range tests {
				if q.B == t.br.B && q.I == len(q.B.Nodes)-1 {
					return true
				}
			}
			return false
		},
	})
	if untested {
		return false, "a path leaves the function without testing the error"
	}
	isClassifierEdge := func(b *cfgBlock, k int) bool {
		if len(b.Succs) != 2 || len(b.Nodes) == 0 {
			return false
		}
		e, ok := b.Nodes[len(b.Nodes)-1].(ast.Expr)
		if !ok {
			return false
		}
		for _, a := range cfgx.Atoms(e, k == 0) {
			if !a.Val {
				continue
			}
			c, ok := ast.Unparen(a.Cond).(*ast.CallExpr)
			if !ok {
				continue
			}
			switch core.CalleeName(info, c) {
			case "errors.Is":
				if len(c.Args) == 2 && core.VarOf(info, c.Args[0]) == ev {
					if id, ok := ast.Unparen(c.Args[1]).(*ast.Ident); ok {
						if v, ok := info.ObjectOf(id).(*types.Var); ok && v.Pkg() != nil && core.RelPkg(v.Pkg().Path()) == "pkg/gengo" && sentinels[v.Name()] {
							return true
						}
					}
				}
			case "os.IsNotExist":
				// reviewed classifier: only before the create-retry in the file writer
				if isFileWriterUnit(p, f.Root()) && len(c.Args) == 1 && core.VarOf(info, c.Args[0]) == ev {
					return true
				}
			}
		}
		return false
	}
	for _, t := range tests {
		start := cfgx.Point{B: t.br.B.Succs[t.nonNil], I: 0}
		ef := newErrFlow(g, info, ev, start, isClassifierEdge)
		nnCut := ef.cut
		tp, bad := g.Reach(start, true, cfgx.Query{
			Target: func(q cfgx.Point) bool {
				if !g.IsExit(q) {
					return false
				}
				ret, ok := q.Node().(*ast.ReturnStmt)
				if !ok {
					return true // falls off the end: swallowed
				}
				// the error result must derive from ev
				if len(ret.Results) == 0 {
					// bare return with a named error result assigned from ev? accept if ev is the named result
					return !isParamOf(f, ev)
				}
				last := ret.Results[len(ret.Results)-1]
				derived := false
				ast.Inspect(last, func(m ast.Node) bool {
					if id, ok := m.(*ast.Ident); ok {
						// ev itself is intact on every explored path (redefinitions are cut); other variables must hold a copy
						if cv, ok := info.ObjectOf(id).(*types.Var); ok && isErrorType(cv.Type()) && (cv == ev || ef.holds(cv, q, 0)) {
							derived = true
						}
					}
					return !derived
				})
				return !derived
			},
			Cut: func(q cfgx.Point) bool {
				// a redefinition of ev ends the derivation: what happens afterwards is that call's own
				// obligation (and the leak of a re-assigned nil is looked for by the second walk below)
				return q.Node() != nil && g.Assigns(q.Node(), ev)
			},
			CutEdge: func(b *cfgBlock, k int) bool {
				if isClassifierEdge(b, k) || nnCut(b, k) {
					return true
				}
				// ev is intact on every path explored (redefinitions are cut): an edge asserting ev == nil is infeasible
				if len(b.Succs) == 2 && len(b.Nodes) > 0 {
					if e, ok := b.Nodes[len(b.Nodes)-1].(ast.Expr); ok {
						for _, a := range cfgx.Atoms(e, k == 0) {
							if bb, isBin := ast.Unparen(a.Cond).(*ast.BinaryExpr); isBin && (bb.Op == token.EQL || bb.Op == token.NEQ) && core.VarOf(info, bb.X) == ev {
								if id, isID := ast.Unparen(bb.Y).(*ast.Ident); isID && id.Name == "nil" && (bb.Op == token.EQL) == a.Val {
									return true
								}
							}
						}
					}
				}
				return false
			},
		})
		if bad {
			where := "the end of the function"
			if tp.Node() != nil {
				where = "`" + core.ExprStr(tp.Node()) + "`"
			}
			return false, "on the non-nil edge of `" + core.ExprStr(t.br.Cond) + "` execution reaches " + where + " without returning the error (and without passing errors.Is(err, ErrSkip/ErrIgnore)): the error is swallowed"
		}
		// a redefinition of ev on the error edge before a return of ev: the returned value is another call's error
		tp2, redefined := g.Reach(start, true, cfgx.Query{
			Target: func(q cfgx.Point) bool {
				n := q.Node()
				if n == nil || !g.Assigns(n, ev) {
					return false
				}
				// can this redefinition reach a `return ... ev` without a test of its own non-nil edge?
				_, leaks := g.Reach(q, false, cfgx.Query{
					Target: func(t cfgx.Point) bool {
						ret, ok := t.Node().(*ast.ReturnStmt)
						return ok && len(ret.Results) > 0 && core.VarOf(info, ret.Results[len(ret.Results)-1]) == ev
					},
					Cut: func(t cfgx.Point) bool { return t.Node() != nil && g.Assigns(t.Node(), ev) },
					CutEdge: func(b *cfgBlock, k int) bool {
						for _, eb := range errBranches(f) {
							if eb.br.B == b && eb.v == ev && k == eb.nonNil {
								return true // the redefinition's own error edge is fine
							}
						}
						return false
					},
				})
				return leaks
			},
			CutEdge: isClassifierEdge,
		})
		if redefined {
			return false, "on the non-nil edge the error variable is re-assigned by `" + core.ExprStr(tp2.Node()) + "` and then returned on that call's nil edge: the original failure is reported as success"
		}
	}
	return true, ""
}

func c02R5(p *core.Program, r *core.Report, pl *pipeline) {
	const rule = "R5"
	r.Floor(rule, 5)
	e := pl.execute
	info := e.Info()
	g := graph(e)
	saveName := core.GM("pkg/sumfile", "*File", "Save")
	var saves []*ast.CallExpr
	var stack []ast.Node
	plain := map[*ast.CallExpr]bool{}
	ast.Inspect(e.Body, func(n ast.Node) bool {
		if n == nil {
			stack = stack[:len(stack)-1]
			return false
		}
		stack = append(stack, n)
		if c, ok := n.(*ast.CallExpr); ok && core.CalleeName(info, c) == saveName {
			saves = append(saves, c)
			plain[c] = true
			for _, s := range stack {
				switch s.(type) {
				case *ast.DeferStmt, *ast.GoStmt, *ast.FuncLit:
					plain[c] = false
				}
			}
		}
		return true
	})
	if len(saves) == 0 {
		r.Anchor(rule, "call of (*sumfile.File).Save in Execute")
		return
	}
	var loopCall *ast.CallExpr
	for _, c := range core.Calls(e.Body, true) {
		if core.CalleeFunc(info, c) == pl.pkgExec.Obj() {
			loopCall = c
		}
	}
	var loop *ast.RangeStmt
	if loopCall != nil {
		pth := core.PathTo(e.Body, loopCall)
		for k := len(pth) - 1; k >= 0; k-- {
			if rs, ok := pth[k].(*ast.RangeStmt); ok {
				loop = rs
				break
			}
		}
	}
	if loop == nil {
		r.Anchor(rule, "package loop around the per-package call in Execute")
		return
	}
	done := g.BlockOf(kindRangeDone, loop)
	for _, s := range saves {
		r.Check(plain[s], rule, e, "Save is a plain call (not deferred, not in a goroutine or closure)", s.Pos(), "statement-level call", "gengo.sum is saved from a defer/go/closure: it is also written when Execute returns an error or panics")
		if !plain[s] {
			continue
		}
		sp := g.PointOf(s)
		r.Check(!(loop.Pos() <= s.Pos() && s.End() <= loop.End()), rule, e, "Save is outside the package loop", s.Pos(), "not nested in the loop", "gengo.sum is saved inside the package loop: a later package that fails leaves sums of unprocessed packages recorded as done")
		_, early := g.Reach(g.Entry(), true, cfgx.Query{
			Target: func(q cfgx.Point) bool { return q == sp },
			Cut:    func(q cfgx.Point) bool { return q.B == done },
		})
		r.Check(!early && done != nil, rule, e, "Save runs only after the package loop has finished", s.Pos(), "every path to Save passes the loop's exit", "Save can run before every package was executed")
		// not reachable from the per-package error edge
		leak := false
		for _, eb := range errBranches(e) {
			defs, _ := reachingDefs(g, eb.v, cfgx.Point{B: eb.br.B, I: len(eb.br.B.Nodes) - 1})
			fromPkg := false
			for _, d := range defs {
				for _, c := range core.Calls(d.Node(), true) {
					if core.CalleeFunc(info, c) == pl.pkgExec.Obj() {
						fromPkg = true
					}
				}
			}
			if !fromPkg {
				continue
			}
			if _, ok := g.Reach(cfgx.Point{B: eb.br.B.Succs[eb.nonNil], I: 0}, true, cfgx.Query{Target: func(q cfgx.Point) bool { return q == sp }}); ok {
				leak = true
			}
		}
		r.Check(!leak, rule, e, "Save is unreachable after a failed package", s.Pos(), "the error edge of the per-package call returns", "after a package failed Execute still reaches Save: gengo.sum marks the failed package as done")
	}
	// the per-package error is tested right in the loop (no collecting of errors)
	tested := false
	for _, eb := range errBranches(e) {
		if loop.Pos() <= eb.br.Cond.Pos() && eb.br.Cond.End() <= loop.End() {
			// its error edge returns
			_, cont := g.Reach(cfgx.Point{B: eb.br.B.Succs[eb.nonNil], I: 0}, true, cfgx.Query{Target: func(q cfgx.Point) bool {
				return q.B.Stmt == ast.Stmt(loop) && (q.B.Kind == kindRangeLoop || q.B.Kind == kindRangeDone)
			}})
			if !cont {
				tested = true
			}
		}
	}
	r.Check(tested, rule, e, "a failing package aborts the run", loop.Pos(), "the per-package error edge leaves the loop by return", "after a failing package the loop continues")
	// no file effect before the loop ends other than through the per-package call
	eff := effectfulFuncs(p)
	pre := ""
	for _, q := range g.Points(func(n ast.Node) bool { return true }) {
		n := q.Node()
		for _, c := range core.Calls(n, true) {
			fn := core.CalleeFunc(info, c)
			name := core.CalleeName(info, c)
			_, direct := effectCallees[name]
			if (fn != nil && eff[fn] && fn != pl.pkgExec.Obj() && name != saveName) || direct {
				pre = core.ExprStr(c)
			}
		}
	}
	r.Check(pre == "", rule, e, "Execute itself has no file effect besides the per-package call and Save", e.Node().Pos(), "no other effectful call", "Execute performs another file effect: "+pre)
	// the iterator stops early only when its consumer does
	it := p.FuncByName("pkg/types", "(*Universe).LocalPkgPaths")
	if it == nil {
		r.Anchor(rule, "pkg/types.(*Universe).LocalPkgPaths")
		return
	}
	for _, l := range it.Lits {
		y := yieldParam(l)
		if y == nil {
			continue
		}
		lg := graph(l)
		linfo := l.Info()
		okIt := true
		nY := 0
		for _, c := range core.Calls(l.Body, true) {
			if core.VarOf(linfo, c.Fun) == y {
				nY++
			}
		}
		ast.Inspect(l.Body, func(n ast.Node) bool {
			switch x := n.(type) {
			case *ast.ReturnStmt, *ast.BranchStmt:
				stop := false
				for _, fct := range lg.FactsAt(lg.PointOf(x)) {
					if c, ok := ast.Unparen(fct.Cond).(*ast.CallExpr); ok && core.VarOf(linfo, c.Fun) == y && !fct.Val {
						stop = true
					}
				}
				if !stop {
					if bs, isB := x.(*ast.BranchStmt); !isB || bs.Tok != token.CONTINUE || true {
						okIt = false
					}
				}
			}
			return true
		})
		r.Check(okIt && nY == 1, rule, l, "the package iterator skips nothing and stops early only on !yield", l.Node().Pos(), "single yield per element; return only under !yield(...)", "the iterator over local packages can skip packages or stop early on its own: Execute would save sums for packages it never processed")
	}
}

// isNamedResult: v is a named result of f.
func isNamedResult(f *core.Func, v *types.Var) bool {
	if f.Type == nil || f.Type.Results == nil || v == nil {
		return false
	}
	for _, fld := range f.Type.Results.List {
		for _, n := range fld.Names {
			if f.Info().ObjectOf(n) == types.Object(v) {
				return true
			}
		}
	}
	return false
}

// errFlow answers, for a walk that starts at `start` where `seed` (an error variable) is known to
// be non-nil, whether a variable still holds that error (or a copy of it) at a later point:
//
//   - the seed holds it as long as no definition of the seed that is reachable from the start
//     reaches the point;
//   - another variable holds it at a point if every path from the start to the point passes a
//     definition of it, and every such definition that reaches the point is a plain copy
//     `w = v` / `a, w = x, v` of a variable that holds the error there
//     (`firstErr = err; break` ... `if firstErr != nil { return firstErr }`, or the
//     `res, err = nil, innerErr; break L` of an inlined helper's error return).
type errFlow struct {
	g       *cfgx.G
	info    *types.Info
	seed    *types.Var
	start   cfgx.Point
	reach   map[cfgx.Point]bool
	baseCut func(b *cfgBlock, k int) bool
}

func newErrFlow(g *cfgx.G, info *types.Info, seed *types.Var, start cfgx.Point, baseCut ...func(b *cfgBlock, k int) bool) *errFlow {
	ef := &errFlow{g: g, info: info, seed: seed, start: start, reach: map[cfgx.Point]bool{}}
	// edges the surrounding walk does not take anyway (reviewed classifiers, swallowed sentinels)
	ef.baseCut = func(b *cfgBlock, k int) bool {
		for _, c := range baseCut {
			if c != nil && c(b, k) {
				return true
			}
		}
		return false
	}
	g.Reach(start, true, cfgx.Query{Target: func(q cfgx.Point) bool {
		if q.Node() != nil {
			ef.reach[q] = true
		}
		return false
	}, CutEdge: ef.baseCut})
	return ef
}

// holds: v holds the seed's error at point `at` (for walks coming from the start).
func (ef *errFlow) holds(v *types.Var, at cfgx.Point, depth int) bool {
	if v == nil || depth > 4 {
		return false
	}
	defs, _ := reachingDefs(ef.g, v, at)
	var fromStart []cfgx.Point
	for _, d := range defs {
		if ef.reach[d] {
			fromStart = append(fromStart, d)
		}
	}
	if v == ef.seed && len(fromStart) == 0 {
		return true
	}
	if len(fromStart) == 0 {
		return false
	}
	// no path from the start to `at` that avoids every definition of v (the seed may arrive undefined-since-start: then it still holds)
	if v != ef.seed {
		isDef := func(q cfgx.Point) bool { return q.Node() != nil && ef.g.Assigns(q.Node(), v) }
		if _, avoids := ef.g.Reach(ef.start, true, cfgx.Query{Target: func(q cfgx.Point) bool { return q == at }, Cut: func(q cfgx.Point) bool { return q != at && isDef(q) }, CutEdge: ef.baseCut}); avoids {
			return false
		}
	}
	for _, d := range fromStart {
		as, ok := d.Node().(*ast.AssignStmt)
		if !ok || len(as.Lhs) != len(as.Rhs) {
			return false
		}
		copied := false
		for i := range as.Lhs {
			if core.VarOf(ef.info, as.Lhs[i]) == v {
				if u := core.VarOf(ef.info, as.Rhs[i]); u != nil && u != v && ef.holds(u, d, depth+1) {
					copied = true
				}
			}
		}
		if !copied {
			return false
		}
	}
	return true
}

// cut prunes the branch edges that assert `v == nil` for a variable that holds the error there.
func (ef *errFlow) cut(b *cfgBlock, k int) bool {
	if len(b.Succs) != 2 || len(b.Nodes) == 0 {
		return false
	}
	e, ok := b.Nodes[len(b.Nodes)-1].(ast.Expr)
	if !ok {
		return false
	}
	at := cfgx.Point{B: b, I: len(b.Nodes) - 1}
	for _, a := range cfgx.Atoms(e, k == 0) {
		bb, isBin := ast.Unparen(a.Cond).(*ast.BinaryExpr)
		if !isBin || (bb.Op != token.EQL && bb.Op != token.NEQ) {
			continue
		}
		id, isID := ast.Unparen(bb.Y).(*ast.Ident)
		if !isID || id.Name != "nil" {
			continue
		}
		v := core.VarOf(ef.info, bb.X)
		if v == nil || !isErrorType(v.Type()) {
			continue
		}
		if (bb.Op == token.EQL) == a.Val && ef.holds(v, at, 0) {
			return true
		}
	}
	return false
}

func nonNilCut(g *cfgx.G, info *types.Info, body ast.Node, seed *types.Var, start cfgx.Point) func(b *cfgBlock, k int) bool {
	return newErrFlow(g, info, seed, start).cut
}

func samePointSet(a, b []cfgx.Point) bool {
	if len(a) != len(b) {
		return false
	}
	for _, x := range a {
		found := false
		for _, y := range b {
			if x == y {
				found = true
			}
		}
		if !found {
			return false
		}
	}
	return true
}

// writeCannotFail: a write whose destination is statically an in-memory buffer
// (*bytes.Buffer, *strings.Builder) always returns a nil error.
func writeCannotFail(info *types.Info, c *ast.CallExpr, name string, body ...ast.Node) (string, bool) {
	isMem := func(t types.Type) bool {
		if t == nil {
			return false
		}
		s := t.String()
		return s == "*bytes.Buffer" || s == "*strings.Builder" || s == "bytes.Buffer" || s == "strings.Builder"
	}
	inMem := func(e ast.Expr) bool {
		if isMem(info.TypeOf(e)) {
			return true
		}
		// an io.Writer local that only ever holds an in-memory buffer (e.g. the bound parameter of an inlined helper), or &buf
		for _, b := range body {
			if r, _ := core.Resolve(info, b, e); r != nil && r != e {
				if isMem(info.TypeOf(r)) {
					return true
				}
				if u, ok := ast.Unparen(r).(*ast.UnaryExpr); ok && u.Op == token.AND && isMem(info.TypeOf(u.X)) {
					return true
				}
			}
		}
		if u, ok := ast.Unparen(e).(*ast.UnaryExpr); ok && u.Op == token.AND && isMem(info.TypeOf(u.X)) {
			return true
		}
		return false
	}
	switch {
	case strings.HasPrefix(name, "(*bytes.Buffer).Write") || strings.HasPrefix(name, "(*strings.Builder).Write"):
		return "a write into an in-memory buffer cannot fail", true
	case (name == "fmt.Fprintf" || name == "fmt.Fprint" || name == "fmt.Fprintln" || name == "io.WriteString") && len(c.Args) >= 1 && inMem(c.Args[0]):
		return "writes into an in-memory buffer (" + info.TypeOf(c.Args[0]).String() + "), which cannot fail", true
	}
	return "", false
}

// isFileWriterUnit: f belongs to the unit that opens the output file (role, not name).
func isFileWriterUnit(p *core.Program, f *core.Func) bool {
	for _, cs := range callersOf(p, "os.OpenFile", "os.Create") {
		if core.RelPkg(cs.In.Pkg.PkgPath) == "pkg/gengo" {
			u := unit(p, cs.In)
			if u.Has(f) {
				return true
			}
		}
	}
	return false
}

// c02R6: a panic while generating (an unbound template argument, a nil dereference in a generator) is a failed
// generation. A recover() on the generation path turns it into a normal return: unless the recovered value is stored
// as the error in a *named result* of the function whose deferred closure recovers, that function returns its zero
// results - nil - and the run goes on to write files and gengo.sum as if the type had been generated.
func c02R6(p *core.Program, r *core.Report, pl *pipeline) {
	const rule = "R6"
	r.Floor(rule, 1)
	n := 0
	seen := map[*ast.CallExpr]bool{}
	for _, f := range pipelineFuncs(p, pl) {
		if f.Body == nil {
			continue
		}
		info := f.Info()
		for _, c := range core.Calls(f.Body, true) {
			if core.CalleeName(info, c) != "builtin.recover" || seen[c] {
				continue
			}
			seen[c] = true
			n++
			root := f.Root()
			stores := false
			ast.Inspect(f.Body, func(m ast.Node) bool {
				as, ok := m.(*ast.AssignStmt)
				if !ok || as.Tok == token.DEFINE {
					return true
				}
				for i, l := range as.Lhs {
					v := core.VarOf(info, l)
					if v == nil || !isErrorType(v.Type()) || !isNamedResult(root, v) || i >= len(as.Rhs) {
						continue
					}
					if id, isNil := ast.Unparen(as.Rhs[i]).(*ast.Ident); isNil && id.Name == "nil" {
						continue
					}
					stores = true
				}
				return true
			})
			r.Check(f.Lit != nil && stores, rule, f, "a recovered panic becomes the function's error", c.Pos(), "the recovering closure assigns a non-nil error to a named result of "+root.QName(),
				"recover() on the generation path without storing an error in a named result of "+root.QName()+": after a panic inside a generator the function returns nil, Execute reports success, and files and gengo.sum are written for a type that was never rendered")
		}
	}
	if n == 0 {
		r.OK(rule, nil, "no recover() on the generation path", token.NoPos, "a panic of a generator ends the run")
	}
}

// c02A5: "Execute returns an error that names ... the syntax position": the failure path of the file writer prints the
// lines around the first syntax error. An index out of range there turns the error return into a panic. Every index
// expression of the writer (and the unexported helpers it calls) is bounded; indexing the lines of the rendered source by
// a value below the error's line number is accepted by a reviewed fact: the parser reports 1-based line numbers of the
// very bytes that were split, so Line <= number of lines.
func c02A5(p *core.Program, r *core.Report, pl *pipeline) {
	const rule = "A5"
	r.Floor(rule, 1)
	w := pl.write
	seen := map[*core.Func]bool{}
	var fs []*core.Func
	for _, f := range w.AllFuncs() {
		if !seen[f] {
			seen[f] = true
			fs = append(fs, f)
		}
	}
	// helpers that were not inlined
	root := w
	if w.Origin != nil {
		root = w.Origin
	}
	for h := range reachableFrom(p, root) {
		if h.Pkg == w.Pkg && h.Decl != nil && !h.Decl.Name.IsExported() && h != root && !seen[h] && !w.Has(h) {
			// only helpers that index something
			seen[h] = true
			fs = append(fs, h)
		}
	}
	n := 0
	for _, f := range fs {
		if f.Body == nil {
			continue
		}
		n += a5Check(r, rule, f, belowErrorLineTactic)
	}
	if n == 0 {
		r.OK(rule, w, "the file writer indexes nothing", w.Node().Pos(), "no index or slice expression")
	}
}

// belowErrorLineTactic: `lines[i]` with lines := bytes.Split(data, "\n") (or a parameter of [][]byte / []string type
// holding it) and a dominating `i < L` (or `i <= L-1`), L being the Line of a scanner.Error / token.Position.
func belowErrorLineTactic(bc *boundsCtx, e ast.Expr, base ast.Expr, need needLen) (string, bool) {
	if need.Idx == nil || need.Off != 0 || need.Slice {
		return "", false
	}
	iv := core.VarOf(bc.info, need.Idx)
	bv := core.VarOf(bc.info, base)
	if iv == nil || bv == nil {
		return "", false
	}
	// the base holds lines: split at "\n", or a parameter (the caller's lines)
	isLines := isParamOf(bc.f.Root(), bv)
	if src, _ := core.Resolve(bc.info, bc.f.Root().Body, base); src != nil {
		// looked through the parameter bindings of an inlined helper and other single-definition copies
		if cv := core.VarOf(bc.info, src); cv != nil && isParamOf(bc.f.Root(), cv) {
			isLines = true
		}
		if c := core.AsCall(bc.info, src, "bytes.Split", "strings.Split"); c != nil && len(c.Args) == 2 {
			sep := ast.Unparen(c.Args[1])
			if conv, isCall := sep.(*ast.CallExpr); isCall && len(conv.Args) == 1 {
				if tv, isT := bc.info.Types[conv.Fun]; isT && tv.IsType() {
					sep = conv.Args[0] // []byte("\n")
				}
			}
			if constStrIs(bc.info, sep, "\n") {
				isLines = true
			}
		}
	}
	if !isLines {
		return "", false
	}
	lo, hasLo := bc.minStart(iv)
	nonNeg := hasLo && lo >= 0
	if !nonNeg {
		// started at a value that is never negative (`max(l-10, 1)`) and only incremented
		all := true
		defs := core.DefsOf(bc.info, bc.f.Root().Body, iv)
		for _, d := range defs {
			switch d.Kind {
			case "define", "var", "assign":
				if d.Rhs == nil || d.Index >= 0 || !bc.nonNegExpr(d.Rhs, nil) {
					all = false
				}
			case "incdec":
				if d.Stmt.(*ast.IncDecStmt).Tok != token.INC {
					all = false
				}
			default:
				all = false
			}
		}
		nonNeg = all && len(defs) > 0
	}
	isLine := func(x ast.Expr) bool {
		x, _ = core.Resolve(bc.info, bc.f.Root().Body, x)
		sel, ok := ast.Unparen(x).(*ast.SelectorExpr)
		if !ok || sel.Sel.Name != "Line" {
			return false
		}
		t := bc.info.TypeOf(sel.X)
		return t != nil && core.NamedTypeName(t) == "go/token.Position"
	}
	below := false
	for _, fct := range bc.g.FactsAt(bc.at) {
		b, ok := ast.Unparen(fct.Cond).(*ast.BinaryExpr)
		if !ok || fct.Tag != nil {
			continue
		}
		op := b.Op
		if !fct.Val {
			op = negate(op)
		}
		if core.VarOf(bc.info, b.X) == iv && op == token.LSS && isLine(b.Y) {
			below = true
		}
		if core.VarOf(bc.info, b.X) == iv && (op == token.GTR || op == token.GEQ) {
			if k, isC := core.ConstInt(bc.info, b.Y); isC && ((op == token.GTR && k >= -1) || (op == token.GEQ && k >= 0)) {
				nonNeg = true
			}
		}
	}
	if below && nonNeg {
		return "T8 index below the 1-based line number the parser reported for the very source that was split into these lines (Line <= number of lines), and not negative", true
	}
	return "", false
}
