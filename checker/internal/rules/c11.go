package rules

import (
	"go/ast"
	"go/token"
	"go/types"
	"strings"

	"gengoverif/checker/internal/cfgx"
	"gengoverif/checker/internal/core"
)

func init() {
	register(Property{
		ID:          "C11",
		Explanation: "Decided statically on the structural type printer (anchor: the switch over Kind() in (*Dumper).TypeLit) and the ID dispatch: R1 every constructor of the stated grammar (pointer, chan, struct, array, slice, map, interface) has an arm; basic kinds reach the default arm, which prints the type's own String(); the struct arm emits, per field in index order, the name unless embedded, the recursive literal and the tag when non-empty; every arm recurses through the printer for its element/key types; R2 lossy-arm rule - the interface arm, which has more than one inhabitant in the domain (any, error), must depend on the type beyond its kind (a constant result collapses error into any); R3 named types are rendered by the namer first (PkgPath() != \"\" => Name(Ref(PkgPath, Name))), so imports are registered and local types unqualified (C03); R4 snippet.ID dispatches string / TypeName / reflect.Type / types.Type / *types.Alias, the *types.Alias arm precedes the types.Type arm that would shadow it, anything else panics, and type arguments go to the type-literal printer; R5 generic receiver names get their type-parameter list in the namer. R6 every name the namer hands out went through the argument rewriter (no return of the raw Name()/String() except the empty-name fallback); R7 the printers keep no mutable state on the Dumper (they are recursive; also through &d.field). R8 nothing reachable from snippet.ID, TypeLit or the namer writes package-level state (a memoised parse would hand the namer, which rewrites the parsed reference in place, an already rewritten tree). R4 is decided on a first-match type dispatch (type switch or chain of terminating comma-ok ifs); R9 import names are valid identifiers (C03.R5); R10 the rewrite of nested package paths changes a path only to '' or the tracker's name (C15.R4). R1 also: every return of a structural arm goes through the printer for its element types. R4 also: the reflect.Type and types.Type arms of ID yield the type-literal printer's text on every path, and no arm for another kind of go/types type precedes the types.Type arm except the alias arm. R11 = C15.R1 (type-argument lists are split at top-level commas by byte offset). NOT decided: types.Identical(rendered, original) for all type expressions (needs re-type-checking of the generated text). Round 8: R12 every format handed to fmt.Sprintf/Fprintf/Errorf in the printers, the snippets, the namer and pkg/gengo is a compile-time constant, or the format parameter of a forwarding helper all of whose calls pass a constant (rendered text is never a format). Round 9: R13 = C15.R2/R3; R14 the interface arm answers a type name (an embedded field must be one).",
		Assumptions: append([]string{"github.com/octohelm/x/types presents reflect and go/types types through one Kind()/Elem()/Field() view (third-party, trusted)"}, commonAssumptions...),
		Run:         runC11,
	})
}

func runC11(p *core.Program, r *core.Report) {
	// R12 (round 8): rendered text is never a format
	constFormats(p, r, "R12", 5, "pkg/gengo/internal", "pkg/gengo/snippet", "pkg/namer", "pkg/gengo")
	// R13 (round 9): the type arguments inside a generic name are split from their package at the last dot (C15.R3)
	chainRules(p, r, "R13", "C15", []string{"C15.R2", "C15.R3"}, "type arguments are split into package path and name at the last dot")
	f := p.FuncByName("pkg/gengo/internal", "(*Dumper).TypeLit")
	if f != nil {
		f = flatten(p, f) // arms moved into private helpers are seen in place
	}
	if f == nil {
		r.Anchor("R1", "pkg/gengo/internal.(*Dumper).TypeLit")
		return
	}
	info := f.Info()
	sw := kindSwitch(f, 5)
	if sw == nil {
		r.Anchor("R1", "switch over tpe.Kind() in TypeLit")
		return
	}
	var tpe *types.Var
	if ps := f.Decl.Type.Params.List; len(ps) == 1 && len(ps[0].Names) == 1 {
		tpe, _ = info.ObjectOf(ps[0].Names[0]).(*types.Var)
	}
	r.Floor("R1", 6)
	armOf := map[string]*ast.CaseClause{}
	var def *ast.CaseClause
	for _, c := range sw.Body.List {
		cc := c.(*ast.CaseClause)
		if cc.List == nil {
			def = cc
		}
		for _, k := range clauseKinds(info, cc) {
			armOf[k] = cc
		}
	}
	var missing []string
	for _, k := range []string{"ptr", "chan", "struct", "array", "slice", "map", "interface"} {
		if armOf[k] == nil {
			missing = append(missing, k)
		}
	}
	r.Check(len(missing) == 0, "R1", f, "every type constructor of the grammar has an arm", sw.Pos(), "ptr chan struct array slice map interface", "constructors without an arm are printed by the default arm (the type's own String(), with full package paths and no imports): "+strings.Join(missing, ", "))
	// default arm: tpe.String()
	okDef := false
	if def != nil {
		if ret, ok := lastStmt(def.Body).(*ast.ReturnStmt); ok && len(ret.Results) == 1 {
			if c, ok := ast.Unparen(ret.Results[0]).(*ast.CallExpr); ok && strings.HasSuffix(core.CalleeName(info, c), ").String") && core.VarOf(info, recvOf(c)) == tpe {
				okDef = true
			}
		}
	}
	r.Check(okDef, "R1", f, "basic kinds are printed as the type's own String()", sw.Pos(), "default: return tpe.String()", "the default arm does not return tpe.String()")
	// recursion: element/key types go back through the printer
	self := f.Obj()
	recurses := func(cc *ast.CaseClause, methods ...string) bool {
		for _, m := range methods {
			found := false
			for _, c := range core.Calls(cc, true) {
				if core.CalleeFunc(info, c) != self || len(c.Args) != 1 {
					continue
				}
				if ac, ok := ast.Unparen(c.Args[0]).(*ast.CallExpr); ok {
					if sel, ok := ast.Unparen(ac.Fun).(*ast.SelectorExpr); ok && sel.Sel.Name == m {
						found = true
					}
				}
			}
			if !found {
				return false
			}
		}
		return true
	}
	// constPrefix: the string constants of the arm (format strings or concatenation operands), in
	// source order, contain the constructor's tokens in order ("map[" ... "]")
	constPrefix := func(cc *ast.CaseClause, tokens ...string) bool {
		var sb strings.Builder
		ast.Inspect(cc, func(n ast.Node) bool {
			if lit, isLit := n.(*ast.BasicLit); isLit && lit.Kind == token.STRING {
				if s, isC := core.ConstString(info, lit); isC {
					sb.WriteString(s)
					sb.WriteString("\x00")
				}
			}
			return true
		})
		text := sb.String()
		at := 0
		for _, t := range tokens {
			i := strings.Index(text[at:], t)
			if i < 0 {
				return false
			}
			at += i + len(t)
		}
		return true
	}
	for _, spec := range []struct {
		kind, prefix string
		tokens       []string
		elems        []string
	}{{"ptr", "*", []string{"*"}, []string{"Elem"}}, {"chan", "chan ", []string{"chan "}, []string{"Elem"}}, {"slice", "[]", []string{"[]"}, []string{"Elem"}},
		{"array", "[n]", []string{"[", "]"}, []string{"Elem"}}, {"map", "map[k]v", []string{"map[", "]"}, []string{"Key", "Elem"}}} {
		cc := armOf[spec.kind]
		if cc == nil {
			continue
		}
		good := recurses(cc, spec.elems...) && constPrefix(cc, spec.tokens...)
		// ... on every way out of the arm: a return that does not go through the printer for the element type (a
		// shortcut `[]byte` for any element of kind uint8) loses the element's name
		ast.Inspect(cc, func(n ast.Node) bool {
			if ret, isRet := n.(*ast.ReturnStmt); isRet && len(ret.Results) == 1 {
				okRet := false
				e, _ := core.Resolve(info, f.Body, ret.Results[0])
				// the recursive call may have been given a name first (`elemLit := d.TypeLit(tpe.Elem())`): operands that
				// are single-definition locals are looked through
				var viaLocals func(x ast.Node, depth int) bool
				viaLocals = func(x ast.Node, depth int) bool {
					for _, c := range core.Calls(x, true) {
						if core.CalleeFunc(info, c) == self {
							return true
						}
					}
					if depth > 3 {
						return false
					}
					hit := false
					ast.Inspect(x, func(m ast.Node) bool {
						if id, isID := m.(*ast.Ident); isID && !hit {
							if v, isVar := info.Uses[id].(*types.Var); isVar && !v.IsField() {
								if d, single := core.SingleDef(info, f.Body, v); single && d.Rhs != nil && d.Index < 0 && viaLocals(d.Rhs, depth+1) {
									hit = true
								}
							}
						}
						return !hit
					})
					return hit
				}
				okRet = viaLocals(e, 0)
				if !okRet {
					// a builder that received the recursive call
					if bc, isCall := ast.Unparen(e).(*ast.CallExpr); isCall {
						if v := core.VarOf(info, recvOf(bc)); v != nil {
							okRet = true
						}
					}
				}
				if !okRet {
					good = false
				}
			}
			return true
		})
		if spec.kind == "array" {
			good = good && len(core.Calls(cc, true)) >= 2
			lenUsed := false
			for _, c := range core.Calls(cc, true) {
				if sel, ok := ast.Unparen(c.Fun).(*ast.SelectorExpr); ok && sel.Sel.Name == "Len" && core.VarOf(info, sel.X) == tpe {
					lenUsed = true
				}
			}
			good = good && lenUsed
		}
		r.Check(good, "R1", f, spec.kind+" arm prints `"+spec.prefix+"` and recurses into "+strings.Join(spec.elems, "/"), cc.Pos(), "constructor text + recursive TypeLit", "the "+spec.kind+" arm does not print its constructor and recurse through the printer for "+strings.Join(spec.elems, "/")+": element types lose their import names")
	}
	// struct arm
	if cc := armOf["struct"]; cc != nil {
		var loop *struct{ Body *ast.BlockStmt }
		var loopNode ast.Node
		ast.Inspect(cc, func(n ast.Node) bool {
			if _, _, body, _, ok := countedLoop(info, n); ok && loop == nil {
				loop = &struct{ Body *ast.BlockStmt }{body}
				loopNode = n
			}
			return true
		})
		_ = loopNode
		good := loop != nil
		why := "no field loop"
		if good {
			g := graph(f)
			var nameW, typeW, tagW ast.Node
			for _, c := range core.Calls(loop.Body, true) {
				cn := core.CalleeName(info, c)
				// any write into the text being built (bytes.Buffer, strings.Builder, an io.Writer)
				if !strings.HasPrefix(cn, "fmt.Fprint") && cn != "io.WriteString" && !strings.HasSuffix(cn, ").WriteString") && !strings.HasSuffix(cn, ").Write") && !strings.HasSuffix(cn, ").WriteByte") && !strings.HasSuffix(cn, ").WriteRune") {
					continue
				}
				for _, a := range c.Args {
					ast.Inspect(a, func(m ast.Node) bool {
						if mc, ok := m.(*ast.CallExpr); ok {
							if sel, ok := ast.Unparen(mc.Fun).(*ast.SelectorExpr); ok {
								switch {
								case sel.Sel.Name == "Name":
									nameW = c
								case core.CalleeFunc(info, mc) == self:
									typeW = c
								}
							}
						}
						if id, ok := m.(*ast.Ident); ok {
							if v, _ := info.ObjectOf(id).(*types.Var); v != nil {
								if d, ok := core.SingleDef(info, f.Body, v); ok {
									if dc, ok := ast.Unparen(d.Rhs).(*ast.CallExpr); ok {
										if sel, ok := ast.Unparen(dc.Fun).(*ast.SelectorExpr); ok && sel.Sel.Name == "Tag" {
											tagW = c
										}
									}
								}
							}
						}
						return true
					})
				}
			}
			if nameW == nil || typeW == nil || tagW == nil {
				good, why = false, "the field loop does not write name, recursive type literal and tag"
			} else {
				// order name < type < tag, name under !Anonymous(), tag under tag != ""
				pn, pt, pg := g.PointOf(nameW), g.PointOf(typeW), g.PointOf(tagW)
				if !(nameW.Pos() < typeW.Pos() && typeW.Pos() < tagW.Pos()) {
					good, why = false, "name, type and tag are not written in this order"
				}
				anon := false
				for _, fct := range g.FactsAt(pn) {
					if c, ok := ast.Unparen(fct.Cond).(*ast.CallExpr); ok && !fct.Val {
						if sel, ok := ast.Unparen(c.Fun).(*ast.SelectorExpr); ok && sel.Sel.Name == "Anonymous" {
							anon = true
						}
					}
				}
				if !anon {
					good, why = false, "the field name is not written exactly when the field is not embedded"
				}
				tagGuard := false
				for _, fct := range g.FactsAt(pg) {
					if b, ok := ast.Unparen(fct.Cond).(*ast.BinaryExpr); ok && ((b.Op == token.NEQ && fct.Val) || (b.Op == token.EQL && !fct.Val)) {
						if constStrIs(info, b.Y, "") || constStrIs(info, b.X, "") {
							tagGuard = true
						}
					}
				}
				if !tagGuard {
					good, why = false, "the tag is not written exactly when it is non-empty"
				}
				// the type is written unconditionally in the loop body
				for _, fct := range g.FactsAt(pt) {
					if loop.Body.Pos() <= fct.Cond.Pos() && fct.Cond.End() <= loop.Body.End() {
						good, why = false, "the field type is written conditionally"
					}
				}
			}
		}
		r.Check(good, "R1", f, "struct arm emits name (unless embedded), type and non-empty tag per field, in order", cc.Pos(), "field loop shape", "struct literal: "+why)
	}
	c14R3forFuncRule(p, r, f, "R1")

	// R2 lossy arm
	r.Floor("R2", 1)
	c11R14(p, r, f, armOf["interface"])
	if cc := armOf["interface"]; cc != nil {
		depends := false
		ast.Inspect(cc, func(n ast.Node) bool {
			if n == ast.Node(cc) {
				return true
			}
			if id, ok := n.(*ast.Ident); ok && info.ObjectOf(id) == types.Object(tpe) {
				depends = true
			}
			return true
		})
		hasError := false
		ast.Inspect(cc, func(n ast.Node) bool {
			if ret, ok := n.(*ast.ReturnStmt); ok && len(ret.Results) == 1 && constStrIs(info, ret.Results[0], "error") {
				hasError = true
			}
			return true
		})
		r.Check(depends && hasError, "R2", f, "interface arm distinguishes error from any", cc.Pos(), "the arm inspects the type and can return \"error\"",
			"the interface arm returns a constant for every interface type: a field of type `error` is rendered as `any` - a different type")
	}

	// R3 named types first
	r.Floor("R3", 1)
	okNamed := false
	if len(f.Body.List) > 0 {
		if ifs, ok := f.Body.List[0].(*ast.IfStmt); ok {
			guard := false
			atoms := cfgxAtoms(ifs.Cond, true)
			if len(atoms) != 1 {
				atoms = nil // extra conjuncts let some named types fall through to the structural arms
			}
			for _, a := range atoms {
				b, ok := ast.Unparen(a.Cond).(*ast.BinaryExpr)
				if ok && a.Val && b.Op == token.NEQ && constStrIs(info, b.Y, "") {
					bx, _ := core.Resolve(info, f.Body, b.X)
					if c, ok := ast.Unparen(bx).(*ast.CallExpr); ok {
						if sel, ok := ast.Unparen(c.Fun).(*ast.SelectorExpr); ok && sel.Sel.Name == "PkgPath" && core.VarOf(info, sel.X) == tpe {
							guard = true
						}
					}
				}
			}
			if ret, ok := lastStmt(ifs.Body.List).(*ast.ReturnStmt); ok && guard && len(ret.Results) == 1 {
				if nc := core.AsCall(info, ret.Results[0], core.GM("pkg/gengo/internal", "*Dumper", "Name")); nc != nil {
					if rc := core.AsCall(info, nc.Args[0], core.G("pkg/types.Ref")); rc != nil && len(rc.Args) == 2 {
						a0, _ := core.Resolve(info, f.Body, rc.Args[0])
						a1, _ := core.Resolve(info, f.Body, rc.Args[1])
						m0, m1 := methodOn(info, a0, tpe), methodOn(info, a1, tpe)
						okNamed = m0 == "PkgPath" && m1 == "Name"
					}
				}
			}
		}
	}
	r.Check(okNamed, "R3", f, "named types are rendered by the namer before any structural arm", f.Node().Pos(), "if tpe.PkgPath() != \"\" { return d.Name(Ref(tpe.PkgPath(), tpe.Name())) } is the first statement",
		"named types do not go through the namer first: their package is not registered as an import / local types are qualified / the definition is expanded structurally")

	// R4 ID dispatch
	r.Floor("R4", 5)
	idf := p.FuncByName("pkg/gengo/snippet", "(*ident).Frag")
	if idf == nil {
		r.Anchor("R4", "pkg/gengo/snippet.(*ident).Frag")
	} else {
		var disp *typeDispatch
		for _, ff := range p.Funcs() {
			if ff.Root() != idf || disp != nil {
				continue
			}
			disp = typeDispatchIn(ff) // a type switch or a chain of comma-ok assertions
		}
		if disp == nil {
			r.Anchor("R4", "type dispatch of (*ident).Frag")
		} else {
			in := disp.In
			iinfo := in.Info()
			ts := disp.Pos
			order := map[string]int{}
			clause := map[string]ast.Node{}
			want := []string{"string", core.G("pkg/types.TypeName"), "reflect.Type", "go/types.Type", "go/types.Alias"}
			var miss []string
			for _, w := range want {
				order[w], clause[w] = disp.arm(w)
				if order[w] == 0 {
					miss = append(miss, w)
				}
			}
			r.Check(len(miss) == 0, "R4", in, "ID dispatches every documented argument kind", ts.Pos(), "string, TypeName, reflect.Type, types.Type, *types.Alias", "ID has no arm for "+strings.Join(miss, ", "))
			r.Check(order["go/types.Alias"] != 0 && order["go/types.Alias"] < order["go/types.Type"], "R4", in, "*types.Alias arm precedes the types.Type arm", ts.Pos(), "alias arm comes first",
				"the types.Type arm comes before the *types.Alias arm and shadows it: an alias is expanded to the type it denotes instead of being referenced by name")
			r.Check(disp.HasDef && endsInPanic(iinfo, disp.Default), "R4", in, "any other argument panics", ts.Pos(), "default arm ends in panic", "an unsupported ID argument does not panic")
			uses := func(cc ast.Node, names ...string) bool {
				if cc == nil {
					return false
				}
				for _, n := range names {
					if len(core.CallsTo(iinfo, cc, true, n)) == 0 {
						return false
					}
				}
				return true
			}
			tl := core.GM("pkg/gengo/internal", "*Dumper", "TypeLit")
			nm := core.GM("pkg/gengo/internal", "*Dumper", "Name")
			r.Check(uses(clause["reflect.Type"], tl, "github.com/octohelm/x/types.FromRType"), "R4", in, "reflect.Type goes to the type-literal printer", ts.Pos(), "d.TypeLit(FromRType(x))", "a reflect.Type argument is not rendered by the type-literal printer")
			r.Check(uses(clause["go/types.Type"], tl, "github.com/octohelm/x/types.FromTType"), "R4", in, "types.Type goes to the type-literal printer", ts.Pos(), "d.TypeLit(FromTType(x))", "a types.Type argument is not rendered by the type-literal printer")
			r.Check(uses(clause[core.G("pkg/types.TypeName")], nm), "R4", in, "TypeName goes to the namer", ts.Pos(), "d.Name(x)", "a TypeName argument is not rendered by the namer")
			r.Check(uses(clause["string"], nm, core.G("pkg/types.ParseRef")), "R4", in, "a string is parsed as a reference and named", ts.Pos(), "ParseRef + d.Name", "a string argument is not parsed with ParseRef and rendered by the namer")
			r.Check(uses(clause["go/types.Alias"], nm, core.G("pkg/types.ParseRef")), "R4", in, "an alias is referenced by name", ts.Pos(), "ParseRef(x.String()) + d.Name", "an alias argument is not referenced by its name through the namer")
			// ... and nothing else: what the type arms yield is the type-literal printer's text, on every path (a shortcut
			// that names a *types.Named through its object loses the type arguments of an instantiation and has no name
			// for the predeclared error), and no further arm for a kind of go/types type stands in front of the
			// types.Type arm except the alias arm
			yv := yieldVars(p)
			onlyTypeLit := func(cc ast.Node, what string) {
				if cc == nil {
					return
				}
				for _, c := range core.Calls(cc, true) {
					v := core.VarOf(iinfo, c.Fun)
					if v == nil || !yv[v] || len(c.Args) != 1 {
						continue
					}
					a0, _ := core.Resolve(iinfo, in.Body, c.Args[0])
					ac, isCall := ast.Unparen(a0).(*ast.CallExpr)
					good := isCall && core.CalleeName(iinfo, ac) == tl
					r.Check(good, "R4", in, what+" yields only the type-literal printer's text: "+core.ExprStr(c.Args[0]), c.Pos(), "yield(d.TypeLit(…))",
						"the "+what+" arm of ID yields `"+core.ExprStr(c.Args[0])+"`, which does not come from the type-literal printer: a named type rendered through its object loses the type arguments of an instantiation (and the predeclared error has no package to name)")
				}
			}
			onlyTypeLit(clause["reflect.Type"], "reflect.Type")
			onlyTypeLit(clause["go/types.Type"], "types.Type")
			typeIface, _ := types.Universe.Lookup("error").Type().Underlying().(*types.Interface)
			_ = typeIface
			for i, a := range disp.Arms {
				n := core.NamedTypeName(a.Type)
				if a.Type == nil || n == "go/types.Alias" || n == "go/types.Type" || i+1 >= order["go/types.Type"] || order["go/types.Type"] == 0 {
					continue
				}
				if strings.HasPrefix(n, "go/types.") {
					r.Bad("R4", in, "no arm takes a kind of types.Type away from the type-literal printer: case "+a.Type.String(), ts.Pos(), "an arm for "+a.Type.String()+" stands in front of the types.Type arm: types of that kind are no longer rendered by the type-literal printer (only the alias arm may do that, to reference the alias by name)")
				}
			}
		}
	}

	c11R6(p, r)
	c11R7(p, r)
	c11R8(p, r)
	// R9: "foreign ones under their import name": the name bound to a package is a valid identifier
	chainRules(p, r, "R9", "C03", []string{"C03.R5"}, "import names are valid non-keyword identifiers")
	// R10: generic instantiations: the package path of a type argument is registered and printed as parsed
	chainRules(p, r, "R10", "C15", []string{"C15.R4"}, "the rewrite of nested package paths changes a path only to '' or the tracker's name for it")
	// R11: the type arguments of a generic name are found by the reference parser's splitter: depth counting and byte
	// offsets (C15.R1)
	chainRules(p, r, "R11", "C15", []string{"C15.R1"}, "type-argument lists are split at top-level commas by byte offset")
	// R5 generic receiver names
	r.Floor("R5", 1)
	nf := p.FuncByName("pkg/namer", "(*rawNamer).Name")
	if nf == nil {
		r.Anchor("R5", "pkg/namer.(*rawNamer).Name")
	} else {
		nf = flatten(p, nf) // the suffix may be rendered by a private helper
		ninfo := nf.Info()
		written := printerDelimiters(nf) // every constant the namer can emit, however it reaches the builder
		hasAt := len(core.CallsTo(ninfo, nf.Body, true, "(*go/types.TypeParamList).At")) > 0
		hasTP := len(core.CallsTo(ninfo, nf.Body, true, "(*go/types.Named).TypeParams")) > 0
		set := strings.Join(written, "")
		r.Check(hasAt && hasTP && strings.Contains(set, "[") && strings.Contains(set, "]") && strings.Contains(set, ","), "R5", nf, "generic type names carry their type-parameter list", nf.Node().Pos(),
			"[ p.At(i) , ... ] is appended for named types with TypeParams()", "the namer no longer appends the `[T, ...]` parameter list to generic type names: generated receivers `func (v *G) ...` do not compile")
	}
}

// c11R6: every name the namer hands out went through the argument rewriter
// (processName): no return of the raw Name()/String() of the reference except
// the empty-name fallback.
func c11R6(p *core.Program, r *core.Report) { namerRewriteRule(p, r, "R6") }

// namerRewriteRule is shared by C11.R6 and C03.R9 (the rewriter is also what
// registers the packages of a generic instantiation's type arguments).
func namerRewriteRule(p *core.Program, r *core.Report, rule string) {
	r.Floor(rule, 2)
	nf := p.FuncByName("pkg/namer", "(*rawNamer).Name")
	pn := namerRewriter(p) // by role: the function of pkg/namer that parses the name with ParseTypeRef
	if nf == nil || pn == nil {
		r.Anchor(rule, "pkg/namer.(*rawNamer).Name / processName")
		return
	}
	nf = flatten(p, nf)
	info := nf.Info()
	g := graph(nf)
	// the carrier of the rewritten name: the builder that received processName(...) through a Write,
	// or the string variable defined from it (later `+=` keeps it)
	var carrier *types.Var
	var pcall *ast.CallExpr
	for _, c := range core.Calls(nf.Body, true) {
		if core.CalleeFunc(info, c) != pn.Obj() {
			continue
		}
		pcall = c
		path := core.PathTo(nf.Body, c)
		for k := len(path) - 1; k >= 0; k-- {
			switch x := path[k].(type) {
			case *ast.CallExpr:
				if x != c && strings.HasSuffix(core.CalleeName(info, x), ").WriteString") {
					carrier = core.VarOf(info, recvOf(x))
				}
			case *ast.AssignStmt:
				if carrier == nil && len(x.Lhs) == 1 && len(x.Rhs) == 1 && ast.Unparen(x.Rhs[0]) == ast.Expr(c) {
					carrier = core.VarOf(info, x.Lhs[0])
				}
			}
		}
	}
	if carrier == nil || pcall == nil {
		r.Bad(rule, nf, "the namer rewrites the reference's name through processName", nf.Node().Pos(), "no `tn.WriteString(n.processName(typeName.Name()))`: type arguments embedded in a generic instantiation's name are neither shortened nor imported")
		return
	}
	// the carrier is only ever extended, never replaced by something else
	for _, d := range core.DefsOf(info, nf.Body, carrier) {
		if d.Kind == "assign" || d.Kind == "define" {
			if d.Rhs != nil && ast.Unparen(d.Rhs) != ast.Expr(pcall) {
				if _, isLit := ast.Unparen(d.Rhs).(*ast.UnaryExpr); !isLit {
					if cl, isCL := ast.Unparen(d.Rhs).(*ast.CompositeLit); !isCL || len(cl.Elts) != 0 {
						if c := core.AsCall(info, d.Rhs, "builtin.new"); c == nil {
							r.Bad(rule, nf, "the rewritten name is not replaced afterwards", d.Stmt.Pos(), "`"+core.ExprStr(d.Stmt)+"` overwrites the variable that holds the rewritten name")
						}
					}
				}
			}
		}
	}
	// processName receives the reference's own name
	okArg := false
	for _, a := range pcall.Args {
		// among the arguments (the rewriter may also be handed the tracker and the own path)
		if nc, ok := ast.Unparen(a).(*ast.CallExpr); ok && strings.HasSuffix(core.CalleeName(info, nc), ").Name") {
			if v := core.VarOf(info, recvOf(nc)); v != nil && isParamOf(nf, v) {
				okArg = true
			}
		}
	}
	r.Check(okArg, rule, nf, "processName receives the reference's own name", pcall.Pos(), "n.processName(typeName.Name())", "processName is not applied to the Name() of the reference being rendered")
	pp := g.PointOf(pcall)
	// values read off the carrier once it is complete (`name := tn.String()`) carry the rewritten name too
	carriers := map[*types.Var]bool{carrier: true}
	for changed := true; changed; {
		changed = false
		ast.Inspect(nf.Body, func(n ast.Node) bool {
			as, ok := n.(*ast.AssignStmt)
			if !ok || len(as.Lhs) != 1 || len(as.Rhs) != 1 {
				return true
			}
			v := core.VarOf(info, as.Lhs[0])
			if v == nil || carriers[v] {
				return true
			}
			if _, single := core.SingleDef(info, nf.Body, v); !single {
				return true
			}
			mentions := false
			for cv := range carriers {
				if core.Mentions(info, as.Rhs[0], cv) {
					mentions = true
				}
			}
			if mentions && g.Dominates(pp, g.PointOf(as)) {
				carriers[v] = true
				changed = true
			}
			return true
		})
	}
	isCarrier := func(e ast.Expr) bool { v := core.VarOf(info, e); return v != nil && carriers[v] }
	isEmptyFact := func(fct cfgx.Fact) bool {
		if fct.Tag != nil {
			return false
		}
		// carrier.Len() == 0 / len(carrier) == 0 / carrier == ""
		if b, ok := ast.Unparen(fct.Cond).(*ast.BinaryExpr); ok && (b.Op == token.EQL || b.Op == token.NEQ) {
			if isCarrier(b.X) && constStrIs(info, b.Y, "") {
				return (b.Op == token.EQL) == fct.Val
			}
		}
		x, op, c, ok := cmpConst(info, fct.Cond)
		if !ok || c != 0 || !((op == token.NEQ && !fct.Val) || (op == token.EQL && fct.Val) || (op == token.GTR && !fct.Val)) {
			return false
		}
		if lc, ok := ast.Unparen(x).(*ast.CallExpr); ok {
			if strings.HasSuffix(core.CalleeName(info, lc), ").Len") && isCarrier(recvOf(lc)) {
				return true
			}
			if core.CalleeName(info, lc) == "builtin.len" && len(lc.Args) == 1 && isCarrier(lc.Args[0]) {
				return true
			}
		}
		return false
	}
	for _, rp := range g.Points(func(n ast.Node) bool { _, ok := n.(*ast.ReturnStmt); return ok }) {
		ret := rp.Node().(*ast.ReturnStmt)
		if len(ret.Results) != 1 {
			continue
		}
		e := ret.Results[0]
		construct := "namer result `" + core.ExprStr(e) + "`"
		// cache hit: a previously computed name
		if v := core.VarOf(info, e); v != nil {
			if d, ok := core.SingleDef(info, nf.Body, v); ok && d.Index == 0 {
				if ix, ok := ast.Unparen(d.Rhs).(*ast.IndexExpr); ok {
					if fld := core.FieldOf(info, ix.X); fld != nil && fld.Name() == "Names" {
						r.OK(rule, nf, construct, ret.Pos(), "memoised result of an earlier call")
						continue
					}
				}
			}
		}
		uses := false
		for cv := range carriers {
			if core.Mentions(info, e, cv) {
				uses = true
			}
		}
		uses = uses && g.Dominates(pp, rp)
		if !uses {
			// the only fallback: the reference's String() when the rewritten name is empty
			fallback := false
			for _, fct := range g.FactsAt(rp) {
				if isEmptyFact(fct) {
					fallback = true
				}
			}
			r.Check(fallback && g.Dominates(pp, rp), rule, nf, construct, ret.Pos(), "fallback for an empty rewritten name", "the namer returns a name that did not go through processName (raw Name()/String() of the reference): for a generic instantiation the embedded type arguments keep their full package paths (does not parse) and their imports are not registered")
			continue
		}
		r.OK(rule, nf, construct, ret.Pos(), "built from the value that received processName(...)")
	}
}

// c11R7: the printers keep no mutable state on the Dumper: TypeLit / ValueLit
// are recursive, so a buffer or counter stored on the receiver is clobbered by
// the nested call.
func c11R7(p *core.Program, r *core.Report) { dumperStatelessRule(p, r, "R7") }

// dumperStatelessRule is shared by C11.R7 and C10.R9 (a literal's type prefix and
// every nested literal must be computed from this value, not remembered).
func dumperStatelessRule(p *core.Program, r *core.Report, rule string) {
	r.Floor(rule, 1)
	n := 0
	for _, f := range p.Funcs() {
		root := f.Root()
		if core.RelPkg(f.Pkg.PkgPath) != "pkg/gengo/internal" || root.Decl == nil || root.Decl.Recv == nil {
			continue
		}
		if core.NamedTypeName(f.Info().TypeOf(root.Decl.Recv.List[0].Type)) != core.G("pkg/gengo/internal.Dumper") {
			continue
		}
		n++
		info := f.Info()
		recv := recvIdent(root)
		for _, w := range nonLocalWrites(f) {
			if core.Mentions(info, w, info.ObjectOf(recv.(*ast.Ident))) {
				r.Bad(rule, f, "printer writes its receiver: "+core.ExprStr(w), w.Pos(), "state stored on the Dumper is shared by the recursive calls of the printer (and by every snippet rendered with it)")
			}
		}
		ast.Inspect(f.Body, func(nd ast.Node) bool {
			if u, isU := nd.(*ast.UnaryExpr); isU && u.Op == token.AND {
				if fld := core.FieldOf(info, u.X); fld != nil {
					if sx, isSel := ast.Unparen(u.X).(*ast.SelectorExpr); isSel && core.SameRef(info, sx.X, recv) {
						r.Bad(rule, f, "printer takes the address of receiver field "+fld.Name(), u.Pos(), "`"+core.ExprStr(u)+"` hands out storage kept on the Dumper (a reused scratch buffer): the recursive call for a nested type or value resets or appends to the same storage, so the outer literal is corrupted (e.g. an anonymous struct nested in an anonymous struct)")
					}
				}
			}
			c, ok := nd.(*ast.CallExpr)
			if !ok {
				return true
			}
			sel, ok := ast.Unparen(c.Fun).(*ast.SelectorExpr)
			if !ok {
				return true
			}
			fld := core.FieldOf(info, sel.X)
			if fld == nil || !core.SameRef(info, sel.X.(*ast.SelectorExpr).X, recv) {
				return true
			}
			fn, _ := info.ObjectOf(sel.Sel).(*types.Func)
			if fn == nil {
				return true
			}
			sig := fn.Type().(*types.Signature)
			if sig.Recv() == nil {
				return true
			}
			_, ptrRecv := sig.Recv().Type().(*types.Pointer)
			_, isIface := fld.Type().Underlying().(*types.Interface)
			if ptrRecv && !isIface {
				r.Bad(rule, f, "printer mutates receiver field "+fld.Name()+" through "+fn.Name(), c.Pos(), "`"+core.ExprStr(c)+"` changes a buffer/counter kept on the Dumper: the recursive call for a nested type or value resets or appends to the same storage, so the outer literal is corrupted (e.g. an anonymous struct nested in an anonymous struct)")
			}
			return true
		})
	}
	r.OK(rule, nil, "Dumper methods keep no mutable state on the receiver", token.NoPos, itoa(int64(n))+" method bodies and closures scanned")
}

// methodOn: e is a call x.M() on variable v; returns M.
func methodOn(info *types.Info, e ast.Expr, v *types.Var) string {
	c, ok := ast.Unparen(e).(*ast.CallExpr)
	if !ok || len(c.Args) != 0 {
		return ""
	}
	sel, ok := ast.Unparen(c.Fun).(*ast.SelectorExpr)
	if !ok || core.VarOf(info, sel.X) != v {
		return ""
	}
	return sel.Sel.Name
}

func c14R3forFuncRule(p *core.Program, r *core.Report, f *core.Func, rule string) {
	sub := core.NewReport(r.Prog, "C14")
	c14R3(p, sub)
	for _, o := range sub.Obls {
		if o.Func == f.QName() {
			if o.Status == core.Violated || o.Status == core.Undecided {
				r.Bad(rule, f, o.Construct, token.NoPos, o.How)
			} else {
				r.OK(rule, f, o.Construct, token.NoPos, o.How)
			}
		}
	}
}

// c11R8: rendering a type is a function of that type alone. The namer parses the
// reference's name into a tree and rewrites that tree in place (package paths
// become import names); nothing on the way from snippet.ID to the text may be
// remembered across calls in package-level state - a memoised parse hands the
// next caller a tree that is already rewritten (an import name treated as a path).
func c11R8(p *core.Program, r *core.Report) {
	const rule = "R8"
	r.Floor(rule, 1)
	var roots []*core.Func
	for _, n := range [][2]string{{"pkg/namer", "(*rawNamer).Name"}, {"pkg/gengo/internal", "(*Dumper).TypeLit"}, {"pkg/gengo/snippet", "ID"}} {
		if f := p.FuncByName(n[0], n[1]); f != nil {
			roots = append(roots, f)
		} else {
			r.Anchor(rule, n[0]+"."+n[1])
		}
	}
	io := initOnly(p)
	n, bad := 0, 0
	for f := range reachableFrom(p, roots...) {
		root := f.Root()
		if isInitFunc(root) || (root.Obj() != nil && io[root.Obj()]) {
			continue
		}
		n++
		info := f.Info()
		for _, w := range globalWrites(f) {
			bad++
			r.Bad(rule, f, "write to package-level state on the type-rendering path: "+core.ExprStr(w), w.Pos(), "the text rendered for a type depends on what was rendered before")
		}
		ast.Inspect(f.Body, func(nd ast.Node) bool {
			if lit, ok := nd.(*ast.FuncLit); ok && lit != f.Lit {
				return false
			}
			c, ok := nd.(*ast.CallExpr)
			if !ok || !mutatingSyncMethods[core.CalleeName(info, c)] {
				return true
			}
			if v := isPkgLevelVar(info, recvOf(c)); v != nil {
				bad++
				r.Bad(rule, f, "package-level cache "+v.Name()+" is filled on the type-rendering path through "+shortName(core.CalleeName(info, c)), c.Pos(),
					"a value computed while rendering one type is handed to the next rendering: the namer rewrites the parsed reference in place, so a cached parse tree comes back already rewritten (import names are taken for package paths and imported again under a new name)")
			}
			return true
		})
	}
	if bad == 0 {
		r.OK(rule, nil, "nothing on the type-rendering path is remembered in package-level state", token.NoPos, itoa(int64(n))+" functions reachable from ID / TypeLit / the namer scanned")
	}
}
